------------------------------ MODULE UniqueCache ------------------------------
(* Implementation models of the two caches that make non-aggregate ctypes canonical.

   Mode = "c"   src/c/_cffi_backend.c: unique_cache (dict: key bytes -> weakref(ctype)),
                get_unique_type / get_or_insert_unique_type, remove_dead_unique_reference called
                from ctypedescr_dealloc, ctypedescr_clear (tp_clear).  The key is built from the
                *addresses* of the component ctypes (pointer: [item]; array: [ptr-to-item, length];
                function: [result, ellipsis, nargs, args...]; primitive: [&static entry]), so the
                model has addresses that the allocator may reuse as soon as an object is freed.
   Mode = "py"  src/cffi/model.py: global_cache over a WeakValueDictionary whose keys are tuples
                holding the component ctypes *strongly*; a dead entry is removed by the weakref
                callback (under global_lock the lookup is repeated before inserting).

   An object dies either by reference counting (DeallocRC: clear weakrefs, remove the dead cache
   entry, release the components, free the address: one step) or, when it sits in a reference
   cycle (struct <-> pointer-to-struct ...), through the cycle collector, whose three phases are
   separate steps here: GcWr (weak references cleared), GcClear (tp_clear: components released)
   and GcDealloc; requests may be interleaved anywhere (finalizers, weakref callbacks, the
   trashcan and free threading make that possible).  With GcAtomic the three phases of all
   garbage happen in one step, as gc.collect() does it for a single-threaded program.

   Variant selects deliberately broken variants that TLC must reject (non-vacuity):
     "removealways"  remove_dead_unique_reference deletes the entry without checking that its
                     weak reference is dead (it may belong to a newer object)
     "nodeadcheck"   the lookup does not test whether the weak reference is dead
     "key-from-raw-args"  new_function_type builds the key from the caller's argument types instead of
                     the decayed ones stored in the new ctype (an array parameter: the key holds the
                     address of the array ctype, which the function ctype does not keep alive)
     "keyholdsnothing" (py) the key does not keep the components alive *)
EXTENDS UniqueCacheIdeal, TLC
CONSTANTS Addrs, MaxSer, Mode, Variant, GcAtomic,
          Prims,     \* the primitive types that may be requested (numbers of static table entries)
          MinAddr    \* TRUE: malloc returns the lowest free address (deterministic, for trace replay)
VARIABLES obj,     \* obj[a]: the object at address a, or Free
          cache,   \* cache[key] = [tgt, ser, alive]: the weak reference stored under key
          nser,    \* objects created so far
          win,     \* address of the object whose ctypedescr_dealloc is between PyObject_ClearWeakRefs()
                   \* and remove_dead_unique_reference() (0: none): user weakref callbacks run there
          ev       \* the last event, as the ideal reads it
vars == <<live, obj, cache, nser, win, ev>>
View == <<live, obj, cache, nser, win>>

Free == [st |-> "free"]
NoEv == [op |-> "init", s |-> 0, d |-> <<>>, req |-> <<>>, agg |-> FALSE]
Init == IInit /\ obj = [a \in Addrs |-> Free] /\ cache = Empty /\ nser = 0 /\ win = 0 /\ ev = NoEv

Alloc(a) == obj[a].st # "free"
Comps(a) == obj[a].comps                      \* addresses of the component objects
HoldsComps(a) == obj[a].st \in {"live", "wrdead"}
SerOf(a) == obj[a].ser
\* the description the ideal sees: kind, component object numbers, scalar part
Descr(kind, comps, n) == <<kind, [i \in DOMAIN comps |-> SerOf(comps[i])], n>>
\* the key the cache uses
Key(kind, comps, n) ==
    IF Mode = "py" THEN <<kind, [i \in DOMAIN comps |-> SerOf(comps[i])], n>>
    ELSE CASE kind = "prim" -> <<100 + n>>                       \* address of the static table entry
           [] kind = "ptr"  -> <<comps[1]>>
           [] kind = "arr"  -> <<comps[1], n>>
           [] OTHER         -> <<comps[1], n, Len(comps) - 1>> \o Tail(comps)     \* fn: result, flags, nargs, args
KeyMentions(k, a) ==       \* (py) the key tuple holds a strong reference to the object at a
    Mode = "py" /\ Variant # "keyholdsnothing" /\ Alloc(a) /\ \E i \in DOMAIN k[2] : k[2][i] = SerOf(a)
Referrers(a) == {b \in Addrs : Alloc(b) /\ HoldsComps(b) /\ \E i \in DOMAIN Comps(b) : Comps(b)[i] = a}
Unreferenced(a) == /\ ~obj[a].held /\ ~obj[a].cyc /\ Referrers(a) = {}
                   /\ ~\E k \in DOMAIN cache : KeyMentions(k, a)

\* an object nothing holds any more: reference counting frees it at once.  With GcAtomic (the
\* single-threaded program of the replay) nothing else happens before that.
Pending == \E a \in Addrs : Alloc(a) /\ obj[a].st = "live" /\ Unreferenced(a)
Quiet == GcAtomic => ~Pending

Del(f, k) == [x \in DOMAIN f \ {k} |-> f[x]]
Put(f, k, v) == [x \in DOMAIN f \cup {k} |-> IF x = k THEN v ELSE f[x]]
\* PyObject_ClearWeakRefs / handle_weakrefs: the weak references to the object at a die;
\* (py) the WeakValueDictionary callback removes the entry
ClearWr(c, a) ==
    LET c1 == [k \in DOMAIN c |-> IF c[k].tgt = a /\ c[k].ser = SerOf(a) THEN [c[k] EXCEPT !.alive = FALSE] ELSE c[k]]
    IN IF Mode = "py" THEN [k \in {x \in DOMAIN c1 : c1[x].alive} |-> c1[k]] ELSE c1
\* remove_dead_unique_reference(ct->ct_unique_key)
RemoveDead(c, a) ==
    IF Mode = "py" \/ ~obj[a].haskey THEN c
    ELSE LET k == obj[a].key IN
         IF k \in DOMAIN c /\ (~c[k].alive \/ Variant = "removealways") THEN Del(c, k) ELSE c

Event(op, s, d, req) == ev' = [op |-> op, s |-> s, d |-> d, req |-> req, agg |-> FALSE] /\ Effect(ev')

\* ------------------------------------------------------------------ requests
\* new_primitive_type / new_pointer_type / new_array_type / new_function_type -> get_unique_type;
\* the components are objects the program holds
\* raw: the ctypes the program passes (it holds them); comps: what the new ctype stores and keeps alive
\* (the same, except that new_function_type stores an array parameter decayed to its pointer type)
RequestX(kind, comps, n, raw) ==
    /\ (win # 0 => obj[win].st = "wrdead")        \* inside a dealloc: only from a weakref callback
    /\ Quiet
    /\ UNCHANGED win
    /\ \A i \in DOMAIN raw : Alloc(raw[i]) /\ obj[raw[i]].st = "live" /\ obj[raw[i]].held
    /\ \A i \in DOMAIN comps : Alloc(comps[i]) /\ obj[comps[i]].st = "live"
    /\ LET k == Key(kind, IF Variant = "key-from-raw-args" THEN raw ELSE comps, n)
           d == Descr(kind, comps, n)
           hit == k \in DOMAIN cache /\ (cache[k].alive \/ Variant = "nodeadcheck")
       IN IF hit
          THEN LET a == cache[k].tgt IN
               /\ Alloc(a)                                     \* (else: a dangling pointer is followed)
               /\ obj' = [obj EXCEPT ![a].held = TRUE]
               /\ Event("obtain", SerOf(a), Descr(obj[a].kind, obj[a].comps, obj[a].n), d)
               /\ UNCHANGED <<cache, nser>>
          ELSE /\ nser < MaxSer
               /\ \E a \in Addrs :                             \* malloc: any free address
                    /\ ~Alloc(a) /\ (MinAddr => \A b \in Addrs : ~Alloc(b) => a <= b)
                    /\ obj' = [obj EXCEPT ![a] = [st |-> "live", ser |-> nser + 1, kind |-> kind, comps |-> comps,
                                                  n |-> n, key |-> k, haskey |-> TRUE, held |-> TRUE, cyc |-> FALSE]]
                    /\ cache' = Put(cache, k, [tgt |-> a, ser |-> nser + 1, alive |-> TRUE])
               /\ nser' = nser + 1
               /\ Event("obtain", nser + 1, d, d)

Request(kind, comps, n) == RequestX(kind, comps, n, comps)

Held == {a \in Addrs : Alloc(a) /\ obj[a].st = "live" /\ obj[a].held}
\* new_function_type: "if (o->ct_flags & CT_ARRAY) o = o->ct_stuff" (the array's pointer-to-item type)
Dec(b) == IF obj[b].kind = "arr" THEN obj[b].comps[1] ELSE b
ReqPrim(n) == n \in Prims /\ Request("prim", <<>>, n)
ReqPtr(a) == a \in Held /\ Request("ptr", <<a>>, 0)
ReqArr(a) == a \in Held /\ obj[a].kind = "ptr" /\ Request("arr", <<a>>, 2)
ReqFn(a, b) == /\ a \in Held /\ b \in Held /\ obj[a].kind # "arr"        \* a function cannot return an array
               /\ RequestX("fn", <<a, Dec(b)>>, 0, <<a, b>>)

\* ------------------------------------------------------------------ the program drops references
DropRef(a) == /\ win = 0 /\ Quiet /\ a \in Held /\ obj' = [obj EXCEPT ![a].held = FALSE]
              /\ UNCHANGED <<live, cache, nser, win, ev>>
\* ... to an object that is part of a reference cycle (only the collector can reclaim it)
CycDrop(a) == /\ win = 0 /\ Quiet /\ a \in Held /\ obj' = [obj EXCEPT ![a].held = FALSE, ![a].cyc = TRUE]
              /\ UNCHANGED <<live, cache, nser, win, ev>>

\* ------------------------------------------------------------------ death
DeallocRC(a) ==          \* ctypedescr_dealloc by reference counting
    /\ win = 0 /\ Alloc(a) /\ obj[a].st = "live" /\ Unreferenced(a)
    /\ cache' = RemoveDead(ClearWr(cache, a), a)
    /\ obj' = [obj EXCEPT ![a] = Free]
    /\ Event("dead", SerOf(a), <<>>, <<>>) /\ UNCHANGED <<nser, win>>

\* The same death with the window made visible: the program drops its last reference to an object
\* on which it has registered a weak reference *with a callback*; the callback runs inside
\* PyObject_ClearWeakRefs(), i.e. after the cache's weak reference died and before
\* remove_dead_unique_reference(); it may make any request and keep the result.
DropCb(a) ==             \* del x   (x has a weakref callback; nothing else holds it)
    /\ win = 0 /\ Quiet /\ a \in Held /\ ~obj[a].cyc /\ Referrers(a) = {}
    /\ ~\E k \in DOMAIN cache : KeyMentions(k, a)
    /\ obj' = [obj EXCEPT ![a].held = FALSE] /\ win' = a
    /\ UNCHANGED <<live, cache, nser, ev>>
WinWr(a) ==              \* PyObject_ClearWeakRefs(ct): the callbacks start
    /\ win = a /\ a # 0 /\ obj[a].st = "live"
    /\ cache' = ClearWr(cache, a)
    /\ obj' = [obj EXCEPT ![a].st = "wrdead"]
    /\ Event("dead", SerOf(a), <<>>, <<>>) /\ UNCHANGED <<nser, win>>
WinClose(a) ==           \* the callbacks are done: remove_dead_unique_reference(); free
    /\ win = a /\ a # 0 /\ obj[a].st = "wrdead"
    /\ cache' = RemoveDead(cache, a)
    /\ obj' = [obj EXCEPT ![a] = Free] /\ win' = 0
    /\ UNCHANGED <<live, nser, ev>>

Garbage(a) == Alloc(a) /\ obj[a].cyc /\ ~obj[a].held
GcWr(a) ==               \* handle_weakrefs
    /\ win = 0 /\ ~GcAtomic /\ Garbage(a) /\ obj[a].st = "live"
    /\ cache' = ClearWr(cache, a)
    /\ obj' = [obj EXCEPT ![a].st = "wrdead"]
    /\ Event("dead", SerOf(a), <<>>, <<>>) /\ UNCHANGED <<nser, win>>
GcClear(a) ==            \* ctypedescr_clear
    /\ win = 0 /\ ~GcAtomic /\ Alloc(a) /\ obj[a].st = "wrdead"
    /\ obj' = [obj EXCEPT ![a].st = "cleared"]
    /\ UNCHANGED <<live, cache, nser, win, ev>>
GcDealloc(a) ==          \* ctypedescr_dealloc of a collected object
    /\ win = 0 /\ ~GcAtomic /\ Alloc(a) /\ obj[a].st \in {"wrdead", "cleared"} /\ Referrers(a) = {}
    /\ cache' = RemoveDead(cache, a)
    /\ obj' = [obj EXCEPT ![a] = Free]
    /\ UNCHANGED <<live, nser, win, ev>>
GcOne(a) ==              \* gc.collect() reclaiming the cyclic garbage object a in one step
    /\ win = 0 /\ GcAtomic /\ Garbage(a) /\ obj[a].st = "live" /\ Referrers(a) = {}
    /\ cache' = RemoveDead(ClearWr(cache, a), a)
    /\ obj' = [obj EXCEPT ![a] = Free]
    /\ Event("dead", SerOf(a), <<>>, <<>>) /\ UNCHANGED <<nser, win>>

\* the same operations addressed by object number (what a program and the replayer know)
Sers == 1..MaxSer
Has(s) == \E a \in Addrs : Alloc(a) /\ SerOf(a) = s
A(s) == CHOOSE a \in Addrs : Alloc(a) /\ SerOf(a) = s
SReqPtr(s) == Has(s) /\ ReqPtr(A(s))
SReqArr(s) == Has(s) /\ ReqArr(A(s))
SReqFn(s, t) == Has(s) /\ Has(t) /\ ReqFn(A(s), A(t))
SDropRef(s) == Has(s) /\ DropRef(A(s))
SCycDrop(s) == Has(s) /\ CycDrop(A(s))
SDeallocRC(s) == Has(s) /\ DeallocRC(A(s))
SGcWr(s) == Has(s) /\ GcWr(A(s))
SGcClear(s) == Has(s) /\ GcClear(A(s))
SGcDealloc(s) == Has(s) /\ GcDealloc(A(s))
SGcOne(s) == Has(s) /\ GcOne(A(s))
SDropCb(s) == Has(s) /\ DropCb(A(s))
SWinWr(s) == Has(s) /\ WinWr(A(s))
SWinClose(s) == Has(s) /\ WinClose(A(s))

Next == \/ \E n \in Prims : ReqPrim(n)
        \/ \E s \in Sers : SReqPtr(s)
        \/ \E s \in Sers : SReqArr(s)
        \/ \E s \in Sers, t \in Sers : SReqFn(s, t)
        \/ \E s \in Sers : SDropRef(s)
        \/ \E s \in Sers : SCycDrop(s)
        \/ \E s \in Sers : SDeallocRC(s)
        \/ \E s \in Sers : SGcWr(s)
        \/ \E s \in Sers : SGcClear(s)
        \/ \E s \in Sers : SGcDealloc(s)
        \/ \E s \in Sers : SGcOne(s)
        \/ \E s \in Sers : SDropCb(s)
        \/ \E s \in Sers : SWinWr(s)
        \/ \E s \in Sers : SWinClose(s)
Spec == Init /\ [][Next]_vars

\* ------------------------------------------------------------------ properties
RefinesIdeal == [][ev' # ev => Guard(ev')]_vars
\* the ideal's live objects are exactly the model's objects whose weak references are intact
LiveAgree == Live = {SerOf(a) : a \in {x \in Addrs : Alloc(x) /\ obj[x].st = "live"}}
\* NoStaleHit: a live entry of the cache points to an allocated object with that very key
NoStaleEntry == \A k \in DOMAIN cache : cache[k].alive =>
                   /\ Alloc(cache[k].tgt) /\ SerOf(cache[k].tgt) = cache[k].ser
                   /\ obj[cache[k].tgt].st = "live" /\ obj[cache[k].tgt].key = k
\* a live object's components are allocated (no dangling component pointer)
CompsAlive == \A a \in Addrs : (Alloc(a) /\ HoldsComps(a)) => \A i \in DOMAIN Comps(a) : Alloc(Comps(a)[i])
=============================================================================
