------------------------------ MODULE GenDet ------------------------------
(* C23(a) -- the generated text is a function of (cdef declarations, module name, C source):
   nothing in the run configuration may influence it.  TLC contributes the configuration
   matrix (written to IOEnv.GENDET_OUT, one state per configuration) and the clause; the
   generator itself is not modelled. *)
EXTENDS Integers, Sequences, FiniteSets, SequencesExt, Json, IOUtils, TLC
CONSTANTS HashSeeds,   \* values of PYTHONHASHSEED ("inproc" = the checking process itself)
          Reps,        \* repeated calls in one process
          Sinks        \* "path" (a file name) / "filelike" (an object with write())
VARIABLES cfg
Configs == [seed : HashSeeds, rep : 1..Reps, sink : Sinks]
Init == cfg \in Configs
Next == UNCHANGED cfg
Spec == Init /\ [][Next]_cfg
ASSUME JsonSerialize(IOEnv.GENDET_OUT, SetToSeq(Configs))

\* ---- the clause: obs is the sequence of [seed, rep, sink, digest] observed for ONE input
IsFunction(obs) == \A i \in DOMAIN obs : \A j \in DOMAIN obs : obs[i].digest = obs[j].digest
CfgOf(o) == [seed |-> o.seed, rep |-> o.rep, sink |-> o.sink]
=============================================================================
