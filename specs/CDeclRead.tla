----------------------------- MODULE CDeclRead -----------------------------
(* The pure part of the declarator grammar: tokens, the ideal reader Read, the canonical
   rendering Canon, the getctype suffixes, the implementation models ParseC
   (src/c/parse_c_type.c + realize_c_type.c) and PyPrim (src/cffi/cparser.py:648-679), the
   syntactic classes, and the bounded term universe.  No variables.  See CDecl.tla.     *)
EXTENDS CTypes

CONSTANTS Depth,        \* constructors above a base type
          Profile       \* "tiny" | "small" | "mid" | "full" | "big" | "bigall": base types / lengths / parameter lists
(* Variant (declared in CTypes): "suffix-order" makes Read apply suffixes left to right,
   "no-group" makes ParseC never take parentheses as grouping, "old-qual-loop" makes ParseC skip
   qualifiers only before the first specifier keyword (parse_complete before /repo 795689f) *)

-----------------------------------------------------------------------------
(* characters and tokens *)
Lower  == {"a","b","c","d","e","f","g","h","i","j","k","l","m","n","o","p","q","r","s","t","u","v","w","x","y","z"}
Upper  == {"A","B","C","D","E","F","G","H","I","J","K","L","M","N","O","P","Q","R","S","T","U","V","W","X","Y","Z"}
Digits == {"0","1","2","3","4","5","6","7","8","9"}
IdFirst == Lower \cup Upper \cup {"_", "$"}
IdNext  == IdFirst \cup Digits
Ch(s, i) == Mid(s, i, i)

RECURSIVE WordEnd(_, _)
WordEnd(s, i) == IF i <= Len(s) /\ Ch(s, i) \in IdNext THEN WordEnd(s, i + 1) ELSE i
RECURSIVE Tokz(_, _, _)
Tokz(s, i, acc) ==
    IF i > Len(s) THEN acc
    ELSE IF IsSpace(Ch(s, i)) THEN Tokz(s, i + 1, acc)
    ELSE IF Ch(s, i) \in IdNext THEN LET j == WordEnd(s, i) IN Tokz(s, j, Append(acc, Mid(s, i, j - 1)))
    ELSE IF Mid(s, i, i + 2) = "..." THEN Tokz(s, i + 3, Append(acc, "..."))
    ELSE Tokz(s, i + 1, Append(acc, Ch(s, i)))
Tokenize(s) == Tokz(s, 1, << >>)

SpecKw   == {"void", "char", "short", "int", "long", "float", "double", "signed", "unsigned", "_Bool"}
Quals    == {"const", "volatile"}
Abi      == {"__cdecl", "__stdcall"}
Keywords == SpecKw \cup Quals \cup Abi \cup {"struct", "union", "enum", "_Complex"}
StdNames == {n \in AllPrims : Len(n) > 2 /\ Mid(n, Len(n) - 1, Len(n)) = "_t"}
TypeNames == DOMAIN Typedefs \cup StdNames
TypeOfName(n) == IF n \in DOMAIN Typedefs THEN Typedefs[n] ELSE P(n)
IsWord(tk)   == Len(tk) > 0 /\ Ch(tk, 1) \in IdNext
IsNumber(tk) == Len(tk) > 0 /\ Ch(tk, 1) \in Digits
IsIdent(tk)  == IsWord(tk) /\ ~IsNumber(tk) /\ tk \notin Keywords
At(s, i) == IF i >= 1 /\ i <= Len(s) THEN s[i] ELSE "<end>"

HexVal == [c \in Digits \cup {"a","b","c","d","e","f","A","B","C","D","E","F"} |->
             CASE c = "0" -> 0 [] c = "1" -> 1 [] c = "2" -> 2 [] c = "3" -> 3 [] c = "4" -> 4
               [] c = "5" -> 5 [] c = "6" -> 6 [] c = "7" -> 7 [] c = "8" -> 8 [] c = "9" -> 9
               [] c \in {"a", "A"} -> 10 [] c \in {"b", "B"} -> 11 [] c \in {"c", "C"} -> 12
               [] c \in {"d", "D"} -> 13 [] c \in {"e", "E"} -> 14 [] c \in {"f", "F"} -> 15]
RECURSIVE DigitsVal(_, _, _, _)
(* value of s[i..] in the given base, -1 if a character is not a digit of that base or empty *)
DigitsVal(s, i, base, acc) ==
    IF i > Len(s) THEN acc
    ELSE IF Ch(s, i) \in DOMAIN HexVal /\ HexVal[Ch(s, i)] < base
         THEN DigitsVal(s, i + 1, base, acc * base + HexVal[Ch(s, i)]) ELSE -1
(* C integer constant without suffix (6.4.4.1): decimal, octal, hexadecimal *)
NumVal(tk) == IF Len(tk) > 2 /\ Mid(tk, 1, 2) \in {"0x", "0X"} THEN DigitsVal(tk, 3, 16, 0)
              ELSE IF Len(tk) > 1 /\ Ch(tk, 1) = "0" THEN DigitsVal(tk, 2, 8, 0)
              ELSE IF Len(tk) > 0 THEN DigitsVal(tk, 1, 10, 0) ELSE -1
LenVal(tk) == IF IsNumber(tk) THEN NumVal(tk)
              ELSE IF tk \in DOMAIN IntConsts THEN IntConsts[tk] ELSE -1

-----------------------------------------------------------------------------
(* IDEAL READER *)
NoType == [k |-> "none"]
Bad    == [ok |-> FALSE]
C0 == [long |-> 0, short |-> 0, signed |-> 0, unsigned |-> 0, int |-> 0, char |-> 0,
       float |-> 0, double |-> 0, bool |-> 0, void |-> 0]
FieldOf(tk) == IF tk = "_Bool" THEN "bool" ELSE tk

(* C11 6.7.2p2: the multisets of type specifiers and what each denotes *)
PrimOf(c) ==
    LET only(f) == c = [C0 EXCEPT ![f] = 1]
        sgn == c.signed + c.unsigned
        isint == c.char = 0 /\ c.float = 0 /\ c.double = 0 /\ c.bool = 0 /\ c.void = 0
    IN IF only("void") THEN [ok |-> TRUE, t |-> Void]
       ELSE IF only("bool") THEN [ok |-> TRUE, t |-> P("_Bool")]
       ELSE IF only("float") THEN [ok |-> TRUE, t |-> P("float")]
       ELSE IF only("double") THEN [ok |-> TRUE, t |-> P("double")]
       ELSE IF c = [C0 EXCEPT !.double = 1, !.long = 1] THEN [ok |-> TRUE, t |-> P("long double")]
       ELSE IF c.char = 1 /\ [c EXCEPT !.char = 0, !.signed = 0, !.unsigned = 0] = C0 /\ sgn <= 1
            THEN [ok |-> TRUE, t |-> P(IF c.signed = 1 THEN "signed char"
                                       ELSE IF c.unsigned = 1 THEN "unsigned char" ELSE "char")]
       ELSE IF /\ isint /\ c.int <= 1 /\ sgn <= 1 /\ c.signed <= 1 /\ c.unsigned <= 1 /\ c.short <= 1
               /\ c.long <= 2 /\ ~(c.short = 1 /\ c.long > 0) /\ c # C0
            THEN [ok |-> TRUE, t |-> P((IF c.unsigned = 1 THEN "unsigned " ELSE "") \o
                                       (IF c.short = 1 THEN "short" ELSE IF c.long = 1 THEN "long"
                                        ELSE IF c.long = 2 THEN "long long" ELSE "int"))]
       ELSE Bad

RECURSIVE RS(_, _, _, _)
(* specifier-qualifier-list starting at i: qualifiers anywhere, a typedef name only when no
   type specifier was seen before (6.7.8p3), struct/union/enum followed by its tag *)
RS(s, i, c, named) ==
    LET tk == At(s, i) IN
    IF tk \in Quals THEN RS(s, i + 1, c, named)
    ELSE IF tk \in SpecKw THEN (IF named # NoType THEN Bad
                               ELSE RS(s, i + 1, [c EXCEPT ![FieldOf(tk)] = @ + 1], named))
    ELSE IF tk \in {"struct", "union", "enum"}
         THEN (IF named # NoType \/ c # C0 \/ ~IsIdent(At(s, i + 1)) THEN Bad
               ELSE RS(s, i + 2, c, Agg(tk, At(s, i + 1))))
    ELSE IF IsIdent(tk) /\ tk \in TypeNames /\ named = NoType /\ c = C0
         THEN RS(s, i + 1, c, TypeOfName(tk))
    ELSE IF named # NoType THEN [ok |-> TRUE, pos |-> i, t |-> named]
    ELSE LET p == PrimOf(c) IN IF p.ok THEN [ok |-> TRUE, pos |-> i, t |-> p.t] ELSE Bad

RECURSIVE SkipQuals(_, _)
SkipQuals(s, i) == IF At(s, i) \in Quals THEN SkipQuals(s, i + 1) ELSE i
RECURSIVE SkipPtrs(_, _, _)
(* pointer: '*' type-qualifier-list(opt) ...; a calling-convention keyword may precede a '*'
   or the parenthesis that opens a pointer-to-function declarator *)
SkipPtrs(s, i, n) ==
    IF At(s, i) = "*" THEN SkipPtrs(s, SkipQuals(s, i + 1), n + 1)
    ELSE IF At(s, i) \in Abi /\ At(s, i + 1) \in {"*", "("} THEN SkipPtrs(s, i + 1, n)
    ELSE [pos |-> i, n |-> n]

IsDeclIdent(tk) == IsIdent(tk) /\ tk \notin TypeNames
(* after '(' : a parenthesised declarator (rather than a parameter list) starts with one of *)
GroupStart(s, j) == At(s, j) \in {"*", "(", "["} \cup Abi \/ IsDeclIdent(At(s, j))

Rev(q) == [i \in 1..Len(q) |-> q[Len(q) + 1 - i]]
RECURSIVE ApplyMods(_, _, _)
ApplyMods(b, mods, i) ==
    IF i > Len(mods) THEN b
    ELSE LET m == mods[i]
             t == CASE m.m = "ptr" -> Ptr(b)
                    [] m.m = "arr" -> Arr(b, m.len)
                    [] m.m = "fn"  -> Fn(b, m.args, m.ell)
         IN ApplyMods(t, mods, i + 1)

RECURSIVE RD(_, _), RSfx(_, _, _), RParams(_, _, _), RTN(_, _)
(* declarator / abstract declarator at i -> [ok, pos, mods]; mods are applied to the
   specifier type left to right: pointers first, then the suffixes right to left, then
   whatever the parenthesised inner declarator says *)
RD(s, i) ==
    LET p == SkipPtrs(s, i, 0)
        d == IF IsDeclIdent(At(s, p.pos)) THEN [ok |-> TRUE, pos |-> p.pos + 1, mods |-> << >>]
             ELSE IF At(s, p.pos) = "(" /\ GroupStart(s, p.pos + 1)
                  THEN LET in == RD(s, p.pos + 1)
                       IN IF in.ok /\ At(s, in.pos) = ")"
                          THEN [ok |-> TRUE, pos |-> in.pos + 1, mods |-> in.mods] ELSE Bad
             ELSE [ok |-> TRUE, pos |-> p.pos, mods |-> << >>]
    IN IF ~d.ok THEN Bad
       ELSE LET x == RSfx(s, d.pos, << >>)
            IN IF ~x.ok THEN Bad
               ELSE [ok |-> TRUE, pos |-> x.pos,
                     mods |-> [j \in 1..p.n |-> [m |-> "ptr"]] \o
                              (IF Variant = "suffix-order" THEN x.sfx ELSE Rev(x.sfx)) \o d.mods]

RSfx(s, i, acc) ==
    IF At(s, i) = "["
    THEN IF At(s, i + 1) = "]" THEN RSfx(s, i + 2, Append(acc, [m |-> "arr", len |-> Open]))
         ELSE IF LenVal(At(s, i + 1)) >= 0 /\ At(s, i + 2) = "]"
              THEN RSfx(s, i + 3, Append(acc, [m |-> "arr", len |-> LenVal(At(s, i + 1))]))
              ELSE Bad
    ELSE IF At(s, i) = "("
    THEN LET a == IF At(s, i + 1) = ")" THEN [ok |-> TRUE, pos |-> i + 2, args |-> << >>, ell |-> FALSE]
                  ELSE IF At(s, i + 1) = "void" /\ At(s, i + 2) = ")"
                       THEN [ok |-> TRUE, pos |-> i + 3, args |-> << >>, ell |-> FALSE]
                  ELSE RParams(s, i + 1, << >>)
         IN IF a.ok THEN RSfx(s, a.pos, Append(acc, [m |-> "fn", args |-> a.args, ell |-> a.ell])) ELSE Bad
    ELSE [ok |-> TRUE, pos |-> i, sfx |-> acc]

(* parameter-type-list: declarations separated by ',', optionally ', ...' at the end *)
RParams(s, i, acc) ==
    IF At(s, i) = "..."
    THEN (IF Len(acc) > 0 /\ At(s, i + 1) = ")"
          THEN [ok |-> TRUE, pos |-> i + 2, args |-> acc, ell |-> TRUE] ELSE Bad)
    ELSE LET tn == RTN(s, i)
         IN IF ~tn.ok THEN Bad
            ELSE LET acc2 == Append(acc, Adjust(tn.t))
                 IN IF At(s, tn.pos) = "," THEN RParams(s, tn.pos + 1, acc2)
                    ELSE IF At(s, tn.pos) = ")"
                         THEN [ok |-> TRUE, pos |-> tn.pos + 1, args |-> acc2, ell |-> FALSE]
                    ELSE Bad

RTN(s, i) ==
    LET sp == RS(s, i, C0, NoType)
    IN IF ~sp.ok THEN Bad
       ELSE LET d == RD(s, sp.pos)
            IN IF ~d.ok THEN Bad
               ELSE [ok |-> TRUE, pos |-> d.pos, t |-> ApplyMods(sp.t, d.mods, 1)]

(* Read: "ok" with the ctype term denoted, "fntype" for a bare function type, "invalid" for
   well-formed text that denotes no C type (array of void, ...), "syntax" otherwise *)
Read(s) ==
    LET tn == RTN(s, 1)
    IN IF ~tn.ok \/ tn.pos # Len(s) + 1 THEN [r |-> "syntax"]
       ELSE IF ~Valid(tn.t) THEN [r |-> "invalid"]
       ELSE IF tn.t.k = "fn" THEN [r |-> "fntype", t |-> tn.t]
       ELSE [r |-> "ok", t |-> tn.t]

-----------------------------------------------------------------------------
(* Canonical (minimal-parentheses) rendering, and what a getctype suffix denotes *)
LenTok(l) == IF l = Open THEN << >> ELSE <<ToString(l)>>
RECURSIVE Canon(_, _), CanonArgs(_, _, _)
Canon(t, d) ==
    CASE t.k = "prim" -> Tokenize(t.n) \o d
      [] t.k = "void" -> <<"void">> \o d
      [] t.k \in {"struct", "union", "enum"} -> <<t.k, t.tag>> \o d
      [] t.k = "ptr" /\ t.t.k = "fn" ->
            Canon(t.t.res, <<"(", "*">> \o d \o <<")", "(">> \o CanonArgs(t.t.args, t.t.ell, 1) \o <<")">>)
      [] t.k = "ptr" -> IF t.t.k = "arr" THEN Canon(t.t, <<"(", "*">> \o d \o <<")">>)
                        ELSE Canon(t.t, <<"*">> \o d)
      [] t.k = "arr" -> Canon(t.t, d \o <<"[">> \o LenTok(t.len) \o <<"]">>)
CanonArgs(a, ell, i) ==
    IF i > Len(a) THEN (IF ell THEN <<",", "...">> ELSE << >>)
    ELSE (IF i > 1 THEN <<",">> ELSE << >>) \o Canon(a[i], << >>) \o CanonArgs(a, ell, i + 1)

(* The declarator suffixes of C08 and the type each builds on T (IDEAL).  "v" is a name. *)
Suffixes == {"", "v", "*", " * ", "**", "[5]", "[]", "*[5]", "(*)[5]", "(*)(int)", "(*)(void)",
             "(*)(int, ...)", "*(*)(int)", "(*[5])(int)", "* v", "v[5]", "(*v)(int)"}
ApplySuffix(x, T) ==
    CASE x \in {"", "v"}        -> T
      [] x \in {"*", " * ", "* v"} -> Ptr(T)
      [] x = "**"               -> Ptr(Ptr(T))
      [] x \in {"[5]", "v[5]"}  -> Arr(T, 5)
      [] x = "[]"               -> Arr(T, Open)
      [] x = "*[5]"             -> Arr(Ptr(T), 5)
      [] x = "(*)[5]"           -> Ptr(Arr(T, 5))
      [] x \in {"(*)(int)", "(*v)(int)"} -> Ptr(Fn(T, <<P("int")>>, FALSE))
      [] x = "(*)(void)"        -> Ptr(Fn(T, << >>, FALSE))
      [] x = "(*)(int, ...)"    -> Ptr(Fn(T, <<P("int")>>, TRUE))
      [] x = "*(*)(int)"        -> Ptr(Fn(Ptr(T), <<P("int")>>, FALSE))
      [] x = "(*[5])(int)"      -> Arr(Ptr(Fn(T, <<P("int")>>, FALSE)), 5)

-----------------------------------------------------------------------------
(* IMPLEMENTATION MODEL: Parser._get_type_and_quals on IdentifierType.names
   (src/cffi/cparser.py:648-679), the result is the name handed to resolve_common_type *)
RECURSIVE StripPrefixes(_, _)
StripPrefixes(names, pre) ==
    IF Len(names) > 0 /\ names[1] \in {"short", "long", "signed", "unsigned"}
    THEN StripPrefixes(Tail(names), [pre EXCEPT ![names[1]] = @ + 1])
    ELSE [names |-> names, pre |-> pre]
Rep(x, n) == [i \in 1..n |-> x]
PyPrim(names0) ==
    IF names0 = <<"signed", "char">> THEN "signed char"
    ELSE LET sp == StripPrefixes(names0, [short |-> 0, long |-> 0, signed |-> 0, unsigned |-> 0])
             new == Rep("unsigned", sp.pre.unsigned) \o Rep("short", sp.pre.short) \o Rep("long", sp.pre.long)
             n1 == IF sp.names = << >> THEN <<"int">> ELSE sp.names
             n2 == IF n1 = <<"int">> /\ (sp.pre.short > 0 \/ sp.pre.long > 0) THEN << >> ELSE n1
         IN Join(new \o n2, " ")
(* the in-line parser accepts a specifier list iff the normalised name is a known primitive
   (model.PrimitiveType.ALL_PRIMITIVE_TYPES) or 'void' *)
PyPrimOk(names) == PyPrim(names) \in AllPrims \cup {"void"}

-----------------------------------------------------------------------------
(* IMPLEMENTATION MODEL: src/c/parse_c_type.c on token sequences.
   State threaded through the operators: i (index of the current token = tok->p/kind),
   out (tok->output[0..output_index-1], 0-based positions o stored at out[o+1]).
   Opcodes are records [op, arg]; the length word after OP_ARRAY is [op |-> "len", arg |-> n]. *)
Op(o, a) == [op |-> o, arg |-> a]
PErr(msg) == [err |-> msg]
IsErr(r) == "err" \in DOMAIN r
TokKind(tk) == IF tk = "<end>" THEN "END"
               ELSE IF tk \in Keywords \ {"_Complex"} THEN tk       \* _Complex: TOK__COMPLEX, kept as keyword
               ELSE IF tk = "_Complex" THEN tk
               ELSE IF IsNumber(tk) THEN "INTEGER"
               ELSE IF IsWord(tk) THEN "IDENTIFIER"
               ELSE tk                                               \* '*' '(' ')' '[' ']' ',' '...' and others

(* get_following_char(tok) == ')' : the next token starts with ')' *)
NextIsClose(s, i) == At(s, i + 1) = ")"
RECURSIVE NCommas(_, _, _, _)
(* number_of_commas(tok): commas at nesting 0 from the current token to the matching ')' *)
NCommas(s, i, nest, res) ==
    IF i > Len(s) THEN res
    ELSE IF s[i] = "," THEN NCommas(s, i + 1, nest, IF nest = 0 THEN res + 1 ELSE res)
    ELSE IF s[i] = "(" THEN NCommas(s, i + 1, nest + 1, res)
    ELSE IF s[i] = ")" THEN (IF nest - 1 < 0 THEN res ELSE NCommas(s, i + 1, nest - 1, res))
    ELSE NCommas(s, i + 1, nest, res)

SetAt(out, o, v) == [out EXCEPT ![o + 1] = v]
GetAt(out, o) == out[o + 1]
(* strtoull(tok->p, &endptr, 0) with endptr == tok->p + tok->size; the token was cut by
   next_token as digit, optional x/X, then hex digits *)
CNumVal(tk) == NumVal(tk)

RECURSIVE PSequel(_, _, _, _), PComplete(_, _, _), PHeader(_, _, _, _, _), PParens(_, _, _, _, _, _, _),
          PBrackets(_, _, _, _, _), PArgs(_, _, _, _, _, _)

(* header: loop of parse_sequel (:239-261) -> [i, out, outer, abi] *)
PHeader(s, i, out, outer, abi) ==
    LET k == TokKind(At(s, i)) IN
    IF k = "*" THEN PHeader(s, i + 1, Append(out, Op("POINTER", outer)), Len(out), abi)
    ELSE IF k \in Quals THEN PHeader(s, i + 1, out, outer, abi)
    ELSE IF k \in Abi THEN PHeader(s, i + 1, out, outer, k)
    ELSE [i |-> i, out |-> out, outer |-> outer, abi |-> abi]

(* parse_sequel(tok, outer) (:227) -> [i, out, res] or [err].
   'result' and '*p_current' of the C code: cur = -1 means p_current == &result, otherwise
   p_current == tok->output + cur; result is kept as the record res.                  *)
PSequel(s, i0, out0, outer0) ==
    LET h == PHeader(s, i0, out0, outer0, "")
        isid == TokKind(At(s, h.i)) = "IDENTIFIER"
        i1 == IF isid THEN h.i + 1 ELSE h.i
        cfg == IF isid THEN 0 ELSE 1
    IN PParens(s, i1, h.out, h.outer, h.abi, cfg, [cur |-> -1, res |-> Op("", 0)])

(* the 'while (tok->kind == TOK_OPEN_PAREN)' loop (:272-363), then the rest *)
PParens(s, i, out, outer, abi, cfg, pc) ==
    IF TokKind(At(s, i)) # "("
    THEN (IF abi # "" THEN PErr("expected '('") ELSE PBrackets(s, i, out, outer, pc))
    ELSE
      LET i1 == i + 1
          hasabi == TokKind(At(s, i1)) \in Abi
          abi1 == IF hasabi THEN TokKind(At(s, i1)) ELSE abi
          i2 == IF hasabi THEN i1 + 1 ELSE i1
          k2 == TokKind(At(s, i2))
      IN IF cfg = 1 /\ (k2 = "*" \/ k2 \in Quals \/ k2 = "[") /\ Variant # "no-group"
         THEN \* just parentheses for grouping (:284-294)
              LET x == Len(out)
                  out1 == Append(out, Op("NOOP", 0))
                  r == PSequel(s, i2, out1, x)
              IN IF IsErr(r) THEN r
                 ELSE IF TokKind(At(s, r.i)) # ")" THEN PErr("expected ')'")
                 ELSE PParens(s, r.i + 1, r.out, outer, abi1, cfg - 1,
                              [cur |-> x, res |-> Op(pc.res.op, r.res)])
         ELSE \* function type (:296-358)
              LET flags0 == IF abi1 = "__stdcall" THEN 2 ELSE 0
                  skipvoid == TokKind(At(s, i2)) = "void" /\ NextIsClose(s, i2)
                  i3 == IF skipvoid THEN i2 + 1 ELSE i2
                  argtotal == NCommas(s, i3, 0, 0) + 1
                  base == Len(out)
                  \* *p_current = OP(GETOP(*p_current), output_index); p_current = output + output_index
                  out1 == IF pc.cur = -1 THEN out ELSE SetAt(out, pc.cur, Op(GetAt(out, pc.cur).op, base))
                  res1 == IF pc.cur = -1 THEN Op(pc.res.op, base) ELSE pc.res
                  out2 == out1 \o <<Op("FUNCTION", 0)>> \o [j \in 1..(argtotal + 1) |-> Op("", 0)]
                  a == IF TokKind(At(s, i3)) # ")" THEN PArgs(s, i3, out2, base + 1, flags0, base + argtotal)
                       ELSE [i |-> i3, out |-> out2, argnext |-> base + 1, flags |-> flags0]
              IN IF IsErr(a) THEN a
                 ELSE LET out3 == SetAt(a.out, a.argnext, Op("FUNCTION_END", a.flags))
                      IN IF TokKind(At(s, a.i)) # ")" THEN PErr("expected ')'")
                         ELSE PParens(s, a.i + 1, out3, outer, "", cfg - 1, [cur |-> base, res |-> res1])

(* the argument loop (:328-355) -> [i, out, argnext, flags]; lim = last reserved slot *)
PArgs(s, i, out, argnext, flags, lim) ==
    IF TokKind(At(s, i)) = "..." THEN [i |-> i + 1, out |-> out, argnext |-> argnext, flags |-> 1]
    ELSE LET r == PComplete(s, i, out)
         IN IF IsErr(r) THEN r
            ELSE IF argnext > lim THEN PErr("assert(arg_next - base_index <= arg_total)")
            ELSE LET o == GetAt(r.out, r.res)
                     oarg == IF o.op \in {"ARRAY", "OPEN_ARRAY"} THEN Op("POINTER", o.arg)
                             ELSE IF o.op = "FUNCTION" THEN Op("POINTER", r.res)
                             ELSE Op("NOOP", r.res)
                     out1 == SetAt(r.out, argnext, oarg)
                 IN IF TokKind(At(s, r.i)) # "," THEN [i |-> r.i, out |-> out1, argnext |-> argnext + 1, flags |-> flags]
                    ELSE PArgs(s, r.i + 1, out1, argnext + 1, flags, lim)

(* the 'while (tok->kind == TOK_OPEN_BRACKET)' loop (:368-442) and the end (:444) *)
PBrackets(s, i, out, outer, pc) ==
    IF TokKind(At(s, i)) # "["
    THEN LET out1 == IF pc.cur = -1 THEN out ELSE SetAt(out, pc.cur, Op(GetAt(out, pc.cur).op, outer))
             res1 == IF pc.cur = -1 THEN Op(pc.res.op, outer) ELSE pc.res
         IN [i |-> i, out |-> out1, res |-> res1.arg]
    ELSE LET here == Len(out)
             out1 == IF pc.cur = -1 THEN out ELSE SetAt(out, pc.cur, Op(GetAt(out, pc.cur).op, here))
             res1 == IF pc.cur = -1 THEN Op(pc.res.op, here) ELSE pc.res
             tk == At(s, i + 1)
             k == TokKind(tk)
         IN IF k = "]" THEN PBrackets(s, i + 2, Append(out1, Op("OPEN_ARRAY", 0)), outer, [cur |-> here, res |-> res1])
            ELSE IF k = "INTEGER" /\ CNumVal(tk) < 0 THEN PErr("invalid number")
            ELSE IF k = "INTEGER" \/ (k = "IDENTIFIER" /\ tk \in DOMAIN IntConsts)
                 THEN (IF TokKind(At(s, i + 2)) # "]" THEN PErr("expected ']'")
                       ELSE PBrackets(s, i + 3, out1 \o <<Op("ARRAY", 0), Op("len", LenVal(tk))>>, outer,
                                      [cur |-> here, res |-> res1]))
            ELSE PErr("expected a positive integer constant")

(* parse_complete(tok) (:605) -> [i, out, res] or [err] *)
RECURSIVE PMods(_, _, _, _)
PMods(s, i, ml, ms) ==
    LET k == TokKind(At(s, i)) IN
    IF k = "short" THEN (IF ml # 0 THEN PErr("'short' after another 'short' or 'long'") ELSE PMods(s, i + 1, ml - 1, ms))
    ELSE IF k = "long" THEN (IF ml < 0 THEN PErr("'long' after 'short'")
                             ELSE IF ml >= 2 THEN PErr("'long long long' is too long")
                             ELSE PMods(s, i + 1, ml + 1, ms))
    ELSE IF k = "signed" THEN (IF ms # 0 THEN PErr("multiple 'signed' or 'unsigned'") ELSE PMods(s, i + 1, ml, ms + 1))
    ELSE IF k = "unsigned" THEN (IF ms # 0 THEN PErr("multiple 'signed' or 'unsigned'") ELSE PMods(s, i + 1, ml, ms - 1))
    ELSE IF k \in Quals /\ Variant # "old-qual-loop" THEN PMods(s, i + 1, ml, ms)   \* "can be before or between the modifiers"
    ELSE [i |-> i, ml |-> ml, ms |-> ms]

IntPrim(ml, ms) ==
    IF ms >= 0 THEN (CASE ml = -2 -> "signed char" [] ml = -1 -> "short" [] ml = 1 -> "long"
                       [] ml = 2 -> "long long" [] OTHER -> "int")
    ELSE (CASE ml = -2 -> "unsigned char" [] ml = -1 -> "unsigned short" [] ml = 1 -> "unsigned long"
            [] ml = 2 -> "unsigned long long" [] OTHER -> "unsigned int")

PComplete(s, i0, out) ==
    LET i1 == IF Variant = "old-qual-loop" THEN SkipQuals(s, i0) ELSE i0   \* before 795689f: a separate leading loop
        m == PMods(s, i1, 0, 0)
    IN IF IsErr(m) THEN m
       ELSE
       LET k == TokKind(At(s, m.i))
           tk == At(s, m.i)
           \* -> [i, t1] or [err]
           b == IF m.ml # 0 \/ m.ms # 0
                THEN (IF k \in {"void", "_Bool", "float", "struct", "union", "enum", "_Complex"}
                      THEN PErr("invalid combination of types")
                      ELSE IF k = "double"
                           THEN (IF m.ms # 0 \/ m.ml # 1 THEN PErr("invalid combination of types")
                                 ELSE [i |-> m.i + 1, t1 |-> Op("PRIMITIVE", "long double")])
                      ELSE IF k = "char"
                           THEN (IF m.ml # 0 THEN PErr("invalid combination of types")
                                 ELSE [i |-> m.i + 1, t1 |-> Op("PRIMITIVE", IntPrim(-2, m.ms))])
                      ELSE IF k = "int" THEN [i |-> m.i + 1, t1 |-> Op("PRIMITIVE", IntPrim(m.ml, m.ms))]
                      ELSE [i |-> m.i, t1 |-> Op("PRIMITIVE", IntPrim(m.ml, m.ms))])
                ELSE (CASE k = "int" -> [i |-> m.i + 1, t1 |-> Op("PRIMITIVE", "int")]
                        [] k = "char" -> [i |-> m.i + 1, t1 |-> Op("PRIMITIVE", "char")]
                        [] k = "void" -> [i |-> m.i + 1, t1 |-> Op("PRIMITIVE", "void")]
                        [] k = "_Bool" -> [i |-> m.i + 1, t1 |-> Op("PRIMITIVE", "_Bool")]
                        [] k = "float" -> [i |-> m.i + 1, t1 |-> Op("PRIMITIVE", "float")]
                        [] k = "double" -> [i |-> m.i + 1, t1 |-> Op("PRIMITIVE", "double")]
                        [] k = "IDENTIFIER" ->
                              (IF tk \in DOMAIN Typedefs THEN [i |-> m.i + 1, t1 |-> Op("TYPENAME", tk)]
                               ELSE IF tk \in StdNames THEN [i |-> m.i + 1, t1 |-> Op("PRIMITIVE", tk)]
                               ELSE PErr("undefined type name"))
                        [] k \in {"struct", "union"} ->
                              (IF TokKind(At(s, m.i + 1)) # "IDENTIFIER" THEN PErr("struct or union name expected")
                               ELSE IF At(s, m.i + 1) \notin DOMAIN Aggs \/ Aggs[At(s, m.i + 1)].kind = "enum"
                                    THEN PErr("undefined struct/union name")
                               ELSE IF Aggs[At(s, m.i + 1)].kind # k THEN PErr("wrong kind of tag: struct vs union")
                               ELSE [i |-> m.i + 2, t1 |-> Op("STRUCT_UNION", At(s, m.i + 1))])
                        [] k = "enum" ->
                              (IF TokKind(At(s, m.i + 1)) # "IDENTIFIER" THEN PErr("enum name expected")
                               ELSE IF At(s, m.i + 1) \notin DOMAIN Aggs \/ Aggs[At(s, m.i + 1)].kind # "enum"
                                    THEN PErr("undefined enum name")
                               ELSE [i |-> m.i + 2, t1 |-> Op("ENUM", At(s, m.i + 1))])
                        [] OTHER -> PErr("identifier expected"))
       IN IF IsErr(b) THEN b
          ELSE IF TokKind(At(s, b.i)) = "_Complex" THEN PErr("_Complex type combination unsupported")
          ELSE PSequel(s, b.i, Append(out, b.t1), Len(out))

(* realize_c_type_or_func_now (src/c/realize_c_type.c:465) on the opcode array: a term, with
   Fn terms standing for the 1-tuple that hides a function type *)
RECURSIVE Realize(_, _), RealizeArgs(_, _, _)
Realize(out, o) ==
    LET x == GetAt(out, o) IN
    CASE x.op = "PRIMITIVE" -> IF x.arg = "void" THEN Void ELSE P(x.arg)
      [] x.op = "POINTER" -> LET y == Realize(out, x.arg) IN IF y.k = "fn" THEN Ptr(y) ELSE Ptr(y)
      [] x.op = "ARRAY" -> Arr(Realize(out, x.arg), GetAt(out, o + 1).arg)
      [] x.op = "OPEN_ARRAY" -> Arr(Realize(out, x.arg), Open)
      [] x.op = "STRUCT_UNION" -> Agg(Aggs[x.arg].kind, x.arg)
      [] x.op = "ENUM" -> Agg("enum", x.arg)
      [] x.op = "NOOP" -> Realize(out, x.arg)
      [] x.op = "TYPENAME" -> Typedefs[x.arg]
      [] x.op = "FUNCTION" -> LET a == RealizeArgs(out, o + 1, << >>)
                              IN Fn(Realize(out, x.arg), a.args, a.ell)
RealizeArgs(out, o, acc) ==
    LET x == GetAt(out, o) IN
    IF x.op = "FUNCTION_END" THEN [args |-> acc, ell |-> x.arg % 2 = 1]
    ELSE LET a == Realize(out, o)
             \* realize_c_type() refuses a function type (unexpected_fn_type); new_function_type
             \* (_cffi_backend.c) replaces an array argument by the pointer to its item
             b == IF a.k = "fn" THEN [k |-> "bad"] ELSE IF a.k = "arr" THEN Ptr(a.t) ELSE a
         IN RealizeArgs(out, o + 1, Append(acc, b))

(* parse_c_type + realize, as seen through ffi.typeof: same result classes as Read *)
ParseC(s) ==
    LET r == PComplete(s, 1, << >>)
    IN IF IsErr(r) THEN [r |-> "syntax", msg |-> r.err]
       ELSE IF r.i # Len(s) + 1 THEN [r |-> "syntax", msg |-> "unexpected symbol"]
       ELSE LET t == Realize(r.out, r.res)
            IN IF ~Valid(t) THEN [r |-> "invalid"]
               ELSE IF t.k = "fn" THEN [r |-> "fntype", t |-> t]
               ELSE [r |-> "ok", t |-> t]

-----------------------------------------------------------------------------
(* Where the two real parsers are known to part from the C grammar (these predicates are the
   keys of the listed findings; see design_notes/C07.md).  They are purely syntactic.    *)
(* a qualifier that is followed by a specifier keyword although a specifier keyword came
   before it ('unsigned const int', 'long volatile long').  No longer a class of ClassOf: the C
   parser accepts these since /repo 795689f; the variant "old-qual-loop" of ParseC is the old code
   and TLC must reject it. *)
QualInsideSpecs(s) ==
    \E i \in 1..Len(s) :
       /\ s[i] \in Quals
       /\ \E j \in 1..(i - 1) : s[j] \in SpecKw /\ \A l \in j..(i - 1) : s[l] \in SpecKw \cup Quals
       /\ \E j \in (i + 1)..Len(s) : s[j] \in SpecKw /\ \A l \in (i + 1)..j : s[l] \in SpecKw \cup Quals
(* '(' followed (possibly after a calling-convention keyword) by '(' : a parenthesised
   declarator whose first token is '(' *)
ParenParen(s) == \E i \in 1..Len(s) : s[i] = "(" /\ (At(s, i + 1) = "(" \/ (At(s, i + 1) \in Abi /\ At(s, i + 2) = "("))
(* '(' followed by an identifier that names no type, not preceded by a declarator
   identifier (a struct/union/enum tag is not one): a parenthesised named declarator *)
ParenIdent(s) == \E i \in 1..Len(s) : /\ s[i] = "(" /\ IsDeclIdent(At(s, i + 1))
                                        /\ (IsDeclIdent(At(s, i - 1)) => At(s, i - 2) \in {"struct", "union", "enum"})

-----------------------------------------------------------------------------
(* the bounded universe of terms *)
(* Profiles "big" / "bigall": array lengths at the boundaries of their decimal text (1, 2, 3, 9, 10 digits,
   2^31 - 1 = the largest TLC integer) over char, short, pointers and function pointers.  Larger lengths
   (2^31 .. sys.maxsize) are replayed with real values and validated under an abstract length code. *)
BasePrims == IF Profile \in {"big", "bigall"} THEN {"char", "short"}
             ELSE IF Profile \in {"small", "tiny"}
             THEN {"int", "unsigned char"}
             ELSE {"char", "short", "int", "long", "long long", "signed char", "unsigned char",
                   "unsigned short", "unsigned int", "unsigned long", "unsigned long long",
                   "float", "double", "long double", "_Bool", "size_t", "uint8_t", "wchar_t"}
BaseAggs == IF Profile \in {"big", "bigall"} THEN {}
            ELSE IF Profile \in {"small", "tiny"} THEN {Agg("struct", "s1")}
            ELSE {Agg("struct", "s1"), Agg("struct", "s2"), Agg("struct", "op"), Agg("union", "u1"),
                  Agg("enum", "e1")}
Base == {P(n) : n \in BasePrims} \cup {Void} \cup BaseAggs
Lens == IF Profile = "big" THEN {10, 999999999, 1000000000, 2147483647}
        ELSE IF Profile = "bigall" THEN {9, 10, 99, 100, 999999999, 1000000000, 1234567890, 2147483647}
        ELSE IF Profile \in {"small", "mid", "tiny"} THEN {Open, 16} ELSE {Open, 3, 16, 2}
ArgLists == IF Profile \in {"big", "bigall"} THEN {<< <<P("int")>>, FALSE >>}
            ELSE IF Profile = "tiny"           \* the small profile with half the parameter lists (C08 quick tier)
            THEN {<< << >>, FALSE >>, << <<P("int")>>, TRUE >>, << <<Ptr(P("char")), Agg("struct", "s1")>>, FALSE >>}
            ELSE IF Profile \in {"small", "mid"}
            THEN {<< << >>, FALSE >>, << <<P("int")>>, FALSE >>, << <<P("int")>>, TRUE >>,
                  << <<Ptr(P("char")), Agg("struct", "s1")>>, FALSE >>,
                  << <<Ptr(P("int")), Ptr(Arr(P("int"), 5))>>, TRUE >>,          \* Param(vec_t), Param(mat_t)
                  << <<Ptr(Fn(P("int"), <<P("int")>>, FALSE))>>, FALSE >>}       \* Param(func_t)
            ELSE {<< << >>, FALSE >>, << <<P("int")>>, FALSE >>, << <<P("int")>>, TRUE >>,
                  << <<Ptr(P("char")), Agg("struct", "s1")>>, FALSE >>,
                  << <<P("unsigned long"), Ptr(Void)>>, TRUE >>,
                  << <<Ptr(Fn(P("int"), <<P("int")>>, FALSE))>>, FALSE >>,
                  << <<Ptr(Ptr(P("int"))), P("double")>>, FALSE >>,
                  << <<P("long"), Ptr(Arr(P("int"), 5))>>, TRUE >>,
                  << <<Ptr(P("int"))>>, FALSE >>}
Universe == Terms(Base, Lens, ArgLists, Depth)

-----------------------------------------------------------------------------
(* classes of strings: where the real parsers are known to leave the C grammar *)
(* the leading specifier-qualifier run of a token sequence, qualifiers removed *)
SpecRun(s) == LET RECURSIVE R(_, _) R(i, acc) == IF At(s, i) \in SpecKw THEN R(i + 1, Append(acc, s[i]))
                                                  ELSE IF At(s, i) \in Quals THEN R(i + 1, acc) ELSE acc
              IN R(1, << >>)
Modifiers == {"short", "long", "signed", "unsigned"}
(* a specifier order that C allows and both cffi parsers refuse: 'int', 'char' or 'double'
   written before 'short'/'long'/'signed'/'unsigned' ('int unsigned', 'char signed') *)
BaseBeforeModifier(s) == LET r == SpecRun(s) IN
                         \E i \in 1..Len(r) : r[i] \notin Modifiers /\ \E j \in (i + 1)..Len(r) : r[j] \in Modifiers
(* Ill-formed text that the in-line parser is known to accept (pycparser is given
   'void __dummy(<text>);' after textual substitutions, cparser.py:189-253 and :563) while
   the C parser refuses it.  Each predicate is one listed finding of C07.                *)
RECURSIVE NestAt(_, _, _)
NestAt(s, i, j) == IF j >= i THEN 0
                   ELSE (IF s[j] = "(" THEN 1 ELSE IF s[j] = ")" THEN -1 ELSE 0) + NestAt(s, i, j + 1)
(* no type specifier at all ('const', 'const x'): implicit int *)
NoTypeSpecifier(s) == LET i == SkipQuals(s, 1) IN
                      At(s, i) \notin SpecKw \cup {"struct", "union", "enum"} \cup TypeNames
(* a calling-convention keyword that the model of the C parser cannot attach to a function
   declarator (parse_c_type.c:365) *)
AbiUnattached(s) == /\ \E i \in 1..Len(s) : s[i] \in Abi
                    /\ LET c == ParseC(s) IN c.r = "syntax" /\ c.msg = "expected '('"
(* struct/union/enum with a tag that was not declared, or declared as the other kind *)
UndeclaredTag(s) == \E i \in 1..Len(s) : /\ s[i] \in {"struct", "union", "enum"} /\ IsIdent(At(s, i + 1))
                                          /\ (At(s, i + 1) \notin DOMAIN Aggs \/ Aggs[At(s, i + 1)].kind # s[i])
(* a comma outside all parentheses: the text continues the parameter list of __dummy *)
TopLevelComma(s) == \E i \in 1..Len(s) : s[i] = "," /\ NestAt(s, i, 1) = 0
(* '...' anywhere but at the end of a parameter list after a comma: it becomes an identifier *)
StrayEllipsis(s) == \E i \in 1..Len(s) : s[i] = "..." /\ ~(At(s, i - 1) = "," /\ At(s, i + 1) = ")" /\ NestAt(s, i, 1) > 0)
(* a parameter written as the typedef name of a FUNCTION type (func_t as a parameter): C adjusts it to
   a pointer to function, so does the in-line FFI; realize_c_type refuses it *)
FnTypedefNames == {n \in DOMAIN Typedefs : Typedefs[n].k = "fn"}
FnTypedefParam(s) == \E i \in 1..Len(s) :
                        /\ s[i] \in FnTypedefNames
                        /\ (\E j1 \in 1..(i - 1) : s[j1] \in {"(", ","} /\ \A l1 \in (j1 + 1)..(i - 1) : s[l1] \in Quals)
                        /\ (\E j2 \in (i + 1)..Len(s) : s[j2] \in {")", ","} /\
                                \A l2 \in (i + 1)..(j2 - 1) : s[l2] \in Quals \/ IsDeclIdent(s[l2]))
(* '(...)' as a whole parameter list: not C (before C23); the C parser accepts it *)
OnlyEllipsis(s) == \E i \in 1..Len(s) : s[i] = "(" /\ At(s, i + 1) = "..." /\ At(s, i + 2) = ")"
(* a qualified void as the only parameter ('(const void)'): the in-line FFI takes it for '(void)' *)
QualVoidParam(s) == \E i \in 1..Len(s) :
                       /\ s[i] = "("
                       /\ \E j3 \in (i + 1)..Len(s) :
                             /\ s[j3] = ")"
                             /\ (\A l3 \in (i + 1)..(j3 - 1) : s[l3] \in Quals \cup {"void"})
                             /\ (\E l4 \in (i + 1)..(j3 - 1) : s[l4] = "void")
                             /\ (\E l5 \in (i + 1)..(j3 - 1) : s[l5] \in Quals)
(* a specifier multiset that C does not allow ('signed unsigned char', 'signed void') *)
RECURSIVE CountSpecs(_, _, _)
CountSpecs(r, i, c) == IF i > Len(r) THEN c ELSE CountSpecs(r, i + 1, [c EXCEPT ![FieldOf(r[i])] = @ + 1])
SpecifierConflict(s) == LET r == SpecRun(s) IN r # << >> /\ ~PrimOf(CountSpecs(r, 1, C0)).ok

ClassOf(s) == (IF ParenParen(s) THEN {"paren-paren"} ELSE {}) \cup
              (IF ParenIdent(s) THEN {"paren-ident"} ELSE {}) \cup
              (IF BaseBeforeModifier(s) THEN {"base-before-modifier"} ELSE {}) \cup
              (IF NoTypeSpecifier(s) THEN {"no-type-specifier"} ELSE {}) \cup
              (IF AbiUnattached(s) THEN {"abi-unattached"} ELSE {}) \cup
              (IF UndeclaredTag(s) THEN {"undeclared-tag"} ELSE {}) \cup
              (IF TopLevelComma(s) THEN {"top-level-comma"} ELSE {}) \cup
              (IF StrayEllipsis(s) THEN {"stray-ellipsis"} ELSE {}) \cup
              (IF SpecifierConflict(s) THEN {"specifier-conflict"} ELSE {}) \cup
              (IF FnTypedefParam(s) THEN {"fn-typedef-param"} ELSE {}) \cup
              (IF OnlyEllipsis(s) THEN {"only-ellipsis"} ELSE {}) \cup
              (IF QualVoidParam(s) THEN {"qualified-void-param"} ELSE {})

=============================================================================
