------------------------------ MODULE Trace_Platform ------------------------------
(* C06, measurement part: what gcc and cffi report for every primitive type name is what
   Platform!Prim says.  Input (IOEnv.TRACE_FILE): JSON array of records
     [name, gcc  |-> [ok, size, align, kind, sgn, min, max],
            cffi |-> <<[path, ok, size, align, kind, sgn, probes |-> <<[v, acc]>>, same]>>]
   kind in "int" | "bool" | "char" | "float" | "complex" (gcc has no "char" kind: character
   types are integer types in C); min/max/v are PlatformBV Z-values; probes: the value v was
   stored into a fresh object of the type (acc = accepted and read back equal; FALSE =
   OverflowError); same = the ctype object is identical to the in-line FFI's.
   Output: <<"VERDICT", name, who, clause>> per failing clause, <<"CHECKED", name>> per record. *)
EXTENDS PlatformBV, Json, IOUtils
VARIABLES k, done
Recs == JsonDeserialize(IOEnv.TRACE_FILE)

Say(ok, name, who, clause) == IF ok THEN TRUE ELSE PrintT(<<"VERDICT", name, who, clause>>)
IsInt(TP) == TP.kind \in {"int", "bool", "char"}
\* integer range of a type of the platform table
MinOf(TP) == IF TP.kind = "bool" \/ ~TP.sgn THEN Z0 ELSE ZNeg(ZPow2(8 * TP.size - 1))
MaxOf(TP) == IF TP.kind = "bool" THEN Z1
            ELSE IF TP.sgn THEN ZSub(ZPow2(8 * TP.size - 1), Z1) ELSE ZSub(ZPow2(8 * TP.size), Z1)
CKind(kd) == IF kd = "char" THEN "int" ELSE kd

\* (IF-THEN-ELSE only: inside an action TLC explores both sides of a disjunction / implication)
Check(r) ==
  IF Canon(r.name) \notin DOMAIN Prim THEN Say(FALSE, r.name, "spec", "name not in the platform table")
  ELSE
  \E TP \in {Prim[Canon(r.name)]} :
  /\ Say(r.gcc.ok, r.name, "gcc", "rejected")
  /\ IF ~r.gcc.ok THEN TRUE ELSE
       /\ Say(r.gcc.size = TP.size, r.name, "gcc", "size")
       /\ Say(r.gcc.align = TP.align, r.name, "gcc", "align")
       /\ Say(r.gcc.kind = CKind(TP.kind), r.name, "gcc", "kind")
       /\ IF ~IsInt(TP) THEN TRUE ELSE
            /\ Say(r.gcc.sgn = (TP.sgn /\ TP.kind # "bool"), r.name, "gcc", "sign")
            /\ Say(ZOfJson(r.gcc.min) = MinOf(TP), r.name, "gcc", "min")
            /\ Say(ZOfJson(r.gcc.max) = MaxOf(TP), r.name, "gcc", "max")
  /\ \A m \in 1..Len(r.cffi) :
       LET o == r.cffi[m]
           who == "cffi:" \o o.path IN
       IF ~o.ok THEN Say(FALSE, r.name, who, "rejected")
       ELSE /\ Say(o.size = TP.size, r.name, who, "size")
            /\ Say(o.align = TP.align, r.name, who, "align")
            /\ Say(o.kind = TP.kind, r.name, who, "kind")
            /\ IF TP.kind # "int" THEN TRUE ELSE Say(o.sgn = TP.sgn, r.name, who, "sign")
            /\ IF TP.kind \notin {"int", "bool"} THEN TRUE ELSE
                 \A j \in 1..Len(o.probes) :
                   \E v \in {ZOfJson(o.probes[j].v)} :
                     Say(o.probes[j].acc = (ZLe(MinOf(TP), v) /\ ZLe(v, MaxOf(TP))), r.name, who, "range")
            /\ Say(o.same, r.name, who, "identity")
  /\ PrintT(<<"CHECKED", r.name>>)

TInit == k \in 1..Len(Recs) /\ done = FALSE
TNext == ~done /\ Check(Recs[k]) /\ done' = TRUE /\ UNCHANGED k
TSpec == TInit /\ [][TNext]_<<k, done>>
=============================================================================
