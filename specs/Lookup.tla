------------------------------ MODULE Lookup ------------------------------
(* C25 -- implementation model: the generator sorts every name table with Python's
   list.sort(key=name) (recompiler.py, collect_step_tables / collect_type_table) and the
   runtime looks names up with search_sorted() (src/c/parse_c_type.c:448), a binary search
   whose comparator is strncmp() + a terminator test.  The model is explored for EVERY
   set of at most MaxTable identifiers over Alpha of length <= MaxName and EVERY search
   string of length <= MaxSearch (identifier or not), and compared with the ideal.

   Variant selects deliberately broken algorithms that TLC must reject (non-vacuity):
     "gt"        diff > 0 instead of diff >= 0
     "noterm"    the src[search_len] == '\0' test dropped
     "sortlower" the generator sorts with key=name.lower()
     "leftmid"   left = middle instead of left = middle + 1  (no progress)            *)
EXTENDS LookupIdeal, FiniteSetsExt, SequencesExt, Json, IOUtils, TLC

CONSTANTS Alpha,       \* character codes
          MaxName, MaxTable, MaxSearch,
          TailByte,      \* the byte that follows the search token in memory (must be ignored)
          Variant

VARIABLES names,   \* the declared set
          search,  \* the string looked up
          tbl,     \* the generated table (sequence of names)
          pc, left, right, result, iters
vars == <<names, search, tbl, pc, left, right, result, iters>>

Digits == 48..57
Str(n) == UNION {[1..k -> Alpha] : k \in 0..n}
Idents == {s \in Str(MaxName) : Len(s) >= 1 /\ s[1] \notin Digits}
Searches == Str(MaxSearch)
Tables == UNION {kSubset(k, Idents) : k \in 0..MaxTable}

\* ---- generator: sort key
GenSort(S) == IF Variant = "sortlower" THEN SortBy(S, "lower") ELSE PySort(S)

Unset == 0 - 2

\* the generator runs once per module (Init); every lookup is one Call followed by Steps
Init == /\ names \in Tables
        /\ tbl = GenSort(names)                \* recompiler.py:268  lst.sort(key=lambda entry: entry.name)
        /\ search = <<>> /\ pc = "start" /\ left = 0 /\ right = 0
        /\ result = Unset /\ iters = 0

Call == /\ pc = "start"
        /\ search' \in Searches
        /\ pc' = "while" /\ left' = 0 /\ right' = Len(tbl)   \* parse_c_type.c:452  left = 0, right = array_len
        /\ UNCHANGED <<names, tbl, result, iters>>

\* one evaluation of the loop condition plus, if it holds, one loop body
Step == /\ pc = "while"
        /\ IF left < right                                              \* :455 while (left < right)
           THEN LET middle == (left + right) \div 2                     \* :456
                    src == tbl[middle + 1]                              \* :457
                    n == Len(search)
                    diff == Strncmp(src, search, TailByte, n)               \* :458
                    hit == IF Variant = "noterm" THEN diff = 0
                           ELSE diff = 0 /\ ByteAt(src, n) = 0          \* :459 src[search_len] == '\0'
                    goleft == IF Variant = "gt" THEN diff > 0 ELSE diff >= 0     \* :461
                IN /\ Assert(diff > OOB \div 2 /\ diff < 0 - (OOB \div 2), "strncmp read past a terminator")
                   /\ iters' = iters + 1
                   /\ IF hit THEN /\ result' = middle /\ pc' = "done"   \* :460 return middle
                                  /\ UNCHANGED <<left, right>>
                      ELSE IF goleft THEN /\ right' = middle            \* :462
                                          /\ UNCHANGED <<left, result, pc>>
                      ELSE /\ left' = IF Variant = "leftmid" THEN middle ELSE middle + 1   \* :464
                           /\ UNCHANGED <<right, result, pc>>
           ELSE /\ result' = NotFoundIdx /\ pc' = "done"                \* :466 return -1
                /\ UNCHANGED <<left, right, iters>>
        /\ UNCHANGED <<names, search, tbl>>

Next == Call \/ Step
Spec == Init /\ [][Next]_vars /\ WF_vars(Next)

\* ---------------------------------------------------------------- properties
\* the lemma: what Python's sort produces is sorted for the C comparator
TableSortedForC == pc = "start" => SortedForC(tbl)
TableIsPerm == pc = "start" => Len(tbl) = Cardinality(names) /\ {tbl[i] : i \in 1..Len(tbl)} = names

\* the classical loop invariant
LoopInv == pc = "while" =>
             /\ 0 <= left /\ left <= right /\ right <= Len(tbl)
             /\ (search \in names => LET i == IdealFind(tbl, search) IN left <= i /\ i < right)

\* clauses of the property
FoundOwn == (pc = "done" /\ search \in names) => (result >= 0 /\ tbl[result + 1] = search)
NotFound == (pc = "done" /\ search \notin names) => result = NotFoundIdx
RefinesIdeal == pc = "done" => result = IdealFind(tbl, search)

\* termination: the loop body runs at most floor(log2(n)) + 1 times
RECURSIVE Pow2(_)
Pow2(k) == IF k = 0 THEN 1 ELSE 2 * Pow2(k - 1)
Progress == iters = 0 \/ Pow2(iters - 1) <= Len(tbl)
Terminates == <>(pc = "done")

\* ---------------------------------------------------------------- oracle run (spec -> code)
\* writes every table of the bound with the ideal answer for every search string (in the
\* order of SearchSeq) to the JSON file IOEnv.ORACLE_OUT; the replayer feeds exactly these
\* to the compiled search_sorted.  One state per table, so TLC's state count = table count.
SearchSeq == SetToSeq(Searches)      \* any fixed order (not sorted: recursion over hundreds of elements overflows the stack)
Answers(t) == [i \in 1..Len(SearchSeq) |-> IdealFind(t, SearchSeq[i])]
TInit == /\ names \in Tables /\ tbl = GenSort(names) /\ search = <<>>
         /\ pc = "oracle" /\ left = 0 /\ right = 0 /\ result = Unset /\ iters = 0
TSpec == TInit /\ [][UNCHANGED vars]_vars
OracleDump == LET ts == SetToSeq(Tables)
                  out == [searches |-> SearchSeq,
                          tables |-> [i \in 1..Len(ts) |-> LET t == GenSort(ts[i]) IN [tbl |-> t, ans |-> Answers(t)]]]
              IN JsonSerialize(IOEnv.ORACLE_OUT, out)
ASSUME Variant # "oracle" \/ OracleDump
=============================================================================
