SPECIFICATION TSpec
CONSTANTS ISz = 1
  RootLen = 1
  RootKind = "arr"
  MaxViews = 1
  MaxSteps = 1
  IdxNeg = 0
  IdxHi = 0
  Seeds = {0}
  Prune = FALSE
  Variant = "faithful"
CHECK_DEADLOCK FALSE
