---------------------------- MODULE Trace_Unpack ----------------------------
(* Validates records taken from the real ffi.unpack against the IDEAL of Unpack.tla (C18).
   A record: [cls, sz, al  -- the item type (class, size, alignment)
              mis          -- start address modulo 16
              n, mem       -- item count and the n*sz bytes at the start address
              nan          -- some float item is a NaN (then values are not compared with the
                              spec's symbolic decoding, only with each other)
              u            -- observed ffi.unpack(p, n):           [st, vals]
              l            -- observed [p[i] for i in range(n)]:   [st, vals] (joined for chars)]
   (mem may be longer than n*sz: the bytes after the n items are there, and must not matter.)
   Verdicts: "units"    2-byte characters: the result does not encode exactly the items 0..n-1 -> violation
             "differs"  u is not the element-wise result l (nor, for 2-byte characters, its
                        UTF-16 reading)                              -> violation of C18
             "decode"   u = l but the spec's decoding of the bytes is different   -> note only
   One <<"VERDICT", k, verdict, casenum>> per record that is not ok, then <<"CHECKED", n, cases>>. *)
EXTENDS UnpackOps, Json, IOUtils
VARIABLE k
Data == JsonDeserialize(IOEnv.TRACE_FILE)

TyOf(r) == [cls |-> r.cls, sz |-> r.sz, al |-> r.al]
Norm(x) == [st |-> x.st, vals |-> [i \in 1..Len(x.vals) |-> V(x.vals[i].t, x.vals[i].n, x.vals[i].a)]]
AllowedFrom(t, l) == IF t.cls = "char" /\ t.sz = 2 /\ l.st = "ok" THEN {l, [st |-> "ok", vals |-> Utf16(l.vals)]} ELSE {l}

Verdict(r) ==
  LET t == TyOf(r)  u == Norm(r.u)  l == Norm(r.l) IN
  IF ~UnitsAreItems(t, r.mem, r.n, u) THEN "units"
  ELSE IF u \notin AllowedFrom(t, l) THEN "differs"
  ELSE IF ~r.nan /\ l # Elementwise(t, r.mem, r.n) THEN "decode"
  ELSE "ok"

TInit == k = 1
TNext == \/ /\ k <= Len(Data)
            /\ LET v == Verdict(Data[k]) IN
                 IF v = "ok" THEN TRUE ELSE PrintT(<<"VERDICT", k, v, CaseNum(TyOf(Data[k]), Data[k].mis)>>)
            /\ k' = k + 1
         \/ /\ k = Len(Data) + 1
            /\ PrintT(<<"CHECKED", Len(Data), {CaseNum(TyOf(Data[i]), Data[i].mis) : i \in 1..Len(Data)}>>)
            /\ k' = k + 1
TSpec == TInit /\ [][TNext]_k
=============================================================================
