------------------------------ MODULE Lifetime ------------------------------
(* Implementation model behind C21: CPython reference counting + the cycle collector, and what the
   cdata types of src/c/_cffi_backend.c do when they are deallocated, finalized or released:
     cdatagcp_dealloc / cdatagcp_finalize (tp_finalize) / gcp_finalize      ffi.gc(), allocators
     cdata_exit + explicit_release_case                                      ffi.release(), with
     b_gcp with destructor None                                              ffi.gc(w, None)
     allocate_with_allocator + direct_newp (CT_IS_PTR_TO_OWNED pair)         ffi.new_allocator()
     cdataowning_dealloc (structobj), cdata_subscript (p[0] = structobj)     ffi.new("struct s *")
     direct_from_buffer / cdatafrombuf_dealloc / cdatafrombuf_clear          ffi.from_buffer()
     newp_handle / b_from_handle / cdataowninggc_dealloc / _clear            handles
   An entity o has a top object (top[o]) and, for kinds S and T, an owner object (own[o]): the
   struct owning the memory (S) resp. the CDataGCP struct whose destructor is the allocator's free
   (T).  An object is deallocated at the moment nothing holds it (reference counting); objects
   held only through reference cycles are reclaimed by Collect (tp_finalize of every unreachable
   CDataGCP first, then the cycles are broken).

   Variant selects deliberately broken variants that TLC must reject (non-vacuity):
     "nofieldclear"  cdatagcp_finalize leaves cd->destructor / cd->origobj set
     "gcnonenoop"    ffi.gc(w, None) does not clear the destructor
     "structnoref"   the pointer returned by ffi.new("struct s *") does not hold its struct object
     "doublerelease" releasing a from_buffer view twice releases the Py_buffer twice
     "clear-after-call" cdatagcp_finalize clears cd->destructor / cd->origobj only after the destructor
                     returned (a nested ffi.release() from inside the destructor runs it again) *)
EXTENDS LifetimeIdeal, TLC
CONSTANTS Variant, MaxAddr,
          KindsOn    \* the kinds of entities this configuration creates
VARIABLES h,      \* the heap (a record of functions over Ids, see HInit)
          ev      \* the last operation as the event record the ideal reads
vars == <<kind, name, alias, cyc, tgt, armed, relsd, gone, haddr, h, ev>>
View == <<kind, name, alias, cyc, tgt, armed, relsd, gone, haddr, h>>

F == [o \in Ids |-> FALSE]
HInit == [top |-> F, own |-> F,
          dt |-> F,            \* destructor field non-NULL (W, A: top object; T: owner object)
          og |-> F,            \* origobj field non-NULL (W: holds the target; A, T: hold the raw memory)
          vr |-> F,            \* V: bufferview->obj non-NULL (holds one export of the exporter)
          sc |-> F,            \* self cycle: W: the destructor's closure refers to w; H: the object refers to h
          ex |-> [o \in Ids |-> 0],    \* E: ob_exports of the bytearray
          rl |-> [o \in Ids |-> 0]]    \* W: the wrapper that o's destructor releases (ffi.release) when it runs; 0: none
NoEv == [op |-> "init", o |-> 0, k |-> "", t |-> 0, via |-> "", sc |-> FALSE, ran |-> <<>>, exc |-> "",
         obs |-> FALSE, addr |-> 0, nrel |-> <<>>, rl |-> 0]
Init == IInit /\ h = HInit /\ ev = NoEv

Set(f, o, v) == [f EXCEPT ![o] = v]
\* ------------------------------------------------------------------ who holds what
TopHeld(g, o) == \/ name[o] \/ cyc[o]
                 \/ g.sc[o] /\ (kind[o] = "H" \/ g.dt[o])
                 \/ \E w \in Ids : kind[w] = "W" /\ g.top[w] /\ g.og[w] /\ tgt[w] = o
                 \/ kind[o] = "E" /\ \E v \in Ids : kind[v] = "V" /\ g.top[v] /\ g.vr[v] /\ tgt[v] = o
\* the same with the program's references given explicitly (they change in the same step)
TopHeldR(g, o, nm, cy) == \/ nm[o] \/ cy[o]
                          \/ g.sc[o] /\ (kind[o] = "H" \/ g.dt[o])
                          \/ \E w \in Ids : kind[w] = "W" /\ g.top[w] /\ g.og[w] /\ tgt[w] = o
                          \/ kind[o] = "E" /\ \E v \in Ids : kind[v] = "V" /\ g.top[v] /\ g.vr[v] /\ tgt[v] = o

R(g, ran) == [g |-> g, ran |-> ran, nrel |-> <<>>]
RN(g, ran, nrel) == [g |-> g, ran |-> ran, nrel |-> nrel]
\* the owner object of S / T loses its holder `top`: freed unless the alias p[0] is referenced
FreeOwn(g, o, al) ==
    IF ~g.own[o] \/ al[o] THEN R(g, <<>>)
    ELSE IF kind[o] = "T"           \* cdatagcp_dealloc of the struct: free(raw) if not yet finalized
         THEN R([g EXCEPT !.own = Set(@, o, FALSE), !.dt = Set(@, o, FALSE), !.og = Set(@, o, FALSE)],
                IF g.dt[o] THEN <<o>> ELSE <<>>)
         ELSE R([g EXCEPT !.own = Set(@, o, FALSE)], <<>>)

MaxNest == 2      \* the replayer's destructors nest ffi.release() at most this deep
RECURSIVE FreeTop(_, _, _, _, _), FinalizeD(_, _, _, _, _, _), NestRel(_, _, _, _, _, _)

\* The body of o's destructor (re-entrancy): the program's destructor may call ffi.release() on the
\* wrapper g.rl[o] it holds by name - possibly o itself, which is being finalized right now.
NestRel(g, o, d, nm, cy, al) ==
    LET x == g.rl[o] IN
    IF x = 0 \/ d = 0 THEN R(g, <<>>)
    ELSE IF ~(kind[x] = "W" /\ nm[x] /\ g.top[x]) THEN R(g, <<>>)
    ELSE LET f == FinalizeD(g, x, d - 1, nm, cy, al) IN RN(f.g, f.ran, <<x>> \o f.nrel)

\* cdatagcp_finalize(cd): destructor = cd->destructor; origobj = cd->origobj; both fields are
\* NULLed *before* gcp_finalize(destructor, origobj) calls the destructor and drops origobj
FinalizeD(g, o, d, nm, cy, al) ==
    LET keep  == Variant = "nofieldclear"
        after == Variant = "clear-after-call"      \* broken: the fields are cleared after the call
        clr(x) == [x EXCEPT !.dt = Set(@, o, FALSE), !.og = Set(@, o, FALSE)]
        g2 == IF keep \/ after THEN g ELSE clr(g)
        r0 == IF g.dt[o] THEN <<o>> ELSE <<>>
        n  == IF g.dt[o] THEN NestRel(g2, o, d, nm, cy, al) ELSE R(g2, <<>>)      \* the destructor runs
        g3 == IF after THEN clr(n.g) ELSE n.g
    IN IF kind[o] = "W" /\ g.og[o] /\ ~keep /\ g3.top[tgt[o]] /\ ~TopHeldR(g3, tgt[o], nm, cy)
       THEN LET x == FreeTop(g3, tgt[o], nm, cy, al) IN RN(x.g, r0 \o n.ran \o x.ran, n.nrel \o x.nrel)
       ELSE RN(g3, r0 \o n.ran, n.nrel)

\* tp_dealloc of the top object of o (nothing holds it any more), with everything that follows
FreeTop(g, o, nm, cy, al) ==
    LET g1 == [g EXCEPT !.top = Set(@, o, FALSE)] IN
    CASE kind[o] = "W" ->        \* cdatagcp_dealloc: fields read, object freed, destructor(origobj); DECREF both
           LET g2 == [g1 EXCEPT !.dt = Set(@, o, FALSE), !.og = Set(@, o, FALSE)]
               r0 == IF g.dt[o] THEN <<o>> ELSE <<>>
               n  == IF g.dt[o] THEN NestRel(g2, o, MaxNest, nm, cy, al) ELSE R(g2, <<>>)
               t  == tgt[o]
           IN IF g.og[o] /\ n.g.top[t] /\ ~TopHeldR(n.g, t, nm, cy)
              THEN LET x == FreeTop(n.g, t, nm, cy, al) IN RN(x.g, r0 \o n.ran \o x.ran, n.nrel \o x.nrel)
              ELSE RN(n.g, r0 \o n.ran, n.nrel)
      [] kind[o] = "A" ->
           R([g1 EXCEPT !.dt = Set(@, o, FALSE), !.og = Set(@, o, FALSE)], IF g.dt[o] THEN <<o>> ELSE <<>>)
      [] kind[o] \in {"S", "T"} ->   \* cdataowning_dealloc: Py_DECREF(structobj)
           FreeOwn(g1, o, al)
      [] kind[o] = "V" ->        \* cdatafrombuf_dealloc: PyBuffer_Release(view)
           IF ~g.vr[o] THEN R(g1, <<>>)
           ELSE LET e  == tgt[o]
                    g2 == [g1 EXCEPT !.vr = Set(@, o, FALSE), !.ex = Set(@, e, g1.ex[e] - 1)]
                IN IF g2.top[e] /\ ~TopHeldR(g2, e, nm, cy) THEN R([g2 EXCEPT !.top = Set(@, e, FALSE)], <<>>)
                   ELSE R(g2, <<>>)
      [] OTHER -> R(g1, <<>>)     \* P, E, H

\* o may just have lost a holder
MaybeFree(g, o, nm, cy, al) ==
    IF g.top[o] /\ ~TopHeldR(g, o, nm, cy) THEN FreeTop(g, o, nm, cy, al) ELSE R(g, <<>>)

Finalize(g, o) == FinalizeD(g, o, MaxNest, name, cyc, alias)

\* ------------------------------------------------------------------ operations
\* Each operation builds the event e (the model's prediction) and applies the ideal's effect.
Ev(op, o, k, t, via, s, ran, exc, obs, addr) ==
    [op |-> op, o |-> o, k |-> k, t |-> t, via |-> via, sc |-> s, ran |-> ran, exc |-> exc, obs |-> obs,
     addr |-> addr, nrel |-> <<>>, rl |-> 0]
EvN(e, nrel) == [e EXCEPT !.nrel = nrel]
Step(e, g) == ev' = e /\ h' = g /\ Effect(e)
Unused == {o \in Ids : kind[o] = ""}
NextId == CHOOSE o \in Unused : \A p \in Unused : o <= p

New(k) ==               \* ffi.new(), allocator(), bytearray()
    /\ Unused # {} /\ k \in {"P", "S", "A", "T", "E"} \cap KindsOn
    /\ LET o == NextId
           g == [h EXCEPT !.top = Set(@, o, TRUE), !.own = Set(@, o, k \in {"S", "T"}),
                          !.dt = Set(@, o, k \in {"A", "T"}), !.og = Set(@, o, k \in {"A", "T"})]
       IN Step(Ev("new", o, k, 0, "", FALSE, <<>>, "", FALSE, 0), g)

NewW(t, s, r) ==        \* ffi.gc(t, destructor): allocate_gcp_object; the destructor releases wrapper r (0: none)
    /\ Unused # {} /\ "W" \in KindsOn /\ kind[t] \in {"P", "S", "W", "A", "T", "V"} /\ name[t]
    /\ LET o == NextId
           g == [h EXCEPT !.top = Set(@, o, TRUE), !.dt = Set(@, o, TRUE), !.og = Set(@, o, TRUE), !.sc = Set(@, o, s),
                          !.rl = Set(@, o, r)]
       IN Step([Ev("new", o, "W", t, "", s, <<>>, "", FALSE, 0) EXCEPT !.rl = r], g)

NewV(e) ==              \* ffi.from_buffer(e): PyObject_GetBuffer
    /\ Unused # {} /\ "V" \in KindsOn /\ kind[e] = "E" /\ name[e]
    /\ LET o == NextId
           g == [h EXCEPT !.top = Set(@, o, TRUE), !.vr = Set(@, o, TRUE), !.ex = Set(@, e, h.ex[e] + 1)]
       IN Step(Ev("new", o, "V", e, "", FALSE, <<>>, "", FALSE, 0), g)

NewH(s, a) ==           \* ffi.new_handle(x): the address is that of the handle object itself
    /\ Unused # {} /\ "H" \in KindsOn /\ a \in 1..MaxAddr
    /\ \A x \in Ids : (kind[x] = "H" /\ h.top[x]) => haddr[x] # a      \* malloc: not the address of a live object
    /\ LET o == NextId
           g == [h EXCEPT !.top = Set(@, o, TRUE), !.sc = Set(@, o, s)]
       IN Step(Ev("new", o, "H", 0, "", s, <<>>, "", FALSE, a), g)

Alias(o) ==             \* s = p[0]: cdata_subscript returns structobj
    /\ kind[o] \in {"S", "T"} /\ name[o]
    /\ Step(Ev("alias", o, "", 0, "", FALSE, <<>>, "", FALSE, 0), h)

DropAlias(o) ==
    /\ kind[o] \in {"S", "T"} /\ alias[o]
    /\ LET al == [alias EXCEPT ![o] = FALSE]
           x == IF h.top[o] /\ Variant # "structnoref" THEN R(h, <<>>) ELSE FreeOwn(h, o, al)
       IN Step(Ev("dropalias", o, "", 0, "", FALSE, x.ran, "", FALSE, 0), x.g)

Drop(o) ==              \* del name
    /\ kind[o] # "" /\ name[o]
    /\ LET nm == [name EXCEPT ![o] = FALSE]
           x == MaybeFree(h, o, nm, cyc, alias)
       IN Step(EvN(Ev("drop", o, "", 0, "", FALSE, x.ran, "", FALSE, 0), x.nrel), x.g)

Cycle(o) ==             \* c = [o]; c.append(c); del c, name
    /\ kind[o] # "" /\ name[o]
    /\ Step(Ev("cycle", o, "", 0, "", FALSE, <<>>, "", FALSE, 0), h)

Release(o, via) ==      \* ffi.release(x) / with x: cdata_exit
    /\ kind[o] \in {"P", "S", "W", "A", "T", "V"}
    /\ IF via = "alias" THEN kind[o] = "T" /\ alias[o] ELSE name[o]
    /\ LET x == CASE kind[o] \in {"W", "A", "T"} -> Finalize(h, o)
                  [] kind[o] = "V" ->           \* PyBuffer_Release(view)
                       IF ~h.vr[o] /\ Variant # "doublerelease" THEN R(h, <<>>)
                       ELSE LET e  == tgt[o]
                                g2 == [h EXCEPT !.vr = Set(@, o, FALSE), !.ex = Set(@, e, IF @[e] > 0 THEN @[e] - 1 ELSE 0)]
                            IN IF g2.top[e] /\ ~TopHeld(g2, e) THEN R([g2 EXCEPT !.top = Set(@, e, FALSE)], <<>>)
                               ELSE R(g2, <<>>)
                  [] OTHER -> R(h, <<>>)        \* "no effect on CPython"
       IN Step(EvN(Ev("release", o, "", 0, via, FALSE, x.ran, "", FALSE, 0), x.nrel), x.g)

GcNone(o) ==            \* ffi.gc(w, None): Py_CLEAR(destructor)
    /\ kind[o] = "W" /\ name[o]
    /\ LET g == IF Variant = "gcnonenoop" THEN h ELSE [h EXCEPT !.dt = Set(@, o, FALSE)]
       IN Step(Ev("gcnone", o, "", 0, "", FALSE, <<>>, "", FALSE, 0), g)

\* gc.collect(): objects not reachable from the program's references but still allocated
HEdge(o) == (IF kind[o] = "W" /\ h.og[o] THEN {tgt[o]} ELSE {}) \cup
            (IF kind[o] = "V" /\ h.vr[o] THEN {tgt[o]} ELSE {})
RECURSIVE HClosure(_)
HClosure(S) == LET N == S \cup UNION {HEdge(o) : o \in S} IN IF N = S THEN S ELSE HClosure(N)
RootReach == HClosure({o \in Ids : name[o] /\ h.top[o]})
Garbage == {o \in Ids : h.top[o] /\ o \notin RootReach}
SeqOf(S) == LET RECURSIVE mk(_) mk(T) == IF T = {} THEN <<>> ELSE
                     LET m == CHOOSE x \in T : \A y \in T : x <= y IN <<m>> \o mk(T \ {m})
            IN mk(S)
Collect ==
    /\ TRUE        \* (keeps the action's own name in TLC's dumps)
    /\ LET U == Garbage
        fin == {o \in U : h.dt[o] /\ (kind[o] \in {"W", "A"} \/ (kind[o] = "T" /\ ~alias[o]))}
        g == [h EXCEPT !.top = [o \in Ids |-> @[o] /\ o \notin U],
                       !.own = [o \in Ids |-> @[o] /\ (o \notin U \/ alias[o])],
                       !.dt = [o \in Ids |-> @[o] /\ (o \notin U \/ (kind[o] = "T" /\ alias[o]))],
                       !.og = [o \in Ids |-> @[o] /\ (o \notin U \/ (kind[o] = "T" /\ alias[o]))],
                       !.vr = [o \in Ids |-> @[o] /\ o \notin U],
                       !.ex = [e \in Ids |-> @[e] - Cardinality({v \in U : kind[v] = "V" /\ h.vr[v] /\ tgt[v] = e})]]
       IN Step(Ev("collect", 0, "", 0, "", FALSE, SeqOf(fin), "", FALSE, 0), g)

\* probes
ProbeLock(e) ==         \* e.extend(b"x"): BufferError iff ob_exports > 0
    /\ kind[e] = "E" /\ h.top[e]
    /\ Step(Ev("probelock", e, "", 0, "", FALSE, <<>>, "", h.ex[e] > 0, 0), h)
ProbeAlive(e) ==
    /\ kind[e] = "E"
    /\ Step(Ev("probealive", e, "", 0, "", FALSE, <<>>, "", h.top[e], 0), h)
ProbeStruct(o) ==
    /\ kind[o] \in {"S", "T"} /\ (name[o] \/ alias[o])
    /\ Step(Ev("probestruct", o, "", 0, "", FALSE, <<>>, "", h.own[o] /\ (kind[o] = "T" => h.og[o]), 0), h)
FromHandle(o) ==
    /\ kind[o] = "H" /\ name[o]
    /\ Step(Ev("fromhandle", o, "", 0, "", FALSE, <<>>, "", TRUE, 0), h)

Next == \/ \E k \in {"P", "S", "A", "T", "E"} : New(k)
        \/ \E t \in Ids, s \in BOOLEAN, r \in Ids \cup {0} : NewW(t, s, r)
        \/ \E e \in Ids : NewV(e)
        \/ \E s \in BOOLEAN, a \in 1..MaxAddr : NewH(s, a)
        \/ \E o \in Ids : Alias(o)
        \/ \E o \in Ids : DropAlias(o)
        \/ \E o \in Ids : Drop(o)
        \/ \E o \in Ids : Cycle(o)
        \/ \E o \in Ids, via \in {"name", "alias"} : Release(o, via)
        \/ \E o \in Ids : GcNone(o)
        \/ Collect
        \/ \E o \in Ids : ProbeLock(o)
        \/ \E o \in Ids : ProbeAlive(o)
        \/ \E o \in Ids : ProbeStruct(o)
        \/ \E o \in Ids : FromHandle(o)
Spec == Init /\ [][Next]_vars

\* ------------------------------------------------------------------ properties
\* the model refines the ideal: every step satisfies the guard of the property machine
\* (the ideal's effects are applied by construction)
RefinesIdeal == [][Guard(ev')]_vars
\* reference counting leaves nothing allocated that nobody holds
NoLeak == \A o \in Ids : h.top[o] => TopHeld(h, o)
\* exports are counted exactly
ExportsExact == \A e \in Ids : kind[e] = "E" =>
                   h.ex[e] = Cardinality({v \in Ids : kind[v] = "V" /\ h.vr[v] /\ tgt[v] = e})
\* the model's destructor field and the ideal's "armed" agree
ArmedAgree == \A o \in Ids : HasDtor(kind[o]) => ((armed[o] = "armed") = h.dt[o])
=============================================================================
