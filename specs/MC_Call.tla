------------------------------ MODULE MC_Call ------------------------------
(* Design-level check for C13: the two integer conversion algorithms the four call paths
   really use (ApiInt: generated _cffi_to_c_iN/_uN/_Bool code, bounds compared explicitly;
   FfiInt: convert_from_object, write / read back / compare) are equal to the range rule
   of ConvertArg, for EVERY Python value of the universe below and every integer type.
   Base = 4: char 2 bits, short 4, int 8, long long 16 bits; the universe holds every
   (and the two places that store a struct argument are equal to ConvStruct: zeroed, then
   the given fields).  The universe holds every integer of -Window..Window, all values within Edge of +-2^15, +-2^16 (the 64-bit
   boundaries of this scale), far values, and the non-integer value classes. *)
EXTENDS Call
CONSTANTS Window, Edge, Variant
VARIABLES t, v, phase, out
vars == <<t, v, phase, out>>

Types == {IntT(s, sg) : s \in {1, 2, 4, 8}, sg \in BOOLEAN} \cup {BoolT}

P15 == 32768
P16 == 65536
IntVals == (0 - Window)..Window
           \cup UNION {{c - Edge + d : d \in 0..(2 * Edge)} : c \in {P15, P16, 0 - P15, 0 - P16}}
           \cup {P16 * 4 + 3, 0 - (P16 * 4 + 3)}
FImg == [d |-> Zeros(8), f |-> Zeros(4), fd |-> Zeros(8)]
PyI(n) == [k |-> "int", neg |-> FromInt(n).neg, mag |-> FromInt(n).mag, fl |-> <<>>, flovf |-> FALSE]
Others == {[k |-> "float", d |-> Zeros(8), f |-> Zeros(4), fd |-> Zeros(8)],
           [k |-> "none"], [k |-> "bytes", data |-> <<1>>], [k |-> "str"],
           [k |-> "pybool", b |-> TRUE], [k |-> "pybool", b |-> FALSE],
           [k |-> "list", items |-> <<>>],
           [k |-> "cfloat", ct |-> FloatT(8), d |-> Zeros(8), f |-> Zeros(4), fd |-> Zeros(8)],
           [k |-> "cptr", ct |-> PtrT(I32), cell |-> 0]}
          \cup {[k |-> "intobj", v |-> FromInt(n)] : n \in {0, 1, 0 - 1, 3, 4, 200, P16}}
          \cup {[k |-> "cint", ct |-> IntT(s, sg), c |-> Enc(FromInt(n), s)] :
                   s \in {1, 2}, sg \in BOOLEAN, n \in {0, 1, 2}}
          \cup {[k |-> "cint", ct |-> IntT(8, TRUE), c |-> Enc(FromInt(0 - 1), 8)],
                [k |-> "cint", ct |-> IntT(8, FALSE), c |-> Ones(8)],
                [k |-> "cint", ct |-> CharT, c |-> <<3>>]}
Universe == {PyI(n) : n \in IntVals} \cup Others

\* structs by value: the destination (argument slot / wrapper local) is garbage, zeroed, filled
SA == [k |-> "struct", tag |-> "sA", fields |-> <<IntT(1, TRUE), IntT(4, TRUE)>>]
SB == [k |-> "struct", tag |-> "sB", fields |-> <<IntT(2, FALSE), BoolT, IntT(1, TRUE)>>]
StructTypes == {SA, SB}
Lst(xs) == [k |-> "list", items |-> xs]
Items == {PyI(0), PyI(1), PyI(0 - 1), PyI(3), PyI(200), [k |-> "none"]}
StructVals == {Lst(<<>>)} \cup {Lst(<<a>>) : a \in Items} \cup {Lst(<<a, b>>) : a, b \in Items}
              \cup {Lst(<<a, b, c>>) : a, b, c \in {PyI(1), PyI(0 - 1), [k |-> "none"]}}
              \cup {Lst(<<PyI(1), PyI(1), PyI(1), PyI(1)>>), [k |-> "none"], PyI(0)}
              \cup {[k |-> "dict", keys |-> ks, items |-> [j \in 1..Len(ks) |-> a]] :
                       ks \in {<<>>, <<1>>, <<2>>, <<2, 1>>}, a \in {PyI(1), PyI(200), [k |-> "none"]}}
              \cup {[k |-> "cstruct", ct |-> SA, vals |-> <<PyI(0 - 1), PyI(3)>>],
                    [k |-> "cstruct", ct |-> SB, vals |-> <<PyI(3), PyI(1), PyI(1)>>]}
Garbage(n) == [j \in 1..n |-> Base - 1]
\* convertible initializers of SA: full, short, empty, dict
OkItems == {Lst(<<>>), Lst(<<PyI(1)>>), Lst(<<PyI(0 - 1), PyI(3)>>),
            [k |-> "dict", keys |-> <<2>>, items |-> <<PyI(100)>>]}

Init == t \in Types \cup StructTypes /\ v = None /\ phase = "start" /\ out = <<>>
Pick == /\ phase = "start"
        /\ v' \in IF t.k = "struct" THEN {x \in StructVals : x.k # "dict" \/ \A j \in 1..Len(x.keys) : x.keys[j] <= Len(t.fields)}
                   ELSE Universe
        /\ phase' = "arg"
        /\ UNCHANGED <<t, out>>
Convert == /\ phase = "arg"
           /\ phase' = "done"
           /\ out' = IF t.k = "struct"
                     THEN [api |-> StructStore(Garbage(SizeT(t)), t, v, Variant # "api_struct_nozero"),   \* _cffi_f_ wrapper
                           ffi |-> StructStore(Garbage(SizeT(t)), t, v, Variant # "ffi_struct_nozero")]   \* cdata_call slot
                     ELSE [api |-> ApiInt(t, v, Variant), ffi |-> FfiInt(t, v, Variant)]
           /\ UNCHANGED <<t, v>>
Next == Pick \/ Convert
Spec == Init /\ [][Next]_vars

\* one invariant per clause
ApiIsRule == (phase = "done" /\ t.k # "struct") => out.api = IdealInt(t, v)
FfiIsRule == (phase = "done" /\ t.k # "struct") => out.ffi = IdealInt(t, v)
PathsAgree == phase = "done" => out.api = out.ffi
\* what the C function receives for a struct argument is the rule's value: missing fields are zero
StoreIsRule(o) == LET id == ConvStruct(t, v) IN
                  /\ o.ok = id.ok /\ o.exc = id.exc
                  /\ id.ok => o.b = ImgOf(t, id.c)
ApiStructIsRule == (phase = "done" /\ t.k = "struct") => StoreIsRule(out.api)
FfiStructIsRule == (phase = "done" /\ t.k = "struct") => StoreIsRule(out.ffi)

\* non-vacuity, evaluated by TLC in the same run: every broken variant of section 5 / 7 differs
\* from the rule somewhere in a small universe (the check also runs them as separate
\* configurations in the thorough tier)
SmallU == {PyI(n) : n \in ((0 - 20)..20) \cup {255, 256}} \cup {[k |-> "pybool", b |-> TRUE]}
ASSUME \E ty \in Types, x \in SmallU : ApiInt(ty, x, "api_uge") # IdealInt(ty, x)
ASSUME \E ty \in Types, x \in SmallU : FfiInt(ty, x, "ffi_zeroext") # IdealInt(ty, x)
ASSUME \E ty \in Types, x \in SmallU : FfiInt(ty, x, "bool_range") # IdealInt(ty, x)
ASSUME \E x \in {y \in StructVals : y.k = "list"} :
          LET id == ConvStruct(SA, x) o == StructStore(Garbage(SizeT(SA)), SA, x, FALSE) IN id.ok /\ o.b # ImgOf(SA, id.c)

\* the temporary array of structs built from a list argument equals the rule's zero-completed
\* items, below and above the alloca threshold (8 digits here); without the memset of the
\* malloc'ed array ("heap_nozero") it does not
OkLists == {<<a>> : a \in OkItems} \cup {<<a, b>> : a, b \in OkItems} \cup {<<a, b, c>> : a, b, c \in OkItems}
ASSUME \A l \in OkLists : TmpArrayStore(SA, l, 8, "faithful") = IdealItems(SA, l, 1)
ASSUME \E l \in OkLists : TmpArrayStore(SA, l, 8, "heap_nozero") # IdealItems(SA, l, 1)
ASSUME \A l \in {m \in OkLists : Len(m) = 1} : TmpArrayStore(SA, l, 8, "heap_nozero") = IdealItems(SA, l, 1)

\* the digit library against TLC's own integers (the values of the window fit natively)
ValOf(x) == IF x.neg THEN 0 - NatOf(x.mag) ELSE NatOf(x.mag)
RECURSIVE Pow(_, _)
Pow(b, e) == IF e = 0 THEN 1 ELSE b * Pow(b, e - 1)
DigitsSound ==
    (phase = "arg" /\ v.k = "int" /\ t.k = "int") =>
        LET n == ValOf(v) bits == Pow(Base, t.size) IN
        /\ InRange(v, t.size, t.signed) =
              (IF t.signed THEN n >= 0 - (bits \div 2) /\ n <= (bits \div 2) - 1
               ELSE n >= 0 /\ n <= bits - 1)
        /\ InRange(v, t.size, t.signed) =>
              /\ NatOf(Enc(v, t.size)) = (IF n < 0 THEN n + bits ELSE n)
              /\ Dec(Enc(v, t.size), t.signed) = FromInt(n)
              /\ ValOf(Dec(AddC(Enc(v, t.size), Enc(v, t.size)), FALSE)) = (2 * (IF n < 0 THEN n + bits ELSE n)) % bits
=============================================================================
