------------------------------ MODULE AtomicWriteIdeal ------------------------------
(* C23(b) -- the property itself: a small POSIX file-system machine plus the clauses
   "the target holds the complete old or the complete new content at every instant"
   (hence at every crash point), "identical content => nothing is touched and the call
   reports not-updated", "otherwise the call reports updated and the target is new".

   The machine is written functionally: a file-system state S is a record and Apply(S, e)
   is the state after the system-call event e, so that the same operators serve the
   exhaustive model (AtomicWrite.tla) and the validation of strace logs of the real
   _make_c_or_py_source (Trace_AtomicWrite.tla).

   Content is abstract.  An inode is [tag, n]:
     tag "old"  the complete previous content of the target (only when it differed)
     tag "new"  n units (chunks in the model, bytes in a strace log) of the new text,
                complete iff n = env.newlen
     tag "junk" anything else
   env = [old |-> "absent" | "same" | "diff", newlen |-> Nat]  describes the situation
   before the call: no target / target identical to the new text / different target.  *)
EXTENDS Integers, Sequences, FiniteSets, TLC

T == "T"                                   \* the target path

Lookup(S, p) == IF p \in DOMAIN S.fs THEN S.fs[p] ELSE 0       \* 0: no such file

InitFS(env, pre) ==                        \* pre: paths that already hold junk (stale temp files)
    LET base == [p \in pre |-> 2]
        junk == (2 :> [tag |-> "junk", n |-> 0])
    IN [fs   |-> IF env.old = "absent" THEN base ELSE (T :> 1) @@ base,
        ino  |-> IF env.old = "absent" THEN junk
                 ELSE (1 :> IF env.old = "same" THEN [tag |-> "new", n |-> env.newlen]
                                                ELSE [tag |-> "old", n |-> 0]) @@ junk,
        hnd  |-> << >>,                    \* fd -> [ino, w]
        next |-> 3,                        \* next inode number
        ver  |-> 0,                        \* bumped by everything that touches the target (name, content, mtime)
        env  |-> env]

DropKey(f, k) == [x \in DOMAIN f \ {k} |-> f[x]]
Put(f, k, v) == (k :> v) @@ f

TargetIno(S) == Lookup(S, T)
Touches(S, i) == i # 0 /\ i = TargetIno(S)          \* inode i is what the target path names

\* ---------------------------------------------------------------- effects of the system calls
\* open(p, O_RDONLY) = fd  /  open(p, O_WRONLY|O_CREAT|O_TRUNC) = fd ; fd < 0: the call failed
Open(S, p, w, fd) ==
    LET i == Lookup(S, p) IN
    IF fd < 0 THEN S
    ELSE IF ~w THEN [S EXCEPT !.hnd = Put(S.hnd, fd, [ino |-> i, w |-> FALSE])]
    ELSE IF i = 0
         THEN [S EXCEPT !.fs = Put(S.fs, p, S.next),
                        !.ino = Put(S.ino, S.next, [tag |-> "new", n |-> 0]),
                        !.next = S.next + 1,
                        !.hnd = Put(S.hnd, fd, [ino |-> S.next, w |-> TRUE]),
                        !.ver = IF p = T THEN S.ver + 1 ELSE S.ver]
         ELSE [S EXCEPT !.ino = Put(S.ino, i, [tag |-> "new", n |-> 0]),          \* O_TRUNC
                        !.hnd = Put(S.hnd, fd, [ino |-> i, w |-> TRUE]),
                        !.ver = IF Touches(S, i) THEN S.ver + 1 ELSE S.ver]
Write(S, fd, n) ==
    IF fd \notin DOMAIN S.hnd \/ ~S.hnd[fd].w THEN S          \* stdout etc.: not a file of ours
    ELSE LET i == S.hnd[fd].ino
             f == S.ino[i]
         IN [S EXCEPT !.ino = Put(S.ino, i, IF f.tag = "new" THEN [tag |-> "new", n |-> f.n + n]
                                            ELSE [tag |-> "junk", n |-> 0]),
                      !.ver = IF Touches(S, i) THEN S.ver + 1 ELSE S.ver]
Close(S, fd) == IF fd \in DOMAIN S.hnd THEN [S EXCEPT !.hnd = DropKey(S.hnd, fd)] ELSE S
Rename(S, a, b, ok) ==
    IF ~ok \/ Lookup(S, a) = 0 \/ a = b THEN S
    ELSE [S EXCEPT !.fs = Put(DropKey(S.fs, a), b, S.fs[a]),
                   !.ver = IF a = T \/ b = T THEN S.ver + 1 ELSE S.ver]
Unlink(S, p, ok) ==
    IF ~ok \/ Lookup(S, p) = 0 THEN S
    ELSE [S EXCEPT !.fs = DropKey(S.fs, p), !.ver = IF p = T THEN S.ver + 1 ELSE S.ver]
Crash(S) == [S EXCEPT !.hnd = << >>]       \* the process dies: handles vanish, files stay

\* an event is a record with field ev; Apply is total
Apply(S, e) ==
    CASE e.ev = "open"   -> Open(S, e.path, e.w, e.fd)
      [] e.ev = "write"  -> Write(S, e.fd, e.n)
      [] e.ev = "close"  -> Close(S, e.fd)
      [] e.ev = "rename" -> Rename(S, e.src, e.dst, e.ok)
      [] e.ev = "unlink" -> Unlink(S, e.path, e.ok)
      [] e.ev = "crash"  -> Crash(S)
      [] OTHER -> S

\* ---------------------------------------------------------------- the clauses
\* what the target holds, as a class
TargetClass(S) == LET i == TargetIno(S) IN
    IF i = 0 THEN "absent"
    ELSE LET f == S.ino[i] IN
         IF f.tag = "old" THEN "old"
         ELSE IF f.tag = "new" /\ f.n = S.env.newlen THEN "new"
         ELSE "partial"
OldClass(env) == CASE env.old = "absent" -> "absent" [] env.old = "same" -> "new" [] OTHER -> "old"

Atomic(S) == TargetClass(S) \in {OldClass(S.env), "new"}           \* complete old or complete new, always
Untouched(S) == S.env.old = "same" => S.ver = 0                     \* identical content: nothing touched
ReturnOK(S, updated) == /\ updated = (S.env.old # "same")           \* reports updated / not updated
                        /\ TargetClass(S) = "new"                   \* and the target is the new text

\* guard of an event = the clauses hold in the state it leads to; verdict names the clause
Verdict(S, e) ==
    LET S2 == Apply(S, e) IN
    IF e.ev = "ret" THEN (IF ReturnOK(S, e.updated) THEN "ok" ELSE "return")
    ELSE IF e.ev = "final"                                            \* what the harness found on disk afterwards
         THEN (IF e.cls \notin {OldClass(S.env), "new"} THEN "atomic-final"
               ELSE IF S.env.old = "same" /\ ~e.mtime_same THEN "untouched-mtime"
               ELSE "ok")
    ELSE IF ~Atomic(S2) THEN "atomic"
    ELSE IF ~Untouched(S2) THEN "untouched"
    ELSE "ok"
=============================================================================
