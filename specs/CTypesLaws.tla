----------------------------- MODULE CTypesLaws -----------------------------
(* C08: the laws that tie the implementation's name builder (CTypes!CT = ct_name and
   ct_name_position, InsertC = ffi_getctype, InsertPy = FFI.getctype + b_getcname) to the ideal
   reading of C declarators (CDeclRead!Read), checked by TLC for every ctype T of the bounded
   universe and every declarator suffix x of CDeclRead!Suffixes.  The term is grown
   constructor by constructor (so all workers share the work), then one state per pair (T, x).

   The pairs are printed for the replayer:
       <<"P", T, x, U-or-none, InsertC(T, x), InsertPy(T, x), Name(T), size-or-minus-1>>
   U is the term the suffix builds on T (ApplySuffix); none when that is no C type (array of
   void, function returning an array, ...): the property is silent there.               *)
EXTENDS CDeclRead

VARIABLES T, x, ph,
          o        \* what the implementation model produced for (T, x), computed once in LPick
lvars == <<T, x, ph, o>>

ResultOK(u) == u.k \notin {"arr", "fn"} /\ (u.k \in {"struct", "union"} => Complete(u))
ReadOf(text) == Read(Tokenize(text))
LInit == T \in Base /\ x = "" /\ ph = "grow" /\ o = [name |-> ""]
LGrow == /\ ph = "grow" /\ DepthOf(T) < Depth
         /\ \/ T' = Ptr(T)
            \/ Complete(T) /\ \E l \in Lens : T' = Arr(T, l)
            \/ ResultOK(T) /\ \E a \in ArgLists : T' = Ptr(Fn(T, a[1], a[2]))
         /\ UNCHANGED <<x, ph, o>>
LPick == /\ ph = "grow" /\ IsCType(T) /\ x' \in Suffixes /\ ph' = "law" /\ UNCHANGED T
         /\ o' = LET c == InsertC(T, x')
                     p == InsertPy(T, x')
                     rc == ReadOf(c)
                 IN [name |-> Name(T), pos |-> NamePos(T), c |-> c, py |-> p, rc |-> rc,
                     rpy |-> IF p = c THEN rc ELSE ReadOf(p)]
LSpec == LInit /\ [][LGrow \/ LPick]_lvars

U == ApplySuffix(x, T)
Denotes == IsCType(U)                        \* the suffix builds a ctype on T
Law(Q) == ph = "law" => Q
OnceT(Q) == ph = "law" /\ x = "" => Q       \* laws about T alone: evaluated once per T

(* typeof(getctype(T)) is T   (for x = "" the text is the name: law EmptyInsert) *)
NameRoundTrip == OnceT(o.rc = [r |-> "ok", t |-> T])
(* the name is the minimal-parentheses rendering of T *)
NameIsCanon == OnceT(Tokenize(o.name) = Canon(T, << >>))
(* getctype(T, "") is the name itself and ct_name_position lies inside the name *)
EmptyInsert == OnceT(o.c = o.name /\ o.pos >= 1 /\ o.pos <= Len(o.name))
(* getctype(T, x) re-parses to what x denotes, for both implementations *)
InsertDenotesC == Law(Denotes => o.rc = [r |-> "ok", t |-> U])
InsertDenotesPy == Law(Denotes => o.rpy = [r |-> "ok", t |-> U])
(* the C and the Python implementation of getctype produce the same text *)
InsertAgree == Law(o.c = o.py)
(* names identify types: evaluated once, in the initial state whose T is void *)
NameInjective == (ph = "grow" /\ T = Void) =>
                    LET UU == {v \in Universe : IsCType(v)}
                    IN Cardinality({Name(v) : v \in UU}) = Cardinality(UU)
GrowsUniverse == T \in Universe

Emit == Law(PrintT(ToString(<<"P", T, x, IF Denotes THEN U ELSE [k |-> "none"], o.c, o.py,
                              o.name, IF Complete(T) THEN SizeOf(T) ELSE -1>>)))
=============================================================================
