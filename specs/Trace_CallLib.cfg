SPECIFICATION TSpec
CONSTANTS Base = 256
VIEW View
CHECK_DEADLOCK FALSE
