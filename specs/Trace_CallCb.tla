---------------------------- MODULE Trace_CallCb ----------------------------
(* Validates records of real callback / extern "Python" invocations (C14) against the ideal
   of Call.tla section 6.  One record = one invocation by a compiled C caller:
     argts, cargs  the argument types and the C values the caller passed (constants compiled
                   into the C code), seen = what the Python function received
     body/retv, haserr/errv, onerr/onv   how the Python side was set up
     out           the bytes (image) the C caller got back;  escaped = exception type that came
                   out of the C caller's own caller ("" if none)
   Clauses: "called" (the Python function ran exactly once), "args" (passes exactly its
   argument values), "delivered" (receives the converted result / error value / onerror's
   value), "escape" (no Python exception escapes).  "spec"/"kind": the case class computed at
   this scale differs from the one MC_CallCb printed (inconsistent specification).  Base = 256. *)
EXTENDS Call, Json, IOUtils
VARIABLES i
Recs == JsonDeserialize(IOEnv.TRACE_FILE)

Kind(c) == IF c.body = "ret" /\ ConvRes(c.rt, c.retv).ok THEN "result"
           ELSE IF c.onerr = "value" THEN (IF ConvRes(c.rt, c.onv).ok THEN "onerror" ELSE "unspecified")
           ELSE IF c.haserr THEN "error" ELSE "zero"

Check(rec) ==
    LET w == Want(rec)
        argsok == /\ Len(rec.seen) = Len(rec.argts)
                  /\ \A j \in 1..Len(rec.argts) : PyEq(rec.seen[j], ToPy(rec.argts[j], rec.cargs[j]))
        v == IF rec.escaped # "" THEN "escape"
             ELSE IF rec.called # 1 THEN "called"
             ELSE IF ~argsok THEN "args"
             ELSE IF w # <<>> /\ rec.out # w[1] THEN "delivered"
             ELSE "ok"
    IN /\ IF Kind(rec) # rec.kind THEN PrintT(<<"VERDICT", rec.id, "spec", "kind", Kind(rec)>>) ELSE TRUE
       /\ IF v # "ok" THEN PrintT(<<"VERDICT", rec.id, rec.mode, v, w>>) ELSE TRUE

CheckAll == LET R == Recs IN
            /\ \A j \in 1..Len(R) : Check(R[j])
            /\ PrintT(<<"CHECKED", Len(R)>>)
TInit == i = 0 /\ (CheckAll = TRUE)
TNext == UNCHANGED i
TSpec == TInit /\ [][TNext]_i
=============================================================================
