------------------------------ MODULE TextIdeal ------------------------------
(* C15 - the property itself: character arrays and strings.

   A Python string is a sequence of code points (for the 1-byte types: of bytes 0..255).
   A character array is a sequence of *units* of W bytes, W \in {1,2,4}.  The statement of
   the property (properties.jsonl, C15) is written here as operators on these two kinds of
   sequence, and as *guards* (one per clause) over what can be observed of the real code:
   the units in memory before and after an operation and the Python value returned.
   Nothing is said about initializers that do not fit (the statement is silent).        *)
EXTENDS Integers, Sequences, FiniteSets

IsHigh(u) == u >= 55296 /\ u <= 56319          \* D800..DBFF
IsLow(u)  == u >= 56320 /\ u <= 57343          \* DC00..DFFF

\* ---- encoding: code points -> units ("astral characters go through UTF-16 surrogates
\*      for 16-bit types")
RECURSIVE Units(_, _)
Units(W, s) ==
  IF s = <<>> THEN <<>>
  ELSE LET c == Head(s) IN
       (IF W = 2 /\ c > 65535
          THEN << 55296 + ((c - 65536) \div 1024), 56320 + ((c - 65536) % 1024) >>
          ELSE << c >>) \o Units(W, Tail(s))

\* ---- decoding: units -> code points (a high surrogate immediately followed by a low one
\*      is one astral character for 16-bit types; everything else is itself)
RECURSIVE Decode(_, _)
Decode(W, u) ==
  IF u = <<>> THEN <<>>
  ELSE IF W = 2 /\ Len(u) >= 2 /\ IsHigh(u[1]) /\ IsLow(u[2])
       THEN << 65536 + (u[1] - 55296) * 1024 + (u[2] - 56320) >> \o Decode(W, SubSeq(u, 3, Len(u)))
       ELSE << u[1] >> \o Decode(W, Tail(u))

\* the input class for which UTF-16 itself is not injective: a lone high surrogate code
\* point immediately followed by a lone low surrogate code point
LonePair(s) == \E i \in 1..(Len(s) - 1) : IsHigh(s[i]) /\ IsLow(s[i + 1])
NoZero(s)   == \A i \in 1..Len(s) : s[i] # 0

Min(a, b) == IF a < b THEN a ELSE b
\* number of units before the first zero unit among the first `bound' units of mem
ZeroCut(mem, bound) ==
  LET b == Min(bound, Len(mem))
      z == {i \in 1..b : mem[i] = 0}
  IN IF z = {} THEN b ELSE (CHOOSE i \in z : \A j \in z : i <= j) - 1

\* maxlen < 0 encodes "not given"; for arrays the bound is then the array length
Bound(L, maxlen) == IF maxlen < 0 THEN L ELSE maxlen
\* ffi.string: "stops at the first zero unit within maxlen (the array length for arrays)"
String(W, mem, bound) == Decode(W, SubSeq(mem, 1, ZeroCut(mem, bound)))
\* ffi.unpack: "returns exactly length units"
UnpackV(W, mem, n) == Decode(W, SubSeq(mem, 1, n))

\* ---- clauses about ffi.new('T[]', s) / ffi.new('T[L]', s)   (mem = units after)
NewLenG(W, Ldecl, s, mem)  == Ldecl < 0 => Len(mem) = Len(Units(W, s)) + 1
\* ---- clauses about storing a string s into an array of L units (old -> new)
Fits(W, L, s)              == Len(Units(W, s)) <= L
Shorter(W, L, s)           == Len(Units(W, s)) < L
UnitsWrittenG(W, s, new)   == LET u == Units(W, s) IN
                                Len(new) >= Len(u) /\ SubSeq(new, 1, Len(u)) = u
TerminatorG(W, s, new)     == LET n == Len(Units(W, s)) IN n < Len(new) => new[n + 1] = 0
TailG(W, s, old, new)      == LET n == Len(Units(W, s)) IN
                                Len(new) = Len(old) /\ \A i \in (n + 2)..Len(old) : new[i] = old[i]
\* the memory after storing s, when shorter than the array: everything is determined
Stored(W, old, s) == LET u == Units(W, s) n == Len(u) IN
                       [i \in 1..Len(old) |-> IF i <= n THEN u[i] ELSE IF i = n + 1 THEN 0 ELSE old[i]]
\* ---- round trip: ffi.string(ffi.new('T[]', s)) == s
RoundTripG(s, str) == str = s
=============================================================================
