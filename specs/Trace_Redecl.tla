------------------------------ MODULE Trace_Redecl ------------------------------
(* Validates histories of cdef() calls recorded from the real FFI (props/x01.py).
   Traces == sequence of traces; a trace is a sequence of steps
     [items, override, err, decl (list of <<key, desc, quals>>), ints (list of <<name, value>>)]
   where decl/ints are the projected tables AFTER the call.
   For every trace: the laws of Redecl are evaluated on the recorded states themselves
   (<<"VERDICT", t, step, law>> for the first failing law) and the recorded outcome and tables
   are compared with the implementation model (<<"DIVERGE", t, step, what>>).  <<"CHECKED", n>> last. *)
EXTENDS Redecl, Json, IOUtils
VARIABLES k
Traces == JsonDeserialize(IOEnv.TRACE_FILE)
ToSet(sq) == {sq[i] : i \in DOMAIN sq}
RecState(c) ==
  LET D == ToSet(c.decl)  I == ToSet(c.ints) IN
  [decl |-> [key \in {e[1] : e \in D} |-> LET e == CHOOSE e \in D : e[1] = key IN [obj |-> 0, desc |-> e[2], quals |-> e[3]]],
   ints |-> [n \in {e[1] : e \in I} |-> (CHOOSE e \in I : e[1] = n)[2]],
   next |-> 0]
MacroNames(c) == {it[2] : it \in {x \in ToSet(c.items) : IsMacro(x)}}

Law(p, c) ==
  LET t == RecState(c) IN
  IF ~IntsImmutableStep(p, t) THEN "IntsImmutable"
  ELSE IF ~BindImmutableStep(p, t, c.override) THEN "BindImmutable"
  ELSE IF ~(MacroConsistentState(t) /\ MacroHasConst(t, MacroNames(c))) THEN "MacroConsistent"
  ELSE IF ~OkMeansDeclaredStep(t, Ordered(c.items), c.err) THEN "OkMeansDeclared"
  ELSE IF c.err \notin {"", "decl", "const"} THEN "ErrorClass"
  ELSE IF c.err # "" /\ c.override /\ c.err = "decl" THEN "OverrideRejected"
  ELSE "ok"

RECURSIVE Laws(_, _, _)
Laws(p, tr, i) == IF i > Len(tr) THEN <<"ok", 0>>
                  ELSE LET v == Law(p, tr[i]) IN IF v # "ok" THEN <<v, i>> ELSE Laws(RecState(tr[i]), tr, i + 1)

RECURSIVE Model(_, _, _)
Model(st, tr, i) ==
  IF i > Len(tr) THEN <<"ok", 0>>
  ELSE LET c == tr[i]
           r == Call(st, c.items, c.override)
       IN IF r.err # c.err THEN <<"outcome", i>>
          ELSE IF DeclSet(r.s) # ToSet(c.decl) THEN <<"decl", i>>
          ELSE IF IntSet(r.s) # ToSet(c.ints) THEN <<"ints", i>>
          ELSE Model(r.s, tr, i + 1)

Check(t) == LET tr == Traces[t]
                v == Laws(S0, tr, 1)
                m == Model(S0, tr, 1)
            IN /\ IF v[1] = "ok" THEN TRUE ELSE PrintT(<<"VERDICT", t, v[2], v[1]>>)
               /\ IF m[1] = "ok" THEN TRUE ELSE PrintT(<<"DIVERGE", t, m[2], m[1]>>)
TInit == k = 0
TNext == \/ k < Len(Traces) /\ Check(k + 1) /\ k' = k + 1
         \/ k = Len(Traces) /\ PrintT(<<"CHECKED", k>>) /\ k' = k + 1
TSpec == TInit /\ [][TNext]_k
=============================================================================
