------------------------------ MODULE Trace_Redecl ------------------------------
(* Validates histories of cdef() calls recorded from the real FFI (props/x01.py).
   Traces == sequence of traces; a trace is a sequence of steps
     [op, items, override, err, decl (list of <<key, desc, quals>>), ints (list of <<name, value>>)]
   op = "a": cdef() on the FFI that gets included, "b" (default): cdef() on the including FFI, "inc": b.include(a);
   decl/ints are the projected tables of the affected FFI AFTER the step.
   For every trace: the laws of Redecl are evaluated on the recorded states themselves
   (<<"VERDICT", t, step, law>> for the first failing law) and the recorded outcome and tables
   are compared with the implementation model (<<"DIVERGE", t, step, what>>).  <<"CHECKED", n>> last. *)
EXTENDS Redecl, Json, IOUtils
VARIABLES k
Traces == JsonDeserialize(IOEnv.TRACE_FILE)
ToSet(sq) == {sq[i] : i \in DOMAIN sq}
RecState(c) ==
  LET D == ToSet(c.decl)  I == ToSet(c.ints) IN
  [decl |-> [key \in {e[1] : e \in D} |-> LET e == CHOOSE e \in D : e[1] = key IN [obj |-> 0, desc |-> e[2], quals |-> e[3]]],
   ints |-> [n \in {e[1] : e \in I} |-> (CHOOSE e \in I : e[1] = n)[2]],
   next |-> 0, order |-> <<>>, iorder |-> <<>>]
MacroNames(c) == {it[2] : it \in {x \in ToSet(c.items) : IsMacro(x)}}

Law(p, c) ==
  LET t == RecState(c) IN
  IF ~IntsImmutableStep(p, t) THEN "IntsImmutable"
  ELSE IF ~BindImmutableStep(p, t, c.override) THEN "BindImmutable"
  ELSE IF ~(MacroConsistentState(t) /\ MacroHasConst(t, MacroNames(c))) THEN "MacroConsistent"
  ELSE IF ~OkMeansDeclaredStep(t, Ordered(c.items), c.err) THEN "OkMeansDeclared"
  ELSE IF c.err \notin {"", "decl", "const"} THEN "ErrorClass"
  ELSE IF c.err # "" /\ c.override /\ c.err = "decl" THEN "OverrideRejected"
  ELSE "ok"

IncLaw(pa, pb, c) ==
  LET t == RecState(c) IN
  IF ~IntsImmutableStep(pb, t) THEN "Include.IntsImmutable"
  ELSE IF ~BindImmutableStep(pb, t, FALSE) THEN "Include.BindImmutable"
  ELSE IF c.err \notin {"", "decl", "const"} THEN "Include.ErrorClass"
  ELSE IF c.err = "" /\ ~(\A kk \in DOMAIN pa.decl : IsTypedefKey(kk) =>
                              (kk \in DOMAIN t.decl /\ t.decl[kk].desc = pa.decl[kk].desc /\ t.decl[kk].quals = pa.decl[kk].quals))
       THEN "Include.Shares"
  ELSE IF c.err = "" /\ ~(\A n \in DOMAIN pa.ints : n \in DOMAIN t.ints /\ t.ints[n] = pa.ints[n]) THEN "Include.Constants"
  ELSE "ok"

OpOf(c) == IF "op" \in DOMAIN c THEN c.op ELSE "b"

RECURSIVE Laws(_, _, _, _)
Laws(pa, pb, tr, i) ==
  IF i > Len(tr) THEN <<"ok", 0>>
  ELSE LET c == tr[i]
           op == OpOf(c)
           v == IF op = "a" THEN Law(pa, c) ELSE IF op = "b" THEN Law(pb, c) ELSE IncLaw(pa, pb, c)
       IN IF v # "ok" THEN <<v, i>>
          ELSE IF op = "a" THEN Laws(RecState(c), pb, tr, i + 1) ELSE Laws(pa, RecState(c), tr, i + 1)

RECURSIVE Model(_, _, _, _)
Model(sa, sb, tr, i) ==
  IF i > Len(tr) THEN <<"ok", 0>>
  ELSE LET c == tr[i]
           op == OpOf(c)
           r == IF op = "a" THEN Call(sa, c.items, c.override)
                ELSE IF op = "b" THEN Call(sb, c.items, c.override) ELSE Include(sb, sa)
       IN IF r.err # c.err THEN <<"outcome", i>>
          ELSE IF DeclSet(r.s) # ToSet(c.decl) THEN <<"decl", i>>
          ELSE IF IntSet(r.s) # ToSet(c.ints) THEN <<"ints", i>>
          ELSE IF op = "a" THEN Model(r.s, sb, tr, i + 1) ELSE Model(sa, r.s, tr, i + 1)

Check(t) == LET tr == Traces[t]
                v == Laws(S0, S0, tr, 1)
                m == Model(S0, S0At(1000), tr, 1)
            IN /\ IF v[1] = "ok" THEN TRUE ELSE PrintT(<<"VERDICT", t, v[2], v[1]>>)
               /\ IF m[1] = "ok" THEN TRUE ELSE PrintT(<<"DIVERGE", t, m[2], m[1]>>)
TInit == k = 0
TNext == \/ k < Len(Traces) /\ Check(k + 1) /\ k' = k + 1
         \/ k = Len(Traces) /\ PrintT(<<"CHECKED", k>>) /\ k' = k + 1
TSpec == TInit /\ [][TNext]_k
=============================================================================
