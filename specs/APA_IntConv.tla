------------------------------ MODULE APA_IntConv ------------------------------
(* The store and cast laws of IntConv.tla restated for Apalache (SMT, unbounded Int) at the
   TRUE widths: long long = 64 bits, object widths 8/16/32/64, v ranging over ALL integers.
   The definitions are copies of the corresponding ones in IntConv.tla (which TLC checks
   exhaustively at a 5-bit word); here Z3 discharges them without enumeration:
     apalache-mc check --length=0 --inv=Laws APA_IntConv.tla                            *)
EXTENDS Integers
VARIABLES
    \* @type: Int;
    w,
    \* @type: Str;
    kind,
    \* @type: Int;
    v

M == 18446744073709551616          \* 2^64
H == 9223372036854775808           \* 2^63
P2(n) == IF n = 8 THEN 256 ELSE IF n = 16 THEN 65536 ELSE IF n = 32 THEN 4294967296 ELSE M
P2m1(n) == IF n = 8 THEN 128 ELSE IF n = 16 THEN 32768 ELSE IF n = 32 THEN 2147483648 ELSE H
Wrap(x, n) == x % P2(n)
AsSigned(u, n) == IF u >= P2m1(n) THEN u - P2(n) ELSE u
U(x) == x % M
S(x) == AsSigned(x % M, 64)

StoreAccepts == CASE kind = "bool" -> v \in {0, 1}
                  [] kind = "signed" -> -P2m1(w) <= v /\ v <= P2m1(w) - 1
                  [] OTHER -> 0 <= v /\ v <= P2(w) - 1
\* <<accepted, pattern>>
IdealOk == StoreAccepts
IdealPat == Wrap(v, w)

AsLLok == -H <= v /\ v <= H - 1
AsULLok == 0 <= v /\ v <= M - 1
\* convert_from_object: write to a temporary, read back, compare
CfoOk == IF kind = "signed" THEN AsLLok /\ v = AsSigned(v % P2(w), w)
         ELSE IF kind = "bool" THEN AsULLok /\ v <= 1
         ELSE AsULLok /\ v = v % P2(w)
\* _cffi_to_c_i<w> / _cffi_to_c_u<w>:  bounds (1ULL<<(w-1))-1, 0ULL-(1ULL<<(w-1)), ~(((ULL)-2) << (w-1))
ShlU(x, n) == U(x * P2m1(n))                      \* x << (n-1) in unsigned long long
ToCOk == IF kind = "signed"
           THEN AsLLok /\ ~(v > S(ShlU(1, w) - 1) \/ v < S(U(0 - ShlU(1, w))))
           ELSE AsULLok /\ ~(v > (M - 1 - ShlU(M - 2, w)))
\* cast_to_integer_or_char: PyLong_AsUnsignedLongLongMask, write w bits, read signed/unsigned
CastImpl == LET p == (U(v)) % P2(w) IN IF kind = "signed" THEN AsSigned(p, w) ELSE p
IdealCast == IF kind = "signed" THEN AsSigned(Wrap(v, w), w) ELSE Wrap(v, w)

Init == w \in {8, 16, 32, 64} /\ kind \in {"signed", "unsigned", "bool"} /\ v \in Int
Next == UNCHANGED <<w, kind, v>>

Laws == /\ CfoOk = IdealOk
        /\ (kind # "bool" => ToCOk = IdealOk)
        /\ (kind # "bool" => CastImpl = IdealCast)
        /\ (IdealOk /\ kind = "signed" => AsSigned(IdealPat, w) = v)       \* round trip
        /\ (IdealOk /\ kind # "signed" => IdealPat = v)
\* deliberately wrong bound, must be refuted (sanity of the encoding)
WrongLaw == kind = "unsigned" => (CfoOk = (0 <= v /\ v <= P2(w)))
=============================================================================
