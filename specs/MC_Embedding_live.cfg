SPECIFICATION Spec
CONSTANTS Threads = {1,2}
  defaultInitValue = "nolib"
  Libs = {"A","B"}
  MaxCalls = 1
  SelfCalls = {"A"}
  CrossCalls = {}
  FailCode = {"B"}
  FailMod = {}
  PreInit = FALSE
  Variant = "faithful"
INVARIANT PyInitAtMostOnce
INVARIANT InitCodeAtMostOncePerLib
INVARIANT NoEarlyExtern
INVARIANT ZeroAfterFail
INVARIANT SpinExclusive
INVARIANT MutexHeld
INVARIANT GilExclusive
PROPERTY RefinesIdeal
PROPERTY EveryCallTerminates
