SPECIFICATION TSpec
CONSTANTS Cbs = {0}
  PageSize = 4096
  SlotSize = 56
  Gap = 1048576
  Sigs = {"i"}
  Variant = "faithful"
CHECK_DEADLOCK FALSE
