SPECIFICATION TSpec
CONSTANTS Cbs = {0}
  PageSize = 4096
  SlotSize = 56
  Gap = 1048576
  Sigs = {"i"}
  OnErrs = {TRUE, FALSE}
  MaxDepth = 0
  Cap = 0
  Variant = "faithful"
CHECK_DEADLOCK FALSE
