---------------------------- MODULE Trace_CdefInc ----------------------------
(* C34, code -> spec.  A record is a behaviour of CdefInc.tla (declarations separated by
   "NewFFI" markers: a chain of FFIs, each including the previous one) and, per mode
   ("inl" in-line, "ool" out-of-line ABI modules, "api" compiled API modules), what the real
   FFIs showed:
     same  : "j:i:kind:name" |-> "same" | "different" | "error:X"   ffi[j].typeof(x) is ffi[i].typeof(x), x declared in ffi[i]
     k     : "j:name" |-> value text       integer constant `name` as seen through ffi[j] / lib[j]
     lay   : "j:struct s1" |-> aggregate record as seen through ffi[j] (layout from the included module)
     reach : (api) "j:i:fn|gv|k:name" |-> "ok" | text   lib[j] reaches the function / variable / constant of lib[i]
             (asked through lib[j] before any other lib of the chain was touched; for a variable: same
             address, same type object, and a value written through lib[j] is read through lib[i])
     err   : "" or the build / import error
   Verdict per record and mode: <<"VERDICT", id, mode, V, D>>, V = failing property clauses
   <<clause, item, class>> (class # "" iff it is exactly the divergence the implementation
   model of generated modules predicts), D = divergences from the model (never verdicts).      *)
EXTENDS CdefInc, Json, IOUtils

VARIABLES k, done
Traces == JsonDeserialize(IOEnv.TRACE_FILE)

Has(f, x) == x \in DOMAIN f

\* a "NewFFI" record carries inc = the positions of the FFIs the new one includes, in include() order
RECURSIVE RunChain(_, _, _, _)
RunChain(beh, i, ch, ev) ==
  IF i > Len(beh) THEN [envs |-> Append(ch, ev), bad |-> 0]
  ELSE IF beh[i].a = "NewFFI"
       THEN LET envs == Append(ch, ev)
            IN IF (\A q \in DOMAIN beh[i].inc : beh[i].inc[q] \in 1..Len(envs)) /\ IncludeAllG(EnvInit, envs, beh[i].inc, 1)
               THEN RunChain(beh, i + 1, envs, IncludeAll(EnvInit, envs, beh[i].inc, 1))
               ELSE [envs |-> envs, bad |-> i]
  ELSE IF Guard(ev, beh[i]) THEN RunChain(beh, i + 1, ch, Effect(ev, beh[i]))
  ELSE [envs |-> Append(ch, ev), bad |-> i]

Key3(j, i, kind, name) == ToString(j) \o ":" \o ToString(i) \o ":" \o kind \o ":" \o name
Key1(j, name) == ToString(j) \o ":" \o name

\* layout facts only (names of aggregates are C11's subject): field names, offsets, bit positions, sizes
SUMatches(o, i) ==
  /\ Has(o, "name") /\ o.kind = i.kind /\ o.complete = i.complete
  /\ Len(o.fields) = Len(i.fields)
  /\ \A f \in DOMAIN i.fields : /\ o.fields[f][1] = i.fields[f][1] /\ o.fields[f][3] = i.fields[f][3]
                                 /\ o.fields[f][4] = i.fields[f][4] /\ o.fields[f][5] = i.fields[f][5]
  /\ o.size = i.size /\ o.align = i.align

Verdict(r, mode) ==
  LET run == RunChain(r.beh, 1, <<>>, EnvInit)
      envs == run.envs
      n == Len(envs)
      o == r.obs[mode]
      gen == mode \in {"ool", "api"}
      Ms == Tup([j \in 1..n |-> Encode(envs[j])])
      recreated == "identity:enum-of-included-ffi-recreated-in-generated-module"
      \* ---- identity of what came in through include()
      tdItems == {<<j, nm>> \in (1..n) \X UNION {DOMAIN envs[j].td : j \in 1..n} :
                     nm \in DOMAIN envs[j].td /\ <<"td", nm>> \in envs[j].inc}
      suItems == {<<j, key>> \in (1..n) \X UNION {DOMAIN envs[j].su : j \in 1..n} :
                     key \in DOMAIN envs[j].su /\ key \in envs[j].inc /\ SubSeq(key[2], 1, 1) # "$"}
      enItems == {<<j, e>> \in (1..n) \X UNION {DOMAIN envs[j].en : j \in 1..n} :
                     e \in DOMAIN envs[j].en /\ <<"enum", e>> \in envs[j].inc}
      tdKey(x) == Key3(x[1], OwnerTd(envs, x[1], x[2]), "td", x[2])
      suKey(x) == Key3(x[1], OwnerSU(envs, x[1], x[2]), "su", KeyStr(x[2]))
      enKey(x) == Key3(x[1], OwnerEn(envs, x[1], x[2]), "en", x[2])
      ok(key) == Has(o.same, key) /\ o.same[key] = "same"
      failed(key) == Has(o.same, key) /\ o.same[key] \notin {"same", "different"}      \* typeof() raised
      cycle == "realize:aggregate-needed-by-value-while-under-construction"
      tdClass(x) == IF mode = "ool" /\ failed(tdKey(x)) /\ TouchesCycle(envs[x[1]], envs[x[1]].td[x[2]]) THEN cycle
                    ELSE IF gen /\ HasEnum(envs[x[1]].td[x[2]])
                       /\ ModelId(Ms, envs, x[1], envs[x[1]].td[x[2]]) # IdealId(envs, x[1], envs[x[1]].td[x[2]])
                    THEN recreated ELSE ""
      enClass(x) == IF gen /\ ModelId(Ms, envs, x[1], <<"enum", x[2]>>) # IdealId(envs, x[1], <<"enum", x[2]>>)
                    THEN recreated ELSE ""
      vSame == {<<"same", tdKey(x), tdClass(x)>> : x \in {x \in tdItems : ~ok(tdKey(x))}}
               \cup {<<"same", suKey(x), IF mode = "ool" /\ failed(suKey(x)) /\ TouchesCycle(envs[x[1]], x[2]) THEN cycle ELSE "">>
                        : x \in {x \in suItems : ~ok(suKey(x))}}
               \cup {<<"same", enKey(x), enClass(x)>> : x \in {x \in enItems : ~ok(enKey(x))}}
      \* ---- constants: the same value through every FFI of the chain that sees them
      kItems == {<<j, c>> \in (1..n) \X UNION {AllConsts(envs[j]) : j \in 1..n} : c \in AllConsts(envs[j])}
      vK == {<<"k", Key1(x[1], x[2]), "">> :
                x \in {x \in kItems : ~(Has(o.k, Key1(x[1], x[2])) /\ o.k[Key1(x[1], x[2])] = ConstVal(envs[x[1]], x[2]))}}
      \* ---- layouts of included aggregates are those of the included module
      layItems == {x \in suItems : envs[x[1]].su[x[2]].complete}
      layKey(x) == Key1(x[1], KeyStr(x[2]))
      vLay == {<<"lay", layKey(x), "">> :
                  x \in {x \in layItems : ~(Has(o.lay, layKey(x)) /\ SUMatches(o.lay[layKey(x)], AggObs(envs[x[1]], x[2])))}}
      \* ---- API mode: lib[j] reaches functions, variables, constants of lib[i]
      \* every name lib[i] defines itself, for every i that j includes directly or not (names defined
      \* again elsewhere among j and its includes are left to the lookup order)
      reachItems == UNION {UNION {{<<j, i, x>> : x \in {x \in OwnNames(envs, i) : MustReach(envs, j, i, x)}}
                                  : i \in 1..n} : j \in 1..n}
      kindOf(i, x) == IF x \in DOMAIN envs[i].fn THEN "fn" ELSE IF x \in DOMAIN envs[i].gv THEN "gv" ELSE "k"
      reachKey(t) == Key3(t[1], t[2], kindOf(t[2], t[3]), t[3])
      reachKeys == {reachKey(t) : t \in reachItems}
      vReach == IF mode = "api"
                THEN {<<"reach", key, "">> : key \in {key \in reachKeys : ~(Has(o.reach, key) /\ o.reach[key] = "ok")}}
                ELSE {}
      \* ---- model divergences: the generated modules' identity against the model's prediction
      dSame == IF gen
               THEN {<<"model", tdKey(x)>> : x \in {x \in tdItems :
                         ok(tdKey(x)) # (ModelId(Ms, envs, x[1], envs[x[1]].td[x[2]]) = IdealId(envs, x[1], envs[x[1]].td[x[2]]))}}
                    \cup {<<"model", suKey(x)>> : x \in {x \in suItems :
                         ok(suKey(x)) # (ModelId(Ms, envs, x[1], x[2]) = IdealId(envs, x[1], x[2]))}}
                    \cup {<<"model", enKey(x)>> : x \in {x \in enItems :
                         ok(enKey(x)) # (ModelId(Ms, envs, x[1], <<"enum", x[2]>>) = IdealId(envs, x[1], <<"enum", x[2]>>))}}
               ELSE {}
  IN IF run.bad # 0 THEN << {<<"guard", ToString(run.bad), "">>}, {} >>
     ELSE IF o.err # ""
          THEN << {<<"build", o.err, "">>}, {} >>
     ELSE << vSame \cup vK \cup vLay \cup vReach,
             dSame \cup (IF mode = "api"
                         THEN {<<"model", reachKey(t)>> : t \in {t \in reachItems :
                                  (ModelReach(Ms, envs, t[1], t[3]) = t[2]) # (Has(o.reach, reachKey(t)) /\ o.reach[reachKey(t)] = "ok")}}
                         ELSE {}) >>

TInit == k \in 1..Len(Traces) /\ done = FALSE /\ cenv = EnvInit /\ hist = <<>> /\ variant = "faithful" /\ chain = <<>>
TNext == /\ ~done
         /\ \A m \in DOMAIN Traces[k].obs :
               LET v == Verdict(Traces[k], m) IN PrintT(<<"VERDICT", Traces[k].id, m, v[1], v[2]>>)
         /\ done' = TRUE /\ UNCHANGED <<k, cenv, hist, variant, chain>>
TSpec == TInit /\ [][TNext]_<<k, done, cenv, hist, variant, chain>>
=============================================================================
