SPECIFICATION Spec
INVARIANT RoundTrip
INVARIANT FitsS
INVARIANT FitsU
INVARIANT TwosOk
INVARIANT FromSOk
INVARIANT FromUOk
INVARIANT EqOk
INVARIANT ScaleOk
INVARIANT BytesOk
CHECK_DEADLOCK FALSE
