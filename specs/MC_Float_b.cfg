SPECIFICATION Spec
CONSTANTS EB1 = 3
 MB1 = 5
 EB2 = 3
 MB2 = 2
 Variant = "rne"
INVARIANT Nearest
INVARIANT Specials
CHECK_DEADLOCK FALSE
