------------------------------ MODULE PlatformTables ------------------------------
(* C06, table part: the name <-> index maps of cffi's primitive types are mutually consistent
   and search_standard_typename (src/c/parse_c_type.c:487) finds exactly the standard names.

   The tables are NOT written here: the check extracts them from the working tree at run time
   (PRIMITIVE_TO_INDEX and the PRIM_* constants of src/cffi/cffi_opcode.py, the _CFFI_PRIM_*
   defines of src/cffi/parse_c_type.h, primitive_name[] of src/c/realize_c_type.c,
   ENUM_PRIMITIVE_TYPES of src/c/_cffi_backend.c, PrimitiveType.ALL_PRIMITIVE_TYPES of
   src/cffi/model.py, the common-type aliases, and the if-lines of search_standard_typename)
   and passes them as JSON (IOEnv.TABLES_FILE).  What is fixed here is (a) what consistency
   means, (b) the platform's own table Platform!Prim, (c) the control skeleton of
   search_standard_typename, into which the extracted cases are plugged.

   State space: one state per candidate type name = every standard name and every string at
   edit distance one from a standard `_t` name (delete / substitute / insert one character of
   the alphabet).  Invariant: the transcribed search finds a string iff it is a standard `_t`
   name, and then with the index all other tables give that name.                          *)
EXTENDS Platform, Integers, Json, IOUtils
T == JsonDeserialize(IOEnv.TABLES_FILE)

Rng(s) == {s[i] : i \in 1..Len(s)}
PyIndex   == Rng(T.py_index)        \* [name, idx]
PyConst   == Rng(T.py_const)        \* [sym, idx]
HDefine   == Rng(T.h_define)        \* [sym, idx]
CNames    == T.c_names              \* sequence: CNames[i+1] = primitive_name[i] ("" for NULL)
Backend   == Rng(T.backend)         \* [name, kind]
Model     == Rng(T.model)           \* [name, kind]
Aliases   == Rng(T.aliases)         \* [name, target]
Switch    == T.switch               \* sequence of [conds, minsize, size, prefix, n, sym]
Alphabet  == Rng(T.alphabet)

Names     == {e.name : e \in PyIndex}
IndexOf(n) == (CHOOSE e \in PyIndex : e.name = n).idx
SymIdx(tab, s) == (CHOOSE e \in tab : e.sym = s).idx
NumPrim   == SymIdx(PyConst, "_NUM_PRIM")

\* ---- (1) the maps are mutually inverse bijections on the indices 1.._NUM_PRIM-1 (0 is void)
PyIndexIsBijection ==
  /\ \A e1, e2 \in PyIndex : (e1.name = e2.name) = (e1.idx = e2.idx)
  /\ {e.idx : e \in PyIndex} = 1..(NumPrim - 1)
\* ---- (2) realize_c_type.c maps every index back to the same name
CNamesInverse ==
  /\ Len(CNames) = NumPrim
  /\ CNames[1] = ""
  /\ \A e \in PyIndex : CNames[e.idx + 1] = e.name
\* ---- (3) the C header and the Python module define the same numbers
DefinesAgree ==
  /\ {e.sym : e \in PyConst} = {e.sym : e \in HDefine}
  /\ \A e \in PyConst : SymIdx(HDefine, e.sym) = e.idx
  /\ \A e1, e2 \in PyConst : e1.sym # e2.sym /\ e1.idx >= 0 /\ e1.sym # "_NUM_PRIM" /\ e2.sym # "_NUM_PRIM"
                             => e1.idx # e2.idx
\* ---- (4) new_primitive_type and the Python model know exactly these names
SameNameSets == Names = {e.name : e \in Backend} /\ Names = {e.name : e \in Model}
\* ---- (5) every name is a type of the platform table, of the same kind and signedness
KindOf(n) == Prim[Canon(n)].kind
ModelKind(k) == CASE k = "c" -> {"char"} [] k = "i" -> {"int", "bool"} [] k = "f" -> {"float"} [] k = "j" -> {"complex"}
KindsAgree ==
  /\ \A n \in Names : Canon(n) \in DOMAIN Prim
  /\ \A e \in Model : KindOf(e.name) \in ModelKind(e.kind)
  /\ \A e \in Backend :
       CASE e.kind = "char"     -> KindOf(e.name) = "char"
         [] e.kind = "signed"   -> KindOf(e.name) = "int" /\ Prim[Canon(e.name)].sgn
         [] e.kind = "unsigned" -> KindOf(e.name) = "int" /\ ~Prim[Canon(e.name)].sgn
         [] e.kind = "bool"     -> KindOf(e.name) = "bool"
         [] e.kind = "float"    -> KindOf(e.name) = "float"
         [] e.kind = "complex"  -> KindOf(e.name) = "complex"
         [] OTHER -> FALSE
  /\ \A a \in Aliases : a.target \in Names /\ Canon(a.name) = Canon(a.target)
ASSUME PyIndexIsBijection
ASSUME CNamesInverse
ASSUME DefinesAgree
ASSUME SameNameSets
ASSUME KindsAgree

\* ---- (6) search_standard_typename, control skeleton of parse_c_type.c:487-605
Ch(p, i) == SubSeq(p, i + 1, i + 1)                      \* p[i], 0-based as in C
Memcmp0(p, q, n) == n <= Len(q) /\ n <= Len(p) /\ SubSeq(p, 1, n) = SubSeq(q, 1, n)     \* !memcmp(p, q, n)
CaseHolds(p, size, e) ==
  /\ size >= e.minsize
  /\ \A j \in 1..Len(e.conds) : size > e.conds[j].pos /\ Ch(p, e.conds[j].pos) = e.conds[j].ch   \* switch (p[pos]) case ch
  /\ size = e.size /\ Memcmp0(p, e.prefix, e.n)                                                  \* if (size == S && !memcmp(...))
SearchStd(p) ==
  LET size == Len(p) IN
  IF size < 6 \/ Ch(p, size - 2) # "_" \/ Ch(p, size - 1) # "t" THEN 0 - 1                       \* :490
  ELSE IF \E i \in 1..Len(Switch) : CaseHolds(p, size, Switch[i])
       THEN SymIdx(HDefine, Switch[CHOOSE i \in 1..Len(Switch) :
                                     CaseHolds(p, size, Switch[i]) /\ \A j \in 1..(i - 1) : ~CaseHolds(p, size, Switch[j])].sym)
       ELSE 0 - 1

\* ---- candidate strings
StdNames == {n \in Names : Len(n) >= 2 /\ SubSeq(n, Len(n) - 1, Len(n)) = "_t"}
Mutants(n) ==
  {SubSeq(n, 1, i - 1) \o SubSeq(n, i + 1, Len(n)) : i \in 1..Len(n)}                               \* delete
  \cup {SubSeq(n, 1, i - 1) \o c \o SubSeq(n, i + 1, Len(n)) : i \in 1..Len(n), c \in Alphabet}     \* substitute
  \cup {SubSeq(n, 1, i) \o c \o SubSeq(n, i + 1, Len(n)) : i \in 0..Len(n), c \in Alphabet}         \* insert
Candidates == Names \cup UNION {Mutants(n) : n \in StdNames}

VARIABLES cand, found
Init == cand \in Candidates /\ found = SearchStd(cand)
Next == UNCHANGED <<cand, found>>
Spec == Init /\ [][Next]_<<cand, found>>

\* found iff a standard `_t` name, and then with the index of all the other tables
SearchExact == IF cand \in StdNames THEN found = IndexOf(cand) ELSE found = 0 - 1
\* the strings to replay into the real parser: <<"CAND", string, expected index or -1>>
PrintCands == PrintT(<<"CAND", cand, IF cand \in Names THEN IndexOf(cand) ELSE 0 - 1>>)
=============================================================================
