------------------------------ MODULE MC_PlatformBV ------------------------------
(* PlatformBV checked against TLC's native integers: limb base 4 (LB = 2), every pair of
   operands in -R..R, every width 3..7.  All laws are ASSUMEs (evaluated once). *)
EXTENDS PlatformBV
CONSTANT R
VARIABLE x
Rng == (0 - R)..R
Abs(n) == IF n < 0 THEN 0 - n ELSE n
Sgn(n) == IF n < 0 THEN 0 - 1 ELSE IF n > 0 THEN 1 ELSE 0
TruncDiv(a, b) == (IF (a < 0) # (b < 0) THEN 0 - 1 ELSE 1) * (Abs(a) \div Abs(b))
TruncRem(a, b) == a - TruncDiv(a, b) * b
FloorDiv(a, b) == IF b > 0 THEN a \div b ELSE (0 - a) \div (0 - b)
\* native W-bit wrap
WrapN(n, W, signed) == LET m == n % Pow2(W) IN IF signed /\ m >= Pow2(W - 1) THEN m - Pow2(W) ELSE m
IsCanon(z) == (z.mag = <<>> \/ z.mag[Len(z.mag)] # 0) /\ (z.neg => z.mag # <<>>)
           /\ \A i \in 1..Len(z.mag) : z.mag[i] \in 0..(Base - 1)

ASSUME \A a \in Rng : ZToInt(Z(a)) = a /\ IsCanon(Z(a))
ASSUME \A a, b \in Rng :
         /\ ZToInt(ZAdd(Z(a), Z(b))) = a + b /\ IsCanon(ZAdd(Z(a), Z(b)))
         /\ ZToInt(ZSub(Z(a), Z(b))) = a - b /\ IsCanon(ZSub(Z(a), Z(b)))
         /\ ZToInt(ZMul(Z(a), Z(b))) = a * b /\ IsCanon(ZMul(Z(a), Z(b)))
         /\ ZCmp(Z(a), Z(b)) = Sgn(a - b)
         /\ b # 0 => /\ ZToInt(ZDivTrunc(Z(a), Z(b))) = TruncDiv(a, b) /\ IsCanon(ZDivTrunc(Z(a), Z(b)))
                     /\ ZToInt(ZRemTrunc(Z(a), Z(b))) = TruncRem(a, b) /\ IsCanon(ZRemTrunc(Z(a), Z(b)))
                     /\ ZToInt(ZDivFloor(Z(a), Z(b))) = FloorDiv(a, b)
                     /\ ZToInt(ZModFloor(Z(a), Z(b))) = a - FloorDiv(a, b) * b
ASSUME \A a \in Rng : \A k \in 0..7 :
         /\ ZToInt(ZShl(Z(a), k)) = a * Pow2(k)
         /\ ZToInt(ZShrFloor(Z(a), k)) = a \div Pow2(k)
         /\ ZBitLen(Z(a)) = SmallBitLen(Abs(a))
ASSUME \A a \in Rng : \A W \in 3..7 : \A s \in BOOLEAN :
         /\ ZToInt(Wrap(Z(a), W, s)) = WrapN(a, W, s) /\ IsCanon(Wrap(Z(a), W, s))
         /\ NToInt(ToTwos(Z(a), W)) = a % Pow2(W)
         /\ ZFits(Z(a), W, s) = (IF s THEN a >= 0 - Pow2(W - 1) /\ a < Pow2(W - 1) ELSE a >= 0 /\ a < Pow2(W))
\* bit operations: through 8-bit patterns, against TLC's Bitwise on the native patterns
ASSUME \A a, b \in Rng : \A s \in BOOLEAN :
         /\ ZToInt(ZBitOp("and", Z(a), Z(b), 8, s)) = WrapN((a % 256) & (b % 256), 8, s)
         /\ ZToInt(ZBitOp("or",  Z(a), Z(b), 8, s)) = WrapN((a % 256) | (b % 256), 8, s)
         /\ ZToInt(ZBitOp("xor", Z(a), Z(b), 8, s)) = WrapN((a % 256) ^^ (b % 256), 8, s)
Init == x = 0
Next == x' = x
=============================================================================
