SPECIFICATION Spec
CONSTANTS MaxLen = 5
  MaxIdx = 7
  ArenaN = 8
  Variant = "faithful"
INVARIANT SliceGetEq
INVARIANT SliceSetEq
INVARIANT IndexEq
INVARIANT MoveEq
INVARIANT FromBufEq
CHECK_DEADLOCK FALSE
