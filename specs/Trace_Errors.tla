---------------------------- MODULE Trace_Errors ----------------------------
(* Validates recorded outcomes (code -> spec) against the contract of Errors.tla.
   Records: [id, ffi, api, cls, origin, need].  One VERDICT line per rejected record. *)
EXTENDS Errors, Json, IOUtils

Recs == JsonDeserialize(IOEnv.TRACE_FILE)
ASSUME /\ \A i \in 1..Len(Recs) : Allowed(Recs[i]) \/ PrintT(<<"VERDICT", Recs[i].id, Clause(Recs[i])>>)
       /\ PrintT(<<"CHECKED", Len(Recs)>>)
TSpec == e = [ffi |-> "inline", api |-> "cdef", cls |-> "ok", origin |-> "-", need |-> 0] /\ [][UNCHANGED e]_e
=============================================================================
