----------------------------- MODULE Embedding_Sim -----------------------------
(* Behaviour generator for the spec -> code binding of C28: Embedding.tla plus a history
   variable.  Run by TLC in simulation mode; every maximal behaviour (all threads finished,
   or no thread enabled) is printed once as JSON:
     <<"BEH", "[[thread, label, library of the thread's current call, projection], ...]">>
   The projection of the state after the step is what harness/embed/rt.c reports after the
   same step of the real code: [spin, pyinit, gil, per library [mark, mlock, ready, mrec,
   mowner, mdepth, called, org, fast]]. *)
EXTENDS Embedding, Json
VARIABLE hist

LibSeq == IF Libs = {"A"} THEN <<"A">> ELSE <<"A", "B">>
Proj == <<spin, pyinit, gil,
          [i \in 1..Len(LibSeq) |->
             LET l == LibSeq[i] IN
             <<mark[l], mlock[l], ready[l], mrec[l], mowner[l], mdepth[l], called[l], org[l], fast[l]>>]>>

CoreNext == \E self \in Threads : Call(self) \/ t(self)
SimInit == Init /\ hist = <<>>
SimNext == \E self \in Threads :
             /\ Call(self) \/ t(self)
             /\ hist' = Append(hist, <<self, pc[self], L'[self], Proj'>>)
SimSpec == SimInit /\ [][SimNext]_<<vars, hist>>

Final == ~ENABLED CoreNext
PrintFinal == Final => PrintT(<<"BEH", ToJson(hist)>>)
=============================================================================
