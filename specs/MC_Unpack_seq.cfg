SPECIFICATION Spec
CONSTANTS MaxN = 3
  Big = FALSE
  Variant = "faithful"
INVARIANT FastEqualsGeneric
INVARIANT UnitsExact
INVARIANT ConvertIsElem
CHECK_DEADLOCK FALSE
