------------------------------ MODULE Trace_UniqueCache ------------------------------
(* Validates histories of ctype objects recorded from the real caches against the property
   machine UniqueCacheIdeal.  One verdict per history: "ok", or the violated clause (Requested,
   SameObject, Canonical; "Harness" = impossible history) and the position of the event. *)
EXTENDS UniqueCacheIdeal, Json, IOUtils, TLC
VARIABLES k, i, bad, reported
Traces == JsonDeserialize(IOEnv.TRACE_FILE)
tvars == <<live, k, i, bad, reported>>
TInit == IInit /\ k \in 1..Len(Traces) /\ i = 1 /\ bad = "" /\ reported = FALSE
Consume == /\ i <= Len(Traces[k]) /\ bad = ""
           /\ LET e == Traces[k][i] IN
                IF Guard(e) THEN Effect(e) /\ i' = i + 1 /\ UNCHANGED bad
                ELSE bad' = Why(e) /\ UNCHANGED <<live, i>>
           /\ UNCHANGED <<k, reported>>
Report == /\ (i > Len(Traces[k]) \/ bad # "") /\ ~reported
          /\ PrintT(<<"VERDICT", k, IF bad # "" THEN bad ELSE "ok", i>>)
          /\ reported' = TRUE /\ UNCHANGED <<live, k, i, bad>>
TNext == Consume \/ Report
TSpec == TInit /\ [][TNext]_tvars
=============================================================================
