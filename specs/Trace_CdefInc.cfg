SPECIFICATION TSpec
CONSTANTS
  TdNames = {}
  Tags = {}
  EnumTags = {}
  ConstNames = {}
  FuncNames = {}
  GlobNames = {}
  Prims = {}
  Feat = {}
  MaxDecls = 0
  MaxFFIs = 0
  MaxPerFFI = 0
  Variants = {"faithful"}
CHECK_DEADLOCK FALSE
