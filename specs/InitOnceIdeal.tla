------------------------------ MODULE InitOnceIdeal ------------------------------
(* The property C26 itself, as a state machine over the observable events of
   ffi.init_once(f, tag): a call starts, the call's f starts, f ends (normally with a
   value, or by raising), the call returns a value or raises.
   Every action is split into a guard (what the property allows) and an effect, so that
   trace specifications can give a total verdict naming the failing clause. *)
EXTENDS Naturals, Sequences, FiniteSets
CONSTANTS Threads, Tags, Vals
VARIABLES st,    \* st[t] = [ph |-> phase, tag |-> tag of the current call, val |-> value f returned]
          done   \* done[g] = <<>> (no normal completion yet) or <<v>>
ivars == <<st, done>>

NoTag == "notag"
Idle == [ph |-> "idle", tag |-> NoTag, val |-> 0]

IInit == st = [t \in Threads |-> Idle] /\ done = [g \in Tags |-> <<>>]

InF(g) == {t \in Threads : st[t].ph = "inF" /\ st[t].tag = g}

\* ---- guards: the clauses of the property
CallG(t, g)   == st[t].ph = "idle"
FStartG(t)    == /\ st[t].ph = "called"
                 /\ done[st[t].tag] = <<>>            \* no f starts after a normal completion
                 /\ InF(st[t].tag) = {}               \* at most one f running per tag
FEndOkG(t, v) == st[t].ph = "inF"
FEndExcG(t)   == st[t].ph = "inF"
ReturnG(t, v) == \/ st[t].ph = "fOk" /\ st[t].val = v                  \* own completion
                 \/ st[t].ph = "called" /\ done[st[t].tag] = <<v>>     \* the completion's result
RaiseG(t)     == st[t].ph = "fRaised"        \* only a call whose own f raised propagates

\* ---- effects
CallE(t, g)   == st' = [st EXCEPT ![t] = [ph |-> "called", tag |-> g, val |-> 0]] /\ UNCHANGED done
FStartE(t)    == st' = [st EXCEPT ![t].ph = "inF"] /\ UNCHANGED done
FEndOkE(t, v) == /\ st' = [st EXCEPT ![t].ph = "fOk", ![t].val = v]
                 /\ done' = [done EXCEPT ![st[t].tag] = <<v>>]
FEndExcE(t)   == st' = [st EXCEPT ![t].ph = "fRaised"] /\ UNCHANGED done   \* caches nothing
ReturnE(t, v) == st' = [st EXCEPT ![t] = Idle] /\ UNCHANGED done
RaiseE(t)     == st' = [st EXCEPT ![t] = Idle] /\ UNCHANGED done

Call(t, g)   == CallG(t, g) /\ CallE(t, g)
FStart(t)    == FStartG(t) /\ FStartE(t)
FEndOk(t, v) == FEndOkG(t, v) /\ FEndOkE(t, v)
FEndExc(t)   == FEndExcG(t) /\ FEndExcE(t)
Return(t, v) == ReturnG(t, v) /\ ReturnE(t, v)
Raise(t)     == RaiseG(t) /\ RaiseE(t)

INext == \E t \in Threads :
           \/ \E g \in Tags : Call(t, g)
           \/ FStart(t) \/ FEndExc(t) \/ Raise(t)
           \/ \E v \in Vals : FEndOk(t, v) \/ Return(t, v)

ISpec == IInit /\ [][INext]_ivars

\* ---- the clauses once more as invariants of the ideal (sanity of the formulation)
MutexF == \A g \in Tags : Cardinality(InF(g)) <= 1
NoFAfterDone == \A t \in Threads : st[t].ph = "inF" => done[st[t].tag] = <<>>
=============================================================================
