------------------------------ MODULE Trace_Enum ------------------------------
(* Validates enum measurements (gcc, and cffi in several modes) against Enum.tla at the true
   widths.  Input: JSON array of records
     [id, items, queries, gcc |-> [bits, signed, vals], cffi |-> <<[mode, ok, err, bits, signed, vals, strs]>>]
   vals: one Z-value per enumerator; strs: one [isdec, name, val] per query (ffi.string of
   ffi.cast(enum, query); empty sequence if the mode did not observe strings).
   items: see Enum.tla (k = "explicit" | "implicit" | "ref" | "char"; every item carries v, ref, sp, cneg).
   Output: <<"VERDICT", id, who, clause, index>> per failing clause and <<"CHECKED", id>>.
     who = "class" | "gcc" | "cffi:<mode>" | "model:<mode>"                               *)
EXTENDS Enum, Json, IOUtils
VARIABLES k, done
Recs == JsonDeserialize(IOEnv.TRACE_FILE)

Say(ok, id, who, clause, i) == IF ok THEN TRUE ELSE PrintT(<<"VERDICT", id, who, clause, i>>)
ZSeq(js) == [i \in 1..Len(js) |-> ZOfJson(js[i])]
Str(j) == [isdec |-> j.isdec, name |-> j.name, val |-> ZOfJson(j.val)]
FirstDiff(a, b) == IF Len(a) # Len(b) THEN 1 + (IF Len(a) < Len(b) THEN Len(a) ELSE Len(b))
                   ELSE IF \E i \in 1..Len(a) : a[i] # b[i]
                   THEN CHOOSE i \in 1..Len(a) : a[i] # b[i] /\ \A j \in 1..(i - 1) : a[j] = b[j]
                   ELSE 0

\* compare one observation set with expected values / base / strings
Compare(id, who, obs, vals, base, strs) ==
  /\ Bind(FirstDiff(ZSeq(obs.vals), vals), LAMBDA d : Say(d = 0, id, who, "values", d))
  /\ Say(obs.bits = base.bits, id, who, "size", 0)
  /\ Say(obs.signed = base.signed, id, who, "sign", 0)
  /\ IF obs.strs = <<>> THEN TRUE
     ELSE Bind(FirstDiff([i \in 1..Len(obs.strs) |-> Str(obs.strs[i])], strs), LAMBDA d : Say(d = 0, id, who, "string", d))

Check(r) ==
  \E vals \in {Values(r.items)} :
  \E base \in {GccBase(vals)} :
  \E qs \in {ZSeq(r.queries)} :
  \E strs \in {[i \in 1..Len(qs) |-> StringOf(r.items, vals, qs[i])]} :
  /\ Say(Defined(r.items, vals), r.id, "class", "undefined", 0)
  /\ Compare(r.id, "gcc", [r.gcc EXCEPT !.strs = <<>>], vals, base, strs)
  /\ \A m \in 1..Len(r.cffi) :
       LET o == r.cffi[m] IN
       \E mvals \in {CffiValues(r.items)} :
       \E mbase \in {ModeBase(o.mode, mvals)} :
       IF ~o.ok
       THEN /\ Say(FALSE, r.id, "cffi:" \o o.mode, "rejected", 0)
            /\ Say(mbase.err # "" \/ ~CffiParses(r.items), r.id, "model:" \o o.mode, "rejected", 0)
       ELSE /\ Compare(r.id, "cffi:" \o o.mode, o, vals, base, strs)
            /\ IF mbase.err # "" \/ ~CffiParses(r.items) THEN Say(FALSE, r.id, "model:" \o o.mode, "accepted", 0)
               ELSE \E d \in {CffiDict2(r.items, mvals, mbase)} :
                    Compare(r.id, "model:" \o o.mode, o, mvals, [bits |-> mbase.bits, signed |-> mbase.signed],
                            [i \in 1..Len(qs) |-> CffiString(d, qs[i])])
  /\ PrintT(<<"CHECKED", r.id>>)

TInit == k \in 1..Len(Recs) /\ done = FALSE
TNext == ~done /\ Check(Recs[k]) /\ done' = TRUE /\ UNCHANGED k
TSpec == TInit /\ [][TNext]_<<k, done>>
=============================================================================
