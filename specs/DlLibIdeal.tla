------------------------------ MODULE DlLibIdeal ------------------------------
(* Property C37 itself, as a state machine over the observable events of lib objects obtained
   from ffi.dlopen():  after ffi.dlclose(lib), reading or writing a global variable through
   lib, or fetching a function not fetched before the close, raises an error *instead of
   touching the unloaded library*, and closing again is harmless.

   An event carries  l   the lib object,  n  the C name,
                     out the outcome class: "ok" (a value came back), "error" (a Python
                         exception), "died" (the process was killed by a signal),
                     touch the number of dlsym()/dlclose() calls the operation made with
                         lib's handle or with a NULL handle (observed by an interposer).
   A lib may have been opened by path or from an existing 'void *' handle (whose dlopen() reference
   belongs to the program): the clauses are the same whatever the origin; whether dlclose(3) is
   called by the first close is not constrained.
   Where the property text is silent (everything while lib is open, addressof, functions that
   were fetched before the close) the guard is TRUE.
   Every action is split into a guard (clause of the property) and an effect. *)
EXTENDS Naturals, FiniteSets
CONSTANTS Libs, Funcs, Vars
VARIABLES ls,     \* ls[l] \in {"unopened", "open", "closed"}
          fb,     \* fb[l] = the functions fetched through l before it was closed
          last    \* the last event (makes the outcome part of the behaviour)
ivars == <<ls, fb, last>>

Outs == {"ok", "error", "died"}

IInit == /\ ls = [l \in Libs |-> "unopened"]
         /\ fb = [l \in Libs |-> {}]
         /\ last = [ev |-> "init", l |-> 0, n |-> "", out |-> "ok", touch |-> 0]

Closed(l) == ls[l] = "closed"
Opened(l) == ls[l] # "unopened"
\* "raises an error instead of touching the unloaded library"
Refused(out, touch) == out = "error" /\ touch = 0

\* ---- guards: the clauses of the property
OpenG(l, out, touch)         == ls[l] = "unopened"
GetFuncG(l, f, out, touch)   == Opened(l) /\ ((Closed(l) /\ f \notin fb[l]) => Refused(out, touch))
ReadVarG(l, v, out, touch)   == Opened(l) /\ (Closed(l) => Refused(out, touch))
WriteVarG(l, v, out, touch)  == Opened(l) /\ (Closed(l) => Refused(out, touch))
AddressOfG(l, n, out, touch) == Opened(l)                   \* the property is silent
CallG(l, f, out, touch)      == ls[l] = "open" /\ f \in fb[l]   \* only exercised while open; silent
\* "closing again is harmless": no exception, no crash, no second dlclose() of the handle
CloseG(l, out, touch)        == Opened(l) /\ (Closed(l) => (out = "ok" /\ touch = 0))

\* ---- effects
Fetch(l, f, out) == fb' = (IF ls[l] = "open" /\ out = "ok" THEN [fb EXCEPT ![l] = @ \cup {f}] ELSE fb)
OpenE(l, out)         == /\ ls' = (IF out = "ok" THEN [ls EXCEPT ![l] = "open"] ELSE ls)
                         /\ UNCHANGED fb
GetFuncE(l, f, out)   == Fetch(l, f, out) /\ UNCHANGED ls
ReadVarE(l, v, out)   == UNCHANGED <<ls, fb>>
WriteVarE(l, v, out)  == UNCHANGED <<ls, fb>>
\* ffi.addressof(lib, "f") fetches f as well (constrains less after the close)
AddressOfE(l, n, out) == (IF n \in Funcs THEN Fetch(l, n, out) ELSE UNCHANGED fb) /\ UNCHANGED ls
CallE(l, f, out)      == UNCHANGED <<ls, fb>>
CloseE(l, out)        == /\ ls' = (IF out = "ok" THEN [ls EXCEPT ![l] = "closed"] ELSE ls)
                         /\ UNCHANGED fb

Ev(e, l, n, out, touch) == last' = [ev |-> e, l |-> l, n |-> n, out |-> out, touch |-> touch]

\* The next-state relation, written over the event published in last' (logically the same as
\* quantifying existentially over the lib, the name, the outcome and the number of loader calls).
INext == LET e == last' IN
           /\ e.l \in Libs /\ e.out \in Outs /\ e.touch \in Nat
           /\ \/ e.ev = "open" /\ e.n = "" /\ OpenG(e.l, e.out, e.touch) /\ OpenE(e.l, e.out)
              \/ e.ev = "close" /\ e.n = "" /\ CloseG(e.l, e.out, e.touch) /\ CloseE(e.l, e.out)
              \/ e.ev = "getfunc" /\ e.n \in Funcs /\ GetFuncG(e.l, e.n, e.out, e.touch) /\ GetFuncE(e.l, e.n, e.out)
              \/ e.ev = "call" /\ e.n \in Funcs /\ CallG(e.l, e.n, e.out, e.touch) /\ CallE(e.l, e.n, e.out)
              \/ e.ev = "readvar" /\ e.n \in Vars /\ ReadVarG(e.l, e.n, e.out, e.touch) /\ ReadVarE(e.l, e.n, e.out)
              \/ e.ev = "writevar" /\ e.n \in Vars /\ WriteVarG(e.l, e.n, e.out, e.touch) /\ WriteVarE(e.l, e.n, e.out)
              \/ e.ev = "addressof" /\ e.n \in Funcs \cup Vars /\ AddressOfG(e.l, e.n, e.out, e.touch)
                 /\ AddressOfE(e.l, e.n, e.out)

ISpec == IInit /\ [][INext]_ivars

\* sanity of the formulation: a closed lib never becomes open again, fb is frozen after the close
ClosedForever == [][\A l \in Libs : Closed(l) => (Closed(l)' /\ fb'[l] = fb[l])]_ivars
=============================================================================
