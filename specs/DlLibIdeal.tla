------------------------------ MODULE DlLibIdeal ------------------------------
(* Property C37 itself, as a state machine over the observable events of lib objects obtained
   from ffi.dlopen():  after ffi.dlclose(lib), reading or writing a global variable through
   lib, or fetching a function not fetched before the close, raises an error *instead of
   touching the unloaded library*, and closing again is harmless.

   An event carries  l   the lib object,  n  the C name,
                     out the outcome class: "ok" (a value came back), "error" (a Python
                         exception), "died" (the process was killed by a signal),
                     touch the number of dlsym()/dlclose() calls the operation made with
                         lib's handle or with a NULL handle (observed by an interposer).
   Where the property text is silent (everything while lib is open, addressof, functions that
   were fetched before the close) the guard is TRUE.
   Every action is split into a guard (clause of the property) and an effect. *)
EXTENDS Naturals, FiniteSets
CONSTANTS Libs, Funcs, Vars
VARIABLES ls,     \* ls[l] \in {"unopened", "open", "closed"}
          fb,     \* fb[l] = the functions fetched through l before it was closed
          last    \* the last event (makes the outcome part of the behaviour)
ivars == <<ls, fb, last>>

Outs == {"ok", "error", "died"}

IInit == /\ ls = [l \in Libs |-> "unopened"]
         /\ fb = [l \in Libs |-> {}]
         /\ last = [ev |-> "init", l |-> 0, n |-> "", out |-> "ok", touch |-> 0]

Closed(l) == ls[l] = "closed"
Opened(l) == ls[l] # "unopened"
\* "raises an error instead of touching the unloaded library"
Refused(out, touch) == out = "error" /\ touch = 0

\* ---- guards: the clauses of the property
OpenG(l, out, touch)         == ls[l] = "unopened"
GetFuncG(l, f, out, touch)   == Opened(l) /\ ((Closed(l) /\ f \notin fb[l]) => Refused(out, touch))
ReadVarG(l, v, out, touch)   == Opened(l) /\ (Closed(l) => Refused(out, touch))
WriteVarG(l, v, out, touch)  == Opened(l) /\ (Closed(l) => Refused(out, touch))
AddressOfG(l, n, out, touch) == Opened(l)                   \* the property is silent
CallG(l, f, out, touch)      == ls[l] = "open" /\ f \in fb[l]   \* only exercised while open; silent
\* "closing again is harmless": no exception, no crash, no second dlclose() of the handle
CloseG(l, out, touch)        == Opened(l) /\ (Closed(l) => (out = "ok" /\ touch = 0))

\* ---- effects
Fetch(l, f, out) == fb' = (IF ls[l] = "open" /\ out = "ok" THEN [fb EXCEPT ![l] = @ \cup {f}] ELSE fb)
OpenE(l, out)         == /\ ls' = (IF out = "ok" THEN [ls EXCEPT ![l] = "open"] ELSE ls)
                         /\ UNCHANGED fb
GetFuncE(l, f, out)   == Fetch(l, f, out) /\ UNCHANGED ls
ReadVarE(l, v, out)   == UNCHANGED <<ls, fb>>
WriteVarE(l, v, out)  == UNCHANGED <<ls, fb>>
\* ffi.addressof(lib, "f") fetches f as well (constrains less after the close)
AddressOfE(l, n, out) == (IF n \in Funcs THEN Fetch(l, n, out) ELSE UNCHANGED fb) /\ UNCHANGED ls
CallE(l, f, out)      == UNCHANGED <<ls, fb>>
CloseE(l, out)        == /\ ls' = (IF out = "ok" THEN [ls EXCEPT ![l] = "closed"] ELSE ls)
                         /\ UNCHANGED fb

Ev(e, l, n, out, touch) == last' = [ev |-> e, l |-> l, n |-> n, out |-> out, touch |-> touch]

INext == \E l \in Libs, out \in Outs, touch \in 0..2 :
           \/ OpenG(l, out, touch) /\ OpenE(l, out) /\ Ev("open", l, "", out, touch)
           \/ CloseG(l, out, touch) /\ CloseE(l, out) /\ Ev("close", l, "", out, touch)
           \/ \E f \in Funcs :
                \/ GetFuncG(l, f, out, touch) /\ GetFuncE(l, f, out) /\ Ev("getfunc", l, f, out, touch)
                \/ CallG(l, f, out, touch) /\ CallE(l, f, out) /\ Ev("call", l, f, out, touch)
           \/ \E v \in Vars :
                \/ ReadVarG(l, v, out, touch) /\ ReadVarE(l, v, out) /\ Ev("readvar", l, v, out, touch)
                \/ WriteVarG(l, v, out, touch) /\ WriteVarE(l, v, out) /\ Ev("writevar", l, v, out, touch)
           \/ \E n \in Funcs \cup Vars :
                AddressOfG(l, n, out, touch) /\ AddressOfE(l, n, out) /\ Ev("addressof", l, n, out, touch)

ISpec == IInit /\ [][INext]_ivars

\* sanity of the formulation: a closed lib never becomes open again, fb is frozen after the close
ClosedForever == [][\A l \in Libs : Closed(l) => (Closed(l)' /\ fb'[l] = fb[l])]_ivars
=============================================================================
