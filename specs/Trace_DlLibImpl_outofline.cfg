SPECIFICATION TSpec
CONSTANTS Libs = {1,2}
  Funcs = {"f1","f2"}
  Vars = {"v1"}
  Flags = {"local","global"}
  Mode = "outofline"
  Variant = "faithful"
CHECK_DEADLOCK FALSE
