SPECIFICATION TSpec
CONSTANTS Cbs = {0}
CHECK_DEADLOCK FALSE
