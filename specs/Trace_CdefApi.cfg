SPECIFICATION TSpec
CONSTANTS
  TdNames = {}
  Tags = {}
  EnumTags = {}
  ConstNames = {}
  FuncNames = {}
  GlobNames = {}
  Prims = {}
  Feat = {}
  MaxDecls = 0
  MaxMut = 0
  Variants = {"faithful"}
CHECK_DEADLOCK FALSE
