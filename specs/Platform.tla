------------------------------ MODULE Platform ------------------------------
(* The platform the checks run on: x86-64, System V psABI, GCC, glibc.

   This table is written from the psABI (System V AMD64 ABI, figure 3.1 "Scalar Types") and
   glibc's <stdint.h>/<stddef.h>/<uchar.h> for x86-64 - NOT copied from cffi.  It is validated
   against the compiler by every check that uses it before it is used as an oracle (C06 probes
   every entry with gcc; disagreement is a machinery error, never a violation).

   kind:  "int"   integer type           (sgn = TRUE iff signed)
          "bool"  _Bool                  (values 0,1)
          "char"  character type         (char, wchar_t, char16_t, char32_t; sgn = signedness of
                                          the underlying integer type on this platform)
          "float" real floating type
          "complex"                       *)
EXTENDS Naturals, Sequences, FiniteSets, TLC

P(s, a, k, g) == [size |-> s, align |-> a, kind |-> k, sgn |-> g]

\* psABI figure 3.1
Prim ==
  ( "_Bool"              :> P(1, 1, "bool", FALSE) ) @@
  ( "char"               :> P(1, 1, "char", TRUE) ) @@      \* plain char is signed on x86-64
  ( "signed char"        :> P(1, 1, "int", TRUE) ) @@
  ( "unsigned char"      :> P(1, 1, "int", FALSE) ) @@
  ( "short"              :> P(2, 2, "int", TRUE) ) @@
  ( "unsigned short"     :> P(2, 2, "int", FALSE) ) @@
  ( "int"                :> P(4, 4, "int", TRUE) ) @@
  ( "unsigned int"       :> P(4, 4, "int", FALSE) ) @@
  ( "long"               :> P(8, 8, "int", TRUE) ) @@
  ( "unsigned long"      :> P(8, 8, "int", FALSE) ) @@
  ( "long long"          :> P(8, 8, "int", TRUE) ) @@
  ( "unsigned long long" :> P(8, 8, "int", FALSE) ) @@
  ( "float"              :> P(4, 4, "float", TRUE) ) @@
  ( "double"             :> P(8, 8, "float", TRUE) ) @@
  ( "long double"        :> P(16, 16, "float", TRUE) ) @@
  ( "float _Complex"     :> P(8, 4, "complex", TRUE) ) @@
  ( "double _Complex"    :> P(16, 8, "complex", TRUE) ) @@
  \* glibc, x86-64: wchar_t = int, char16_t = uint_least16_t, char32_t = uint_least32_t
  ( "wchar_t"            :> P(4, 4, "char", TRUE) ) @@
  ( "char16_t"           :> P(2, 2, "char", FALSE) ) @@
  ( "char32_t"           :> P(4, 4, "char", FALSE) ) @@
  \* <stdint.h>, x86-64 glibc
  ( "int8_t"             :> P(1, 1, "int", TRUE) ) @@
  ( "uint8_t"            :> P(1, 1, "int", FALSE) ) @@
  ( "int16_t"            :> P(2, 2, "int", TRUE) ) @@
  ( "uint16_t"           :> P(2, 2, "int", FALSE) ) @@
  ( "int32_t"            :> P(4, 4, "int", TRUE) ) @@
  ( "uint32_t"           :> P(4, 4, "int", FALSE) ) @@
  ( "int64_t"            :> P(8, 8, "int", TRUE) ) @@
  ( "uint64_t"           :> P(8, 8, "int", FALSE) ) @@
  ( "int_least8_t"       :> P(1, 1, "int", TRUE) ) @@
  ( "uint_least8_t"      :> P(1, 1, "int", FALSE) ) @@
  ( "int_least16_t"      :> P(2, 2, "int", TRUE) ) @@
  ( "uint_least16_t"     :> P(2, 2, "int", FALSE) ) @@
  ( "int_least32_t"      :> P(4, 4, "int", TRUE) ) @@
  ( "uint_least32_t"     :> P(4, 4, "int", FALSE) ) @@
  ( "int_least64_t"      :> P(8, 8, "int", TRUE) ) @@
  ( "uint_least64_t"     :> P(8, 8, "int", FALSE) ) @@
  \* the "fast" types of glibc on x86-64: 8 -> char, 16/32/64 -> long
  ( "int_fast8_t"        :> P(1, 1, "int", TRUE) ) @@
  ( "uint_fast8_t"       :> P(1, 1, "int", FALSE) ) @@
  ( "int_fast16_t"       :> P(8, 8, "int", TRUE) ) @@
  ( "uint_fast16_t"      :> P(8, 8, "int", FALSE) ) @@
  ( "int_fast32_t"       :> P(8, 8, "int", TRUE) ) @@
  ( "uint_fast32_t"      :> P(8, 8, "int", FALSE) ) @@
  ( "int_fast64_t"       :> P(8, 8, "int", TRUE) ) @@
  ( "uint_fast64_t"      :> P(8, 8, "int", FALSE) ) @@
  ( "intptr_t"           :> P(8, 8, "int", TRUE) ) @@
  ( "uintptr_t"          :> P(8, 8, "int", FALSE) ) @@
  ( "intmax_t"           :> P(8, 8, "int", TRUE) ) @@
  ( "uintmax_t"          :> P(8, 8, "int", FALSE) ) @@
  ( "ptrdiff_t"          :> P(8, 8, "int", TRUE) ) @@
  ( "size_t"             :> P(8, 8, "int", FALSE) ) @@
  ( "ssize_t"            :> P(8, 8, "int", TRUE) )

PrimNames == DOMAIN Prim

\* Spellings that denote a table entry under another name (C and cffi spellings).
Alias ==
  ( "bool"                   :> "_Bool" ) @@
  ( "_cffi_float_complex_t"  :> "float _Complex" ) @@
  ( "_cffi_double_complex_t" :> "double _Complex" )

Canon(n) == IF n \in DOMAIN Alias THEN Alias[n] ELSE n

PtrSize  == 8
PtrAlign == 8

\* Integer types may be the declared type of a bit-field (C11 6.7.2.1p5 + GCC: any integer type).
IsBitfieldType(n) == Prim[n].kind \in {"int", "bool"}
\* the widest bit-field a declared type admits: its width; _Bool has width 1 (C11 6.7.2.1p4)
MaxBits(n) == IF Prim[n].kind = "bool" THEN 1 ELSE 8 * Prim[n].size

\* x86-64 is little-endian: bit b of a storage unit at byte address A is bit (b % 8) of byte A + b \div 8.
=============================================================================
