SPECIFICATION Spec
CONSTANTS Libs = {1,2}
  Funcs = {"f1","f2"}
  Vars = {"v1"}
  Flags = {"local","global"}
  Mode = "inline"
  Variant = "faithful"
VIEW View
PROPERTY ISpec
PROPERTY ClosedForever
INVARIANT NeverDies
INVARIANT ClosedIsClean
INVARIANT CacheIsFetched
CHECK_DEADLOCK FALSE
