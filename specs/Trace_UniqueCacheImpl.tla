------------------------------ MODULE Trace_UniqueCacheImpl ------------------------------
(* Replays recorded histories of direct backend requests (new_primitive_type, new_pointer_type,
   new_array_type, new_function_type), drops and collections on the implementation model
   UniqueCache (Mode "c", lowest-free-address allocation) and checks that the real code took the
   model's step: a request returns the object the model returns (an existing one or a new one), an
   object dies when the model can free it.  Verdict per history: "same", or "stuck" and the
   position where the real history leaves the model (a model divergence, reported as a note). *)
EXTENDS UniqueCache, Json, IOUtils
VARIABLES k, i, reported
Traces == JsonDeserialize(IOEnv.TRACE_FILE)
tvars == <<vars, k, i, reported>>
TInit == Init /\ k \in 1..Len(Traces) /\ i = 1 /\ reported = FALSE

Act(e) == CASE e.op = "obtain" /\ e.rk = "prim" -> ReqPrim(e.rn) /\ ev'.s = e.s
            [] e.op = "obtain" /\ e.rk = "ptr"  -> SReqPtr(e.rc[1]) /\ ev'.s = e.s
            [] e.op = "obtain" /\ e.rk = "arr"  -> SReqArr(e.rc[1]) /\ ev'.s = e.s
            [] e.op = "obtain" /\ e.rk = "fn"   -> SReqFn(e.rc[1], e.rc[2]) /\ ev'.s = e.s
            [] e.op = "dead"    -> SDeallocRC(e.s) \/ SGcOne(e.s) \/ SWinWr(e.s)
            [] e.op = "dropcb"  -> SDropCb(e.s)
            [] e.op = "winclose" -> SWinClose(e.s)
            [] e.op = "drop"    -> SDropRef(e.s)
            [] e.op = "cycdrop" -> SCycDrop(e.s)
            [] e.op = "gc"      -> UNCHANGED vars
            [] OTHER -> FALSE
Consume == /\ i <= Len(Traces[k]) /\ Act(Traces[k][i]) /\ i' = i + 1 /\ UNCHANGED <<k, reported>>
Done == i > Len(Traces[k])
Stuck == i <= Len(Traces[k]) /\ ~ENABLED Act(Traces[k][i])
Report == /\ (Done \/ Stuck) /\ ~reported
          /\ PrintT(<<"IMPL", k, IF Done THEN "same" ELSE "stuck", i>>)
          /\ reported' = TRUE /\ UNCHANGED <<vars, k, i>>
TNext == Consume \/ Report
TSpec == TInit /\ [][TNext]_tvars
=============================================================================
