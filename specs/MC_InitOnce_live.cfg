SPECIFICATION FairSpec
CONSTANTS Threads = {1,2,3}
  Tags = {"A"}
  MaxCalls = 2
  Variant = "faithful"
INVARIANT MutexF
PROPERTY RefinesIdeal
PROPERTY EveryCallReturns
CHECK_DEADLOCK FALSE
