---------------------------- MODULE Trace_CdefApi ----------------------------
(* C12, code -> spec.  A record is a behaviour of CdefApi.tla (declarations, then mutations of
   the cdef) and what the gcc-compiled API-mode module showed:
     obs   : projection of the module (harness/modes_gen.py:observe; errors are values)
     gcc   : what gcc itself says about the C world: "struct s1" |-> [size, align, fields = <<name, offset, size>>*]
             (computed by helper functions compiled into the same module)
     calls : fn |-> [args, k, got]      lib.fn(args...) and the constant of the generated C body
     rw    : gv |-> [wl, wc]            written through lib / read in C, written in C / read through lib ("ok" | text)
     addr  : name |-> BOOLEAN           ffi.addressof(lib, name) = &name taken in C
     obs.alen : constant / enumerator name |-> length text | "error:X"   ffi.typeof("char[NAME]") (and sizeof, new)
   Verdict <<"VERDICT", id, V, D, G>>: V property clauses that fail <<clause, item, class>>,
   D model divergences, G disagreements between gcc and the specification's platform model
   (these make the whole record unusable: machinery error, never a verdict).                  *)
EXTENDS CdefApi, Json, IOUtils

VARIABLES k, done
Traces == JsonDeserialize(IOEnv.TRACE_FILE)
Has(f, x) == x \in DOMAIN f

IsMut(a) == a.a \in {"MutateField", "MutateConst", "MutateEnumerator", "AddDots", "MutatePack"}
ItemOf(a) == IF a.what = "su" THEN <<"su", <<a.item[1], a.item[2]>>>> ELSE <<a.what, a.item>>

\* st = [ev, c, fl, bad]
RECURSIVE RunApi(_, _, _)
RunApi(beh, i, st) ==
  IF i > Len(beh) THEN st
  ELSE LET a == beh[i]
           ev == st.ev
       IN IF ~IsMut(a)
          THEN IF Guard(ev, a) /\ ev = st.c
               THEN LET e2 == Effect(ev, a) IN RunApi(beh, i + 1, [st EXCEPT !.ev = e2, !.c = e2])
               ELSE [st EXCEPT !.bad = i]
          ELSE CASE a.a = "MutateField" ->
                      IF MutateFieldG(ev, <<a.kind, a.tag>>, a.how, a.i, a.arg)
                      THEN RunApi(beh, i + 1, [st EXCEPT !.ev = MutateFieldE(ev, <<a.kind, a.tag>>, a.how, a.i, a.arg)])
                      ELSE [st EXCEPT !.bad = i]
                 [] a.a = "MutateConst" ->
                      IF MutateConstG(ev, a.n, a.val)
                      THEN RunApi(beh, i + 1, [st EXCEPT !.ev = MutateConstE(ev, a.n, a.val)])
                      ELSE [st EXCEPT !.bad = i]
                 [] a.a = "MutateEnumerator" ->
                      IF MutateEnumeratorG(ev, a.tag, a.i, a.val)
                      THEN RunApi(beh, i + 1, [st EXCEPT !.ev = MutateEnumeratorE(ev, a.tag, a.i, a.val)])
                      ELSE [st EXCEPT !.bad = i]
                 [] a.a = "MutatePack" ->
                      IF MutatePackG(ev, st.fl, <<a.kind, a.tag>>, a.where)
                      THEN RunApi(beh, i + 1, [st EXCEPT !.fl = MutatePackE(@, <<a.kind, a.tag>>, a.where)])
                      ELSE [st EXCEPT !.bad = i]
                 [] a.a = "AddDots" ->
                      IF AddDotsG(ev, st.fl, ItemOf(a))
                      THEN RunApi(beh, i + 1, [st EXCEPT !.fl = @ \cup {ItemOf(a)}])
                      ELSE [st EXCEPT !.bad = i]

\* names of aggregates in generated modules: _realize_name
ApiLeaf(key) == RealizeName(IF key[1] = "union" THEN "union " ELSE "struct ", key[2])
RECURSIVE NormApi(_)
NormApi(t) ==
  CASE IsSU(t) -> <<t[1], ApiLeaf(t)>>
    [] t[1] = "enum" -> <<"enum", "enum " \o t[2]>>
    [] t[1] = "file" -> <<"struct", "FILE">>
    [] t[1] = "ptr" -> Ptr(NormApi(t[2]))
    [] t[1] = "arr" -> Arr(NormApi(t[2]), t[3])
    [] t[1] = "fnp" -> FnP(NormApi(t[2]), [i \in DOMAIN t[3] |-> NormApi(t[3][i])], t[4])
    [] OTHER -> t

IsSigned(p) == p \in {"char", "signed char", "short", "int", "long", "long long", "int8_t", "int16_t", "int32_t",
                      "int64_t", "ssize_t", "intptr_t", "ptrdiff_t", "wchar_t"}
Pow2(n) == IF n = 8 THEN 256 ELSE 65536
\* (T)(v) for small v >= 0 (C conversion to an integer type; only 1- and 2-byte types can wrap)
WrapTo(v, p) ==
  IF p = "_Bool" THEN (IF v = 0 THEN 0 ELSE 1)
  ELSE IF PrimSize[p] >= 4 THEN v
  ELSE LET m == Pow2(8 * PrimSize[p])
           u == v % m
       IN IF IsSigned(p) /\ u >= m \div 2 THEN u - m ELSE u
RECURSIVE SumSeq(_, _)
SumSeq(s, i) == IF i > Len(s) THEN 0 ELSE s[i] + SumSeq(s, i + 1)

SUObsOK(o, ev, c, fl, key) ==
  LET x == ApiAggObs(ev, c, fl, key)
  IN /\ Has(o, "kind") /\ o.kind = x.kind /\ o.complete = x.complete
     /\ Len(o.fields) = Len(x.fields)
     /\ \A f \in DOMAIN x.fields : /\ o.fields[f][1] = x.fields[f][1]
                                   /\ o.fields[f][2] = NormApi(ev.su[key].fields[f][2])
                                   /\ (x.fields[f][2] = Unk \/ o.fields[f][3] = x.fields[f][2])
                                   /\ o.fields[f][5] = x.fields[f][3]
     /\ o.size = x.size /\ o.align = x.align

Verdict(r) ==
  LET st == RunApi(r.beh, 1, [ev |-> EnvInit, c |-> EnvInit, fl |-> {}, bad |-> 0])
      ev == st.ev
      c == st.c
      fl == st.fl
      o == r.obs
      unchecked == "enumerator:value-not-checked-in-API-mode"
      \* ---- gcc against the platform model (complete aggregates of the C world without bit-fields)
      plain(key) == c.su[key].complete /\ \A f \in DOMAIN c.su[key].fields : c.su[key].fields[f][3] = Unk
      gBad == {key \in DOMAIN c.su : plain(key) /\ Has(r.gcc, KeyStr(key)) /\
                 LET g == r.gcc[KeyStr(key)]
                 IN ~( /\ g.size = LSize(c, key, PkW(fl, key)) /\ g.align = LAlign(c, key, PkW(fl, key))
                       /\ Len(g.fields) = Len(c.su[key].fields)
                       /\ \A f \in DOMAIN g.fields : /\ g.fields[f][1] = c.su[key].fields[f][1]
                                                     /\ g.fields[f][2] = LOff(c, key, f, PkW(fl, key))
                                                     /\ g.fields[f][3] = SizeOf(c, c.su[key].fields[f][2]) )}
      \* ---- structs and unions
      suExp(key) == IdealSU(ev, c, fl, key)
      suErr(key) == Has(o.su[KeyStr(key)], "error")
      vSu == {key \in {key \in DOMAIN ev.su : Queryable(key)} :
                 \/ suExp(key) = "ok" /\ ~DependsOnBroken(ev, c, fl, key) /\ ~SUObsOK(o.su[KeyStr(key)], ev, c, fl, key)
                 \/ suExp(key) = "error" /\ ~suErr(key)}
      dSu == {key \in {key \in DOMAIN ev.su : Queryable(key)} : (ModelSU(ev, c, fl, key) = "error") # suErr(key) /\ ~DependsOnBroken(ev, c, fl, key)}
      \* ---- constants
      kErr(n) == Len(o.k[n]) >= 6 /\ SubSeq(o.k[n], 1, 6) = "error:"
      vK == {n \in DOMAIN ev.kc : \/ IdealConst(ev, c, fl, n) = "ok" /\ o.k[n] # c.kc[n]
                                  \/ IdealConst(ev, c, fl, n) = "error" /\ ~kErr(n)}
      \* ---- enumerators
      enItems == UNION {{<<g, i>> : i \in DOMAIN ev.en[g].names} : g \in DOMAIN ev.en}
      enName(x) == ev.en[x[1]].names[x[2]]
      enErr(x) == Len(o.k[enName(x)]) >= 6 /\ SubSeq(o.k[enName(x)], 1, 6) = "error:"
      vEn == {x \in enItems : \/ IdealEnumerator(ev, c, x[1], x[2]) = "ok" /\ o.k[enName(x)] # c.en[x[1]].vals[x[2]]
                              \/ IdealEnumerator(ev, c, x[1], x[2]) = "error" /\ ~enErr(x)}
      enClass(x) == IF IdealEnumerator(ev, c, x[1], x[2]) = "error" /\ o.k[enName(x)] = c.en[x[1]].vals[x[2]]
                    THEN unchecked ELSE ""
      \* ---- constants and enumerators as array lengths in type strings: ffi.typeof("char[K]") etc.
      isErr(x) == Len(x) >= 6 /\ SubSeq(x, 1, 6) = "error:"
      lenBad(exp, got) == \/ exp = <<"error">> /\ ~isErr(got)
                          \/ exp[1] = "ok" /\ got # exp[2]
      vLen == {n \in DOMAIN ev.kc : Has(o.alen, n) /\ lenBad(IdealLen(ev, c, fl, n), o.alen[n])}
      lenClass(n) == ""          \* no documented class (the C-value-0 case was repaired in /repo 8c4f132)
      vEnLen == {x \in enItems : Has(o.alen, enName(x)) /\ lenBad(IdealEnLen(ev, c, x[1], x[2]), o.alen[enName(x)])}
      enLenClass(x) == IF IdealEnumerator(ev, c, x[1], x[2]) = "error" /\ o.alen[enName(x)] = c.en[x[1]].vals[x[2]]
                       THEN unchecked ELSE ""
      dLen == {n \in DOMAIN ev.kc : Has(o.alen, n) /\ ModelLen(ev, c, fl, n) # <<"any">>
                                     /\ lenBad(ModelLen(ev, c, fl, n), o.alen[n])}
      \* ---- typedefs, functions, variables: present with the declared type
      vTd == {n \in DOMAIN ev.td : ~DependsOnBroken(ev, c, fl, ev.td[n]) /\ o.td[n] # NormApi(ev.td[n])}
      fnFree(f) == ~DependsOnBroken(ev, c, fl, ev.fn[f])
      gvFree(g) == ~DependsOnBroken(ev, c, fl, ev.gv[g])
      vFn == {f \in DOMAIN ev.fn : fnFree(f) /\ o.fn[f] # NormApi(ev.fn[f])}
      vGv == {g \in DOMAIN ev.gv : gvFree(g) /\ o.gv[g] # NormApi(ev.gv[g])}
      vAddr == {x \in {g \in DOMAIN ev.gv : gvFree(g)} : ~(Has(r.addr, x) /\ r.addr[x])}
      \* ---- calls return what the C function returns: K + sum of the integer arguments, converted
      vCall == {f \in DOMAIN r.calls : fnFree(f) /\
                  LET cl == r.calls[f]
                      p == ev.fn[f][2][2]
                  IN cl.got # ToString(WrapTo(cl.k + SumSeq(cl.args, 1), p))}
      vRw == {g \in DOMAIN r.rw : gvFree(g) /\ ~(r.rw[g].wl = "ok" /\ r.rw[g].wc = "ok")}
  IN IF st.bad # 0 THEN << {<<"guard", ToString(st.bad), "">>}, {}, {} >>
     ELSE IF r.err # ""
          THEN << {<<"build", r.err, "">>}, {}, {} >>
     ELSE << {<<"su", KeyStr(key), "">> : key \in vSu} \cup {<<"k", n, "">> : n \in vK}
             \cup {<<"en", enName(x), enClass(x)>> : x \in vEn}
             \cup {<<"len", n, lenClass(n)>> : n \in vLen} \cup {<<"len", enName(x), enLenClass(x)>> : x \in vEnLen}
             \cup {<<"td", n, "">> : n \in vTd} \cup {<<"fn", f, "">> : f \in vFn} \cup {<<"gv", g, "">> : g \in vGv}
             \cup {<<"addr", x, "">> : x \in vAddr} \cup {<<"call", f, "">> : f \in vCall} \cup {<<"rw", g, "">> : g \in vRw},
             {<<"model", "su", KeyStr(key)>> : key \in dSu} \cup {<<"model", "len", n>> : n \in dLen},
             {KeyStr(key) : key \in gBad} >>

TInit == k \in 1..Len(Traces) /\ done = FALSE /\ cenv = EnvInit /\ hist = <<>> /\ variant = "faithful"
         /\ cw = EnvInit /\ flex = {} /\ phase = "decl"
TNext == /\ ~done
         /\ LET v == Verdict(Traces[k]) IN PrintT(<<"VERDICT", Traces[k].id, v[1], v[2], v[3]>>)
         /\ done' = TRUE /\ UNCHANGED <<k, cenv, hist, variant, cw, flex, phase>>
TSpec == TInit /\ [][TNext]_<<k, done, cenv, hist, variant, cw, flex, phase>>
=============================================================================
