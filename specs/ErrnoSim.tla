------------------------------ MODULE ErrnoSim ------------------------------
(* Errno.tla plus a history variable: every behaviour TLC generates (in simulation mode, or
   exhaustively for tiny bounds) is printed as <<"BEH", h>> when it reaches length N, where
   h = << <<"Init", real>>, <<action, thread, args..., observation>>, ... >>.  The replayer
   executes h step by step on real threads. *)
EXTENDS Errno
CONSTANT N
VARIABLE h
svars == <<real, saved, stk, obs, boot, pend, h>>
Log(x) == h' = Append(h, x)
SimInit == Init /\ h = << <<"Init", real>> >>
SimNext == \E t \in Threads :
             \/ \E v \in Vals : \/ Set(t, v) /\ Log(<<"Set", t, v>>)
                                \/ Clobber(t, v) /\ Log(<<"Clobber", t, v>>)
                                \/ CSet(t, v) /\ Log(<<"CSet", t, v>>)
                                \/ EmbStart(t, v) /\ Log(<<"EmbStart", t, v>>)
             \/ EmbCall(t) /\ Log(<<"EmbCall", t>>)
             \/ EmbForward(t) /\ Log(<<"EmbForward", t>>)
             \/ Get(t) /\ Log(<<"Get", t, obs'[t][1]>>)
             \/ CallExit(t) /\ Log(<<"CallExit", t>>)
             \/ CbExit(t) /\ Log(<<"CbExit", t, obs'[t][1]>>)
             \/ \E p \in Paths : CallEnter(t, p) /\ Log(<<"CallEnter", t, p, obs'[t][1]>>)
             \/ \E k \in Kinds : CbEnter(t, k) /\ Log(<<"CbEnter", t, k>>)
SimSpec == SimInit /\ [][SimNext]_svars
Emit == Len(h) <= N \/ (PrintT(<<"BEH", h>>) /\ FALSE)
=============================================================================
