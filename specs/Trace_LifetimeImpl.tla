------------------------------ MODULE Trace_LifetimeImpl ------------------------------
(* Replays recorded operation histories on the implementation model Lifetime and compares what the
   real code did with the model's prediction: the destructor / free calls of every operation (in
   order; as a set for gc.collect(), whose finalizer order is unspecified), the exception class and
   the observation of probes.  Verdict per history: "same", the first differing field, or "stuck"
   (the model cannot perform the operation).  Differences are model divergences (notes). *)
EXTENDS Lifetime, Json, IOUtils
VARIABLES k, i, div, reported
Traces == JsonDeserialize(IOEnv.TRACE_FILE)
tvars == <<vars, k, i, div, reported>>

TInit == Init /\ k \in 1..Len(Traces) /\ i = 1 /\ div = "" /\ reported = FALSE

Act(e) == CASE e.op = "new" /\ e.k \in {"P", "S", "A", "T", "E"} -> New(e.k) /\ ev'.o = e.o
            [] e.op = "new" /\ e.k = "W" -> NewW(e.t, e.sc, e.rl) /\ ev'.o = e.o
            [] e.op = "new" /\ e.k = "V" -> NewV(e.t) /\ ev'.o = e.o
            [] e.op = "new" /\ e.k = "H" -> NewH(e.sc, e.addr) /\ ev'.o = e.o
            [] e.op = "alias"       -> Alias(e.o)
            [] e.op = "dropalias"   -> DropAlias(e.o)
            [] e.op = "drop"        -> Drop(e.o)
            [] e.op = "cycle"       -> Cycle(e.o)
            [] e.op = "release"     -> Release(e.o, e.via)
            [] e.op = "gcnone"      -> GcNone(e.o)
            [] e.op = "collect"     -> Collect
            [] e.op = "probelock"   -> ProbeLock(e.o)
            [] e.op = "probealive"  -> ProbeAlive(e.o)
            [] e.op = "probestruct" -> ProbeStruct(e.o)
            [] e.op = "fromhandle"  -> FromHandle(e.o)
            [] OTHER -> FALSE

SetOf(q) == {q[j] : j \in DOMAIN q}
Diff(e) == CASE e.op = "collect" /\ SetOf(ev'.ran) # SetOf(e.ran) -> "ran"
             [] e.op # "collect" /\ ev'.ran # e.ran -> "ran"
             [] ev'.nrel # e.nrel -> "nrel"
             [] ev'.exc # e.exc -> "exc"
             [] e.op \in {"probelock", "probealive", "probestruct", "fromhandle"} /\ ev'.obs # e.obs -> "obs"
             [] OTHER -> ""

Consume == /\ i <= Len(Traces[k]) /\ div = ""
           /\ LET e == Traces[k][i] IN Act(e) /\ div' = Diff(e)
           /\ i' = i + 1 /\ UNCHANGED <<k, reported>>

Stuck == /\ i <= Len(Traces[k]) /\ div = "" /\ ~ENABLED Act(Traces[k][i])
         /\ div' = "stuck" /\ i' = i + 1 /\ UNCHANGED <<vars, k, reported>>

Report == /\ (i > Len(Traces[k]) \/ div # "") /\ ~reported
          /\ PrintT(<<"IMPL", k, IF div = "" THEN "same" ELSE div, i - 1>>)
          /\ reported' = TRUE /\ UNCHANGED <<vars, k, i, div>>

TNext == Consume \/ Stuck \/ Report
TSpec == TInit /\ [][TNext]_tvars
=============================================================================
