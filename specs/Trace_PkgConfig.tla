------------------------------ MODULE Trace_PkgConfig ------------------------------
(* Validates outcomes of the real flags_from_pkgconfig (run against a stub pkg-config) with
   PkgConfig!Verdict.  Records: [pkgs, err, res]; prints <<"VERDICT", k, clause>> for every
   record whose verdict is not "ok", <<"DIVERGE", k>> when the outcome differs from the
   implementation model, and finally <<"CHECKED", n>>. *)
EXTENDS PkgConfig, Json, IOUtils
VARIABLES k
Recs == JsonDeserialize(IOEnv.TRACE_FILE)
Norm(res) == [key \in KeySet |-> res[key]]
Check(i) == LET r == Recs[i]
                res == Norm(r.res)
                tp == Tok(r.pkgs)
                v == VerdictT(tp, r.err, res)
                m == ImplT(tp)
            IN /\ IF v = "ok" THEN TRUE ELSE PrintT(<<"VERDICT", i, v>>)
               /\ IF m.err = r.err /\ (r.err \/ m.res = res) THEN TRUE ELSE PrintT(<<"DIVERGE", i>>)
TInit == k = 0
TNext == \/ k < Len(Recs) /\ Check(k + 1) /\ k' = k + 1
         \/ k = Len(Recs) /\ PrintT(<<"CHECKED", k>>) /\ k' = k + 1
TSpec == TInit /\ [][TNext]_k
=============================================================================
