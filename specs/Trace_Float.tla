------------------------------ MODULE Trace_Float ------------------------------
(* Validates recorded floating-point stores/casts against Float!Narrow at the true formats
   double (11,52) -> float (8,23).  Records with ref = "gcc" carry the compiler's own
   conversion: they must agree with the spec too (otherwise the platform model is wrong and
   the check reports a machinery error, never a violation). *)
EXTENDS Float, Json, IOUtils, TLC
R == JsonDeserialize(IOEnv.TRACE_FILE)

IsNaN(b, eb, mb) == ExpField(b, eb, mb) = 2 ^ eb - 1 /\ AnyOne(Mant(b, mb))
NarrowClause(r) ==
    LET n == Narrow(r.d, 11, 52, 8, 23) IN
    IF r.out # "ok" THEN "outcome-class"
    ELSE IF n.cls = "nan" THEN (IF IsNaN(r.f, 8, 23) THEN "ok" ELSE "nan-stays-nan")
    ELSE IF Sign(r.f) # n.sign THEN "sign"
    ELSE IF BitsNat(Sub(r.f, 1, 31)) # n.pat THEN (IF n.cls = "inf" THEN "infinity-kept-or-overflow" ELSE "round-to-nearest")
    ELSE "ok"
Same64Clause(r) ==
    IF r.out # "ok" THEN "outcome-class"
    ELSE IF IsNaN(r.a, 11, 52) THEN (IF IsNaN(r.b, 11, 52) THEN "ok" ELSE "nan-stays-nan")
    ELSE IF r.a = r.b THEN "ok" ELSE "double-exact"
SameBytesClause(r) == IF r.out = "ok" /\ r.a = r.b THEN "ok" ELSE "bit-exact-copy"
Clause(r) == CASE r.op = "narrow" -> NarrowClause(r)
               [] r.op = "same64" -> Same64Clause(r)
               [] r.op = "samebytes" -> SameBytesClause(r)
               [] OTHER -> "unknown-op"
ASSUME \A i \in 1..Len(R) : LET c == Clause(R[i]) IN c = "ok" \/ PrintT(<<"BAD", R[i].id, c>>)
ASSUME PrintT(<<"CHECKED", Len(R)>>)
VARIABLE x
Spec == x = 0 /\ [][UNCHANGED x]_x
=============================================================================
