------------------------------- MODULE CdefOol -------------------------------
(* C11 - implementation model of the out-of-line ABI mode.

   Encode(ev)  : what recompiler.py writes for set_source(name, None):
                  Recompiler.collect_type_table (type table, 0-based indexes, sorted by
                  str(type)), collect_step_tables (globals / struct_unions / enums / typenames
                  sorted by name, _add_missing_struct_unions), CffiOp.as_python_bytes /
                  format_four_bytes (4 bytes big endian of (arg << 8) | op).
   Decode       : what the backend does with these tables: cdlopen.c:ffiobj_init / cdl_4bytes /
                  cdl_opcode, parse_c_type.c:search_sorted, realize_c_type.c:
                  realize_c_type_or_func_now, _realize_c_struct_or_union, _realize_name,
                  do_realize_lazy_struct, _cdl_realize_global_int / realize_global_int,
                  ffi_obj.c:ffi_list_types.
   ObsOol(ev)  : the projection of Decode(Encode(ev)), same shape as Cdef!Obs.

   Theorem checked by TLC (MC_CdefOol*.cfg): ObsOol(ev) = Obs(ev) clause by clause, for every
   reachable env, except for the documented divergence classes Known* below (with
   Strict = TRUE these are not excepted and TLC must report them).                       *)
EXTENDS Cdef, SequencesExt

CONSTANT Variants     \* subset of {"faithful", "strict", "susort", "nolen", "dollar", "negmask", "filetwice", "signedlowbyte", "zerowidth-as-field"}
VARIABLE variant      \* chosen at Init, never changes.  "faithful": the transcription; "strict": the
                      \* transcription, but no documented divergence class is excepted (TLC must
                      \* report them); the others are deliberately broken transcriptions (non-vacuity)

(* ------------------------------------------------------------------ cffi_opcode.py *)
OP_PRIMITIVE == 1   OP_POINTER == 3   OP_ARRAY == 5   OP_OPEN_ARRAY == 7   OP_STRUCT_UNION == 9
OP_ENUM == 11       OP_FUNCTION == 13 OP_FUNCTION_END == 15  OP_NOOP == 17  OP_BITFIELD == 19
OP_CONSTANT_INT == 31   OP_GLOBAL_VAR == 33   OP_DLOPEN_FUNC == 35

F_UNION == 1   F_CHECK_FIELDS == 2   F_PACKED == 4   F_EXTERNAL == 8   F_OPAQUE == 16

PrimIndex == [p \in DOMAIN PrimRow |-> PrimTab[PrimRow[p]][3]]
\* realize_c_type.c:build_primitive_type  primitive_name[]
PrimName(i) == CHOOSE p \in DOMAIN PrimIndex : PrimIndex[p] = i

(* format_four_bytes / cdl_4bytes: a word w = (arg << 8) | op, -2^31 <= w < 2^31 *)
Enc4(w) == << (w \div 16777216) % 256, (w \div 65536) % 256, (w \div 256) % 256, w % 256 >>
\* cdl_4bytes: (ssrc[0] << 24) | (usrc[1] << 16) | (usrc[2] << 8) | usrc[3].  Variant "signedlowbyte"
\* reads the last byte through the signed char pointer: a low byte >= 0x80 sign-extends and the
\* bitwise or wipes out the three upper bytes.
Dec4(b) == IF variant = "signedlowbyte" /\ b[4] >= 128 THEN b[4] - 256
           ELSE (IF b[1] >= 128 THEN b[1] - 256 ELSE b[1]) * 16777216 + b[2] * 65536 + b[3] * 256 + b[4]
\* a number that travels as 4 bytes in one of the tuples (type_index, flags, type_prim, bit size)
D4(x) == Dec4(Enc4(x))
Word(op, arg) == arg * 256 + op
GetOp(w)  == w % 256             \* _CFFI_GETOP: (unsigned char)
GetArg(w) == w \div 256          \* _CFFI_GETARG: arithmetic shift right by 8
Fits24(arg) == arg >= 0 - 8388608 /\ arg < 8388608

(* ------------------------------------------------------------------ model.py names *)
\* c_name_with_marker as <<text before '&', text after '&'>> ; raw function types are
\* <<"fn", res, args, ell>> (they exist only inside the recompiler)
ArgsText(names) ==
  LET RECURSIVE J(_)
      J(i) == IF i > Len(names) THEN "" ELSE (IF i > 1 THEN ", " ELSE "") \o names[i] \o J(i + 1)
  IN J(1)

RECURSIVE Marked(_, _)
Marked(ev, t) ==
  CASE t[1] = "void" -> <<"void", "">>
    [] t[1] = "prim" -> <<t[2], "">>
    [] IsSU(t) -> <<AggName(ev, t), "">>
    [] t[1] = "enum" -> <<EnumName(ev, t[2]), "">>
    [] t[1] = "file" -> <<"FILE", "">>
    [] t[1] = "ptr" -> LET m == Marked(ev, t[2])
                       IN IF t[2][1] = "arr" THEN <<m[1] \o "(*", ")" \o m[2]>> ELSE <<m[1] \o " *", m[2]>>
    [] t[1] = "arr" -> LET m == Marked(ev, t[2])
                       IN <<m[1], "[" \o (IF t[3] = Open THEN "" ELSE ToString(t[3])) \o "]" \o m[2]>>
    [] t[1] \in {"fnp", "fn"} ->
         LET m == Marked(ev, t[2])
             an == Tup([i \in DOMAIN t[3] |-> LET a == Marked(ev, t[3][i]) IN a[1] \o a[2]])
             al == IF t[4] THEN Append(an, "...") ELSE IF Len(an) = 0 THEN <<"void">> ELSE an
         IN <<m[1] \o (IF t[1] = "fnp" THEN "(*" ELSE "("), ")(" \o ArgsText(al) \o ")" \o m[2]>>
PyStr(ev, t) == LET m == Marked(ev, t) IN "<" \o m[1] \o m[2] \o ">"        \* str(tp) = repr

(* ------------------------------------------------------------------ Encode *)
SUTag(t) == IF t = File THEN "_IO_FILE" ELSE t[2]          \* tp.name
IsAgg(t) == IsSU(t) \/ t = File
SUComplete(ev, t) == t # File /\ ev.su[t].complete
Raw(t) == <<"fn", t[2], t[3], t[4]>>

\* the declarations the recompiler iterates over (ffi._parser._declarations); a struct/union is
\* a declaration of its own iff it has a tag or a typedef name ("anonymous n")
DeclaredSUs(ev) == DOMAIN ev.su

\* Recompiler._do_collect_type: what collecting t pulls in
Items(ev, t) ==
  CASE t[1] = "fnp" -> {Raw(t)}
    [] t[1] = "fn"  -> {t[2]} \cup {t[3][i] : i \in DOMAIN t[3]}
    [] t[1] \in {"ptr", "arr"} -> {t[2]}
    [] IsSU(t) -> IF ev.su[t].complete /\ t \notin ev.inc
                  THEN {ev.su[t].fields[i][2] : i \in DOMAIN ev.su[t].fields} ELSE {}
    [] OTHER -> {}

RECURSIVE Close(_, _)
Close(ev, S) == LET S2 == S \cup UNION {Items(ev, t) : t \in S}
                 IN IF S2 = S THEN S ELSE Close(ev, S2)

\* _generate("collecttype") for target_is_python
TypesDict(ev) ==
  Close(ev, {ev.td[n] : n \in DOMAIN ev.td}
             \cup {Raw(ev.fn[f]) : f \in DOMAIN ev.fn}
             \cup DeclaredSUs(ev)
             \cup {<<"enum", e>> : e \in DOMAIN ev.en}
             \cup {ev.gv[g] : g \in DOMAIN ev.gv})

\* all_decls = sorted(self._typesdict, key=str)
NoTies(ev) == \A a, b \in TypesDict(ev) : a # b => PyStr(ev, a) # PyStr(ev, b)

(* index assignment: st = [slots, idx]; slots[i+1] describes the 0-based slot i:
   <<"own", tp>> primary slot of tp | <<"arg", fn, j>> | <<"end", fn>> | <<"len", arr>> *)
RECURSIVE AddArgs(_, _, _)
AddArgs(st, fn, j) ==
  IF j > Len(fn[3]) THEN st
  ELSE LET a == fn[3][j]
           st1 == IF a \in DOMAIN st.idx
                  THEN [st EXCEPT !.slots = Append(@, <<"arg", fn, j>>)]
                  ELSE [slots |-> Append(st.slots, <<"own", a>>), idx |-> Put(st.idx, a, Len(st.slots))]
       IN AddArgs(st1, fn, j + 1)

RECURSIVE AddFns(_, _, _)
AddFns(st, decls, i) ==     \* "prepare all FUNCTION bytecode sequences first"
  IF i > Len(decls) THEN st
  ELSE IF decls[i][1] # "fn" THEN AddFns(st, decls, i + 1)
  ELSE LET fn == decls[i]
           st0 == [slots |-> Append(st.slots, <<"own", fn>>), idx |-> Put(st.idx, fn, Len(st.slots))]
           st1 == AddArgs(st0, fn, 1)
       IN AddFns([st1 EXCEPT !.slots = Append(@, <<"end", fn>>)], decls, i + 1)

RECURSIVE AddOthers(_, _, _)
AddOthers(st, decls, i) ==  \* "prepare all OTHER bytecode sequences"
  IF i > Len(decls) THEN st
  ELSE LET tp == decls[i]
       IN IF tp[1] = "fn" \/ tp \in DOMAIN st.idx THEN AddOthers(st, decls, i + 1)
          ELSE LET st0 == [slots |-> Append(st.slots, <<"own", tp>>), idx |-> Put(st.idx, tp, Len(st.slots))]
                   st1 == IF tp[1] = "arr" /\ tp[3] # Open /\ variant # "nolen"
                          THEN [st0 EXCEPT !.slots = Append(@, <<"len", tp>>)] ELSE st0
               IN AddOthers(st1, decls, i + 1)

PosIn(seq, x) == (CHOOSE i \in DOMAIN seq : seq[i] = x) - 1

\* _emit_bytecode_Xxx: the word of the primary slot of tp (suPos/enPos: 0-based positions in
\* self._struct_unions / self._enums)
OwnWord(idx, suPos, enPos, tp) ==
  CASE tp[1] = "void" -> Word(OP_PRIMITIVE, 0)
    [] tp[1] = "prim" -> Word(OP_PRIMITIVE, PrimIndex[tp[2]])
    [] tp[1] = "ptr"  -> Word(OP_POINTER, idx[tp[2]])
    [] tp[1] = "fnp"  -> Word(OP_POINTER, idx[Raw(tp)])
    [] tp[1] = "arr"  -> IF tp[3] = Open THEN Word(OP_OPEN_ARRAY, idx[tp[2]]) ELSE Word(OP_ARRAY, idx[tp[2]])
    [] IsAgg(tp)      -> Word(OP_STRUCT_UNION, suPos[tp])
    [] tp[1] = "enum" -> Word(OP_ENUM, enPos[tp[2]])
    [] tp[1] = "fn"   -> Word(OP_FUNCTION, idx[tp[2]])

SlotWord(idx, suPos, enPos, sd) ==
  CASE sd[1] = "own" -> OwnWord(idx, suPos, enPos, sd[2])
    [] sd[1] = "arg" -> LET a == sd[2][3][sd[3]]          \* _emit_bytecode_RawFunctionType
                        IN IF a[1] = "prim" THEN Word(OP_PRIMITIVE, PrimIndex[a[2]])
                           ELSE IF variant = "nonoop" THEN OwnWord(idx, suPos, enPos, a)
                           ELSE Word(OP_NOOP, idx[a])
    [] sd[1] = "end" -> Word(OP_FUNCTION_END, IF sd[2][4] THEN 1 ELSE 0)
    [] sd[1] = "len" -> sd[2][3]                          \* CffiOp(None, str(length)): the raw number

\* EnumExpr.as_python_expr: (size, signed) -> PRIM_UINT32 / PRIM_INT32 / PRIM_UINT64 / PRIM_INT64
EnumPrim(vals) == IF EnumSize(vals) = 4 THEN (IF EnumSigned(vals) THEN 21 ELSE 22)
                  ELSE (IF EnumSigned(vals) THEN 23 ELSE 24)

SUFlags(ev, t) ==
    (IF t[1] = "union" THEN F_UNION ELSE 0)
  + (IF ~SUComplete(ev, t) THEN F_OPAQUE ELSE 0)
  + (IF t \in ev.inc THEN F_EXTERNAL
     ELSE IF SUComplete(ev, t) THEN F_CHECK_FIELDS ELSE 0)

SUEntry(ev, idx, t) ==
  [ name |-> SUTag(t), tidx |-> idx[t], flags |-> SUFlags(ev, t),
    fields |-> IF SUComplete(ev, t) /\ t \notin ev.inc
               THEN LET fs == ev.su[t].fields
                    IN Tup([i \in DOMAIN fs |-> [ name |-> fs[i][1],
                                              \* _struct_ctx: "if fbitsize >= 0: op = OP_BITFIELD" (also for ":0");
                                              \* variant "zerowidth-as-field" tests fbitsize > 0
                                              op |-> IF fs[i][3] = Unk \/ (variant = "zerowidth-as-field" /\ fs[i][3] = 0)
                                                     THEN OP_NOOP ELSE OP_BITFIELD,
                                              arg |-> idx[fs[i][2]], bits |-> fs[i][3] ]])
               ELSE <<>> ]

SortByName(seq) == SortSeq(seq, LAMBDA a, b : StrLt(a.name, b.name))

\* typedefs that name FILE itself: the first one makes _generate_cpy_typedef_ctx emit the struct_unions
\* entry for _IO_FILE (origin == "unknown_type"; later ones find it in _seen_struct_unions).
\* Variant "filetwice" is the code before that test was added: one entry per typedef, and the
\* consistency assert of collect_step_tables fails.
FileTypedefs(ev) == {n \in DOMAIN ev.td : ev.td[n] = File}

Encode(ev) ==
  LET TD == TypesDict(ev)
      nm == Fn([t \in TD |-> PyStr(ev, t)])
      decls == SortSeq(SetToSeq(TD), LAMBDA a, b : StrLt(nm[a], nm[b]))
      L == AddOthers(AddFns([slots |-> <<>>, idx |-> EmptyFn], decls, 1), decls, 1)
      idx == L.idx
      aggs == {t \in TD : IsAgg(t)}
      \* self._struct_unions / self._enums : sorted by tp.name
      suSeq == SortSeq(SetToSeq(aggs), LAMBDA a, b : IF variant = "susort" THEN StrLt(nm[a], nm[b])
                                                     ELSE StrLt(SUTag(a), SUTag(b)))
      enSeq == SortSeq(SetToSeq(DOMAIN ev.en), StrLt)
      suPos == Fn([t \in aggs |-> PosIn(suSeq, t)])
      enPos == Fn([g \in DOMAIN ev.en |-> PosIn(enSeq, g)])
      words == Tup([i \in DOMAIN L.slots |-> SlotWord(idx, suPos, enPos, L.slots[i])])
      fileUsed == File \in TD
      globals ==
        SetToSeq({[name |-> f, w |-> Word(OP_DLOPEN_FUNC, idx[Raw(ev.fn[f])]), val |-> "0"] : f \in DOMAIN ev.fn})
        \o SetToSeq({[name |-> g, w |-> Word(OP_GLOBAL_VAR, idx[ev.gv[g]]), val |-> "0"] : g \in DOMAIN ev.gv})
        \* 'macro' declarations are not re-declared by Parser.include(): only the FFI's own constants
        \o SetToSeq({[name |-> c, w |-> Word(OP_CONSTANT_INT, 0 - 1), val |-> ev.kc[c]]
                      : c \in {c \in DOMAIN ev.kc : <<"k", c>> \notin ev.inc}})
        \o SetToSeq(UNION {{[name |-> ev.en[g].names[i], w |-> Word(OP_ENUM, 0 - 1), val |-> ev.en[g].vals[i]]
                            : i \in DOMAIN ev.en[g].names} : g \in DOMAIN ev.en})
      structs ==
        SetToSeq({SUEntry(ev, idx, t) : t \in DOMAIN ev.su})
        \* one entry for _IO_FILE: made for the first typedef of FILE or, if FILE is used but never
        \* typedef'ed, by _add_missing_struct_unions
        \o (IF fileUsed
            THEN [i \in 1..(IF variant = "filetwice" /\ FileTypedefs(ev) # {} THEN Cardinality(FileTypedefs(ev)) ELSE 1) |->
                     [name |-> "_IO_FILE", tidx |-> idx[File], flags |-> F_OPAQUE, fields |-> <<>>]]
            ELSE <<>>)
      enums ==
        SetToSeq({[name |-> g, tidx |-> idx[<<"enum", g>>], prim |-> EnumPrim(ev.en[g].vals),
                   enumerators |-> ev.en[g].names] : g \in DOMAIN ev.en})
      typenames ==
        SetToSeq({[name |-> n, tidx |-> idx[ev.td[n]]] : n \in DOMAIN ev.td})
        \* _add_missing_struct_unions: self._typedef_ctx(tp, 'FILE')
        \o (IF fileUsed /\ FileTypedefs(ev) = {} /\ variant # "nofiletd"
            THEN << [name |-> "FILE", tidx |-> idx[File]] >> ELSE <<>>)
  IN [ types |-> Tup([i \in DOMAIN words |-> Enc4(words[i])]),
       slots |-> L.slots,
       globals |-> SortByName(globals),
       structs |-> SortByName(structs),
       enums |-> SortByName(enums),
       typenames |-> SortByName(typenames),
       \* collect_step_tables: "assert len(lst) == len(self._struct_unions)"
       ok |-> Len(structs) = Cardinality(aggs) ]

(* ------------------------------------------------------------------ Decode *)
\* ffiobj_init: ntypes[i] = cdl_opcode(types + 4*i)
Words(M) == Tup([i \in DOMAIN M.types |-> Dec4(M.types[i])])

\* parse_c_type.c:search_sorted over a table sorted by name; returns 0-based index or -1
RECURSIVE Bsearch(_, _, _, _)
Bsearch(tab, key, left, right) ==
  IF left >= right THEN 0 - 1
  ELSE LET middle == (left + right) \div 2
           src == tab[middle + 1].name
           diff == StrCmpFrom(src, key, 1, Len(key))            \* strncmp(src, search, search_len)
       IN IF diff = 0 /\ Len(src) = Len(key) THEN middle        \* src[search_len] == '\0'
          ELSE IF diff >= 0 THEN Bsearch(tab, key, left, middle)
          ELSE Bsearch(tab, key, middle + 1, right)
Search(tab, key) == Bsearch(tab, key, 0, Len(tab))

\* realize_c_type.c:_realize_name
RealizeName(prefix, src) ==
  IF variant # "dollar" /\ Len(src) >= 2 /\ SubSeq(src, 1, 1) = "$" /\ SubSeq(src, 2, 2) # "$" /\ SubSeq(src, 2, 2) \notin Digits
  THEN SubSeq(src, 2, Len(src)) ELSE prefix \o src
\* _unrealize_name
UnrealizeName(n) ==
  IF Len(n) > 7 /\ SubSeq(n, 1, 7) = "struct " THEN SubSeq(n, 8, Len(n))
  ELSE IF Len(n) > 6 /\ SubSeq(n, 1, 6) = "union " THEN SubSeq(n, 7, Len(n))
  ELSE IF Len(n) > 5 /\ SubSeq(n, 1, 5) = "enum " THEN SubSeq(n, 6, Len(n))
  ELSE "$" \o n

\* _realize_c_struct_or_union: the ctype made for struct_unions[n] (0-based), as a normal form
RzSU(M, n) ==
  LET s == M.structs[n + 1]
      isu == (s.flags \div F_UNION) % 2 = 1
      name == RealizeName(IF isu THEN "union " ELSE "struct ", s.name)
  IN IF name = "struct _IO_FILE" THEN <<"struct", "FILE">>       \* g_file_struct
     ELSE <<IF isu THEN "union" ELSE "struct", name>>

\* realize_c_type_or_func_now on ctx.types; a function type is <<"fn", res, args, ell>>
RECURSIVE Rz(_, _, _)
Rz(M, W, i) ==
  IF i < 0 \/ i >= Len(W) THEN <<"bad-index", i>> ELSE
  LET w == W[i + 1]
      op == GetOp(w)
      arg == GetArg(w)
  IN CASE op = OP_PRIMITIVE -> IF arg = 0 THEN Void ELSE Prim(PrimName(arg))
       [] op = OP_POINTER -> LET y == Rz(M, W, arg)
                             IN IF y[1] = "fn" THEN FnP(y[2], y[3], y[4])
                                ELSE IF y[1] \in {"bad-index", "bad-function", "bad-op"} THEN y ELSE Ptr(y)
       [] op = OP_ARRAY -> IF i + 2 > Len(W) THEN <<"bad-index", i + 1>>
                           ELSE Arr(Rz(M, W, arg), W[i + 2])     \* length = (Py_ssize_t)opcodes[index + 1]
       [] op = OP_OPEN_ARRAY -> Arr(Rz(M, W, arg), Open)
       [] op = OP_STRUCT_UNION -> RzSU(M, arg)
       [] op = OP_ENUM -> IF D4(M.enums[arg + 1].tidx) < 0 \/ D4(M.enums[arg + 1].tidx) >= Len(W) THEN <<"bad-index", arg>>
                          ELSE <<"enum", RealizeName("enum ", M.enums[arg + 1].name)>>
       [] op = OP_FUNCTION ->
            LET ends == {n \in 0..(Len(W) - i - 2) : GetOp(W[i + 2 + n]) = OP_FUNCTION_END}
                nargs == CHOOSE n \in ends : \A m \in ends : n <= m
            IN IF ends = {} THEN <<"bad-function">>
               ELSE <<"fn", Rz(M, W, arg), Tup([j \in 1..nargs |-> Rz(M, W, i + j)]), GetArg(W[i + 2 + nargs]) % 2 = 1>>
       [] op = OP_NOOP -> Rz(M, W, arg)
       [] OTHER -> <<"bad-op", op>>

\* _cdl_realize_global_int + realize_global_int: values of the model fit 64 bits, so the
\* (neg, value) pair denotes the number itself
\* ffiobj_init stores  neg = (o <= 0)  and  value = o mod 2^64 ; realize_global_int gives back
\* value (neg = 0) or (long long)value (neg = 1): the number itself for every o in [-2^63, 2^64).
\* Variant "negmask" takes neg from the masked value read as signed: everything in [2^63, 2^64)
\* comes out negative.
IsBig64(v) == ~IsNeg(v) /\ DecLe("9223372036854775808", v)
GlobalInt(M, gi) ==
  LET v == M.globals[gi + 1].val
  IN IF variant = "negmask" /\ IsBig64(v) THEN "-(2^64 - " \o v \o ")" ELSE v

\* do_realize_lazy_struct: fields of the ctype named ctname, looked up again by name
LazyFields(M, W, ctname) ==
  LET n == Search(M.structs, UnrealizeName(ctname))
  IN IF n < 0 THEN <<"lost a struct/union!">>
     ELSE LET fs == M.structs[n + 1].fields
              all == Tup([i \in DOMAIN fs |-> << fs[i].name, Rz(M, W, fs[i].arg),
                                            IF fs[i].op = OP_BITFIELD THEN D4(fs[i].bits) ELSE Unk >>])
          \* b_complete_struct_or_union: an unnamed bit-field only takes room, it is no member
          IN Members(all, all)

(* ------------------------------------------------------------------ projection of the decoded module *)
\* ffi.typeof("n"): parse_c_type: search_in_typenames -> OP_TYPENAME -> ctx.types[type_index]
OolTd(M, W, n) == LET k == Search(M.typenames, n)
                  IN IF k < 0 THEN <<"undefined type name">> ELSE Rz(M, W, D4(M.typenames[k + 1].tidx))

\* ffi.typeof("struct s1"): search_in_struct_unions + kind check
OolSU(M, W, key) ==
  LET n == Search(M.structs, key[2])
  IN IF n < 0 THEN [err |-> "undefined struct/union name"]
     ELSE LET s == M.structs[n + 1]
              isu == (s.flags \div F_UNION) % 2 = 1
              opaque == (s.flags \div F_OPAQUE) % 2 = 1
              ct == RzSU(M, n)
          IN IF isu # (key[1] = "union") THEN [err |-> "wrong kind of tag"]
             \* _realize_c_struct_or_union: builder->ctx.types[s->type_index] is the primary slot
             ELSE IF D4(s.tidx) < 0 \/ D4(s.tidx) >= Len(W) THEN [err |-> "type_index outside the type table"]
             ELSE [ name |-> ct[2], kind |-> ct[1], complete |-> ~opaque,
                    fields |-> IF opaque THEN <<>> ELSE LazyFields(M, W, ct[2]) ]

OolEnum(M, W, tag) ==
  LET n == Search(M.enums, tag)
  IN IF n < 0 THEN [err |-> "undefined enum name"]
     ELSE LET e == M.enums[n + 1]
          IN IF D4(e.tidx) < 0 \/ D4(e.tidx) >= Len(W) THEN [err |-> "type_index outside the type table"] ELSE
             [ name |-> RealizeName("enum ", e.name), names |-> e.enumerators,
               vals |-> [i \in DOMAIN e.enumerators |->
                            LET gi == Search(M.globals, e.enumerators[i])
                            IN IF gi < 0 THEN "lost" ELSE GlobalInt(M, gi)],
               signed |-> e.prim \in {21, 23}, size |-> IF e.prim \in {21, 22} THEN 4 ELSE 8 ]

\* lib.<name> / ffi.integer_const(name): lib_build_and_cache_attr
OolGlobal(M, W, name) ==
  LET gi == Search(M.globals, name)
  IN IF gi < 0 THEN <<"no such global">>
     ELSE LET g == M.globals[gi + 1]
              op == GetOp(g.w)
          IN CASE op \in {OP_CONSTANT_INT, OP_ENUM} -> GlobalInt(M, gi)
               [] op = OP_GLOBAL_VAR -> Rz(M, W, GetArg(g.w))
               [] op = OP_DLOPEN_FUNC -> LET y == Rz(M, W, GetArg(g.w)) IN IF y[1] = "fn" THEN FnP(y[2], y[3], y[4]) ELSE y
               [] OTHER -> <<"bad-global-op", op>>

\* ffi_obj.c:ffi_list_types
OolListTypes(M) ==
  << {M.typenames[i].name : i \in DOMAIN M.typenames},
     {M.structs[i].name : i \in {j \in DOMAIN M.structs : SubSeq(M.structs[j].name, 1, 1) # "$"
                                                           /\ (M.structs[j].flags \div F_UNION) % 2 = 0}},
     {M.structs[i].name : i \in {j \in DOMAIN M.structs : SubSeq(M.structs[j].name, 1, 1) # "$"
                                                           /\ (M.structs[j].flags \div F_UNION) % 2 = 1}} >>

(* ------------------------------------------------------------------ the refinement, clause by clause *)
\* documented divergence classes (known_findings.d/C11.json); excepted unless Strict
ForcedTagged(ev, key) == ev.su[key].force # "" /\ SubSeq(key[2], 1, 1) # "$"
UsesFile(ev) == File \in TypesDict(ev)
TwoFileTypedefs(ev) == Cardinality(FileTypedefs(ev)) >= 2

RECURSIVE MentionsForced(_, _)
MentionsForced(ev, t) ==       \* a resolved term whose normal form contains a forced tagged name
  CASE IsSU(t) -> ForcedTagged(ev, t)
    [] t[1] \in {"ptr", "arr"} -> MentionsForced(ev, t[2])
    [] t[1] = "fnp" -> MentionsForced(ev, t[2]) \/ \E i \in DOMAIN t[3] : MentionsForced(ev, t[3][i])
    [] OTHER -> FALSE

(* In a generated ABI module every non-opaque struct/union has size -2 ("unnamed"), so
   _realize_c_struct_or_union calls do_realize_lazy_struct at once: realizing a struct realizes
   its field types, and the structs found there - also behind pointers - in turn.  A function
   type met on the way needs its by-value argument/result aggregates complete
   (new_function_type), an array type its item (new_array_type); if such an aggregate is one of
   those still under construction the realization fails ("invalid result type" / "has incomplete
   type" / "array item of unknown size"), although the in-line FFI,
   which delays a struct behind a pointer, accepts the same declarations. *)
TouchItems(ev, t) ==
  CASE t[1] = "fnp" -> {t[2]} \cup {t[3][i] : i \in DOMAIN t[3]}
    [] t[1] \in {"ptr", "arr"} -> {t[2]}
    [] IsSU(t) -> IF t \in DOMAIN ev.su /\ ev.su[t].complete
                  THEN {ev.su[t].fields[i][2] : i \in DOMAIN ev.su[t].fields} ELSE {}
    [] OTHER -> {}
RECURSIVE TouchClose(_, _)
TouchClose(ev, S) == LET S2 == S \cup UNION {TouchItems(ev, t) : t \in S}
                     IN IF S2 = S THEN S ELSE TouchClose(ev, S2)
\* aggregates a type needs complete the moment it is built: by-value arguments / result of a
\* function type (new_function_type), the item of an array type (new_array_type)
FnByVal(t) == IF t[1] = "fnp" THEN {x \in {t[2]} \cup {t[3][i] : i \in DOMAIN t[3]} : IsSU(x)}
              ELSE IF t[1] = "arr" THEN {x \in NeedsNow(t[2]) : IsSU(x)} ELSE {}
EagerCycleSUs(ev) ==
  {k \in DOMAIN ev.su : ev.su[k].complete /\ \E f \in TouchClose(ev, TouchItems(ev, k)) : k \in FnByVal(f)}
TouchesCycle(ev, t) == \E k \in EagerCycleSUs(ev) : k \in TouchClose(ev, {t})

SUBad(ev, M, W, key, strict) ==      \* TRUE iff the decoded aggregate differs from the ideal
  LET o == OolSU(M, W, key)
      i == AggObs(ev, key)
  IN \/ "err" \in DOMAIN o
     \/ ~( /\ o.kind = i.kind /\ o.complete = i.complete
           /\ (strict \/ ~ForcedTagged(ev, key)) => o.name = i.name
           /\ Len(o.fields) = Len(i.fields)
           /\ \A f \in DOMAIN i.fields :
                 /\ o.fields[f][1] = i.fields[f][1] /\ o.fields[f][3] = i.fields[f][5]
                 /\ (strict \/ ~MentionsForced(ev, Members(ev.su[key].fields, ev.su[key].fields)[f][2])) => o.fields[f][2] = i.fields[f][2] )

EnBad(ev, M, W, g) ==
  LET o == OolEnum(M, W, g)
      i == EnumObs(ev, g)
  IN \/ "err" \in DOMAIN o
     \/ ~(o.name = i.name /\ o.names = i.names /\ o.vals = i.vals /\ o.signed = i.signed /\ o.size = i.size)

\* the set of clauses on which Decode(Encode(ev)) differs from the ideal projection
OolBad(ev, strict) ==
  LET M == Encode(ev)
      W == Words(M)
  IN IF ~M.ok THEN {<<"emit">>}
     ELSE {<<"td", n>> : n \in {n \in DOMAIN ev.td : (strict \/ ~MentionsForced(ev, ev.td[n]))
                                                     /\ OolTd(M, W, n) # Norm(ev, ev.td[n])}}
          \cup {<<"su", KeyStr(k)>> : k \in {k \in DOMAIN ev.su : SUBad(ev, M, W, k, strict)}}
          \cup {<<"en", g>> : g \in {g \in DOMAIN ev.en : EnBad(ev, M, W, g)}}
          \cup {<<"k", c>> : c \in {c \in AllConsts(ev) : OolGlobal(M, W, c) # ConstVal(ev, c)}}
          \cup {<<"fn", f>> : f \in {f \in DOMAIN ev.fn : (strict \/ ~MentionsForced(ev, ev.fn[f]))
                                                      /\ OolGlobal(M, W, f) # Norm(ev, ev.fn[f])}}
          \cup {<<"gv", g>> : g \in {g \in DOMAIN ev.gv : (strict \/ ~MentionsForced(ev, ev.gv[g]))
                                                      /\ OolGlobal(M, W, g) # Norm(ev, ev.gv[g])}}
          \cup (IF (strict \/ ~UsesFile(ev)) /\ OolListTypes(M) # ListTypes(ev) THEN {<<"lt">>} ELSE {})
          \* internal consistency of the encoding: 24-bit arguments, sorted tables
          \cup (IF \E i \in DOMAIN W : ~Fits24(GetArg(W[i])) /\ M.slots[i][1] # "len" THEN {<<"arg24">>} ELSE {})
          \cup (IF \/ \E i \in 1..(Len(M.globals) - 1) : ~StrLt(M.globals[i].name, M.globals[i + 1].name)
                   \/ \E i \in 1..(Len(M.structs) - 1) : ~StrLt(M.structs[i].name, M.structs[i + 1].name)
                   \/ \E i \in 1..(Len(M.enums) - 1) : ~StrLt(M.enums[i].name, M.enums[i + 1].name)
                   \/ \E i \in 1..(Len(M.typenames) - 1) : ~StrLt(M.typenames[i].name, M.typenames[i + 1].name)
                THEN {<<"unsorted">>} ELSE {})
          \cup (IF ~NoTies(ev) THEN {<<"ties">>} ELSE {})
          \cup (IF strict THEN {<<"cycle", KeyStr(k)>> : k \in EagerCycleSUs(ev)} ELSE {})

OInit == Init /\ variant \in Variants
ONext == Next /\ UNCHANGED variant
OSpec == OInit /\ [][ONext]_<<cenv, hist, variant>>

\* INVARIANT: the faithful transcription refines the ideal (documented classes excepted)
OolRefines ==
  variant = "faithful" =>
     LET b == OolBad(cenv, FALSE)
     IN IF b = {} THEN TRUE ELSE PrintT(<<"BAD", b, hist>>) /\ FALSE
\* CONSTRAINT (always TRUE): reports the states in which a non-faithful variant is caught
Probe == (variant # "faithful" /\ OolBad(cenv, variant = "strict") # {}) => PrintT(<<"CAUGHT", variant, OolBad(cenv, variant = "strict")>>)
=============================================================================
