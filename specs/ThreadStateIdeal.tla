------------------------------ MODULE ThreadStateIdeal ------------------------------
(* Property C36 itself, as a state machine over what can be observed from outside cffi:

     Spawn(f)                 a thread not created by Python starts
     CbEnter(f, tok, seen)    the Python body of a callback invoked by f starts running; tok is the
                              identity of the thread state it runs with, seen the thread-local datum
                              it finds (<<>> : nothing)
     SetLocal(f, v)           the body stores v in Python thread-local storage
     CbExit(f)                the body returns
     Exit(f)                  the thread has exited (its TLS destructors have run)
     Tau                      anything else (other Python threads, GC, internal steps of cffi):
                              the set `live` of thread states linked into the interpreter changes

   Clauses of the property (guards; verdict names in the trace specification):
     valid     every callback runs with a valid thread state: tok is one of the interpreter's
               thread states and is not the thread state of another living thread
     local     thread-local data set in one call is what the next call of the same thread finds;
               the first call of a thread finds nothing (nothing leaks from earlier threads)
     reclaim   thread states of threads that had exited before f was started are no longer in the
               interpreter when f's first callback runs (no leak visible to later threads)
     account   at every observation each thread state of the interpreter is accounted for: it
               belongs to Python, to a living foreign thread that has run a callback, or to an
               exited foreign thread not yet reclaimed (thread states do not pile up)
   The property does not demand that a thread keeps the *same* thread state object from call to
   call: its[f] simply follows what is observed.  Tokens are PyThreadState_GetID() values in the recorded
   histories (unique; addresses are reused by CPython and must not be used); a token that leaves
   `live` is forgotten at once. *)
EXTENDS Naturals, Sequences, FiniteSets
CONSTANTS Foreign,     \* threads not created by Python
          Toks,        \* identities of thread states (those belonging to Python threads excluded)
          LocVals      \* values stored in thread-local storage
VARIABLES fst,    \* fst[f] \in {"unborn", "idle", "body", "exited"}
          its,    \* its[f] = <<>> or <<tok>>: thread state seen at f's latest callback
          loc,    \* loc[f] = <<>> or <<v>>: f's thread-local datum
          saw,    \* saw[f]: what f's latest callback found in thread-local storage
          dead,   \* dead[f]: the interpreter destroyed f's thread state (finalization, fork); the
                  \* property says nothing about callbacks after that, and there are none
          zomb,   \* tokens of thread states of exited threads, still in the interpreter
          pre,    \* pre[f]: zomb at the time f was started
          live    \* thread states currently linked into the interpreter (Python's own excluded)
ivars == <<fst, its, loc, saw, dead, zomb, pre, live>>
Opt(S) == {<<>>} \cup {<<v>> : v \in S}

IInit == /\ fst = [f \in Foreign |-> "unborn"]
         /\ its = [f \in Foreign |-> <<>>]
         /\ loc = [f \in Foreign |-> <<>>]
         /\ saw = [f \in Foreign |-> <<>>]
         /\ dead = [f \in Foreign |-> FALSE]
         /\ zomb = {} /\ pre = [f \in Foreign |-> {}] /\ live = {}

Running == {f \in Foreign : fst[f] \in {"idle", "body"}}
TokOf(f) == IF its[f] = <<>> THEN {} ELSE {its[f][1]}
Owned(F) == UNION {TokOf(g) : g \in F}
First(f) == its[f] = <<>>

\* tokens that left the interpreter are forgotten (their addresses may be reused)
Prune(nl) == /\ zomb' = zomb \cap nl
             /\ pre' = [f \in Foreign |-> pre[f] \cap nl]

\* ---- context guards
SpawnC(f)    == fst[f] = "unborn"
CbEnterC(f)  == fst[f] = "idle" /\ ~dead[f]
SetLocalC(f) == fst[f] = "body"
CbExitC(f)   == fst[f] = "body"
ExitC(f)     == fst[f] = "idle"

\* ---- guards: the clauses (nl = the interpreter's thread states observed at the event)
ValidG(f, tok, nl) == tok \in nl /\ tok \notin Owned(Running \ {f})
LocalG(f, seen)    == seen = loc[f]
ReclaimG(f, nl)    == First(f) => pre[f] \cap nl = {}
AccountG(nl)       == nl \subseteq Owned(Running) \cup zomb

\* ---- effects
SpawnE(f, nl) == /\ fst' = [fst EXCEPT ![f] = "idle"]
                 /\ zomb' = zomb \cap nl
                 /\ pre' = [g \in Foreign |-> IF g = f THEN zomb \cap nl ELSE pre[g] \cap nl]
                 /\ live' = nl /\ UNCHANGED <<its, loc, saw, dead>>
CbEnterE(f, tok, seen, nl) == /\ fst' = [fst EXCEPT ![f] = "body"]
                              /\ its' = [its EXCEPT ![f] = <<tok>>]
                              /\ saw' = [saw EXCEPT ![f] = seen]
                              /\ Prune(nl) /\ live' = nl /\ UNCHANGED <<loc, dead>>
SetLocalE(f, v) == loc' = [loc EXCEPT ![f] = <<v>>] /\ UNCHANGED <<fst, its, saw, dead, zomb, pre, live>>
CbExitE(f, nl) == /\ fst' = [fst EXCEPT ![f] = "idle"]
                  /\ Prune(nl) /\ live' = nl /\ UNCHANGED <<its, loc, saw, dead>>
ExitE(f, nl) == /\ fst' = [fst EXCEPT ![f] = "exited"]
                /\ loc' = [loc EXCEPT ![f] = <<>>]
                /\ zomb' = (zomb \cup TokOf(f)) \cap nl
                /\ pre' = [g \in Foreign |-> pre[g] \cap nl]
                /\ live' = nl /\ UNCHANGED <<its, saw, dead>>
TauE(nl) == Prune(nl) /\ live' = nl /\ UNCHANGED <<fst, its, loc, saw, dead>>
DestroyE(f, nl) == /\ dead' = [dead EXCEPT ![f] = TRUE]
                   /\ loc' = [loc EXCEPT ![f] = <<>>]
                   /\ Prune(nl) /\ live' = nl /\ UNCHANGED <<fst, its, saw>>

Spawn(f, nl) == SpawnC(f) /\ SpawnE(f, nl)
CbEnter(f, tok, seen, nl) == /\ CbEnterC(f) /\ ValidG(f, tok, nl) /\ LocalG(f, seen) /\ ReclaimG(f, nl)
                             /\ CbEnterE(f, tok, seen, nl)
SetLocal(f, v) == SetLocalC(f) /\ SetLocalE(f, v)
CbExit(f, nl) == CbExitC(f) /\ CbExitE(f, nl)
Exit(f, nl) == ExitC(f) /\ ExitE(f, nl)
\* between observations thread states may appear (a registration in progress) and disappear
Tau(nl) == TauE(nl)
\* the interpreter destroys the thread state of a thread that is not inside a callback
Destroy(f, nl) == fst[f] \in {"idle", "exited"} /\ DestroyE(f, nl)
\* an observation made while no operation is in progress: every thread state is accounted for
Quiet(nl) == AccountG(nl) /\ TauE(nl)

INext == \/ \E f \in Foreign :
              \/ Spawn(f, live') \/ CbExit(f, live') \/ Exit(f, live') \/ Destroy(f, live')
              \/ \E tok \in Toks, seen \in Opt(LocVals) : CbEnter(f, tok, seen, live')
              \/ \E v \in LocVals : SetLocal(f, v)
         \/ Tau(live')
ISpec == IInit /\ [][INext]_ivars
=============================================================================
