---------------------------- MODULE MC_CallLibObj ----------------------------
(* Exhaustive behaviours of the result objects of CallLib (struct R { signed 1-digit integer;
   _Bool }, Base 4, at most two kept results, class-level values).  The graph is dumped: its
   walks are replayed on the real builds.  Checked: a result never changes unless it is
   written itself (ResultsIndependent), distinct results are distinct objects; the variant
   "shared_result_buffer" must violate it. *)
EXTENDS CallLib
CONSTANTS Variant
VARIABLES objs, last
vars == <<objs, last>>

R == [k |-> "struct", tag |-> "R", fields |-> <<IntT(1, TRUE), BoolT>>]
PI(x) == [k |-> "int", neg |-> FromInt(x).neg, mag |-> FromInt(x).mag, fl |-> <<>>, flovf |-> FALSE]
F1 == {"min", "max", "one", "above", "none"}
F2 == {"zero", "one", "two"}
Val1(cls) == CASE cls = "min" -> PI(0 - 2) [] cls = "max" -> PI(1) [] cls = "one" -> PI(1) [] cls = "above" -> PI(2)
               [] cls = "none" -> [k |-> "none"]
Val2(cls) == CASE cls = "zero" -> PI(0) [] cls = "one" -> PI(1) [] cls = "two" -> PI(2)
MaxObjs == 2

Init == objs = <<>> /\ last = [op |-> "init", j |-> 0, k |-> 0, f |-> 0, c1 |-> "", c2 |-> "", exc |-> "", ret |-> None]
Do(ev, c1, c2) == LET r == ObjStep(R, objs, ev, Variant) IN
    /\ objs' = r.objs
    /\ last' = [op |-> ev.op, j |-> ev.j, k |-> ev.k, f |-> ev.f, c1 |-> c1, c2 |-> c2, exc |-> r.exc, ret |-> r.ret]
E(op, j, k, f) == [op |-> op, j |-> j, k |-> k, f |-> f]
MkE(c1, c2) == [op |-> "mk", j |-> 0, k |-> 0, f |-> 0, vs |-> <<Val1(c1), Val2(c2)>>]
Next == \/ \E c1 \in F1 \ {"none"}, c2 \in F2 : Len(objs) < MaxObjs /\ Do(MkE(c1, c2), c1, c2)
        \/ \E j \in 1..Len(objs) :
              \/ Do(E("rdobj", j, 0, 0), "", "") \/ Do(E("passobj", j, 0, 0), "", "")
              \/ \E k \in 1..Len(objs) : Do(E("same", j, k, 0), "", "")
              \/ \E c1 \in F1 : Do([op |-> "wrobj", j |-> j, k |-> 0, f |-> 1, v |-> Val1(c1)], c1, "")
              \/ \E c2 \in F2 : Do([op |-> "wrobj", j |-> j, k |-> 0, f |-> 2, v |-> Val2(c2)], "", c2)
        \/ (Len(objs) > 0 /\ Do(E("drop", 0, 0, 0), "", ""))
Spec == Init /\ [][Next]_vars

\* a kept result changes only when it is written itself
ResultsIndependent ==
    [][\A j \in 1..Len(objs) :
          (last'.op # "drop" /\ ~(last'.op = "wrobj" /\ last'.j = j) /\ j <= Len(objs')) => objs'[j] = objs[j]]_vars
DistinctObjects == [][(last'.op = "same" /\ last'.j # last'.k) => ~last'.ret.b]_vars
=============================================================================
