------------------------------ MODULE ThreadState ------------------------------
(* Implementation model of the thread-state keeping of cffi for callbacks that arrive on threads
   not created by Python, transcribed from src/c/misc_thread_common.h and misc_thread_posix.h,
   one action per step that other threads can observe (GIL and TLS_ZOM_LOCK critical sections
   are split at their acquisition).

   Objects:  ts[i]   a PyThreadState  [st, cnt = gilstate_counter, dict = the canary stored under
                     "cffi.thread.canary" in tstate->dict (0: none), loc = Python thread-local datum]
             cn[i]   the ThreadCanaryObj of tstate i  [st, tls = ob->tls (0: NULL), inz = in zombie list,
                     rc = reference count: 1 (owned by tstate->dict) after thread_canary_register]
                     (ob->tstate is i itself)
             tlsb[f] the struct cffi_tls_s of thread f ("none" / "alloc" / "freed"),
             tlscan[f] its field local_thread_canary (0: NULL)
             tss[f]  what PyGILState_GetThisThreadState() returns in thread f (0: NULL)
             zl      the zombie list cffi_zombie_head, in order;  zlock = TLS_ZOM_LOCK;  gil
   Foreign thread f, labels = pc[f]:
     idle -> ge1        gil_ensure (misc_thread_common.h:340): ts = PyGILState_GetThisThreadState()
     ge2                ts->gilstate_counter++                                   (:350)
     ge3                PyEval_RestoreThread(ts)                                 (:354)
     ge5, ge6           PyGILState_Ensure(): new tstate bound to the thread; take the GIL   (:365)
     fz0                thread_canary_register -> thread_canary_free_zombies: unlocked fast path (:151)
     fz1, fz2           TLS_ZOM_LOCK; pop the first zombie, detach, read ob->tstate; unlock      (:158-167)
     fz3                PyThreadState_Clear(tstate)   -> dict dropped -> thread_canary_dealloc    (:170)
     cd1, cd2           thread_canary_dealloc: lock; detach if zombie; tls->local_thread_canary = NULL; unlock; free (:101)
     fz4                PyThreadState_Delete(tstate)                             (:181)
     rg1                get_cffi_tls()  (misc_thread_posix.h:42: calloc + pthread_setspecific)
     rg2                new canary, tdict[...] = canary, tls->local_thread_canary = canary,
                        tstate->gilstate_counter++                               (:207-227)
     body, bodyw        the Python body of the callback (reads, then writes thread-local data)
     gr1                gil_release = PyGILState_Release: --counter; release the GIL   (:383)
     sh1, sh2, sh3      thread exit: cffi_thread_shutdown (:270): lock; read tls->local_thread_canary;
                        canary->tls = NULL; thread_canary_make_zombie; unlock; free(tls)
   Main (a Python thread) takes and drops the GIL, and may (NClear times) clear and delete a thread
   state "under our feet" the way Py_Finalize / fork do; the application is assumed not to call back
   from a thread whose state was destroyed that way (doomed).
   Variant selects broken variants that TLC must reject:
     "nokeepalive"   thread_canary_register does not increment gilstate_counter
     "nofree"        thread_canary_register does not call thread_canary_free_zombies
     "nolock"        cffi_thread_shutdown does not take TLS_ZOM_LOCK
     "nonull"        thread_canary_dealloc does not reset tls->local_thread_canary
     "nodetach"      thread_canary_dealloc does not unlink a zombie canary from the list
     "extraref"      thread_canary_register keeps its own reference to the canary (no Py_DECREF after
                     PyDict_SetItemString): the canary is not deallocated when the dict drops it
   Atomic = TRUE restricts interleaving to whole operations (a thread that is inside gil_ensure /
   gil_release / thread exit runs alone until it reaches idle, body or done): this is the instance
   whose complete graph is replayed on the real code. *)
EXTENDS Naturals, Sequences, FiniteSets, TLC
CONSTANTS Foreign, MaxCalls, MaxTs, NClear, Variant, Atomic,
          Shapes   \* set of 10*threads+calls: each initial state picks one shape (lets one TLC run
                   \* dump the graphs of several small instances); {} means 10*|Foreign|+MaxCalls
VARIABLES pc, calls, gil, zlock, tss, tlsb, tlscan, ts, cn, zl, vt, vc, doomed, err, seen, pre, nclear, mpc, shape
vars == <<pc, calls, gil, zlock, tss, tlsb, tlscan, ts, cn, zl, vt, vc, doomed, err, seen, pre, nclear, mpc, shape>>

Main == 99
Exec == Foreign \cup {Main}
TsIds == {f * 10 + n : f \in Foreign, n \in 1..MaxTs}
Owner(i) == i \div 10
NoTs == [st |-> "free", cnt |-> 0, dict |-> 0, loc |-> <<>>]
NoCn == [st |-> "free", tls |-> 0, inz |-> FALSE, rc |-> 0]

Init == /\ pc = [f \in Foreign |-> "unborn"]
        /\ calls = [f \in Foreign |-> 0]
        /\ gil = 0 /\ zlock = 0
        /\ tss = [f \in Foreign |-> 0]
        /\ tlsb = [f \in Foreign |-> "none"]
        /\ tlscan = [f \in Foreign |-> 0]
        /\ ts = [i \in TsIds |-> NoTs]
        /\ cn = [i \in TsIds |-> NoCn]
        /\ zl = <<>>
        /\ vt = [p \in Exec |-> 0] /\ vc = [p \in Exec |-> 0]
        /\ doomed = [f \in Foreign |-> FALSE]
        /\ err = ""
        /\ seen = [f \in Foreign |-> <<>>]
        /\ pre = [f \in Foreign |-> {}]
        /\ nclear = 0 /\ mpc = "m0"
        /\ shape \in (IF Shapes = {} THEN {10 * Cardinality(Foreign) + MaxCalls} ELSE Shapes)

Linked == {i \in TsIds : ts[i].st \in {"alive", "cleared"}}      \* in the interpreter's list
Remove(s, x) == SelectSeq(s, LAMBDA y : y # x)
Goto(f, l) == pc' = [pc EXCEPT ![f] = l]
Fail(m) == /\ err' = m
           /\ UNCHANGED <<pc, calls, gil, zlock, tss, tlsb, tlscan, ts, cn, zl, vt, vc, doomed, seen, pre, nclear, shape, mpc>>
\* tokens of exited threads still linked (ghost, for pre[f])
ZombTok == {i \in Linked : pc[Owner(i)] = "done" /\ tss[Owner(i)] = i}

\* ------------------------------------------------------------------ who may take a step
Stable(f) == pc[f] \in {"unborn", "idle", "bodyz", "done"}
Busy == {f \in Foreign : ~Stable(f)}
MayRun(f) == ~Atomic \/ (Busy \subseteq {f} /\ mpc = "m0")
MainMayRun == ~Atomic \/ Busy = {} \/ mpc \notin {"m0", "m1"}

Can(f) == err = "" /\ MayRun(f)
CanM == err = "" /\ MainMayRun
CanP(p) == IF p = Main THEN CanM ELSE Can(p)

Spawn(f) == /\ Can(f) /\ pc[f] = "unborn" /\ f <= shape \div 10 /\ Goto(f, "idle")
            /\ pre' = [pre EXCEPT ![f] = ZombTok]
            /\ UNCHANGED <<calls, gil, zlock, tss, tlsb, tlscan, ts, cn, zl, vt, vc, doomed, err, seen, nclear, shape, mpc>>

\* ------------------------------------------------------------------ gil_ensure
Ge1(f) == /\ Can(f) /\ pc[f] = "idle" /\ calls[f] < MaxCalls /\ calls[f] < shape % 10 /\ ~doomed[f]
          /\ Goto(f, IF tss[f] # 0 THEN "ge2" ELSE "ge5")
          /\ UNCHANGED <<calls, gil, zlock, tss, tlsb, tlscan, ts, cn, zl, vt, vc, doomed, err, seen, pre, nclear, shape, mpc>>

Ge2(f) == /\ Can(f) /\ pc[f] = "ge2"
          /\ IF ts[tss[f]].st # "alive" THEN Fail("gil_ensure: counter++ on a dead tstate")
             ELSE /\ ts' = [ts EXCEPT ![tss[f]].cnt = @ + 1] /\ Goto(f, "ge3")
                  /\ UNCHANGED <<calls, gil, zlock, tss, tlsb, tlscan, cn, zl, vt, vc, doomed, err, seen, pre, nclear, shape, mpc>>

Ge3(f) == /\ Can(f) /\ pc[f] = "ge3" /\ gil = 0
          /\ IF ts[tss[f]].st # "alive" THEN Fail("PyEval_RestoreThread on a dead tstate")
             ELSE /\ gil' = f /\ Goto(f, "body")
                  /\ UNCHANGED <<calls, zlock, tss, tlsb, tlscan, ts, cn, zl, vt, vc, doomed, err, seen, pre, nclear, shape, mpc>>

FreshTs(f) == {i \in TsIds : Owner(i) = f /\ ts[i].st = "free"}
Ge5(f) == /\ Can(f) /\ pc[f] = "ge5" /\ FreshTs(f) # {}
          /\ LET i == CHOOSE j \in FreshTs(f) : \A k \in FreshTs(f) : j <= k IN
               /\ ts' = [ts EXCEPT ![i] = [st |-> "alive", cnt |-> 1, dict |-> 0, loc |-> <<>>]]
               /\ tss' = [tss EXCEPT ![f] = i]
          /\ Goto(f, "ge6")
          /\ UNCHANGED <<calls, gil, zlock, tlsb, tlscan, cn, zl, vt, vc, doomed, err, seen, pre, nclear, shape, mpc>>

Ge6(f) == /\ Can(f) /\ pc[f] = "ge6" /\ gil = 0 /\ gil' = f
          /\ Goto(f, IF Variant = "nofree" THEN "rg1" ELSE "fz0")
          /\ UNCHANGED <<calls, zlock, tss, tlsb, tlscan, ts, cn, zl, vt, vc, doomed, err, seen, pre, nclear, shape, mpc>>

\* ------------------------------------------------------------------ thread_canary_free_zombies
Fz0(f) == /\ Can(f) /\ pc[f] = "fz0" /\ Goto(f, IF zl = <<>> THEN "rg1" ELSE "fz1")
          /\ UNCHANGED <<calls, gil, zlock, tss, tlsb, tlscan, ts, cn, zl, vt, vc, doomed, err, seen, pre, nclear, shape, mpc>>

Fz1(f) == /\ Can(f) /\ pc[f] = "fz1" /\ zlock = 0 /\ zlock' = f /\ Goto(f, "fz2")
          /\ UNCHANGED <<calls, gil, tss, tlsb, tlscan, ts, cn, zl, vt, vc, doomed, err, seen, pre, nclear, shape, mpc>>

Fz2(f) == /\ Can(f) /\ pc[f] = "fz2"
          /\ IF zl = <<>> THEN /\ zlock' = 0 /\ Goto(f, "rg1")
                               /\ UNCHANGED <<calls, gil, tss, tlsb, tlscan, ts, cn, zl, vt, vc, doomed, err, seen, pre, nclear, shape, mpc>>
             ELSE LET ob == Head(zl) IN
                  IF cn[ob].st # "alive" THEN Fail("free_zombies: zombie list holds a freed canary")
                  ELSE /\ zl' = Tail(zl) /\ cn' = [cn EXCEPT ![ob].inz = FALSE]
                       /\ vt' = [vt EXCEPT ![f] = ob] /\ zlock' = 0 /\ Goto(f, "fz3")
                       /\ UNCHANGED <<calls, gil, tss, tlsb, tlscan, ts, vc, doomed, err, seen, pre, nclear, shape, mpc>>

\* PyThreadState_Clear(tstate): drops tstate->dict, hence the canary it holds
Fz3(f) == /\ Can(f) /\ pc[f] = "fz3"
          /\ LET i == vt[f] IN
             IF ts[i].st # "alive" THEN Fail("PyThreadState_Clear on a cleared or deleted tstate")
             ELSE /\ ts' = [ts EXCEPT ![i].st = "cleared", ![i].dict = 0, ![i].loc = <<>>]
                  /\ vc' = [vc EXCEPT ![f] = ts[i].dict]
                  /\ cn' = IF ts[i].dict = 0 THEN cn ELSE [cn EXCEPT ![ts[i].dict].rc = @ - 1]
                  /\ Goto(f, IF ts[i].dict = 0 \/ cn[ts[i].dict].rc > 1 THEN "fz4" ELSE "cd1")
                  /\ UNCHANGED <<calls, gil, zlock, tss, tlsb, tlscan, zl, vt, doomed, err, seen, pre, nclear, shape, mpc>>

\* thread_canary_dealloc by executor p (a foreign thread inside free_zombies, or Main)
Cd1(p) == /\ CanP(p) /\ (IF p = Main THEN mpc = "cd1" ELSE pc[p] = "cd1") /\ zlock = 0 /\ zlock' = p
          /\ IF p = Main THEN mpc' = "cd2" /\ UNCHANGED pc ELSE Goto(p, "cd2") /\ UNCHANGED mpc
          /\ UNCHANGED <<calls, gil, tss, tlsb, tlscan, ts, cn, zl, vt, vc, doomed, err, seen, pre, nclear, shape>>

Cd2(p) == /\ CanP(p) /\ (IF p = Main THEN mpc = "cd2" ELSE pc[p] = "cd2")
          /\ LET c == vc[p] IN
             IF cn[c].st # "alive" THEN Fail("thread_canary_dealloc on a freed canary")
             ELSE IF cn[c].tls # 0 /\ tlsb[cn[c].tls] # "alloc" THEN Fail("thread_canary_dealloc writes into a freed cffi_tls_s")
             ELSE /\ zl' = IF cn[c].inz /\ Variant # "nodetach" THEN Remove(zl, c) ELSE zl
                  /\ tlscan' = IF cn[c].tls # 0 /\ Variant # "nonull"
                                 THEN [tlscan EXCEPT ![cn[c].tls] = 0] ELSE tlscan
                  /\ cn' = [cn EXCEPT ![c] = [st |-> "freed", tls |-> 0, inz |-> FALSE, rc |-> 0]]
                  /\ zlock' = 0
                  /\ IF p = Main THEN mpc' = "mdel" /\ UNCHANGED pc ELSE Goto(p, "fz4") /\ UNCHANGED mpc
                  /\ UNCHANGED <<calls, gil, tss, tlsb, ts, vt, vc, doomed, err, seen, pre, nclear, shape>>

Fz4(f) == /\ Can(f) /\ pc[f] = "fz4"
          /\ IF ts[vt[f]].st \notin {"alive", "cleared"} THEN Fail("PyThreadState_Delete twice")
             ELSE /\ ts' = [ts EXCEPT ![vt[f]].st = "deleted"] /\ Goto(f, "fz1")
                  /\ UNCHANGED <<calls, gil, zlock, tss, tlsb, tlscan, cn, zl, vt, vc, doomed, err, seen, pre, nclear, shape, mpc>>

\* ------------------------------------------------------------------ thread_canary_register, continued
Rg1(f) == /\ Can(f) /\ pc[f] = "rg1"
          /\ tlsb' = [tlsb EXCEPT ![f] = "alloc"] /\ Goto(f, "rg2")
          /\ UNCHANGED <<calls, gil, zlock, tss, tlscan, ts, cn, zl, vt, vc, doomed, err, seen, pre, nclear, shape, mpc>>

Rg2(f) == /\ Can(f) /\ pc[f] = "rg2"
          /\ LET i == tss[f] IN
               /\ cn' = [cn EXCEPT ![i] = [st |-> "alive", tls |-> f, inz |-> FALSE,
                                             rc |-> IF Variant = "extraref" THEN 2 ELSE 1]]   \* Py_DECREF(canary) (:217)
               /\ ts' = [ts EXCEPT ![i].dict = i,
                                   ![i].cnt = IF Variant = "nokeepalive" THEN @ ELSE @ + 1]
               /\ tlscan' = [tlscan EXCEPT ![f] = i]
          /\ Goto(f, "body")
          /\ UNCHANGED <<calls, gil, zlock, tss, tlsb, zl, vt, vc, doomed, err, seen, pre, nclear, shape, mpc>>

\* ------------------------------------------------------------------ the callback body
\* body: reads thread-local data; bodyw: holds the GIL; bodyz: blocked with the GIL released (any
\* Python code can do that); then writes thread-local data and returns
Body(f) == /\ Can(f) /\ pc[f] = "body"
           /\ IF ts[tss[f]].st # "alive" \/ gil # f THEN Fail("callback body without a valid current tstate")
              ELSE /\ seen' = [seen EXCEPT ![f] = ts[tss[f]].loc] /\ Goto(f, "bodyw")
                   /\ UNCHANGED <<calls, gil, zlock, tss, tlsb, tlscan, ts, cn, zl, vt, vc, doomed, err, pre, nclear, shape, mpc>>

BodyRel(f) == /\ Can(f) /\ pc[f] = "bodyw" /\ gil' = 0 /\ Goto(f, "bodyz")
              /\ UNCHANGED <<calls, zlock, tss, tlsb, tlscan, ts, cn, zl, vt, vc, doomed, err, seen, pre, nclear, shape, mpc>>
BodyAcq(f) == /\ Can(f) /\ pc[f] = "bodyz" /\ gil = 0 /\ gil' = f /\ Goto(f, "bodyx")
              /\ UNCHANGED <<calls, zlock, tss, tlsb, tlscan, ts, cn, zl, vt, vc, doomed, err, seen, pre, nclear, shape, mpc>>

BodyW(f) == /\ Can(f) /\ (pc[f] = "bodyx" \/ (pc[f] = "bodyw" /\ ~Atomic))
            /\ IF ts[tss[f]].st # "alive" THEN Fail("callback body: tstate destroyed while the body was running")
               ELSE /\ ts' = [ts EXCEPT ![tss[f]].loc = <<calls[f] + 1>>] /\ Goto(f, "gr1")
                    /\ UNCHANGED <<calls, gil, zlock, tss, tlsb, tlscan, cn, zl, vt, vc, doomed, err, seen, pre, nclear, shape, mpc>>

\* ------------------------------------------------------------------ gil_release = PyGILState_Release
Gr1(f) == /\ Can(f) /\ pc[f] = "gr1"
          /\ LET i == tss[f] IN
             IF ts[i].st # "alive" THEN Fail("PyGILState_Release on a dead tstate")
             ELSE /\ IF ts[i].cnt > 1
                       THEN /\ ts' = [ts EXCEPT ![i].cnt = @ - 1]
                            /\ UNCHANGED <<tss, cn, tlscan>>
                       ELSE \* the counter drops to 0: PyThreadState_Clear + DeleteCurrent; the canary
                            \* is deallocated on the way (only broken variants get here)
                            /\ ts' = [ts EXCEPT ![i] = [st |-> "deleted", cnt |-> 0, dict |-> 0, loc |-> <<>>]]
                            /\ cn' = [cn EXCEPT ![i] = [st |-> "freed", tls |-> 0, inz |-> FALSE, rc |-> 0]]
                            /\ tlscan' = [tlscan EXCEPT ![f] = 0]
                            /\ tss' = [tss EXCEPT ![f] = 0]
                  /\ gil' = 0 /\ calls' = [calls EXCEPT ![f] = @ + 1] /\ Goto(f, "idle")
                  /\ UNCHANGED <<zlock, tlsb, zl, vt, vc, doomed, err, seen, pre, nclear, shape, mpc>>

\* ------------------------------------------------------------------ thread exit
Sh0(f) == /\ Can(f) /\ pc[f] = "idle"
          /\ Goto(f, IF tlsb[f] = "alloc" THEN (IF Variant = "nolock" THEN "sh2" ELSE "sh1") ELSE "done")
          /\ UNCHANGED <<calls, gil, zlock, tss, tlsb, tlscan, ts, cn, zl, vt, vc, doomed, err, seen, pre, nclear, shape, mpc>>

Sh1(f) == /\ Can(f) /\ pc[f] = "sh1" /\ zlock = 0 /\ zlock' = f /\ Goto(f, "sh2")
          /\ UNCHANGED <<calls, gil, tss, tlsb, tlscan, ts, cn, zl, vt, vc, doomed, err, seen, pre, nclear, shape, mpc>>

Sh2(f) == /\ Can(f) /\ pc[f] = "sh2"            \* read tls->local_thread_canary
          /\ vc' = [vc EXCEPT ![f] = tlscan[f]] /\ Goto(f, "sh3")
          /\ UNCHANGED <<calls, gil, zlock, tss, tlsb, tlscan, ts, cn, zl, vt, doomed, err, seen, pre, nclear, shape, mpc>>

Sh3(f) == /\ Can(f) /\ pc[f] = "sh3"
          /\ LET c == vc[f] IN
             IF c # 0 /\ cn[c].st # "alive" THEN Fail("cffi_thread_shutdown uses a freed canary")
             ELSE IF c # 0 /\ cn[c].inz THEN Fail("cffi: ThreadCanaryObj is already a zombie")
             ELSE /\ cn' = IF c # 0 THEN [cn EXCEPT ![c].tls = 0, ![c].inz = TRUE] ELSE cn
                  /\ zl' = IF c # 0 THEN Append(zl, c) ELSE zl
                  /\ zlock' = IF Variant = "nolock" THEN zlock ELSE 0
                  /\ tlsb' = [tlsb EXCEPT ![f] = "freed"]
                  /\ Goto(f, "done")
                  /\ UNCHANGED <<calls, gil, tss, tlscan, ts, vt, vc, doomed, err, seen, pre, nclear, shape, mpc>>

\* ------------------------------------------------------------------ a Python thread
M0 == /\ CanM /\ mpc = "m0" /\ gil = 0 /\ gil' = Main /\ mpc' = "m1"
         /\ UNCHANGED <<pc, calls, zlock, tss, tlsb, tlscan, ts, cn, zl, vt, vc, doomed, err, seen, pre, nclear, shape>>
M1 == /\ CanM /\ mpc = "m1" /\ gil' = 0 /\ mpc' = "m0"
         /\ UNCHANGED <<pc, calls, zlock, tss, tlsb, tlscan, ts, cn, zl, vt, vc, doomed, err, seen, pre, nclear, shape>>
\* clear a thread state under cffi's feet (Py_Finalize, fork): its owner must not be in a callback
Victims == {i \in TsIds : ts[i].st = "alive" /\ pc[Owner(i)] \in {"idle", "sh1", "sh2", "sh3", "done"}}
MClear(i) == /\ CanM /\ mpc = "m1" /\ nclear < NClear /\ i \in Victims
             /\ nclear' = nclear + 1
             /\ doomed' = [doomed EXCEPT ![Owner(i)] = TRUE]
             /\ vt' = [vt EXCEPT ![Main] = i]
             /\ ts' = [ts EXCEPT ![i].st = "cleared", ![i].dict = 0, ![i].loc = <<>>]
             /\ vc' = [vc EXCEPT ![Main] = ts[i].dict]
             /\ cn' = IF ts[i].dict = 0 THEN cn ELSE [cn EXCEPT ![ts[i].dict].rc = @ - 1]
             /\ mpc' = IF ts[i].dict = 0 \/ cn[ts[i].dict].rc > 1 THEN "mdel" ELSE "cd1"
             /\ UNCHANGED <<pc, calls, gil, zlock, tss, tlsb, tlscan, zl, err, seen, pre, shape>>
MDel == /\ CanM /\ mpc = "mdel"
           /\ IF ts[vt[Main]].st \notin {"alive", "cleared"} THEN Fail("PyThreadState_Delete twice (Main)")
              ELSE /\ ts' = [ts EXCEPT ![vt[Main]].st = "deleted"] /\ mpc' = "m1"
                   /\ UNCHANGED <<pc, calls, gil, zlock, tss, tlsb, tlscan, cn, zl, vt, vc, doomed, err, seen, pre, nclear, shape>>

\* ------------------------------------------------------------------ next-state relation
FStep(f) == \/ Spawn(f) \/ Ge1(f) \/ Ge2(f) \/ Ge3(f) \/ Ge5(f) \/ Ge6(f)
            \/ Fz0(f) \/ Fz1(f) \/ Fz2(f) \/ Fz3(f) \/ Cd1(f) \/ Cd2(f) \/ Fz4(f)
            \/ Rg1(f) \/ Rg2(f) \/ Body(f) \/ BodyRel(f) \/ BodyAcq(f) \/ BodyW(f) \/ Gr1(f)
            \/ Sh0(f) \/ Sh1(f) \/ Sh2(f) \/ Sh3(f)
MStep == \/ M0 \/ M1 \/ MDel \/ Cd1(Main) \/ Cd2(Main) \/ \E i \in TsIds : MClear(i)
Next == (\E f \in Foreign : FStep(f)) \/ MStep
Spec == Init /\ [][Next]_vars

\* ------------------------------------------------------------------ invariants of the mechanism
NoErr == err = ""
\* the zombie list holds living canaries of exited threads, each once
ZombiesOK == /\ \A k \in 1..Len(zl) : cn[zl[k]].inz
             /\ \A k, l \in 1..Len(zl) : k # l => zl[k] # zl[l]
             /\ \A i \in TsIds : cn[i].inz => \E k \in 1..Len(zl) : zl[k] = i
\* tls->local_thread_canary never dangles
CanaryPtrOK == \A f \in Foreign : tlsb[f] = "alloc" /\ tlscan[f] # 0 => cn[tlscan[f]].st = "alive" /\ cn[tlscan[f]].tls = f
\* a callback body runs with the GIL and an alive tstate that belongs to its thread only
BodyOK == \A f \in Foreign : pc[f] \in {"body", "bodyw"} =>
             /\ gil = f /\ ts[tss[f]].st = "alive"
             /\ \A g \in Foreign \ {f} : tss[g] # tss[f]

\* ------------------------------------------------------------------ refinement of the ideal
InBody(f) == pc[f] \in {"bodyw", "bodyz", "bodyx", "gr1"}
fstBar == [f \in Foreign |-> CASE pc[f] = "unborn" -> "unborn"
                               [] InBody(f) -> "body"
                               [] pc[f] = "done" -> "exited"
                               [] OTHER -> "idle"]
Entered(f) == calls[f] > 0 \/ InBody(f)
itsBar == [f \in Foreign |-> IF Entered(f) /\ tss[f] # 0 THEN <<tss[f]>> ELSE <<>>]
locBar == [f \in Foreign |-> IF pc[f] # "done" /\ tss[f] # 0 /\ ts[tss[f]].st = "alive" /\ Entered(f)
                               THEN ts[tss[f]].loc ELSE <<>>]
zombBar == ZombTok
preBar == [f \in Foreign |-> pre[f] \cap Linked]
Ideal == INSTANCE ThreadStateIdeal WITH fst <- fstBar, its <- itsBar, loc <- locBar, saw <- seen,
                                         dead <- doomed, zomb <- zombBar, pre <- preBar, live <- Linked,
                                         Toks <- TsIds, LocVals <- 1..MaxCalls
RefinesIdeal == Ideal!ISpec
\* every thread state is accounted for whenever no operation is in progress
AccountOK == (Busy = {} /\ mpc \in {"m0", "m1"}) => Ideal!AccountG(Linked)
=============================================================================
