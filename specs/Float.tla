------------------------------ MODULE Float ------------------------------
(* IEEE-754 narrowing conversion (double -> float in reality) as an operator on bit patterns,
   parametric in the two formats: eb = exponent bits, mb = mantissa bits.  A pattern is a
   little-endian bit sequence: mantissa bits 1..mb, exponent bits mb+1..mb+eb, sign bit last.
   Round to nearest, ties to even; overflow to infinity; gradual underflow; infinities kept;
   NaN to NaN.  MC_Float checks this operator against the mathematical definition (nearest
   representable value by exact integer comparison) for EVERY pattern of a toy format pair;
   Trace_Float uses the same operator at (11,52) -> (8,23) on recorded conversions. *)
EXTENDS Integers, Sequences

BitsNat(b) == LET RECURSIVE S(_)
                  S(i) == IF i > Len(b) THEN 0 ELSE b[i] * (2 ^ (i - 1)) + S(i + 1)
              IN S(1)
Sub(b, i, j) == IF j < i THEN <<>> ELSE [k \in 1..(j - i + 1) |-> b[i + k - 1]]
AnyOne(b) == \E i \in 1..Len(b) : b[i] = 1
Bias(eb) == 2 ^ (eb - 1) - 1
Sign(b) == b[Len(b)]
ExpField(b, eb, mb) == BitsNat(Sub(b, mb + 1, mb + eb))
Mant(b, mb) == Sub(b, 1, mb)

\* result: [cls |-> "nan"] | [cls |-> "inf"|"fin", sign |-> 0/1, pat |-> unsigned pattern without sign]
NarrowM(b, eb1, mb1, eb2, mb2, mode) ==
    LET s == Sign(b)
        E == ExpField(b, eb1, mb1)
        M == Mant(b, mb1)
        maxE2 == 2 ^ eb2 - 1
        InfR == [cls |-> "inf", sign |-> s, pat |-> maxE2 * (2 ^ mb2)]
    IN
    IF E = 2 ^ eb1 - 1 THEN (IF AnyOne(M) THEN [cls |-> "nan", sign |-> s, pat |-> 0] ELSE InfR)
    ELSE
      LET S == IF E = 0 THEN M ELSE Append(M, 1)            \* significand bits (hidden bit added)
          e == (IF E = 0 THEN 1 ELSE E) - Bias(eb1)         \* value = S * 2^(e - mb1)
          hi == IF AnyOne(S) THEN CHOOSE i \in 1..Len(S) : S[i] = 1 /\ \A j \in (i + 1)..Len(S) : S[j] = 0 ELSE 0
      IN IF hi = 0 THEN [cls |-> "fin", sign |-> s, pat |-> 0]
         ELSE
           LET dropN == (hi - 1) - mb2                                  \* keeps mb2+1 significant bits
               dropS == (1 - Bias(eb2) - mb2) - (e - mb1)               \* unit of the target's subnormals
               drop == IF dropN > dropS THEN dropN ELSE dropS
               K0 == IF drop <= 0 THEN BitsNat(S) * (2 ^ (0 - drop))
                     ELSE IF drop >= hi THEN 0 ELSE BitsNat(Sub(S, drop + 1, hi))
               half == IF drop >= 1 /\ drop <= hi THEN S[drop] ELSE 0
               sticky == IF drop >= 2 THEN AnyOne(Sub(S, 1, IF drop - 1 > hi THEN hi ELSE drop - 1)) ELSE FALSE
               up == CASE mode = "rne" -> (IF half = 1 /\ (sticky \/ K0 % 2 = 1) THEN 1 ELSE 0)
                       [] mode = "trunc" -> 0
                       [] mode = "halfup" -> half
               K == K0 + up
               u == (e - mb1) + drop                                     \* weight of K's last bit
               E2m1 == u + Bias(eb2) + mb2 - 1                           \* exponent field - 1 (hidden bit inside K)
           IN IF E2m1 + 1 >= maxE2 \/ (E2m1 + 2 >= maxE2 /\ K >= 2 ^ (mb2 + 1)) THEN InfR
              ELSE [cls |-> "fin", sign |-> s, pat |-> E2m1 * (2 ^ mb2) + K]
Narrow(b, eb1, mb1, eb2, mb2) == NarrowM(b, eb1, mb1, eb2, mb2, "rne")
=============================================================================
