------------------------------ MODULE Errno ------------------------------
(* Implementation model of cffi's errno handling, one action per critical section, transcribed
   from the C sources (pinned tree):

     real[t]   the OS errno of thread t                      (errno, a glibc TLS variable)
     saved[t]  cffi's copy  `static __thread int cffi_saved_errno`  (misc_thread_common.h:292)
               save_errno_only():    cffi_saved_errno = errno        (misc_thread_common.h:293)
               restore_errno_only(): errno = cffi_saved_errno        (misc_thread_common.h:294)

     Set        b_set_errno   (_cffi_backend.c:7081)  errno = v; save_errno_only(); errno = 0
     Get        b_get_errno   (_cffi_backend.c:7072)  restore_errno_only(); err = errno; errno = 0
     CallEnter  the first half of every way into C:
                  cdata_call             (_cffi_backend.c:3203)   Py_BEGIN_ALLOW_THREADS; restore_errno();
                  _cffi_f_<name> wrapper (recompiler.py:743)      Py_BEGIN_ALLOW_THREADS; _cffi_restore_errno();
                  fetch_global_var_addr  (cglob.c:69)             Py_BEGIN_ALLOW_THREADS; restore_errno();
     CallExit   the second half:  save_errno(); Py_END_ALLOW_THREADS
     CbEnter    invoke_callback (_cffi_backend.c:6292) / cffi_call_python (call_python.c:241):
                  save_errno(); gil_ensure();
     CbExit     gil_release(); restore_errno();      (_cffi_backend.c:6298, call_python.c:278)
     CSet       C code assigns errno;  Clobber: Python-level activity changes the real errno.

   Embedding (src/cffi/_embedding.h; threads in Emb are C threads that call the dll-exported
   extern "Python" function of an embedded module; the function is `_cffi_call_python(..)`,
   a pointer that is &_cffi_start_and_call_python until the module is initialised and
   cffi_call_python afterwards):
     boot       "no" | "run" | "done": nobody has entered _cffi_start_python yet (`called` = 0) /
                one thread is running Py_InitializeEx + the init code under the re-entrant
                mutex / `_cffi_call_python = _cffi_call_python_org` has been published
     pend[t]    <<>>, or <<current_err, mode>> while thread t is inside
                _cffi_start_and_call_python (_embedding.h:467)
     EmbCall    boot = "done": the pointer is cffi_call_python already = CbEnter (save_errno)
                otherwise   `int current_err = errno; fnptr = _cffi_start_python();` begins
     EmbStart   whatever the start-up (Py_InitializeEx, imports, the init code, waiting for the
                mutex held by the initialising thread) does to the real errno of the thread
     EmbForward `errno = current_err; fnptr(externpy, args)` -> cffi_call_python: save_errno()
                (the initialising thread publishes boot = "done"; the others can only get
                the mutex after that)

   A thread in Raw starts inside C code that was not entered through cffi (base frame "raw").
   Variant selects deliberately broken variants which TLC must reject:
     "shared"       one saved errno for all threads (a lost __thread)
     "cb_nosave"    no save_errno() on callback entry
     "get_consumes" b_get_errno saves the cleared errno (ffi.errno readable only once)
     "glob_bare"    fetch_global_var_addr without restore/save
     "cb_norestore" no restore_errno() on callback exit
     "emb_norestore" no `errno = current_err` before forwarding the first call(s) of an
                    embedded module to cffi_call_python *)
EXTENDS Naturals, Sequences, FiniteSets, TLC
CONSTANTS Threads, Raw, Vals, Paths, Kinds, MaxLen, Variant,
          Emb         \* subset of Threads: C threads that call into an embedded module
VARIABLES real, saved, stk, obs, boot, pend
vars == <<real, saved, stk, obs, boot, pend>>

\* the slot of `saved` a thread uses: its own (faithful) or one for everybody
S(t) == IF Variant = "shared" THEN CHOOSE u \in Threads : \A w \in Threads : u <= w ELSE t

Odd(t)  == Len(stk[t]) % 2 = 1
InC(t)  == Odd(t) /\ pend[t] = <<>>      \* (not in the middle of _cffi_start_and_call_python)
InPy(t) == Len(stk[t]) % 2 = 0
Top(t) == stk[t][Len(stk[t])]
Pop(s) == SubSeq(s, 1, Len(s) - 1)
NoObs(t) == obs' = [obs EXCEPT ![t] = <<>>]

Init == /\ real \in [Threads -> Vals]
        /\ saved = [t \in Threads |-> 0]
        /\ stk = [t \in Threads |-> IF t \in Raw THEN <<"raw">> ELSE <<>>]
        /\ obs = [t \in Threads |-> <<>>]
        /\ boot = "no" /\ pend = [t \in Threads |-> <<>>]
NoEmb == UNCHANGED <<boot, pend>>

Set(t, v) == /\ NoEmb /\ InPy(t)
             /\ saved' = [saved EXCEPT ![S(t)] = v]          \* errno = v; save_errno_only()
             /\ real' = [real EXCEPT ![t] = 0]               \* errno = 0
             /\ NoObs(t) /\ UNCHANGED stk

Get(t) == /\ NoEmb /\ InPy(t)
          /\ obs' = [obs EXCEPT ![t] = <<saved[S(t)]>>]      \* restore_errno_only(); err = errno
          /\ real' = [real EXCEPT ![t] = 0]                  \* errno = 0
          /\ saved' = IF Variant = "get_consumes" THEN [saved EXCEPT ![S(t)] = 0] ELSE saved
          /\ UNCHANGED stk

Clobber(t, v) == /\ NoEmb /\ InPy(t) /\ real' = [real EXCEPT ![t] = v]
                 /\ NoObs(t) /\ UNCHANGED <<saved, stk>>

Bare(p) == Variant = "glob_bare" /\ p = "glob"

CallEnter(t, p) == /\ NoEmb /\ InPy(t) /\ Len(stk[t]) < MaxLen
                   /\ LET r == IF Bare(p) THEN real[t] ELSE saved[S(t)]     \* restore_errno()
                      IN real' = [real EXCEPT ![t] = r] /\ obs' = [obs EXCEPT ![t] = <<r>>]
                   /\ stk' = [stk EXCEPT ![t] = Append(@, p)]
                   /\ UNCHANGED saved

CSet(t, v) == /\ NoEmb /\ InC(t) /\ real' = [real EXCEPT ![t] = v]
              /\ NoObs(t) /\ UNCHANGED <<saved, stk>>

CallExit(t) == /\ NoEmb /\ InC(t) /\ Top(t) # "raw"
               /\ saved' = IF Bare(Top(t)) THEN saved ELSE [saved EXCEPT ![S(t)] = real[t]]   \* save_errno()
               /\ stk' = [stk EXCEPT ![t] = Pop(@)]
               /\ NoObs(t) /\ UNCHANGED real

CbEnter(t, k) == /\ NoEmb /\ InC(t) /\ Len(stk[t]) < MaxLen
                 /\ saved' = IF Variant = "cb_nosave" THEN saved
                             ELSE [saved EXCEPT ![S(t)] = real[t]]          \* save_errno()
                 /\ stk' = [stk EXCEPT ![t] = Append(@, k)]
                 /\ NoObs(t) /\ UNCHANGED real

CbExit(t) == /\ NoEmb /\ InPy(t) /\ Len(stk[t]) > 0
             /\ LET r == IF Variant = "cb_norestore" THEN real[t] ELSE saved[S(t)]   \* restore_errno()
                IN real' = [real EXCEPT ![t] = r] /\ obs' = [obs EXCEPT ![t] = <<r>>]
             /\ stk' = [stk EXCEPT ![t] = Pop(@)]
             /\ UNCHANGED saved

\* ---- a C thread calls the dll-exported function of an embedded module
EmbCall(t) ==
    /\ t \in Emb /\ InC(t) /\ Len(stk[t]) < MaxLen
    /\ IF boot = "done"
         THEN /\ saved' = [saved EXCEPT ![S(t)] = real[t]]        \* cffi_call_python: save_errno()
              /\ stk' = [stk EXCEPT ![t] = Append(@, "emb")]
              /\ NoObs(t) /\ UNCHANGED <<real, boot, pend>>
         ELSE /\ pend' = [pend EXCEPT ![t] = <<real[t], IF boot = "no" THEN "emb1" ELSE "embw">>]
              /\ boot' = "run"                                   \* called = 1 (first thread only)
              /\ UNCHANGED <<real, saved, stk, obs>>
EmbStart(t, v) == /\ pend[t] # <<>> /\ real' = [real EXCEPT ![t] = v]
                  /\ UNCHANGED <<saved, stk, obs, boot, pend>>
EmbForward(t) ==
    /\ pend[t] # <<>> /\ (pend[t][2] = "emb1" \/ boot = "done")
    /\ LET r == IF Variant = "emb_norestore" THEN real[t] ELSE pend[t][1]   \* errno = current_err
       IN /\ real' = [real EXCEPT ![t] = r]
          /\ saved' = [saved EXCEPT ![S(t)] = r]                  \* cffi_call_python: save_errno()
    /\ stk' = [stk EXCEPT ![t] = Append(@, pend[t][2])]
    /\ boot' = "done" /\ pend' = [pend EXCEPT ![t] = <<>>]
    /\ NoObs(t)

Step(t) == \/ \E v \in Vals : Set(t, v) \/ Clobber(t, v) \/ CSet(t, v) \/ EmbStart(t, v)
           \/ EmbCall(t) \/ EmbForward(t)
           \/ Get(t) \/ CallExit(t) \/ CbExit(t)
           \/ \E p \in Paths : CallEnter(t, p)
           \/ \E k \in Kinds : CbEnter(t, k)
Next == \E t \in Threads : Step(t)
Spec == Init /\ [][Next]_vars

\* ------------------------------------------------------------------ refinement of the ideal
\* (during start-up the errno of the thread, as the property sees it, is the one its C caller had)
eBar == [t \in Threads |-> IF pend[t] # <<>> THEN <<pend[t][1]>>
                           ELSE IF Odd(t) THEN <<real[t]>> ELSE <<saved[S(t)]>>]
Ideal == INSTANCE ErrnoIdeal WITH e <- eBar
RefinesIdeal == Ideal!ISpec

\* "each thread observes only its own errno": a step of thread t leaves the errno of every other
\* thread (as that thread will observe it) unchanged
NonInterference == [][\A t \in Threads : Step(t) => \A u \in Threads \ {t} : eBar'[u] = eBar[u]]_vars

TypeOK == /\ real \in [Threads -> Vals] /\ saved \in [Threads -> Vals]
          /\ \A t \in Threads : Len(stk[t]) <= MaxLen
          /\ boot \in {"no", "run", "done"}
          /\ \A t \in Threads : pend[t] # <<>> => t \in Emb /\ Odd(t) /\ pend[t][1] \in Vals
\* the real errno is the thread's errno whenever C code runs; the saved copy whenever Python runs
SavedIsPrivate == Variant # "shared" => \A t \in Threads : S(t) = t
=============================================================================
