SPECIFICATION TSpec
CONSTANTS Threads = {1,2,3,4,5,6,7,8}
  Tags = {"A","B","C"}
  Vals = {0}
CHECK_DEADLOCK FALSE
