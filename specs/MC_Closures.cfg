SPECIFICATION Spec
CONSTANTS Cbs = {1,2,3}
  PageSize = 2
  SlotSize = 2
  Gap = 100
  Sigs = {"i","d"}
  OnErrs = {TRUE, FALSE}
  MaxDepth = 1
  Cap = 2
  Variant = "faithful"
VIEW View
PROPERTY ISpec
PROPERTY Lifo
INVARIANT DistinctLive
INVARIANT FreeDisjointLive
INVARIANT FreeNoDup
INVARIANT BoundOwn
INVARIANT FramesOwn
INVARIANT OwnLive
INVARIANT InsideMapping
CHECK_DEADLOCK FALSE
