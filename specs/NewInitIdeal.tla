------------------------------ MODULE NewInitIdeal ------------------------------
(* C20 - the property itself: what ffi.new(T, init) must leave in memory.

   Types (layout is an input here; it is C01's subject):
     [k |-> "prim",   size, chr]                       chr: 1 for the character / byte types that accept strings
     [k |-> "arr",    item, len, isz, size]            len = -1 and size = -1: open ('T[]')
     [k |-> "struct", size, fields]                    fields: sequence of
           [name, off, t, ctor, bs, sh]                ctor: takes part in positional initialization
                                                       (false for union members after the first);
                                                       bs >= 0: bit-field of bs bits at shift sh in the
                                                       storage unit t (a prim) at byte offset off
   Initializers (a uniform record [k, b, items, n]):
     "none"  no initializer           "leaf"  b = the bytes of a primitive value / pointer
     "bits"  b = the bits of a bit-field value, least significant first
     "seq"   items = initializers (list/tuple)
     "dict"  items = <<[name, v], ...>>
     "str"   b = the byte values of a bytes / the CODE POINTS of a str, n = unit width of the array items
             (the units the array receives are StrUnits(b, n): at width 2 a code point above U+FFFF
              takes two units - a surrogate pair -, every other one takes one)
     "copy"  b = bytes of a cdata of the same type
     "len"   n = integer length for an open array

   The meaning of an initializer is given *pointwise* and without order: Claims(T, off, init) is
   the set of byte ranges / bit ranges the initializer determines, and a byte of the new object
   is the claimed value if some claim covers it and zero otherwise ("memory that is zero except
   where init writes").  The implementation model (NewInit.tla) mutates a memory sequentially;
   TLC checks the two agree.                                                                   *)
EXTENDS Integers, Sequences, FiniteSets

Zeros(n)   == [i \in 1..n |-> 0]
Max2(a, b) == IF a > b THEN a ELSE b
SetMax(S)  == CHOOSE x \in S : \A y \in S : y <= x
Range(s)   == {s[i] : i \in 1..Len(s)}

RECURSIVE Pow256(_)
Pow256(k) == IF k = 0 THEN 1 ELSE 256 * Pow256(k - 1)
\* little-endian bytes of units of width w
RECURSIVE UnitBytes(_, _)
UnitBytes(units, w) ==
  IF units = <<>> THEN <<>>
  ELSE [k \in 1..w |-> (Head(units) \div Pow256(k - 1)) % 256] \o UnitBytes(Tail(units), w)

\* ---- from the characters of a bytes/str to the units of the array (UTF-16 at width 2; identity at 1 and 4)
MaxCp(w)       == IF w = 1 THEN 255 ELSE 1114111                       \* 0x10FFFF
CpUnits(cp, w) == IF w = 2 /\ cp > 65535                               \* U+10000 is the first one that needs a pair
                    THEN <<55296 + ((cp - 65536) \div 1024), 56320 + ((cp - 65536) % 1024)>>
                    ELSE <<cp>>
RECURSIVE StrUnits(_, _)
StrUnits(cps, w) == IF cps = <<>> THEN <<>> ELSE CpUnits(Head(cps), w) \o StrUnits(Tail(cps), w)

CtorFields(T)     == SelectSeq(T.fields, LAMBDA f : f.ctor)
HasField(T, name) == \E i \in 1..Len(T.fields) : T.fields[i].name = name
Field(T, name)    == T.fields[CHOOSE i \in 1..Len(T.fields) : T.fields[i].name = name]
IsOpen(T)         == T.k = "arr" /\ T.len < 0

BytesClaim(off, b)       == [k |-> "bytes", off |-> off, sh |-> 0, b |-> b, n |-> Len(b)]
ExtClaim(off, n)         == [k |-> "ext", off |-> off, sh |-> 0, b |-> <<>>, n |-> n]
BitsClaim(off, sh, b, n) == [k |-> "bits", off |-> off, sh |-> sh, b |-> b, n |-> n]

\* ---- well-formed initializers: the only ones the statement speaks about
RECURSIVE WF(_, _)
WFField(f, v) == IF f.bs >= 0 THEN v.k = "bits" /\ Len(v.b) = f.bs ELSE WF(f.t, v)
WF(T, init) ==
  CASE init.k = "none" -> ~IsOpen(T)                 \* ffi.new('T[]') needs a length
    [] init.k = "leaf" -> T.k = "prim" /\ Len(init.b) = T.size
    [] init.k = "bits" -> FALSE
    [] init.k = "copy" -> T.k # "prim" /\ T.size >= 0 /\ Len(init.b) = T.size
    [] init.k = "len"  -> IsOpen(T) /\ init.n >= 0
    [] init.k = "str"  -> /\ T.k = "arr" /\ T.item.k = "prim" /\ T.item.chr = 1 /\ T.item.size = init.n
                          /\ \A i \in 1..Len(init.b) : init.b[i] >= 0 /\ init.b[i] <= MaxCp(init.n)
                          /\ (T.len >= 0 => Len(StrUnits(init.b, init.n)) <= T.len)
    [] init.k = "seq"  -> IF T.k = "arr"
                            THEN /\ (T.len >= 0 => Len(init.items) <= T.len)
                                 /\ \A i \in 1..Len(init.items) : WF(T.item, init.items[i])
                          ELSE IF T.k = "struct"
                            THEN /\ Len(init.items) <= Len(CtorFields(T))
                                 /\ \A i \in 1..Len(init.items) : WFField(CtorFields(T)[i], init.items[i])
                          ELSE FALSE
    [] init.k = "dict" -> /\ T.k = "struct"
                          /\ \A i \in 1..Len(init.items) :
                               /\ HasField(T, init.items[i].name)
                               /\ WFField(Field(T, init.items[i].name), init.items[i].v)
                               /\ \A j \in 1..Len(init.items) : i # j => init.items[i].name # init.items[j].name

\* ---- the meaning of an initializer
RECURSIVE Claims(_, _, _)
FieldClaims(f, off, v) ==
  IF f.bs >= 0 THEN {BitsClaim(off + f.off, f.sh, v.b, f.t.size)} ELSE Claims(f.t, off + f.off, v)
Claims(T, off, init) ==
  CASE init.k = "none" -> {}
    [] init.k \in {"leaf", "copy"} -> {BytesClaim(off, init.b)}
    [] init.k = "len"  -> {ExtClaim(off, init.n * T.isz)}
    [] init.k = "str"  -> \* the string and one terminating zero unit when shorter than the array
         LET units == StrUnits(init.b, init.n)
             room  == T.len < 0 \/ Len(units) < T.len
         IN {BytesClaim(off, UnitBytes(units, init.n) \o (IF room THEN Zeros(init.n) ELSE <<>>))}
    [] init.k = "seq"  ->
         IF T.k = "arr"
           THEN \* "sequence initializers fill leading elements ... in order"
                UNION {Claims(T.item, off + (i - 1) * T.isz, init.items[i]) : i \in 1..Len(init.items)}
                  \cup {ExtClaim(off, Len(init.items) * T.isz)}
           ELSE \* "... or fields in order"; "union sequences set the first member"
                UNION {FieldClaims(CtorFields(T)[i], off, init.items[i]) : i \in 1..Len(init.items)}
    [] init.k = "dict" -> \* "dict initializers set the named fields"
         UNION {FieldClaims(Field(T, init.items[i].name), off, init.items[i].v) : i \in 1..Len(init.items)}

End(c)          == c.off + c.n
BitLo(c)        == IF c.k = "bits" THEN 8 * c.off + c.sh ELSE 8 * c.off
BitHi(c)        == IF c.k = "bits" THEN 8 * c.off + c.sh + Len(c.b) ELSE 8 * (c.off + c.n)
Writes(cl)      == {c \in cl : c.k # "ext"}
\* distinct claims never determine the same bit (holds for well-formed initializers that do not
\* name two overlapping union members)
NoOverlap(cl)   == \A c \in Writes(cl), d \in Writes(cl) : c = d \/ BitHi(c) <= BitLo(d) \/ BitHi(d) <= BitLo(c)

\* the bytes the object must have room for
Extent(T, init) == SetMax({IF T.size >= 0 THEN T.size ELSE 0} \cup {End(c) : c \in Claims(T, 0, init)})

BitAt(bc, p) ==
  LET cs == {c \in bc : BitLo(c) <= p /\ p < BitHi(c)}
  IN IF cs = {} THEN 0 ELSE LET c == CHOOSE c \in cs : TRUE IN c.b[p - BitLo(c) + 1]
ByteAt(wc, bc, j) ==      \* j = 0-based byte offset
  LET cs == {c \in wc : c.off <= j /\ j < c.off + c.n}
  IN IF cs # {} THEN LET c == CHOOSE c \in cs : TRUE IN c.b[j - c.off + 1]
     ELSE IF bc = {} THEN 0
     ELSE BitAt(bc, 8 * j) + 2 * BitAt(bc, 8 * j + 1) + 4 * BitAt(bc, 8 * j + 2) + 8 * BitAt(bc, 8 * j + 3)
          + 16 * BitAt(bc, 8 * j + 4) + 32 * BitAt(bc, 8 * j + 5) + 64 * BitAt(bc, 8 * j + 6)
          + 128 * BitAt(bc, 8 * j + 7)
\* the memory of the new object: zero except where the initializer writes
Mem(alloc, cl) ==
  LET wc == {c \in cl : c.k = "bytes"}
      bc == {c \in cl : c.k = "bits"}
  IN [j \in 1..alloc |-> ByteAt(wc, bc, j - 1)]

\* ---- clauses
FitsG(T, init, alloc)         == alloc >= Extent(T, init)
BytesG(T, init, alloc, bytes) == Len(bytes) = alloc /\ bytes = Mem(alloc, Claims(T, 0, init))
LawG(bytes1, bytes2)          == bytes1 = bytes2
SizeofG(reported, alloc)      == reported = alloc
=============================================================================
