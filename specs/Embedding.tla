------------------------------ MODULE Embedding ------------------------------
(* Implementation model of the start-up protocol of CFFI-embedded libraries, transcribed
   from src/cffi/_embedding.h (CPython section, Python >= 3.12 branch of the spin lock,
   pthread branch of the mutex): one PlusCal label per shared-memory operation.  The label
   names are the names of the yield points of the scheduling harness
   (harness/embed/rt.c), which includes the unmodified header.

   label        source (src/cffi/_embedding.h unless noted)
   c_enter      the C caller enters the exported extern "Python" wrapper
   c_fast       generated wrapper: read of the static '_cffi_call_python'  (recompiler.py:1272)
   g_mark       _cffi_carefully_make_gil: empty_buffer_procs.mark = -42          (l.297)
   g_read       old_value = *lock            (PyCapsule_Type.tp_as_buffer)        (l.304)
   g_cas        cffi_compare_and_swap(lock, old_value, locked_value)              (l.306)
   g_assert     assert(old_value->mark == -42) (ebp_s of the holder)                (l.315)
   g_isinit     Py_IsInitialized()                                                (l.326)
   g_pyinit     Py_InitializeEx(0)            (leaves the caller holding the GIL) (l.138)
   g_save       PyEval_SaveThread()                                               (l.328)
   g_rel        while (!cffi_compare_and_swap(lock, locked_value, old_value))     (l.337)
   m_cas        _cffi_acquire_reentrant_mutex: CAS(&lock, NULL, 1)                (l.74)
   m_ready      if (!_cffi_embed_startup_lock_ready)                              (l.82)
   m_init       pthread_mutex_init(&_cffi_embed_startup_lock, recursive attr)     (l.87)
   m_setrdy     _cffi_embed_startup_lock_ready = 1                                (l.91)
   m_rel        CAS(&lock, 1, NULL)                                               (l.95)
   m_lock       pthread_mutex_lock(&_cffi_embed_startup_lock)                     (l.99)
   s_called     _cffi_start_python: if (!called)                                  (l.429)
   s_setcalled  called = 1                                                        (l.430)
   i_ensure     _cffi_initialize_python: PyGILState_Ensure()                      (l.151)
   i_modinit    _CFFI_PYTHON_STARTUP_FUNC()  fills _cffi_call_python_org          (l.160)
   i_code       PyEval_EvalCode(init code) entered                                (l.179)
   i_self/2     the init code calls an extern "Python" function of its own library
                (cffi releases the GIL around the C call and re-acquires it)
   i_cross/2    the init code calls an extern "Python" function of the other library
   i_end        the init code returns or raises
   i_release    PyGILState_Release(state)                                         (l.197)
   s_barrier    cffi_write_barrier()                                              (l.442)
   s_rdorg      assert(_cffi_call_python_org != NULL)                             (l.449)
   s_rdorg2     read of _cffi_call_python_org for the publication                 (l.450)
   s_publish    _cffi_call_python = _cffi_call_python_org                         (l.450)
   s_fail       _cffi_call_python_org = NULL                                      (l.457)
   s_unlock     pthread_mutex_unlock(&_cffi_embed_startup_lock)                   (l.108)
   s_ret        return _cffi_call_python_org  (read)                              (l.463)
   z_zero       _cffi_start_and_call_python: memset(args, 0, size_of_result)      (l.478)
   b_ensure     cffi_call_python (src/c/call_python.c): PyGILState_Ensure
   b_body       the Python function registered with @ffi.def_extern runs
   b_release    PyGILState_Release
   c_ret        the wrapper returns to the C caller

   Scenario constants: SelfCalls (libraries whose init code calls their own extern "Python"
   function), CrossCalls (libraries whose init code calls the other library), FailCode
   (init code raises at its end), FailMod (the module init function fails), PreInit (the
   host program initialised Python itself), MaxCalls (sequential top-level calls per
   thread, each into a library chosen freely).

   Variant selects deliberately broken variants which TLC must reject (non-vacuity):
   "earlypublish" (_cffi_call_python switched when `called` is set), "nocalled" (the
   `called` flag is ignored), "unlockedpy" (spin lock released before Py_IsInitialized),
   "nozero" (no memset after a failed initialisation), "nonrecursive" (plain mutex). *)
EXTENDS Naturals, Sequences, FiniteSets, TLC
CONSTANTS Threads, Libs, MaxCalls, SelfCalls, CrossCalls, FailCode, FailMod, PreInit, Variant

Other(l) == CHOOSE o \in Libs \ {l} : TRUE
HasOther(l) == Libs \ {l} # {}

(* --algorithm Embedding {
variables
  \* ---- process-wide state (libpython)
  spin = "free",                       \* PyCapsule_Type.tp_as_buffer: "free" (NULL) or the library whose empty_buffer_procs it points to
  pyinit = PreInit,                    \* Py_IsInitialized()
  gil = 0,                             \* thread holding the GIL, 0 = nobody
  \* ---- per library (each library has its own copy of _embedding.h)
  mark = [l \in Libs |-> FALSE],       \* empty_buffer_procs.mark == -42
  mlock = [l \in Libs |-> 0],          \* static `lock` of _cffi_acquire_reentrant_mutex
  ready = [l \in Libs |-> FALSE],      \* _cffi_embed_startup_lock_ready
  mrec = [l \in Libs |-> FALSE],       \* the mutex was initialised (as a recursive one)
  mowner = [l \in Libs |-> 0],         \* _cffi_embed_startup_lock: owner and depth
  mdepth = [l \in Libs |-> 0],
  called = [l \in Libs |-> FALSE],     \* static `called` of _cffi_start_python
  org = [l \in Libs |-> "null"],       \* _cffi_call_python_org = _cffi_exports[25]
  fast = [l \in Libs |-> FALSE],       \* _cffi_call_python # &_cffi_start_and_call_python
  \* ---- observation: exactly the variables of EmbeddingIdeal
  py = IF PreInit THEN 1 ELSE 0,
  init = [l \in Libs |-> "none"],
  ninit = [l \in Libs |-> 0],
  initer = [l \in Libs |-> 0],
  frames = [t \in Threads |-> <<>>],
  last = [t \in Threads |-> "none"],
  ncalls = [t \in Threads |-> 0];

procedure Call(L)
  variables fn = "tramp", old = "free", isinit = FALSE, res = "other", iok = TRUE;
{
c_enter:   frames[self] := Append(frames[self], [lib |-> L, ran |-> FALSE]);
c_fast:    fn := IF fast[L] THEN "real" ELSE "tramp";
           if (fn = "real") { goto b_ensure };
  \* ------------------------------------------------ _cffi_carefully_make_gil
g_mark:    mark[L] := TRUE;
g_read:    old := spin;
           if (old = "free") { goto g_cas } else { goto g_assert };
g_assert:  assert mark[old];
           goto g_read;
g_cas:     if (spin = "free") { spin := IF Variant = "unlockedpy" THEN "free" ELSE L }
           else { goto g_read };
g_isinit:  isinit := pyinit;
           if (isinit) { goto g_rel };
g_pyinit:  pyinit := TRUE; gil := self; py := py + 1;
g_save:    gil := 0;
g_rel:     if (Variant = "unlockedpy") { goto m_cas }
           else if (spin = L) { spin := "free" } else { goto g_rel };
  \* ------------------------------------------------ _cffi_acquire_reentrant_mutex
m_cas:     if (mlock[L] = 0) { mlock[L] := 1 } else { goto m_cas };
m_ready:   if (ready[L]) { goto m_rel };
m_init:    mrec[L] := (Variant # "nonrecursive");
m_setrdy:  ready[L] := TRUE;
m_rel:     if (mlock[L] = 1) { mlock[L] := 0 } else { goto m_rel };
m_lock:    await mowner[L] = 0 \/ (mowner[L] = self /\ mrec[L]);
           mowner[L] := self; mdepth[L] := mdepth[L] + 1;
  \* ------------------------------------------------ _cffi_start_python
s_called:  if (called[L] /\ Variant # "nocalled") { goto s_unlock };
s_setcalled: called[L] := TRUE;
           if (Variant = "earlypublish") { fast[L] := TRUE };
  \* ------------------------------------------------ _cffi_initialize_python
i_ensure:  await gil = 0; gil := self;
i_modinit: if (L \in FailMod) { init[L] := "failed"; iok := FALSE; goto i_release }
           else { org[L] := "real" };
i_code:    init[L] := "running"; ninit[L] := ninit[L] + 1; initer[L] := self;
i_self:    if (L \in SelfCalls) { gil := 0; call Call(L) } else { goto i_cross };
i_self2:   await gil = 0; gil := self;
i_cross:   if (L \in CrossCalls /\ HasOther(L)) { gil := 0; call Call(Other(L)) } else { goto i_end };
i_cross2:  await gil = 0; gil := self;
i_end:     iok := (L \notin FailCode);
           init[L] := IF iok THEN "ok" ELSE "failed";
i_release: gil := 0;
           if (~iok) { goto s_fail };
s_barrier: skip;
s_rdorg:   assert org[L] = "real";
s_rdorg2:  fn := org[L];
s_publish: fast[L] := (fn = "real");
           goto s_unlock;
s_fail:    org[L] := "null";
s_unlock:  if (mdepth[L] = 1) { mowner[L] := 0 };
           mdepth[L] := mdepth[L] - 1;
s_ret:     fn := org[L];
           if (fn = "null") { goto z_zero };
  \* ------------------------------------------------ cffi_call_python
b_ensure:  await gil = 0; gil := self;
b_body:    frames[self] := [frames[self] EXCEPT ![Len(frames[self])].ran = TRUE];
           res := "ran";
b_release: gil := 0;
           goto c_ret;
  \* ------------------------------------------------ failed initialisation
z_zero:    res := IF Variant = "nozero" THEN "other" ELSE "zero";
c_ret:     frames[self] := SubSeq(frames[self], 1, Len(frames[self]) - 1);
           last[self] := res;
           return;
}

fair process (t \in Threads)
{
t_loop: while (ncalls[self] < MaxCalls) {
          with (l \in Libs) { ncalls[self] := ncalls[self] + 1; call Call(l) }
        }
}
} *)
\* BEGIN TRANSLATION
CONSTANT defaultInitValue
VARIABLES pc, spin, pyinit, gil, mark, mlock, ready, mrec, mowner, mdepth, 
          called, org, fast, py, init, ninit, initer, frames, last, ncalls, 
          stack, L, fn, old, isinit, res, iok

vars == << pc, spin, pyinit, gil, mark, mlock, ready, mrec, mowner, mdepth, 
           called, org, fast, py, init, ninit, initer, frames, last, ncalls, 
           stack, L, fn, old, isinit, res, iok >>

ProcSet == (Threads)

Init == (* Global variables *)
        /\ spin = "free"
        /\ pyinit = PreInit
        /\ gil = 0
        /\ mark = [l \in Libs |-> FALSE]
        /\ mlock = [l \in Libs |-> 0]
        /\ ready = [l \in Libs |-> FALSE]
        /\ mrec = [l \in Libs |-> FALSE]
        /\ mowner = [l \in Libs |-> 0]
        /\ mdepth = [l \in Libs |-> 0]
        /\ called = [l \in Libs |-> FALSE]
        /\ org = [l \in Libs |-> "null"]
        /\ fast = [l \in Libs |-> FALSE]
        /\ py = IF PreInit THEN 1 ELSE 0
        /\ init = [l \in Libs |-> "none"]
        /\ ninit = [l \in Libs |-> 0]
        /\ initer = [l \in Libs |-> 0]
        /\ frames = [t \in Threads |-> <<>>]
        /\ last = [t \in Threads |-> "none"]
        /\ ncalls = [t \in Threads |-> 0]
        (* Procedure Call *)
        /\ L = [ self \in ProcSet |-> defaultInitValue]
        /\ fn = [ self \in ProcSet |-> "tramp"]
        /\ old = [ self \in ProcSet |-> "free"]
        /\ isinit = [ self \in ProcSet |-> FALSE]
        /\ res = [ self \in ProcSet |-> "other"]
        /\ iok = [ self \in ProcSet |-> TRUE]
        /\ stack = [self \in ProcSet |-> << >>]
        /\ pc = [self \in ProcSet |-> "t_loop"]

c_enter(self) == /\ pc[self] = "c_enter"
                 /\ frames' = [frames EXCEPT ![self] = Append(frames[self], [lib |-> L[self], ran |-> FALSE])]
                 /\ pc' = [pc EXCEPT ![self] = "c_fast"]
                 /\ UNCHANGED << spin, pyinit, gil, mark, mlock, ready, mrec, 
                                 mowner, mdepth, called, org, fast, py, init, 
                                 ninit, initer, last, ncalls, stack, L, fn, 
                                 old, isinit, res, iok >>

c_fast(self) == /\ pc[self] = "c_fast"
                /\ fn' = [fn EXCEPT ![self] = IF fast[L[self]] THEN "real" ELSE "tramp"]
                /\ IF fn'[self] = "real"
                      THEN /\ pc' = [pc EXCEPT ![self] = "b_ensure"]
                      ELSE /\ pc' = [pc EXCEPT ![self] = "g_mark"]
                /\ UNCHANGED << spin, pyinit, gil, mark, mlock, ready, mrec, 
                                mowner, mdepth, called, org, fast, py, init, 
                                ninit, initer, frames, last, ncalls, stack, L, 
                                old, isinit, res, iok >>

g_mark(self) == /\ pc[self] = "g_mark"
                /\ mark' = [mark EXCEPT ![L[self]] = TRUE]
                /\ pc' = [pc EXCEPT ![self] = "g_read"]
                /\ UNCHANGED << spin, pyinit, gil, mlock, ready, mrec, mowner, 
                                mdepth, called, org, fast, py, init, ninit, 
                                initer, frames, last, ncalls, stack, L, fn, 
                                old, isinit, res, iok >>

g_read(self) == /\ pc[self] = "g_read"
                /\ old' = [old EXCEPT ![self] = spin]
                /\ IF old'[self] = "free"
                      THEN /\ pc' = [pc EXCEPT ![self] = "g_cas"]
                      ELSE /\ pc' = [pc EXCEPT ![self] = "g_assert"]
                /\ UNCHANGED << spin, pyinit, gil, mark, mlock, ready, mrec, 
                                mowner, mdepth, called, org, fast, py, init, 
                                ninit, initer, frames, last, ncalls, stack, L, 
                                fn, isinit, res, iok >>

g_assert(self) == /\ pc[self] = "g_assert"
                  /\ Assert(mark[old[self]], 
                            "Failure of assertion at line 99, column 12.")
                  /\ pc' = [pc EXCEPT ![self] = "g_read"]
                  /\ UNCHANGED << spin, pyinit, gil, mark, mlock, ready, mrec, 
                                  mowner, mdepth, called, org, fast, py, init, 
                                  ninit, initer, frames, last, ncalls, stack, 
                                  L, fn, old, isinit, res, iok >>

g_cas(self) == /\ pc[self] = "g_cas"
               /\ IF spin = "free"
                     THEN /\ spin' = (IF Variant = "unlockedpy" THEN "free" ELSE L[self])
                          /\ pc' = [pc EXCEPT ![self] = "g_isinit"]
                     ELSE /\ pc' = [pc EXCEPT ![self] = "g_read"]
                          /\ spin' = spin
               /\ UNCHANGED << pyinit, gil, mark, mlock, ready, mrec, mowner, 
                               mdepth, called, org, fast, py, init, ninit, 
                               initer, frames, last, ncalls, stack, L, fn, old, 
                               isinit, res, iok >>

g_isinit(self) == /\ pc[self] = "g_isinit"
                  /\ isinit' = [isinit EXCEPT ![self] = pyinit]
                  /\ IF isinit'[self]
                        THEN /\ pc' = [pc EXCEPT ![self] = "g_rel"]
                        ELSE /\ pc' = [pc EXCEPT ![self] = "g_pyinit"]
                  /\ UNCHANGED << spin, pyinit, gil, mark, mlock, ready, mrec, 
                                  mowner, mdepth, called, org, fast, py, init, 
                                  ninit, initer, frames, last, ncalls, stack, 
                                  L, fn, old, res, iok >>

g_pyinit(self) == /\ pc[self] = "g_pyinit"
                  /\ pyinit' = TRUE
                  /\ gil' = self
                  /\ py' = py + 1
                  /\ pc' = [pc EXCEPT ![self] = "g_save"]
                  /\ UNCHANGED << spin, mark, mlock, ready, mrec, mowner, 
                                  mdepth, called, org, fast, init, ninit, 
                                  initer, frames, last, ncalls, stack, L, fn, 
                                  old, isinit, res, iok >>

g_save(self) == /\ pc[self] = "g_save"
                /\ gil' = 0
                /\ pc' = [pc EXCEPT ![self] = "g_rel"]
                /\ UNCHANGED << spin, pyinit, mark, mlock, ready, mrec, mowner, 
                                mdepth, called, org, fast, py, init, ninit, 
                                initer, frames, last, ncalls, stack, L, fn, 
                                old, isinit, res, iok >>

g_rel(self) == /\ pc[self] = "g_rel"
               /\ IF Variant = "unlockedpy"
                     THEN /\ pc' = [pc EXCEPT ![self] = "m_cas"]
                          /\ spin' = spin
                     ELSE /\ IF spin = L[self]
                                THEN /\ spin' = "free"
                                     /\ pc' = [pc EXCEPT ![self] = "m_cas"]
                                ELSE /\ pc' = [pc EXCEPT ![self] = "g_rel"]
                                     /\ spin' = spin
               /\ UNCHANGED << pyinit, gil, mark, mlock, ready, mrec, mowner, 
                               mdepth, called, org, fast, py, init, ninit, 
                               initer, frames, last, ncalls, stack, L, fn, old, 
                               isinit, res, iok >>

m_cas(self) == /\ pc[self] = "m_cas"
               /\ IF mlock[L[self]] = 0
                     THEN /\ mlock' = [mlock EXCEPT ![L[self]] = 1]
                          /\ pc' = [pc EXCEPT ![self] = "m_ready"]
                     ELSE /\ pc' = [pc EXCEPT ![self] = "m_cas"]
                          /\ mlock' = mlock
               /\ UNCHANGED << spin, pyinit, gil, mark, ready, mrec, mowner, 
                               mdepth, called, org, fast, py, init, ninit, 
                               initer, frames, last, ncalls, stack, L, fn, old, 
                               isinit, res, iok >>

m_ready(self) == /\ pc[self] = "m_ready"
                 /\ IF ready[L[self]]
                       THEN /\ pc' = [pc EXCEPT ![self] = "m_rel"]
                       ELSE /\ pc' = [pc EXCEPT ![self] = "m_init"]
                 /\ UNCHANGED << spin, pyinit, gil, mark, mlock, ready, mrec, 
                                 mowner, mdepth, called, org, fast, py, init, 
                                 ninit, initer, frames, last, ncalls, stack, L, 
                                 fn, old, isinit, res, iok >>

m_init(self) == /\ pc[self] = "m_init"
                /\ mrec' = [mrec EXCEPT ![L[self]] = (Variant # "nonrecursive")]
                /\ pc' = [pc EXCEPT ![self] = "m_setrdy"]
                /\ UNCHANGED << spin, pyinit, gil, mark, mlock, ready, mowner, 
                                mdepth, called, org, fast, py, init, ninit, 
                                initer, frames, last, ncalls, stack, L, fn, 
                                old, isinit, res, iok >>

m_setrdy(self) == /\ pc[self] = "m_setrdy"
                  /\ ready' = [ready EXCEPT ![L[self]] = TRUE]
                  /\ pc' = [pc EXCEPT ![self] = "m_rel"]
                  /\ UNCHANGED << spin, pyinit, gil, mark, mlock, mrec, mowner, 
                                  mdepth, called, org, fast, py, init, ninit, 
                                  initer, frames, last, ncalls, stack, L, fn, 
                                  old, isinit, res, iok >>

m_rel(self) == /\ pc[self] = "m_rel"
               /\ IF mlock[L[self]] = 1
                     THEN /\ mlock' = [mlock EXCEPT ![L[self]] = 0]
                          /\ pc' = [pc EXCEPT ![self] = "m_lock"]
                     ELSE /\ pc' = [pc EXCEPT ![self] = "m_rel"]
                          /\ mlock' = mlock
               /\ UNCHANGED << spin, pyinit, gil, mark, ready, mrec, mowner, 
                               mdepth, called, org, fast, py, init, ninit, 
                               initer, frames, last, ncalls, stack, L, fn, old, 
                               isinit, res, iok >>

m_lock(self) == /\ pc[self] = "m_lock"
                /\ mowner[L[self]] = 0 \/ (mowner[L[self]] = self /\ mrec[L[self]])
                /\ mowner' = [mowner EXCEPT ![L[self]] = self]
                /\ mdepth' = [mdepth EXCEPT ![L[self]] = mdepth[L[self]] + 1]
                /\ pc' = [pc EXCEPT ![self] = "s_called"]
                /\ UNCHANGED << spin, pyinit, gil, mark, mlock, ready, mrec, 
                                called, org, fast, py, init, ninit, initer, 
                                frames, last, ncalls, stack, L, fn, old, 
                                isinit, res, iok >>

s_called(self) == /\ pc[self] = "s_called"
                  /\ IF called[L[self]] /\ Variant # "nocalled"
                        THEN /\ pc' = [pc EXCEPT ![self] = "s_unlock"]
                        ELSE /\ pc' = [pc EXCEPT ![self] = "s_setcalled"]
                  /\ UNCHANGED << spin, pyinit, gil, mark, mlock, ready, mrec, 
                                  mowner, mdepth, called, org, fast, py, init, 
                                  ninit, initer, frames, last, ncalls, stack, 
                                  L, fn, old, isinit, res, iok >>

s_setcalled(self) == /\ pc[self] = "s_setcalled"
                     /\ called' = [called EXCEPT ![L[self]] = TRUE]
                     /\ IF Variant = "earlypublish"
                           THEN /\ fast' = [fast EXCEPT ![L[self]] = TRUE]
                           ELSE /\ TRUE
                                /\ fast' = fast
                     /\ pc' = [pc EXCEPT ![self] = "i_ensure"]
                     /\ UNCHANGED << spin, pyinit, gil, mark, mlock, ready, 
                                     mrec, mowner, mdepth, org, py, init, 
                                     ninit, initer, frames, last, ncalls, 
                                     stack, L, fn, old, isinit, res, iok >>

i_ensure(self) == /\ pc[self] = "i_ensure"
                  /\ gil = 0
                  /\ gil' = self
                  /\ pc' = [pc EXCEPT ![self] = "i_modinit"]
                  /\ UNCHANGED << spin, pyinit, mark, mlock, ready, mrec, 
                                  mowner, mdepth, called, org, fast, py, init, 
                                  ninit, initer, frames, last, ncalls, stack, 
                                  L, fn, old, isinit, res, iok >>

i_modinit(self) == /\ pc[self] = "i_modinit"
                   /\ IF L[self] \in FailMod
                         THEN /\ init' = [init EXCEPT ![L[self]] = "failed"]
                              /\ iok' = [iok EXCEPT ![self] = FALSE]
                              /\ pc' = [pc EXCEPT ![self] = "i_release"]
                              /\ org' = org
                         ELSE /\ org' = [org EXCEPT ![L[self]] = "real"]
                              /\ pc' = [pc EXCEPT ![self] = "i_code"]
                              /\ UNCHANGED << init, iok >>
                   /\ UNCHANGED << spin, pyinit, gil, mark, mlock, ready, mrec, 
                                   mowner, mdepth, called, fast, py, ninit, 
                                   initer, frames, last, ncalls, stack, L, fn, 
                                   old, isinit, res >>

i_code(self) == /\ pc[self] = "i_code"
                /\ init' = [init EXCEPT ![L[self]] = "running"]
                /\ ninit' = [ninit EXCEPT ![L[self]] = ninit[L[self]] + 1]
                /\ initer' = [initer EXCEPT ![L[self]] = self]
                /\ pc' = [pc EXCEPT ![self] = "i_self"]
                /\ UNCHANGED << spin, pyinit, gil, mark, mlock, ready, mrec, 
                                mowner, mdepth, called, org, fast, py, frames, 
                                last, ncalls, stack, L, fn, old, isinit, res, 
                                iok >>

i_self(self) == /\ pc[self] = "i_self"
                /\ IF L[self] \in SelfCalls
                      THEN /\ gil' = 0
                           /\ /\ L' = [L EXCEPT ![self] = L[self]]
                              /\ stack' = [stack EXCEPT ![self] = << [ procedure |->  "Call",
                                                                       pc        |->  "i_self2",
                                                                       fn        |->  fn[self],
                                                                       old       |->  old[self],
                                                                       isinit    |->  isinit[self],
                                                                       res       |->  res[self],
                                                                       iok       |->  iok[self],
                                                                       L         |->  L[self] ] >>
                                                                   \o stack[self]]
                           /\ fn' = [fn EXCEPT ![self] = "tramp"]
                           /\ old' = [old EXCEPT ![self] = "free"]
                           /\ isinit' = [isinit EXCEPT ![self] = FALSE]
                           /\ res' = [res EXCEPT ![self] = "other"]
                           /\ iok' = [iok EXCEPT ![self] = TRUE]
                           /\ pc' = [pc EXCEPT ![self] = "c_enter"]
                      ELSE /\ pc' = [pc EXCEPT ![self] = "i_cross"]
                           /\ UNCHANGED << gil, stack, L, fn, old, isinit, res, 
                                           iok >>
                /\ UNCHANGED << spin, pyinit, mark, mlock, ready, mrec, mowner, 
                                mdepth, called, org, fast, py, init, ninit, 
                                initer, frames, last, ncalls >>

i_self2(self) == /\ pc[self] = "i_self2"
                 /\ gil = 0
                 /\ gil' = self
                 /\ pc' = [pc EXCEPT ![self] = "i_cross"]
                 /\ UNCHANGED << spin, pyinit, mark, mlock, ready, mrec, 
                                 mowner, mdepth, called, org, fast, py, init, 
                                 ninit, initer, frames, last, ncalls, stack, L, 
                                 fn, old, isinit, res, iok >>

i_cross(self) == /\ pc[self] = "i_cross"
                 /\ IF L[self] \in CrossCalls /\ HasOther(L[self])
                       THEN /\ gil' = 0
                            /\ /\ L' = [L EXCEPT ![self] = Other(L[self])]
                               /\ stack' = [stack EXCEPT ![self] = << [ procedure |->  "Call",
                                                                        pc        |->  "i_cross2",
                                                                        fn        |->  fn[self],
                                                                        old       |->  old[self],
                                                                        isinit    |->  isinit[self],
                                                                        res       |->  res[self],
                                                                        iok       |->  iok[self],
                                                                        L         |->  L[self] ] >>
                                                                    \o stack[self]]
                            /\ fn' = [fn EXCEPT ![self] = "tramp"]
                            /\ old' = [old EXCEPT ![self] = "free"]
                            /\ isinit' = [isinit EXCEPT ![self] = FALSE]
                            /\ res' = [res EXCEPT ![self] = "other"]
                            /\ iok' = [iok EXCEPT ![self] = TRUE]
                            /\ pc' = [pc EXCEPT ![self] = "c_enter"]
                       ELSE /\ pc' = [pc EXCEPT ![self] = "i_end"]
                            /\ UNCHANGED << gil, stack, L, fn, old, isinit, 
                                            res, iok >>
                 /\ UNCHANGED << spin, pyinit, mark, mlock, ready, mrec, 
                                 mowner, mdepth, called, org, fast, py, init, 
                                 ninit, initer, frames, last, ncalls >>

i_cross2(self) == /\ pc[self] = "i_cross2"
                  /\ gil = 0
                  /\ gil' = self
                  /\ pc' = [pc EXCEPT ![self] = "i_end"]
                  /\ UNCHANGED << spin, pyinit, mark, mlock, ready, mrec, 
                                  mowner, mdepth, called, org, fast, py, init, 
                                  ninit, initer, frames, last, ncalls, stack, 
                                  L, fn, old, isinit, res, iok >>

i_end(self) == /\ pc[self] = "i_end"
               /\ iok' = [iok EXCEPT ![self] = (L[self] \notin FailCode)]
               /\ init' = [init EXCEPT ![L[self]] = IF iok'[self] THEN "ok" ELSE "failed"]
               /\ pc' = [pc EXCEPT ![self] = "i_release"]
               /\ UNCHANGED << spin, pyinit, gil, mark, mlock, ready, mrec, 
                               mowner, mdepth, called, org, fast, py, ninit, 
                               initer, frames, last, ncalls, stack, L, fn, old, 
                               isinit, res >>

i_release(self) == /\ pc[self] = "i_release"
                   /\ gil' = 0
                   /\ IF ~iok[self]
                         THEN /\ pc' = [pc EXCEPT ![self] = "s_fail"]
                         ELSE /\ pc' = [pc EXCEPT ![self] = "s_barrier"]
                   /\ UNCHANGED << spin, pyinit, mark, mlock, ready, mrec, 
                                   mowner, mdepth, called, org, fast, py, init, 
                                   ninit, initer, frames, last, ncalls, stack, 
                                   L, fn, old, isinit, res, iok >>

s_barrier(self) == /\ pc[self] = "s_barrier"
                   /\ TRUE
                   /\ pc' = [pc EXCEPT ![self] = "s_rdorg"]
                   /\ UNCHANGED << spin, pyinit, gil, mark, mlock, ready, mrec, 
                                   mowner, mdepth, called, org, fast, py, init, 
                                   ninit, initer, frames, last, ncalls, stack, 
                                   L, fn, old, isinit, res, iok >>

s_rdorg(self) == /\ pc[self] = "s_rdorg"
                 /\ Assert(org[L[self]] = "real", 
                           "Failure of assertion at line 135, column 12.")
                 /\ pc' = [pc EXCEPT ![self] = "s_rdorg2"]
                 /\ UNCHANGED << spin, pyinit, gil, mark, mlock, ready, mrec, 
                                 mowner, mdepth, called, org, fast, py, init, 
                                 ninit, initer, frames, last, ncalls, stack, L, 
                                 fn, old, isinit, res, iok >>

s_rdorg2(self) == /\ pc[self] = "s_rdorg2"
                  /\ fn' = [fn EXCEPT ![self] = org[L[self]]]
                  /\ pc' = [pc EXCEPT ![self] = "s_publish"]
                  /\ UNCHANGED << spin, pyinit, gil, mark, mlock, ready, mrec, 
                                  mowner, mdepth, called, org, fast, py, init, 
                                  ninit, initer, frames, last, ncalls, stack, 
                                  L, old, isinit, res, iok >>

s_publish(self) == /\ pc[self] = "s_publish"
                   /\ fast' = [fast EXCEPT ![L[self]] = (fn[self] = "real")]
                   /\ pc' = [pc EXCEPT ![self] = "s_unlock"]
                   /\ UNCHANGED << spin, pyinit, gil, mark, mlock, ready, mrec, 
                                   mowner, mdepth, called, org, py, init, 
                                   ninit, initer, frames, last, ncalls, stack, 
                                   L, fn, old, isinit, res, iok >>

s_fail(self) == /\ pc[self] = "s_fail"
                /\ org' = [org EXCEPT ![L[self]] = "null"]
                /\ pc' = [pc EXCEPT ![self] = "s_unlock"]
                /\ UNCHANGED << spin, pyinit, gil, mark, mlock, ready, mrec, 
                                mowner, mdepth, called, fast, py, init, ninit, 
                                initer, frames, last, ncalls, stack, L, fn, 
                                old, isinit, res, iok >>

s_unlock(self) == /\ pc[self] = "s_unlock"
                  /\ IF mdepth[L[self]] = 1
                        THEN /\ mowner' = [mowner EXCEPT ![L[self]] = 0]
                        ELSE /\ TRUE
                             /\ UNCHANGED mowner
                  /\ mdepth' = [mdepth EXCEPT ![L[self]] = mdepth[L[self]] - 1]
                  /\ pc' = [pc EXCEPT ![self] = "s_ret"]
                  /\ UNCHANGED << spin, pyinit, gil, mark, mlock, ready, mrec, 
                                  called, org, fast, py, init, ninit, initer, 
                                  frames, last, ncalls, stack, L, fn, old, 
                                  isinit, res, iok >>

s_ret(self) == /\ pc[self] = "s_ret"
               /\ fn' = [fn EXCEPT ![self] = org[L[self]]]
               /\ IF fn'[self] = "null"
                     THEN /\ pc' = [pc EXCEPT ![self] = "z_zero"]
                     ELSE /\ pc' = [pc EXCEPT ![self] = "b_ensure"]
               /\ UNCHANGED << spin, pyinit, gil, mark, mlock, ready, mrec, 
                               mowner, mdepth, called, org, fast, py, init, 
                               ninit, initer, frames, last, ncalls, stack, L, 
                               old, isinit, res, iok >>

b_ensure(self) == /\ pc[self] = "b_ensure"
                  /\ gil = 0
                  /\ gil' = self
                  /\ pc' = [pc EXCEPT ![self] = "b_body"]
                  /\ UNCHANGED << spin, pyinit, mark, mlock, ready, mrec, 
                                  mowner, mdepth, called, org, fast, py, init, 
                                  ninit, initer, frames, last, ncalls, stack, 
                                  L, fn, old, isinit, res, iok >>

b_body(self) == /\ pc[self] = "b_body"
                /\ frames' = [frames EXCEPT ![self] = [frames[self] EXCEPT ![Len(frames[self])].ran = TRUE]]
                /\ res' = [res EXCEPT ![self] = "ran"]
                /\ pc' = [pc EXCEPT ![self] = "b_release"]
                /\ UNCHANGED << spin, pyinit, gil, mark, mlock, ready, mrec, 
                                mowner, mdepth, called, org, fast, py, init, 
                                ninit, initer, last, ncalls, stack, L, fn, old, 
                                isinit, iok >>

b_release(self) == /\ pc[self] = "b_release"
                   /\ gil' = 0
                   /\ pc' = [pc EXCEPT ![self] = "c_ret"]
                   /\ UNCHANGED << spin, pyinit, mark, mlock, ready, mrec, 
                                   mowner, mdepth, called, org, fast, py, init, 
                                   ninit, initer, frames, last, ncalls, stack, 
                                   L, fn, old, isinit, res, iok >>

z_zero(self) == /\ pc[self] = "z_zero"
                /\ res' = [res EXCEPT ![self] = IF Variant = "nozero" THEN "other" ELSE "zero"]
                /\ pc' = [pc EXCEPT ![self] = "c_ret"]
                /\ UNCHANGED << spin, pyinit, gil, mark, mlock, ready, mrec, 
                                mowner, mdepth, called, org, fast, py, init, 
                                ninit, initer, frames, last, ncalls, stack, L, 
                                fn, old, isinit, iok >>

c_ret(self) == /\ pc[self] = "c_ret"
               /\ frames' = [frames EXCEPT ![self] = SubSeq(frames[self], 1, Len(frames[self]) - 1)]
               /\ last' = [last EXCEPT ![self] = res[self]]
               /\ pc' = [pc EXCEPT ![self] = Head(stack[self]).pc]
               /\ fn' = [fn EXCEPT ![self] = Head(stack[self]).fn]
               /\ old' = [old EXCEPT ![self] = Head(stack[self]).old]
               /\ isinit' = [isinit EXCEPT ![self] = Head(stack[self]).isinit]
               /\ res' = [res EXCEPT ![self] = Head(stack[self]).res]
               /\ iok' = [iok EXCEPT ![self] = Head(stack[self]).iok]
               /\ L' = [L EXCEPT ![self] = Head(stack[self]).L]
               /\ stack' = [stack EXCEPT ![self] = Tail(stack[self])]
               /\ UNCHANGED << spin, pyinit, gil, mark, mlock, ready, mrec, 
                               mowner, mdepth, called, org, fast, py, init, 
                               ninit, initer, ncalls >>

Call(self) == c_enter(self) \/ c_fast(self) \/ g_mark(self) \/ g_read(self)
                 \/ g_assert(self) \/ g_cas(self) \/ g_isinit(self)
                 \/ g_pyinit(self) \/ g_save(self) \/ g_rel(self)
                 \/ m_cas(self) \/ m_ready(self) \/ m_init(self)
                 \/ m_setrdy(self) \/ m_rel(self) \/ m_lock(self)
                 \/ s_called(self) \/ s_setcalled(self) \/ i_ensure(self)
                 \/ i_modinit(self) \/ i_code(self) \/ i_self(self)
                 \/ i_self2(self) \/ i_cross(self) \/ i_cross2(self)
                 \/ i_end(self) \/ i_release(self) \/ s_barrier(self)
                 \/ s_rdorg(self) \/ s_rdorg2(self) \/ s_publish(self)
                 \/ s_fail(self) \/ s_unlock(self) \/ s_ret(self)
                 \/ b_ensure(self) \/ b_body(self) \/ b_release(self)
                 \/ z_zero(self) \/ c_ret(self)

t_loop(self) == /\ pc[self] = "t_loop"
                /\ IF ncalls[self] < MaxCalls
                      THEN /\ \E l \in Libs:
                                /\ ncalls' = [ncalls EXCEPT ![self] = ncalls[self] + 1]
                                /\ /\ L' = [L EXCEPT ![self] = l]
                                   /\ stack' = [stack EXCEPT ![self] = << [ procedure |->  "Call",
                                                                            pc        |->  "t_loop",
                                                                            fn        |->  fn[self],
                                                                            old       |->  old[self],
                                                                            isinit    |->  isinit[self],
                                                                            res       |->  res[self],
                                                                            iok       |->  iok[self],
                                                                            L         |->  L[self] ] >>
                                                                        \o stack[self]]
                                /\ fn' = [fn EXCEPT ![self] = "tramp"]
                                /\ old' = [old EXCEPT ![self] = "free"]
                                /\ isinit' = [isinit EXCEPT ![self] = FALSE]
                                /\ res' = [res EXCEPT ![self] = "other"]
                                /\ iok' = [iok EXCEPT ![self] = TRUE]
                                /\ pc' = [pc EXCEPT ![self] = "c_enter"]
                      ELSE /\ pc' = [pc EXCEPT ![self] = "Done"]
                           /\ UNCHANGED << ncalls, stack, L, fn, old, isinit, 
                                           res, iok >>
                /\ UNCHANGED << spin, pyinit, gil, mark, mlock, ready, mrec, 
                                mowner, mdepth, called, org, fast, py, init, 
                                ninit, initer, frames, last >>

t(self) == t_loop(self)

(* Allow infinite stuttering to prevent deadlock on termination. *)
Terminating == /\ \A self \in ProcSet: pc[self] = "Done"
               /\ UNCHANGED vars

Next == (\E self \in ProcSet: Call(self))
           \/ (\E self \in Threads: t(self))
           \/ Terminating

Spec == /\ Init /\ [][Next]_vars
        /\ \A self \in Threads : WF_vars(t(self)) /\ WF_vars(Call(self))

Termination == <>(\A self \in ProcSet: pc[self] = "Done")

\* END TRANSLATION

SafeSpec == Init /\ [][Next]_vars      \* Spec (above) adds weak fairness per thread

\* ------------------------------------------------------------------ refinement of the ideal
\* The observation variables py, init, ninit, initer, frames, last are updated by the
\* algorithm exactly where the harness logs the corresponding event.
Ideal == INSTANCE EmbeddingIdeal
RefinesIdeal == Ideal!ISpec
EveryCallTerminates == Ideal!ITerminates

\* ------------------------------------------------------------------ direct invariants
PyInitAtMostOnce == py <= 1
InitCodeAtMostOncePerLib == \A l \in Libs : ninit[l] <= 1
NoEarlyExtern == \A th \in Threads : pc[th] = "b_body" =>
                    \/ init[L[th]] \in {"ok", "failed"}
                    \/ init[L[th]] = "running" /\ initer[L[th]] = th
ZeroAfterFail == \A th \in Threads : (pc[th] = "c_ret" /\ init[L[th]] = "failed") => res[th] = "zero"
SpinExclusive == Cardinality({th \in Threads : pc[th] \in {"g_isinit", "g_pyinit", "g_save", "g_rel"}}) <= 1
MutexHeld == \A th \in Threads :
               pc[th] \in {"s_called", "s_setcalled", "i_ensure", "i_modinit", "i_code", "i_self", "i_cross",
                           "i_end", "i_release", "s_barrier", "s_rdorg", "s_rdorg2", "s_publish", "s_fail",
                           "s_unlock"} => mowner[L[th]] = th
GilExclusive == Cardinality({th \in Threads : pc[th] \in {"g_save", "i_modinit", "i_code", "i_self", "i_cross",
                                                          "i_end", "i_release", "b_body", "b_release"}}) <= 1

\* ------------------------------------------------------------------ the known deadlock (CrossCalls = Libs)
\* Two libraries whose init codes call each other: thread t1 runs a's init code (holding a's
\* start-up mutex) and waits for b's mutex while t2 runs b's init code and waits for a's.
Stuck == ~ENABLED Next
WaitsFor(th, l) == pc[th] = "m_lock" /\ L[th] = l /\ mowner[l] \notin {0, th}
ABBA == \E t1, t2 \in Threads : \E a, b \in Libs :
          /\ t1 # t2 /\ a # b
          /\ init[a] = "running" /\ initer[a] = t1 /\ mowner[a] = t1 /\ WaitsFor(t1, b)
          /\ init[b] = "running" /\ initer[b] = t2 /\ mowner[b] = t2 /\ WaitsFor(t2, a)
OnlyABBADeadlocks == Stuck => ABBA
NoABBA == ~ABBA          \* expected to be violated when CrossCalls = Libs (reachability of the deadlock)
TerminatesOrABBA == EveryCallTerminates \/ <>[]ABBA
=============================================================================
