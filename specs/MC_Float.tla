------------------------------ MODULE MC_Float ------------------------------
(* Float!Narrow against the mathematical definition, for every pattern of the source format
   (eb=4, mb=5) narrowed to (eb=3, mb=2), and (eb=3,mb=4)->(eb=3,mb=2) (same exponent range). *)
EXTENDS Float, TLC
CONSTANTS EB1, MB1, EB2, MB2, Variant
VARIABLE p
N1 == MB1 + EB1 + 1
Init == p \in [1..N1 -> {0, 1}]
Spec == Init /\ [][UNCHANGED p]_p

D == 16                                  \* all finite values are integers when scaled by 2^D
\* |value| * 2^D of an unsigned pattern (without sign) in format (eb, mb)
Scaled(pat, eb, mb) == LET E == pat \div (2 ^ mb)
                           M == pat % (2 ^ mb)
                       IN IF E = 0 THEN M * (2 ^ (D + 1 - Bias(eb) - mb))
                          ELSE (M + 2 ^ mb) * (2 ^ (D + E - Bias(eb) - mb))
SrcPat == BitsNat(Sub(p, 1, MB1 + EB1))
SrcIsSpecial == ExpField(p, EB1, MB1) = 2 ^ EB1 - 1
MaxFinPat == (2 ^ EB2 - 1) * (2 ^ MB2) - 1
FinPats == 0..MaxFinPat
Abs(x) == IF x < 0 THEN -x ELSE x

R == NarrowM(p, EB1, MB1, EB2, MB2, Variant)

Nearest ==
    ~SrcIsSpecial =>
      LET v == Scaled(SrcPat, EB1, MB1)
          r == R
          \* threshold of overflow: max finite + half ulp
          maxv == Scaled(MaxFinPat, EB2, MB2)
          halfulp == (Scaled(MaxFinPat, EB2, MB2) - Scaled(MaxFinPat - 1, EB2, MB2)) \div 2
      IN /\ r.sign = Sign(p)
         /\ r.cls \in {"fin", "inf"}
         /\ (r.cls = "inf") = (v >= maxv + halfulp)
         /\ r.cls = "fin" =>
              LET rv == Scaled(r.pat, EB2, MB2) IN
              \A t \in FinPats :
                 LET tv == Scaled(t, EB2, MB2) IN
                 /\ Abs(v - rv) <= Abs(v - tv)
                 /\ (Abs(v - rv) = Abs(v - tv) /\ t # r.pat) => r.pat % 2 = 0
Specials ==
    SrcIsSpecial => LET r == R IN
       IF AnyOne(Mant(p, MB1)) THEN r.cls = "nan" ELSE r.cls = "inf" /\ r.sign = Sign(p)
=============================================================================
