------------------------------ MODULE AtomicWrite ------------------------------
(* C23(b) -- implementation model of the file part of
   recompiler._make_c_or_py_source (src/cffi/recompiler.py:1423-1441), one action per
   system call that matters, with a Crash enabled in every state of every process.

       try:
           with open(target_file, 'r') as f1:                  cmp_open / cmp_close
               if f1.read(len(output) + 1) != output:
                   raise OSError
           return False                                        ret False
       except OSError:
           tmp_file = '%s.~%d' % (target_file, os.getpid())
           with open(tmp_file, 'w') as f1:                     open_tmp
               f1.write(output)                                write (1..newlen chunks)
                                                               close_tmp
           try:
               os.rename(tmp_file, target_file)                rename
           except OSError:
               os.unlink(target_file)                          unlink     (only if RenameFails)
               os.rename(tmp_file, target_file)                rename2
           return True

   Procs > 1 models several processes (distinct pids, hence distinct temp names)
   regenerating the same text into the same target concurrently.

   Variant: "faithful", or a deliberately broken algorithm TLC must reject:
     "inplace"      writes the target itself
     "unlinkfirst"  unlinks the target before every rename
     "nocompare"    never takes the up-to-date exit
     "renameearly"  renames the temp file before its content is written            *)
EXTENDS AtomicWriteIdeal

CONSTANTS Olds,          \* subset of {"absent", "same", "diff"}
          MaxChunks,     \* new text is written in 1..MaxChunks write calls
          StaleTmp,      \* subset of BOOLEAN: may a stale temp file of the same name pre-exist
          RenameFails,   \* BOOLEAN: may the first rename fail (the fault the fallback exists for)
          Procs,         \* set of process ids (small naturals)
          Variant

VARIABLES S,       \* file-system state (AtomicWriteIdeal)
          pc,      \* pc[p]
          left,    \* left[p]: chunks still to write
          ret,     \* ret[p] \in {"none", "T", "F"}
          same     \* same[p]: result of p's comparison
vars == <<S, pc, left, ret, same>>

Tmp(p) == <<"TMP1", "TMP2", "TMP3">>[p]                    \* '%s.~%d' % (target_file, os.getpid())
Fd(p) == 10 * p + 3
Stale == {Tmp(CHOOSE p \in Procs : \A q \in Procs : p <= q)}

Init == /\ \E env \in [old : Olds, newlen : 1..MaxChunks] : \E st \in StaleTmp :
              S = InitFS(env, IF st THEN Stale ELSE {})
        /\ pc = [p \in Procs |-> "cmp_open"]
        /\ left = [p \in Procs |-> 0]
        /\ ret = [p \in Procs |-> "none"]
        /\ same = [p \in Procs |-> FALSE]

Goto(p, l) == pc' = [pc EXCEPT ![p] = l]

CmpOpen(p) ==                                                     \* :1426 open(target_file, 'r')
    /\ pc[p] = "cmp_open"
    /\ IF Variant = "nocompare" \/ Lookup(S, T) = 0
       THEN /\ S' = Open(S, T, FALSE, 0 - 1) /\ Goto(p, IF Variant = "inplace" THEN "open_tgt" ELSE "open_tmp")
            /\ UNCHANGED same
       ELSE /\ S' = Open(S, T, FALSE, Fd(p)) /\ Goto(p, "cmp_close")
            /\ same' = [same EXCEPT ![p] = (TargetClass(S) = "new")]     \* :1427 read and compare
    /\ UNCHANGED <<left, ret>>
CmpClose(p) ==
    /\ pc[p] = "cmp_close"
    /\ S' = Close(S, Fd(p))
    /\ IF same[p] THEN ret' = [ret EXCEPT ![p] = "F"] /\ Goto(p, "done")     \* :1431 return False
       ELSE UNCHANGED ret /\ Goto(p, IF Variant = "inplace" THEN "open_tgt" ELSE "open_tmp")
    /\ UNCHANGED <<left, same>>
OpenTmp(p) ==                                                     \* :1434 open(tmp_file, 'w')
    /\ pc[p] = "open_tmp"
    /\ S' = Open(S, Tmp(p), TRUE, Fd(p))
    /\ left' = [left EXCEPT ![p] = S.env.newlen]
    /\ Goto(p, IF Variant = "renameearly" THEN "rename" ELSE "write")
    /\ UNCHANGED <<ret, same>>
OpenTgt(p) ==                                                     \* broken variant only
    /\ pc[p] = "open_tgt"
    /\ S' = Open(S, T, TRUE, Fd(p))
    /\ left' = [left EXCEPT ![p] = S.env.newlen]
    /\ Goto(p, "write")
    /\ UNCHANGED <<ret, same>>
WriteChunk(p) ==                                                  \* :1435 f1.write(output) -> write(2) calls
    /\ pc[p] = "write"
    /\ left[p] > 0
    /\ S' = Write(S, Fd(p), 1)
    /\ left' = [left EXCEPT ![p] = left[p] - 1]
    /\ IF left[p] = 1 THEN Goto(p, "close_tmp") ELSE UNCHANGED pc
    /\ UNCHANGED <<ret, same>>
CloseTmp(p) ==                                                    \* end of the with block
    /\ pc[p] = "close_tmp"
    /\ S' = Close(S, Fd(p))
    /\ IF Variant \in {"inplace", "renameearly"} THEN ret' = [ret EXCEPT ![p] = "T"] /\ Goto(p, "done")
       ELSE UNCHANGED ret /\ Goto(p, IF Variant = "unlinkfirst" THEN "unlink" ELSE "rename")
    /\ UNCHANGED <<left, same>>
RenameOk(p) ==                                                    \* :1437 os.rename(tmp_file, target_file)
    /\ pc[p] = "rename"
    /\ S' = Rename(S, Tmp(p), T, TRUE)
    /\ IF Variant = "renameearly" THEN UNCHANGED ret /\ Goto(p, "write")
       ELSE ret' = [ret EXCEPT ![p] = "T"] /\ Goto(p, "done")    \* :1441 return True
    /\ UNCHANGED <<left, same>>
RenameFail(p) ==                                                  \* :1438 except OSError
    /\ pc[p] = "rename" /\ RenameFails
    /\ S' = Rename(S, Tmp(p), T, FALSE)
    /\ Goto(p, "unlink")
    /\ UNCHANGED <<left, ret, same>>
UnlinkTgt(p) ==                                                   \* :1439 os.unlink(target_file)
    /\ pc[p] = "unlink"
    /\ S' = Unlink(S, T, TRUE)
    /\ Goto(p, "rename2")
    /\ UNCHANGED <<left, ret, same>>
Rename2(p) ==                                                     \* :1440 os.rename(tmp_file, target_file)
    /\ pc[p] = "rename2"
    /\ S' = Rename(S, Tmp(p), T, TRUE)
    /\ ret' = [ret EXCEPT ![p] = "T"] /\ Goto(p, "done")
    /\ UNCHANGED <<left, same>>
CrashP(p) ==                                                      \* the process is killed here
    /\ pc[p] \notin {"done", "crashed"}
    /\ S' = [S EXCEPT !.hnd = [k \in DOMAIN S.hnd \ {Fd(p)} |-> S.hnd[k]]]
    /\ Goto(p, "crashed")
    /\ UNCHANGED <<left, ret, same>>

Step(p) == \/ CmpOpen(p) \/ CmpClose(p) \/ OpenTmp(p) \/ OpenTgt(p) \/ WriteChunk(p) \/ CloseTmp(p)
           \/ RenameOk(p) \/ RenameFail(p) \/ UnlinkTgt(p) \/ Rename2(p)
Next == \E p \in Procs : Step(p) \/ CrashP(p)
Spec == Init /\ [][Next]_vars /\ \A p \in Procs : WF_vars(Step(p))

\* ---------------------------------------------------------------- properties (one per clause)
InvAtomic == Atomic(S)                       \* at every instant, hence at every crash point
InvUntouched == Untouched(S)
\* single process: the return value and the final content
InvReturn == \A p \in Procs : (pc[p] = "done" /\ Cardinality(Procs) = 1) => ReturnOK(S, ret[p] = "T")
\* several processes: whoever finishes leaves the new text
InvDoneNew == \A p \in Procs : pc[p] = "done" => TargetClass(S) = "new"
Finishes == \A p \in Procs : <>(pc[p] \in {"done", "crashed"})

\* projection used by the replayer (same function on the real directory)
TmpClass(p) == LET i == Lookup(S, Tmp(p)) IN
    IF i = 0 THEN "absent" ELSE IF S.ino[i].tag = "new" THEN <<"new", S.ino[i].n>> ELSE "junk"
=============================================================================
