INIT Init
NEXT Next
CONSTANTS LB = 2
  R = 40
