------------------------------ MODULE Trace_Flatten ------------------------------
(* Validates records taken from the real ffiplatform.flatten / Verifier against Flatten.tla.
   Records (JSON):
     [kind |-> "flatten", val |-> value, out |-> <<code points>>]
         the real flatten(val) returned `out`           -> must equal Flatten(val)
     [kind |-> "order", items |-> <<<<key, value>>>>, out |-> ...]
         the real flatten of a dict listing its items in this order
                                                        -> must equal Flatten of the canonical dict
     [kind |-> "key", ver, vvm, pre, kw, src]
         inputs of a Verifier; the BYTES of the specification's key (KeyBytes: Key, then UTF-8)
         are written to IOEnv.KEYS_OUT so that
         the harness can recompute the two CRC32 halves and compare module names
   Prints <<"VERDICT", k, clause>> for every bad record and finally <<"CHECKED", n>>. *)
EXTENDS Flatten, Json, IOUtils
VARIABLES k
Recs == JsonDeserialize(IOEnv.TRACE_FILE)

RECURSIVE WellFormed(_)
WellFormed(x) ==
    CASE x.t = "s" -> TRUE
      [] x.t = "i" -> Len(x.v) >= 1
      [] x.t = "l" -> \A i \in DOMAIN x.v : WellFormed(x.v[i])
      [] x.t = "d" -> /\ \A i \in DOMAIN x.v : x.v[i][1].t = "s" /\ WellFormed(x.v[i][2])
                      /\ \A i \in 1..(Len(x.v) - 1) : StrLess(x.v[i][1].v, x.v[i + 1][1].v)    \* canonical
      [] OTHER -> FALSE

Check(i) == LET r == Recs[i] IN
    CASE r.kind = "flatten" ->
           IF ~WellFormed(r.val) THEN PrintT(<<"VERDICT", i, "harness">>)
           ELSE IF Flatten(r.val) # r.out THEN PrintT(<<"VERDICT", i, "flatten">>)
           ELSE LET p == Parse(r.out) IN
                IF p.ok /\ p.val = r.val /\ p.rest = <<>> THEN TRUE ELSE PrintT(<<"VERDICT", i, "decode">>)
      [] r.kind = "order" ->
           IF FlattenDictAsWritten(r.items) # r.out THEN PrintT(<<"VERDICT", i, "order">>) ELSE TRUE
      [] OTHER -> TRUE

KeyRecs == {i \in DOMAIN Recs : Recs[i].kind = "key"}
KeysOut == [i \in DOMAIN Recs |-> IF i \in KeyRecs
                                  THEN KeyBytes(Recs[i].ver, Recs[i].vvm, Recs[i].pre, Recs[i].kw, Recs[i].src) ELSE <<>>]

TInit == k = 0
TNext == \/ k < Len(Recs) /\ Check(k + 1) /\ k' = k + 1
         \/ /\ k = Len(Recs) /\ JsonSerialize(IOEnv.KEYS_OUT, KeysOut)
            /\ PrintT(<<"CHECKED", k>>) /\ k' = k + 1
TSpec == TInit /\ [][TNext]_k
=============================================================================
