------------------------------ MODULE DlLib ------------------------------
(* Implementation models of the two dlopen() front ends, one action per Python-level
   operation on a lib object, on top of a small model of the dynamic loader.

   Mode = "inline"     src/cffi/api.py  _make_ffi_library (FFILibrary, accessor_function,
                       accessor_variable, addressof_var, __cffi_close__)   and
                       src/c/_cffi_backend.c  dl_check_closed, dl_load_function,
                       dl_read_variable, dl_write_variable, dl_close_lib
   Mode = "outofline"  src/c/cdlopen.c  cdlopen_fetch, ffi_dlclose   and
                       src/c/lib_obj.c  lib_build_and_cache_attr (_CFFI_OP_DLOPEN_FUNC,
                       _CFFI_OP_GLOBAL_VAR with address == NULL), lib_getattr, lib_setattr,
                       address_of_global_var

   Loader model (glibc): all lib objects are opened on the same shared object, so dlopen()
   returns the same handle "H" and counts references; the image is unmapped when the count
   drops to 0 and a later dlopen() maps a fresh image (variables re-initialised).  dlsym() on
   a handle whose reference was given back works by luck while somebody else keeps the image
   mapped and is undefined behaviour otherwise ("died"); dlsym(NULL) is RTLD_DEFAULT: it finds
   the symbol iff the image is mapped with RTLD_GLOBAL.

   A lib object is opened either by path (ffi.dlopen("x.so"): cffi calls dlopen() and owns that
   reference: dl_auto_close / l_auto_close = 1) or from an existing handle (ffi.dlopen(h) with a
   'void *' cdata h that the program obtained from dlopen() itself: the lib borrows the program's
   reference, auto_close = 0).  ffi.dlclose(lib) calls dlclose() on the handle in both cases (the
   program's reference is consumed for a borrowed handle); only the deallocators look at auto_close.

   Variant selects deliberately broken variants that TLC must reject (non-vacuity):
     "nonull"   the close does not reset the handle field to NULL
     "nocheck"  dl_check_closed / the NULL test of cdlopen_fetch is dropped
     "noclear"  the close does not clear library.__dict__ / l_dict
     "noclose-when-not-owner"  the close is a no-op for a lib opened from an existing handle
   The ghost variables ls, fb, last of DlLibIdeal are updated with the ideal's own effects,
   so that "the model refines the ideal" is the property ISpec. *)
EXTENDS DlLibIdeal, TLC
CONSTANTS Mode, Variant, Flags
VARIABLES hnd,    \* hnd[l]   \in {"none", "H", "null"}: dl_handle / l_libhandle
          share,  \* share[l] = l owns one reference of the loader's count
          own,    \* own[l]   = dl_auto_close / l_auto_close: the lib was opened by path
          raw,    \* number of references the program itself holds (raw dlopen() handles)
          glob,   \* the mapped image is in the global scope (some dlopen used RTLD_GLOBAL)
          dict,   \* dict[l]  = names cached in library.__dict__ / l_dict
          props,  \* props[l] = (inline) variables with a property installed on FFILibrary
          addrs,  \* addrs[l] = (inline) variables cached in addr_variables
          mem,    \* mem[v]   = value of the C variable in the mapped image
          dead,   \* the process was killed
          det     \* details of the last outcome: exception class, value, loader calls

mvars == <<hnd, share, own, raw, glob, dict, props, addrs, mem, dead, det>>
vars == <<ls, fb, last, hnd, share, own, raw, glob, dict, props, addrs, mem, dead, det>>

\* the exhaustive configurations identify states that differ only in the last outcome
View == <<ls, fb, hnd, share, own, raw, glob, dict, props, addrs, mem, dead>>

Names == Funcs \cup Vars
InitMem == [v \in Vars |-> 0]
R(out, exc, val, sym, cls) == [out |-> out, exc |-> exc, val |-> val, sym |-> sym, cls |-> cls]
ROk(val, sym) == R("ok", "", val, sym, 0)
RDied(sym, cls) == R("died", "", 0, sym, cls)

Init == /\ IInit
        /\ hnd = [l \in Libs |-> "none"] /\ share = [l \in Libs |-> FALSE] /\ glob = FALSE
        /\ own = [l \in Libs |-> FALSE] /\ raw = 0
        /\ dict = [l \in Libs |-> {}] /\ props = [l \in Libs |-> {}] /\ addrs = [l \in Libs |-> {}]
        /\ mem = InitMem /\ dead = FALSE /\ det = R("ok", "", 0, 0, 0)

\* ------------------------------------------------------------------ the loader
Refcnt == Cardinality({l \in Libs : share[l]}) + raw
Loaded == Refcnt > 0
Dlsym(l) == CASE hnd[l] = "H" /\ share[l]  -> "found"
              [] hnd[l] = "H" /\ ~share[l] -> IF Loaded THEN "found" ELSE "ub"
              [] OTHER                     -> IF Loaded /\ glob THEN "found" ELSE "notfound"
ExcClosed == IF Mode = "inline" THEN "ValueError" ELSE "FFIError"
\* dl_check_closed() + dlsym() of dl_load_function / dl_read_variable / dl_write_variable,
\* resp. cdlopen_fetch(); notfound = the exception class used when dlsym() fails
Lookup(l, val, notfound) ==
    IF hnd[l] = "null" /\ Variant # "nocheck" THEN R("error", ExcClosed, 0, 0, 0)
    ELSE CASE Dlsym(l) = "found"    -> ROk(val, 1)
           [] Dlsym(l) = "notfound" -> R("error", notfound, 0, 1, 0)
           [] OTHER                 -> RDied(1, 0)

\* common tail: publish the outcome, apply the ideal's effect (given as e)
Fin(ev, l, n, r, e) == /\ Ev(ev, l, n, r.out, r.sym + r.cls) /\ det' = r /\ e
                       /\ dead' = (r.out = "died")
CallVal(f) == IF f = "f1" THEN 11 ELSE 10 + mem["v1"]

Open(l, fl) ==
    /\ ls[l] = "unopened" /\ ~dead
    /\ hnd' = [hnd EXCEPT ![l] = "H"] /\ share' = [share EXCEPT ![l] = TRUE]
    /\ own' = [own EXCEPT ![l] = TRUE]
    /\ glob' = (glob \/ fl = "global")
    /\ Fin("open", l, "", ROk(0, 0), OpenE(l, "ok"))
    /\ UNCHANGED <<raw, dict, props, addrs, mem>>

\* h = dlopen(path, fl) by the program itself, then lib = ffi.dlopen(h): b_do_dlopen takes the
\* 'void *' as the handle, auto_close = 0
OpenH(l, fl) ==
    /\ ls[l] = "unopened" /\ ~dead
    /\ raw' = raw + 1
    /\ hnd' = [hnd EXCEPT ![l] = "H"]
    /\ glob' = (glob \/ fl = "global")
    /\ Fin("open", l, "", ROk(0, 0), OpenE(l, "ok"))
    /\ UNCHANGED <<share, own, dict, props, addrs, mem>>

\* a function object fetched earlier and kept by the caller is called while lib is open
Call(l, f) ==
    /\ ls[l] = "open" /\ f \in fb[l] /\ ~dead
    /\ Fin("call", l, f, ROk(CallVal(f), 0), CallE(l, f, "ok"))
    /\ UNCHANGED <<own, raw, hnd, share, glob, dict, props, addrs, mem>>

\* dlclose() part shared by dl_close_lib and ffi_dlclose (cdlopen_close)
CloseCommon(l) ==
    LET doit == hnd[l] = "H" /\ (Variant = "noclose-when-not-owner" => own[l])      \* "if (handle != NULL)"
        ub   == doit /\ ~share[l] /\ ~Loaded      \* dlclose() of an unmapped handle
        \* whose reference dlclose() drops: the lib's own one, else one of the program's (a borrowed
        \* handle), else (stale handle) somebody else's
        share2 == IF doit /\ ~ub /\ (share[l] \/ raw = 0)
                  THEN [share EXCEPT ![IF share[l] THEN l ELSE CHOOSE x \in Libs : share[x]] = FALSE]
                  ELSE share
        raw2 == IF doit /\ ~ub /\ ~share[l] /\ raw > 0 THEN raw - 1 ELSE raw
        r == IF ub THEN RDied(0, 1) ELSE R("ok", "", 0, 0, IF doit THEN 1 ELSE 0)
    IN /\ share' = share2 /\ raw' = raw2
       /\ hnd' = IF Variant = "nonull" \/ ~doit THEN hnd ELSE [hnd EXCEPT ![l] = "null"]
       /\ dict' = IF Variant = "noclear" THEN dict ELSE [dict EXCEPT ![l] = {}]
       /\ LET unmapped == raw2 = 0 /\ \A x \in Libs : ~share2[x]
          IN mem' = (IF unmapped THEN InitMem ELSE mem) /\ glob' = (IF unmapped THEN FALSE ELSE glob)
       /\ Fin("close", l, "", r, CloseE(l, r.out))
       /\ UNCHANGED <<own, props, addrs>>
Close(l) == Opened(l) /\ ~dead /\ CloseCommon(l)

\* ------------------------------------------------------------------ in-line (api.py + dl_*)
IGetFunc(l, f, ev) ==      \* lib.f  /  ffi.addressof(lib, "f"):  library.__dict__ or accessor_function
    /\ Mode = "inline" /\ Opened(l) /\ ~dead
    /\ LET r == IF f \in dict[l] THEN ROk(0, 0) ELSE Lookup(l, 0, "AttributeError")
       IN /\ dict' = IF r.out = "ok" THEN [dict EXCEPT ![l] = @ \cup {f}] ELSE dict
          /\ Fin(ev, l, f, r, IF ev = "getfunc" THEN GetFuncE(l, f, r.out) ELSE AddressOfE(l, f, r.out))
    /\ UNCHANGED <<own, raw, hnd, share, glob, props, addrs, mem>>

IReadVar(l, v) ==          \* lib.v: accessor_variable installs the property, then dl_read_variable
    /\ Mode = "inline" /\ Opened(l) /\ ~dead
    /\ props' = [props EXCEPT ![l] = @ \cup {v}]
    /\ Fin("readvar", l, v, Lookup(l, mem[v], "KeyError"), ReadVarE(l, v, "ok"))
    /\ UNCHANGED <<own, raw, hnd, share, glob, dict, addrs, mem>>

IWriteVar(l, v, x) ==      \* lib.v = x: FFILibrary.__setattr__, then dl_write_variable
    /\ Mode = "inline" /\ Opened(l) /\ ~dead
    /\ props' = [props EXCEPT ![l] = @ \cup {v}]
    /\ LET r == Lookup(l, x, "KeyError")
       IN /\ mem' = IF r.out = "ok" THEN [mem EXCEPT ![v] = x] ELSE mem
          /\ Fin("writevar", l, v, r, WriteVarE(l, v, r.out))
    /\ UNCHANGED <<own, raw, hnd, share, glob, dict, addrs>>

IAddressOfVar(l, v) ==     \* ffi.addressof(lib, "v"): FFILibrary.__addressof__ -> addressof_var
    /\ Mode = "inline" /\ Opened(l) /\ ~dead
    /\ props' = [props EXCEPT ![l] = @ \cup {v}]
    /\ LET r == IF v \in addrs[l] THEN ROk(0, 0) ELSE Lookup(l, 0, "AttributeError")
       IN /\ addrs' = IF r.out = "ok" THEN [addrs EXCEPT ![l] = @ \cup {v}] ELSE addrs
          /\ Fin("addressof", l, v, r, AddressOfE(l, v, r.out))
    /\ UNCHANGED <<own, raw, hnd, share, glob, dict, mem>>

\* ------------------------------------------------------------------ out-of-line (cdlopen.c + lib_obj.c)
\* LIB_GET_OR_CACHE_ADDR: l_dict hit, or lib_build_and_cache_attr -> cdlopen_fetch
OFetch(l, n) == IF n \in dict[l] THEN ROk(0, 0) ELSE Lookup(l, 0, "FFIError")
\* a cached GlobSupport object holds the raw address of the variable
Deref(l, r, val) == IF r.out # "ok" THEN r
                    ELSE IF share[l] \/ Loaded THEN ROk(val, r.sym) ELSE RDied(r.sym, 0)

OGet(l, n, ev) ==          \* lib.f / ffi.addressof(lib, n)
    /\ Mode = "outofline" /\ Opened(l) /\ ~dead
    /\ LET r == OFetch(l, n)
       IN /\ dict' = IF r.out = "ok" THEN [dict EXCEPT ![l] = @ \cup {n}] ELSE dict
          /\ Fin(ev, l, n, r, IF ev = "getfunc" THEN GetFuncE(l, n, r.out) ELSE AddressOfE(l, n, r.out))
    /\ UNCHANGED <<own, raw, hnd, share, glob, props, addrs, mem>>

OReadVar(l, v) ==          \* lib_getattr -> read_global_var
    /\ Mode = "outofline" /\ Opened(l) /\ ~dead
    /\ LET r0 == OFetch(l, v)
           r  == Deref(l, r0, mem[v])
       IN /\ dict' = IF r0.out = "ok" THEN [dict EXCEPT ![l] = @ \cup {v}] ELSE dict
          /\ Fin("readvar", l, v, r, ReadVarE(l, v, r.out))
    /\ UNCHANGED <<own, raw, hnd, share, glob, props, addrs, mem>>

OWriteVar(l, v, x) ==      \* lib_setattr -> write_global_var
    /\ Mode = "outofline" /\ Opened(l) /\ ~dead
    /\ LET r0 == OFetch(l, v)
           r  == Deref(l, r0, x)
       IN /\ dict' = IF r0.out = "ok" THEN [dict EXCEPT ![l] = @ \cup {v}] ELSE dict
          /\ mem' = IF r.out = "ok" THEN [mem EXCEPT ![v] = x] ELSE mem
          /\ Fin("writevar", l, v, r, WriteVarE(l, v, r.out))
    /\ UNCHANGED <<own, raw, hnd, share, glob, props, addrs>>

\* a flat disjunction of named actions (TLC labels the transitions of its dumps with them)
Next == \E l \in Libs :
          \/ \E fl \in Flags : Open(l, fl)
          \/ \E fl \in Flags : OpenH(l, fl)
          \/ Close(l)
          \/ \E f \in Funcs : Call(l, f)
          \/ \E f \in Funcs : IGetFunc(l, f, "getfunc")
          \/ \E f \in Funcs : IGetFunc(l, f, "addressof")
          \/ \E v \in Vars : IReadVar(l, v)
          \/ \E v \in Vars : IAddressOfVar(l, v)
          \/ \E v \in Vars, x \in {1, 2} : IWriteVar(l, v, x)
          \/ \E f \in Funcs : OGet(l, f, "getfunc")
          \/ \E n \in Names : OGet(l, n, "addressof")
          \/ \E v \in Vars : OReadVar(l, v)
          \/ \E v \in Vars, x \in {1, 2} : OWriteVar(l, v, x)

Spec == Init /\ [][Next]_vars

\* ------------------------------------------------------------------ properties
\* RefinesIdeal is ISpec of DlLibIdeal (the ghost variables are the ideal's variables).
NeverDies == ~dead                       \* the faithful models never reach undefined behaviour
\* a closed lib holds no loader reference and no cached name (what makes the refusal work)
ClosedIsClean == \A l \in Libs : Closed(l) => (~share[l] /\ hnd[l] = "null" /\ dict[l] = {})
\* while open, the cache holds exactly the fetched functions (used by the replayer for Call)
CacheIsFetched == \A l \in Libs : ls[l] = "open" => dict[l] \cap Funcs = fb[l]
=============================================================================
