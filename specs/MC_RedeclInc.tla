------------------------------ MODULE MC_RedeclInc ------------------------------
(* Two FFI objects: a (included) and b (including).  Actions: a cdef() on a, a cdef() on b, b.include(a).
   Laws of b over every step, plus the include laws evaluated in every reachable pair of environments. *)
EXTENDS Redecl
CONSTANTS MaxSteps, Emit
VARIABLES a, b, prev, call, hist

ItemsA == {<<"typedef", "t1", ty>> : ty \in {"int", "int *"}} \cup {<<"typedef", "t2", "long">>}
          \cup {<<"macroint", "M1", v>> : v \in {1, 1000}} \cup {<<"var", "g1", "int", FALSE>>}
ItemsB == {<<"typedef", "t1", ty>> : ty \in {"int", "long", "int *"}}
          \cup {<<"macroint", "M1", v>> : v \in {1, 2, 1000}} \cup {<<"macrodots", "M1">>}

NoCall == [op |-> "", items |-> <<>>, override |-> FALSE, err |-> ""]
Init == a = S0 /\ b = S0At(1000) /\ prev = b /\ call = NoCall /\ hist = <<>>
Log(op, items, ov, err, st) == IF Emit THEN Append(hist, <<op, items, ov, err, DeclSet(st), IntSet(st)>>) ELSE hist
CallA(it) == LET r == Call(a, <<it>>, FALSE) IN
  /\ a' = r.s /\ UNCHANGED b /\ prev' = b
  /\ call' = [op |-> "a", items |-> <<it>>, override |-> FALSE, err |-> r.err]
  /\ hist' = Log("a", <<it>>, FALSE, r.err, r.s)
CallB(it, ov) == LET r == Call(b, <<it>>, ov) IN
  /\ b' = r.s /\ UNCHANGED a /\ prev' = b
  /\ call' = [op |-> "b", items |-> <<it>>, override |-> ov, err |-> r.err]
  /\ hist' = Log("b", <<it>>, ov, r.err, r.s)
DoInclude == LET r == Include(b, a) IN
  /\ b' = r.s /\ UNCHANGED a /\ prev' = b
  /\ call' = [op |-> "inc", items |-> <<>>, override |-> FALSE, err |-> r.err]
  /\ hist' = Log("inc", <<>>, FALSE, r.err, r.s)
Steps == IF Emit THEN Len(hist) ELSE TLCGet("level") - 1
Next == Steps < MaxSteps /\ (\/ \E it \in ItemsA : CallA(it)
                             \/ \E it \in ItemsB, ov \in BOOLEAN : CallB(it, ov)
                             \/ DoInclude)
Spec == Init /\ [][Next]_<<a, b, prev, call, hist>>
EmitHist == (Emit /\ Len(hist) = MaxSteps) => PrintT(<<"HIST", hist>>)

IntsImmutable   == IntsImmutableStep(prev, b)
BindImmutable   == BindImmutableStep(prev, b, call.override)
MacroConsistent == MacroConsistentState(b) /\ MacroHasConst(b, {"M1"})
OkMeansDeclared == call.op = "b" => OkMeansDeclaredStep(b, Ordered(call.items), call.err)
IncNeverOverrides == IncludeNeverOverrides(b, a)
IncShares         == IncludeShares(b, a)
IncIdempotent     == IncludeIdempotent(b, a)
\* object identities of the two FFIs never collide unless shared through include
FreshDisjoint == \A k \in DOMAIN a.decl, l \in DOMAIN b.decl :
                   (a.decl[k].obj = b.decl[l].obj /\ a.decl[k].obj[1] = "fresh") => (k = l /\ IsTypedefKey(k))
=============================================================================
