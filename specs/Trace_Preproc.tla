---------------------------- MODULE Trace_Preproc ----------------------------
(* Validates recorded observations (code -> spec) for C31.  A record:
      [id, k, ins |-> <<[l, p, tr]...>>, base |-> obs, got |-> obs]
   where obs = [rejected, declarations, constants, layout, emit_c, emit_py] are digests of what
   the real FFI built from the untouched text of cdef k and from the text with the insertions.
   The specification re-checks that every recorded insertion is legal (else the harness is
   wrong: verdict "illegal") and decides the property: all components equal.            *)
EXTENDS Preproc

Recs == JsonDeserialize(IOEnv.TRACE_FILE)
Components == <<"rejected", "declarations", "constants", "layout", "emit_c", "emit_py">>
FirstDiff(a, b) == LET d == {i \in 1..Len(Components) : a[Components[i]] # b[Components[i]]}
                   IN IF d = {} THEN "" ELSE Components[CHOOSE i \in d : \A j \in d : i <= j]
LegalRec(e) == \A i \in 1..Len(e.ins) :
                  LET a == e.ins[i] IN
                  /\ a.l \in 1..Len(Cdefs[e.k]) /\ a.p \in 0..Len(Corpus[Cdefs[e.k][a.l]].toks)
                  /\ Legal(Corpus[Cdefs[e.k][a.l]], a.p, TrivOf(a.tr))
Check(e) == IF ~LegalRec(e) THEN PrintT(<<"VERDICT", e.id, "illegal">>)
            ELSE LET d == FirstDiff(e.base, e.got) IN d = "" \/ PrintT(<<"VERDICT", e.id, d>>)
ASSUME /\ \A i \in 1..Len(Recs) : Check(Recs[i])
       /\ PrintT(<<"CHECKED", Len(Recs)>>)
TSpec == k = 1 /\ ins = << >> /\ [][UNCHANGED vars]_vars
=============================================================================
