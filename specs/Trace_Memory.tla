---------------------------- MODULE Trace_Memory ----------------------------
(* Validates histories recorded from real cdata (indexing, slicing, slice assignment, pointer
   arithmetic, addressof, offsetof) against the IDEAL section of Memory.tla (property C16).
   One JSON file = many traces.  A trace:
     [sz, k, off, len   -- the root view (item size, "arr"/"own", byte offset of item 0 in the
                           recorded arena, item count); the arena = root memory plus guard zones
      mem               -- initial arena bytes
      ev                -- events, one per executed operation:
        op, a, b        -- operation, index of the view it was applied to, second view (diff, assignview)
        i, j, mi, mj, stp -- index / slice request
        vals            -- values assigned (each a byte list)
        st              -- "ok" or the name of the exception class raised
        val, num        -- observed value bytes (getitem) / integer (diff, offsetof)
        vk, voff, vlen  -- observed result view: kind, byte offset in the arena, length
        lo, chg         -- observed memory effect: the minimal changed byte range]
   Every trace gets a total verdict: "ok" or the first failing clause and its position.  After a
   verdict-free event the spec continues from the *observed* state. *)
EXTENDS Memory, Json, IOUtils
VARIABLES tk, tl, bad, reported
Traces == JsonDeserialize(IOEnv.TRACE_FILE)
tvars == <<mem, views, res, steps, tk, tl, bad, reported>>

T == Traces[tk]
TRoot == [k |-> T.k, sz |-> T.sz, off |-> T.off, len |-> T.len, safe |-> TRUE]

TInit == /\ tk \in 1..Len(Traces) /\ tl = 1 /\ bad = "" /\ reported = FALSE
         /\ mem = Traces[tk].mem
         /\ views = <<[k |-> Traces[tk].k, sz |-> Traces[tk].sz, off |-> Traces[tk].off,
                       len |-> Traces[tk].len, safe |-> TRUE]>>
         /\ res = NoRes /\ steps = 0

Req(e) == [i |-> e.i, j |-> e.j, mi |-> e.mi, mj |-> e.mj, stp |-> e.stp]
ObsMem(e) == IF Len(e.chg) = 0 THEN mem ELSE Write(mem, e.lo, e.chg)
ObsView(e, safe) == [k |-> e.vk, sz |-> views[e.a].sz, off |-> e.voff, len |-> e.vlen, safe |-> safe]
SameView(x, y) == x.k = y.k /\ x.off = y.off /\ x.len = y.len /\ x.sz = y.sz
NoChange(e) == Len(e.chg) = 0

(* first failing clause of the ideal for event e in the current state, or "" *)
Clause(e) ==
  LET v == views[e.a]  s == Req(e) IN
  CASE e.op = "getitem" ->
         IF IdxOK(v, e.i)
           THEN IF e.st # "ok" THEN "getitem:not-accepted"
                ELSE IF e.val # IGetVal(mem, v, e.i) THEN "getitem:value"
                ELSE IF e.vk = "item" /\ e.voff # ItemOff(v, e.i) THEN "getitem:address"
                ELSE IF ~NoChange(e) THEN "getitem:memory" ELSE ""
           ELSE IF e.st # "IndexError" THEN "getitem:not-IndexError"
                ELSE IF ~NoChange(e) THEN "getitem:memory-touched" ELSE ""
    [] e.op = "setitem" ->
         IF IdxOK(v, e.i)
           THEN IF e.st # "ok" THEN "setitem:not-accepted"
                ELSE IF ObsMem(e) # ISetMem(mem, v, e.i, e.vals[1]) THEN "setitem:memory" ELSE ""
           ELSE IF e.st # "IndexError" THEN "setitem:not-IndexError"
                ELSE IF ~NoChange(e) THEN "setitem:memory-touched" ELSE ""
    [] e.op = "slice" ->
         IF ~NoChange(e) THEN "slice:memory-touched"
         ELSE IF SliceFree(v)
           THEN IF e.st = "ok" /\ ~SameView(ObsView(e, FALSE), SliceView(v, s)) THEN "slice:view" ELSE ""
           ELSE IF SliceOK(v, s)
             THEN IF e.st # "ok" THEN "slice:not-accepted"
                  ELSE IF ~SameView(ObsView(e, FALSE), SliceView(v, s)) THEN "slice:view" ELSE ""
             ELSE IF e.st # "IndexError" THEN "slice:not-IndexError" ELSE ""
    [] e.op \in {"assign", "assignview"} ->
         LET vals == IF e.op = "assign" THEN e.vals ELSE ViewVals(mem, views[e.b]) IN
         IF SliceFree(v)
           THEN IF e.st = "ok" /\ (Len(vals) # s.j - s.i \/ ObsMem(e) # IAssMem(mem, v, s, vals))
                   THEN "assign:memory" ELSE ""
           ELSE IF ~SliceOK(v, s)
             THEN IF e.st # "IndexError" THEN "assign:not-IndexError"
                  ELSE IF ~NoChange(e) THEN "assign:memory-touched" ELSE ""
             ELSE IF Len(vals) = s.j - s.i
               THEN IF e.st # "ok" THEN "assign:not-accepted"
                    ELSE IF ObsMem(e) # IAssMem(mem, v, s, vals) THEN "assign:memory" ELSE ""
               ELSE IF e.st = "ok" THEN "assign:wrong-count-accepted" ELSE ""
    [] e.op \in {"add", "sub", "addressof"} ->
         LET want == PtrView(v, IF e.op = "sub" THEN 0 - e.i ELSE e.i) IN
         IF e.st # "ok" THEN e.op \o ":not-accepted"
         ELSE IF ~SameView(ObsView(e, FALSE), want) THEN e.op \o ":address"
         ELSE IF e.op = "addressof" /\ e.num # 1 THEN "addressof:neq-add"
         ELSE IF ~NoChange(e) THEN e.op \o ":memory-touched" ELSE ""
    [] e.op = "cast" ->
         IF e.st # "ok" THEN "cast:not-accepted"
         ELSE IF ~SameView(ObsView(e, FALSE), [PtrView(v, 0) EXCEPT !.off = v.off + e.i]) THEN "cast:address"
         ELSE IF ~NoChange(e) THEN "cast:memory-touched" ELSE ""
    [] e.op = "diff" ->
         IF ~NoChange(e) THEN "diff:memory-touched"
         ELSE IF DiffDefined(v, views[e.b])
           THEN IF e.st # "ok" THEN "diff:not-accepted"
                ELSE IF e.num # IDiff(v, views[e.b]) THEN "diff:value" ELSE ""
           ELSE IF DiffTyped(v, views[e.b]) /\ e.st = "ok" THEN "diff:not-a-multiple-accepted"
           ELSE ""
    [] e.op = "offsetof" ->
         IF e.st # "ok" THEN "offsetof:not-accepted"
         ELSE IF e.num # IOffsetOf(T.sz, e.i) THEN "offsetof:value" ELSE ""
    [] OTHER -> "harness:unknown-op"

Consume ==
  /\ tl <= Len(T.ev) /\ bad = ""
  /\ LET e == T.ev[tl]  c == Clause(e) IN
       IF c = ""
         THEN /\ mem' = ObsMem(e)
              /\ views' = IF e.st = "ok" /\ e.op \in {"slice", "add", "sub", "addressof", "cast"}
                             THEN Append(views, ObsView(e, e.op = "slice" /\ views[e.a].safe /\ views[e.a].k = "arr"))
                             ELSE views
              /\ tl' = tl + 1 /\ UNCHANGED bad
         ELSE bad' = c /\ UNCHANGED <<mem, views, tl>>
  /\ UNCHANGED <<res, steps, tk, reported>>

Report == /\ (tl > Len(T.ev) \/ bad # "") /\ ~reported
          /\ PrintT(<<"VERDICT", tk, IF bad # "" THEN bad ELSE "ok", tl>>)
          /\ reported' = TRUE /\ UNCHANGED <<mem, views, res, steps, tk, tl, bad>>

TNext == Consume \/ Report
TSpec == TInit /\ [][TNext]_tvars
=============================================================================
