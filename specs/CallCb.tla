------------------------------ MODULE CallCb ------------------------------
(* C14 -- callbacks (ffi.callback) and extern "Python" functions: C code calls, Python runs.

   One invocation is described by cf:
     mode     "callback" (libffi closure, general_invoke_callback(1,...)) or
              "extern"   (extern "Python" helper -> cffi_call_python -> general_invoke_callback(0,...))
     rt       declared result type
     body     "ret" (the Python function returns retv) | "raise"
     retv     the Python value returned (ConvertItem decides whether it is convertible)
     haserr, errv   error= given at creation / its value (convertible by construction)
     onerr    "absent" | "none" (returns None) | "value" (returns onv) | "raise"
              (onv ranges over the same value classes as retv, including -- for struct results --
              list / dict initializers naming fewer fields than the struct has)
   IDEAL (the property):  Want(cf) is what the C caller must receive,  NoEscape: when control is
   back in C no Python exception is pending.
   IMPLEMENTATION MODEL: the result buffer the C side reads from, operated on exactly as
   prepare_callback_info_tuple / general_invoke_callback / convert_from_object_fficallback do
   (src/c/_cffi_backend.c:6076-6349), including the ffi_arg widening of small integer results.
   The buffer starts as garbage (digit Base-1 everywhere), as the stack slot libffi hands out. *)
EXTENDS Call
CONSTANTS Variant, Cfgs
VARIABLES cf, pc, buf, rawerr, exc, reports
vars == <<cf, pc, buf, rawerr, exc, reports>>

FfiArg == 8                                    \* sizeof(ffi_arg) in digits
IsPtr(t) == t.k = "ptr"
CtSize(t) == IF IsPtr(t) THEN 8 ELSE IF t.k = "void" THEN 0 - 1 ELSE SizeT(t)      \* ct_size
SlotLen(t) == IF IsPtr(t) THEN 1 ELSE IF CtSize(t) < FfiArg THEN FfiArg ELSE CtSize(t)

Put(b, bytes) == TLCEval([i \in 1..Len(b) |-> IF i <= Len(bytes) THEN bytes[i] ELSE b[i]])

\* convert_from_object_fficallback(result, ctype, pyobj, encode_result_for_libffi), :6076
\* returns [ok, b]: success flag and the buffer afterwards
\* site = "create" (error=), "body" (the function's return value) or "onerror" (onerror's return
\* value): the three callers of the conversion.  All three must start from a zeroed struct: at
\* "onerror" the buffer holds the error bytes just memcpy'd, not garbage -- an initializer naming
\* fewer fields than the struct has would otherwise deliver a blend of onerror's value and error=.
FfiCb(b, t, v, widen, site) ==
    LET r == ConvRes(t, v)
        \* at "skip:" a struct result is zeroed first (b07fef6), then the initializer's fields are
        \* written one by one; before that fix the fields not named kept the buffer's garbage.
        \* variant "struct_zero_body_only": the memset done by the caller, on the normal path only
        st == StructStore(b, t, v, /\ Variant # "struct_nozero"
                                   /\ (Variant = "struct_zero_body_only" => site = "body"))
        plain == IF t.k = "struct" THEN [ok |-> st.ok, b |-> st.b]
                 ELSE IF r.ok THEN [ok |-> TRUE, b |-> Put(b, ImgOf(t, r.c))]
                 ELSE [ok |-> FALSE, b |-> b]
    IN
    IF CtSize(t) >= FfiArg THEN plain
    ELSE IF t.k = "void" THEN [ok |-> r.ok, b |-> b]
    ELSE IF ~widen THEN plain                                       \* extern "Python": goto skip
    ELSE IF t.k = "int" /\ t.signed
         THEN IF ~r.ok THEN [ok |-> FALSE, b |-> b]                 \* first conversion only detects overflow
              ELSE [ok |-> TRUE,                                    \* then a whole ffi_arg is written
                    b |-> Put(b, IF Variant = "widen_low_only" THEN r.c
                                 ELSE Ext(r.c, Variant # "widen_zero", FfiArg))]
    ELSE IF t.k \in {"int", "bool", "char"}                         \* zero extension: memset, then convert
         THEN LET z == Put(b, Zeros(FfiArg)) IN
              IF r.ok THEN [ok |-> TRUE, b |-> Put(z, r.c)] ELSE [ok |-> FALSE, b |-> z]
    ELSE plain                                                      \* float, small struct

Widen == cf.mode = "callback"
Garbage(n) == TLCEval([i \in 1..n |-> Base - 1])

Init == /\ cf \in Cfgs
        /\ pc = "create" /\ buf = <<>> /\ rawerr = <<>> /\ exc = FALSE /\ reports = 0

\* prepare_callback_info_tuple, :6301 : the error bytes, zero-filled, error= converted into them
Create == /\ pc = "create"
          /\ rawerr' = IF cf.rt.k = "void" THEN Zeros(FfiArg)
                       ELSE LET z == IF IsPtr(cf.rt) THEN <<Null>> ELSE Zeros(SlotLen(cf.rt)) IN
                            IF cf.haserr THEN FfiCb(z, cf.rt, cf.errv, Widen, "create").b ELSE z
          /\ pc' = "ready" /\ UNCHANGED <<cf, buf, exc, reports>>

\* C calls: libffi / the generated helper hands over an uninitialised result slot
Invoke == /\ pc = "ready"
          /\ buf' = Garbage(IF cf.rt.k = "void" THEN FfiArg ELSE SlotLen(cf.rt))
          /\ pc' = "body" /\ UNCHANGED <<cf, rawerr, exc, reports>>

\* PyObject_Call(py_ob, py_args) and the conversion of its result, :6221-6228
Body == /\ pc = "body"
        /\ IF cf.body = "raise"
           THEN exc' = TRUE /\ pc' = "error" /\ UNCHANGED buf
           ELSE LET r == FfiCb(buf, cf.rt, cf.retv, Widen, "body") IN
                /\ buf' = r.b
                /\ exc' = ~r.ok
                /\ pc' = IF r.ok THEN "done" ELSE "error"
        /\ UNCHANGED <<cf, rawerr, reports>>

\* error: , :6235-6283
Error == /\ pc = "error"
         /\ LET b1 == IF CtSize(cf.rt) > 0 /\ ~(Variant = "no_errcopy" /\ cf.onerr # "absent")
                      THEN Put(buf, rawerr) ELSE buf
            IN
            CASE cf.onerr = "absent" ->                     \* written to stderr / unraisablehook, cleared
                   buf' = b1 /\ exc' = FALSE /\ reports' = reports + 1
              [] cf.onerr = "none" ->
                   buf' = b1 /\ exc' = FALSE /\ UNCHANGED reports
              [] cf.onerr = "value" ->
                   LET r == FfiCb(b1, cf.rt, cf.onv, Widen, "onerror") IN
                   /\ buf' = r.b
                   /\ exc' = FALSE                          \* a failing conversion is reported, then cleared
                   /\ reports' = IF r.ok THEN reports ELSE reports + 2
              [] cf.onerr = "raise" ->                      \* double exception: both printed, cleared
                   /\ buf' = b1
                   /\ exc' = (Variant = "escape")
                   /\ reports' = reports + 2
         /\ pc' = "done" /\ UNCHANGED <<cf, rawerr>>

Next == Create \/ Invoke \/ Body \/ Error
Spec == Init /\ [][Next]_vars

-----------------------------------------------------------------------------
(* the property *)
Delivered == SubSeq(buf, 1, SizeT(cf.rt))

NoEscape == pc = "done" => ~exc
DeliveredOK == pc = "done" => (Want(cf) = <<>> \/ Delivered = Want(cf)[1])
\* small integers reach libffi as a complete, correctly extended ffi_arg
WidenOK == (pc = "done" /\ Widen /\ cf.rt.k \in {"int", "bool", "char"} /\ SizeT(cf.rt) < FfiArg
            /\ Want(cf) # <<>>)
           => buf = Ext(Want(cf)[1], SignedT(cf.rt), FfiArg)
=============================================================================
