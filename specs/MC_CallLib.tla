----------------------------- MODULE MC_CallLib -----------------------------
(* Exhaustive behaviours of the library machine for three globals (a signed 1-digit integer,
   an unsigned 1-digit integer, a _Bool) at Base 4, events with class-level values; the
   graph is finite (the state is the cells and the last event), behaviours are unbounded.  Checked: a failed store changes nothing; a successful store is what the
   next read (from Python or from C) returns; stores do not touch other globals.  The state
   graph is dumped: its walks are the behaviours replayed on the three real builds. *)
EXTENDS CallLib
VARIABLES st, last
vars == <<st, last>>

G == <<[t |-> IntT(1, TRUE)], [t |-> IntT(1, FALSE)], [t |-> BoolT]>>
K == <<FromInt(5), FromInt(0 - 3)>>
PI(x) == [k |-> "int", neg |-> FromInt(x).neg, mag |-> FromInt(x).mag, fl |-> <<>>, flovf |-> FALSE]
RECURSIVE Pow(_, _)
Pow(b, e) == IF e = 0 THEN 1 ELSE b * Pow(b, e - 1)
MaxOf(t) == IF t.k = "bool" THEN 1 ELSE IF t.signed THEN Pow(Base, t.size) \div 2 - 1 ELSE Pow(Base, t.size) - 1
MinOf(t) == IF t.k = "bool" THEN 0 ELSE IF t.signed THEN 0 - (Pow(Base, t.size) \div 2) ELSE 0
Classes == {"min", "max", "one", "mone", "above", "below", "none", "float"}
Val(t, cls) == CASE cls = "min" -> PI(MinOf(t)) [] cls = "max" -> PI(MaxOf(t)) [] cls = "one" -> PI(1)
                 [] cls = "mone" -> PI(0 - 1) [] cls = "above" -> PI(MaxOf(t) + 1) [] cls = "below" -> PI(MinOf(t) - 1)
                 [] cls = "none" -> [k |-> "none"]
                 [] cls = "float" -> [k |-> "float", d |-> Zeros(8), f |-> Zeros(4), fd |-> Zeros(8)]

Init == /\ st = <<Enc(FromInt(0 - 1), 1), Enc(FromInt(2), 1), <<1>>>>
        /\ last = [op |-> "init", i |-> 0, cls |-> "", exc |-> "", ret |-> None]
\* (the value class of a store is kept in `last` so that a walk of the dumped graph tells the
\* replayer which event to perform and what the machine predicts at this scale)
Do(ev, cls) == LET r == Step(G, K, st, ev) IN
          /\ st' = r.st
          /\ last' = [op |-> ev.op, i |-> ev.i, cls |-> cls, exc |-> r.exc, ret |-> r.ret]
ReadG(i) == Do([op |-> "readg", i |-> i], "")
GetG(i) == Do([op |-> "getg", i |-> i], "")
WriteG(i, cls) == Do([op |-> "writeg", i |-> i, v |-> Val(G[i].t, cls)], cls)
SetG(i, cls) == Do([op |-> "setg", i |-> i, v |-> Val(G[i].t, cls)], cls)
ReadC(j) == Do([op |-> "readc", i |-> j], "")
Next == \/ \E i \in 1..Len(G) : ReadG(i) \/ GetG(i) \/ \E cls \in Classes : WriteG(i, cls) \/ SetG(i, cls)
        \/ \E j \in 1..Len(K) : ReadC(j)
Spec == Init /\ [][Next]_vars

\* sanity of the formulation, as action properties
FailedStoreKeeps == [][last'.exc # "" => st' = st]_vars
StoreIsolated == [][\A i \in 1..Len(G) : (last'.i # i \/ last'.op \in {"readg", "getg", "readc"}) => st'[i] = st[i]]_vars
ReadSeesStore == [][(last'.op \in {"readg", "getg"} /\ last.op \in {"writeg", "setg"} /\ last.exc = "" /\ last'.i = last.i)
                    => last'.ret = ToPy(G[last.i].t, st[last.i])]_vars
=============================================================================
