------------------------------ MODULE CallLib ------------------------------
(* C33 -- a compiled library as a machine, independent of how it was built (set_source()
   module, ffi.verify() with the CPython engine, ffi.verify() with the generic engine).

   The library declares global variables G[1..n] (type G[i].t, one memory cell each), C
   accessor functions get_i / set_i for them, integer constants, and the call family of
   Call.tla.  Events and what they must produce:
     ReadG(i)        lib.g_i            -> the Python value of the cell
     WriteG(i, v)    lib.g_i = v        -> converts like a store (ConvertItem): stores, or raises
                                           and leaves every cell unchanged
     GetG(i)         lib.get_i()        -> same value as ReadG(i): Python and C see one variable
     SetG(i, v)      lib.set_i(v)       -> converts like an argument; stores or raises
     ReadC(j)        lib.K_j            -> the constant's value
     Call(rec)       a call of the family (Outcome); global cells are the first cells of mem
   A behaviour is any sequence of events; the state is the content of the global cells. *)
EXTENDS Call

\* the step function: st = sequence of cells, ev = event; result [st, exc, ret]
StepRead(G, st, i) == [st |-> st, exc |-> "", ret |-> ToPy(G[i].t, IF G[i].t.k = "float" THEN [img |-> st[i], asd |-> st[i]] ELSE st[i])]
StepWrite(G, st, i, v, asarg) ==
    LET r == IF asarg THEN ConvertArg(G[i].t, v) ELSE ConvertItem(G[i].t, v) IN
    IF r.ok THEN [st |-> [st EXCEPT ![i] = BytesOf(G[i].t, r.c)], exc |-> "", ret |-> None]
    ELSE [st |-> st, exc |-> r.exc, ret |-> None]
Step(G, K, st, ev) ==
    CASE ev.op \in {"readg", "getg"} -> StepRead(G, st, ev.i)
      [] ev.op = "writeg" -> StepWrite(G, st, ev.i, ev.v, FALSE)
      [] ev.op = "setg" -> StepWrite(G, st, ev.i, ev.v, TRUE)
      [] ev.op = "readc" -> [st |-> st, exc |-> "", ret |-> K[ev.i]]
=============================================================================
