------------------------------ MODULE CallLib ------------------------------
(* C33 -- a compiled library as a machine, independent of how it was built (set_source()
   module, ffi.verify() with the CPython engine, ffi.verify() with the generic engine).

   The library declares global variables G[1..n] (type G[i].t, one memory cell each), C
   accessor functions get_i / set_i for them, integer constants, and the call family of
   Call.tla.  Events and what they must produce:
     ReadG(i)        lib.g_i            -> the Python value of the cell
     WriteG(i, v)    lib.g_i = v        -> converts like a store (ConvertItem): stores, or raises
                                           and leaves every cell unchanged
     GetG(i)         lib.get_i()        -> same value as ReadG(i): Python and C see one variable
     SetG(i, v)      lib.set_i(v)       -> converts like an argument; stores or raises
     ReadC(j)        lib.K_j            -> the constant's value
     Call(rec)       a call of the family (Outcome); global cells are the first cells of mem
   A behaviour is any sequence of events; the state is the content of the global cells. *)
EXTENDS Call

\* the step function: st = sequence of cells, ev = event; result [st, exc, ret]
StepRead(G, st, i) == [st |-> st, exc |-> "", ret |-> ToPy(G[i].t, IF G[i].t.k = "float" THEN [img |-> st[i], asd |-> st[i]] ELSE st[i])]
StepWrite(G, st, i, v, asarg) ==
    LET r == IF asarg THEN ConvertArg(G[i].t, v) ELSE ConvertItem(G[i].t, v) IN
    IF r.ok THEN [st |-> [st EXCEPT ![i] = BytesOf(G[i].t, r.c)], exc |-> "", ret |-> None]
    ELSE [st |-> st, exc |-> r.exc, ret |-> None]
Step(G, K, st, ev) ==
    CASE ev.op \in {"readg", "getg"} -> StepRead(G, st, ev.i)
      [] ev.op = "writeg" -> StepWrite(G, st, ev.i, ev.v, FALSE)
      [] ev.op = "setg" -> StepWrite(G, st, ev.i, ev.v, TRUE)
      [] ev.op = "readc" -> [st |-> st, exc |-> "", ret |-> K[ev.i]]

-----------------------------------------------------------------------------
(* Result objects.  A function returning a struct by value (struct R mkr(T1 a, T2 b)) hands
   Python a NEW struct object on every call; the program may keep it and later read its
   fields, write a field, pass it by value to long long sumr(struct R), or compare identities.
   objs = the kept results, in order of creation (values: sequences of field C values).
     mk(vs)          r = lib.mkr(vs...)      -> appends the converted values, or raises
     rdobj(j)        (r_j.f1, r_j.f2, ...)   -> the values r_j was created with / last given
     wrobj(j, f, v)  r_j.f<f> = v            -> converts like a store; changes r_j only
     passobj(j)      lib.sumr(r_j)           -> the sum of r_j's fields
     same(j, k)      r_j is r_k              -> j = k
     drop            forget the oldest result
   Ideal: a result is an independent copy -- no later call and no write to another result
   changes it.  variant "shared_result_buffer": every call returns (a view of) one buffer
   allocated once per library, as a broken generic engine would. *)
RECURSIVE FieldSumR(_, _, _)
FieldSumR(ts, c, j) == IF j > Len(ts) THEN Zeros(8)
                       ELSE AddC(Ext(c[j], SignedT(ts[j]), 8), FieldSumR(ts, c, j + 1))
ObjStep(R, objs, ev, variant) ==
    LET shared == variant = "shared_result_buffer" IN
    CASE ev.op = "mk" ->
           LET r == ConvSeq(R.fields, ev.vs, 1) IN
           IF ~r.ok THEN [objs |-> objs, exc |-> r.exc, ret |-> None]
           ELSE [objs |-> IF shared THEN TLCEval([j \in 1..(Len(objs) + 1) |-> r.c]) ELSE Append(objs, r.c),
                 exc |-> "", ret |-> None]
      [] ev.op = "rdobj" -> [objs |-> objs, exc |-> "", ret |-> ToPy(R, objs[ev.j])]
      [] ev.op = "wrobj" ->
           LET r == ConvertItem(R.fields[ev.f], ev.v) IN
           IF ~r.ok THEN [objs |-> objs, exc |-> r.exc, ret |-> None]
           ELSE [objs |-> IF shared THEN TLCEval([j \in 1..Len(objs) |-> [objs[j] EXCEPT ![ev.f] = r.c]])
                          ELSE [objs EXCEPT ![ev.j][ev.f] = r.c],
                 exc |-> "", ret |-> None]
      [] ev.op = "passobj" -> [objs |-> objs, exc |-> "", ret |-> ToPy(I64, FieldSumR(R.fields, objs[ev.j], 1))]
      [] ev.op = "same" -> [objs |-> objs, exc |-> "", ret |-> [k |-> "pybool", b |-> (shared \/ ev.j = ev.k)]]
      [] ev.op = "drop" -> [objs |-> Tail(objs), exc |-> "", ret |-> None]
ObjOps == {"mk", "rdobj", "wrobj", "passobj", "same", "drop"}
=============================================================================
