SPECIFICATION Spec
CONSTANTS Widths = {1, 2, 4}
  MaxL = 4
  MaxS = 3
  CPs = {65, 233, 55296, 56320, 65536}
  Variant = "faithful"
INVARIANT PrefixWritten
INVARIANT TerminatorWritten1
INVARIANT TailUnchanged
INVARIANT NewLength
INVARIANT RoundTrip
INVARIANT StopsAtFirstZero
INVARIANT UnpackExact
INVARIANT NoOverflow
INVARIANT FromChar16Len
INVARIANT Rejected
INVARIANT EncodeDecode
INVARIANT DecodeEncode
CHECK_DEADLOCK FALSE
