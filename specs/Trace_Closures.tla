------------------------------ MODULE Trace_Closures ------------------------------
(* Validates event traces recorded from real ffi.callback() objects against the property machine
   ClosuresIdeal.  Addresses are renamed injectively to small integers by the recorder (an
   existential binding: only their equality matters).  One verdict per trace: "ok", or the event
   whose guard (= clause of C29) failed and its position.  Invocations observed in two steps
   (begin ... events inside the callback's function ... end) keep the stack of ClosuresIdeal. *)
EXTENDS ClosuresIdeal, Json, IOUtils, TLC
VARIABLES k, i, bad, reported
Traces == JsonDeserialize(IOEnv.TRACE_FILE)
tvars == <<live, own, stack, last, k, i, bad, reported>>

TInit == IInit /\ k \in 1..Len(Traces) /\ i = 1 /\ bad = "" /\ reported = FALSE

Guard(e) == CASE e.ev = "create" -> CreateG(e.c, e.a)
              [] e.ev = "drop"   -> DropG(e.c)
              [] e.ev = "call"   -> CallG(e.c, e.ran, e.sent, e.recv, e.ret, e.exp)
              [] e.ev = "begin"  -> BeginG(e.c, e.ran, e.sent, e.recv)
              [] e.ev = "end"    -> EndG(e.c, e.how, e.herr, e.ret, e.exp)
              [] OTHER -> FALSE
Effect(e) == CASE e.ev = "create" -> CreateE2(e.c, e.a, e.errv, e.oe)
               [] e.ev = "drop"   -> DropE(e.c)
               [] e.ev = "call"   -> CallE(e.c)
               [] e.ev = "begin"  -> BeginE(e.c)
               [] e.ev = "end"    -> EndE(e.c)

Consume == /\ i <= Len(Traces[k]) /\ bad = ""
           /\ LET e == Traces[k][i] IN
                IF Guard(e) THEN Effect(e) /\ i' = i + 1 /\ UNCHANGED bad
                ELSE bad' = (IF e.ev = "end" /\ ~EndDomain(e.c) THEN "end-unnested" ELSE e.ev)
                     /\ UNCHANGED <<live, own, stack, i>>
           /\ UNCHANGED <<last, k, reported>>

Report == /\ (i > Len(Traces[k]) \/ bad # "") /\ ~reported
          /\ PrintT(<<"VERDICT", k, IF bad # "" THEN bad ELSE "ok", i>>)
          /\ reported' = TRUE /\ UNCHANGED <<live, own, stack, last, k, i, bad>>

TNext == Consume \/ Report
TSpec == TInit /\ [][TNext]_tvars
=============================================================================
