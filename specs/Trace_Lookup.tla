------------------------------ MODULE Trace_Lookup ------------------------------
(* Validates lookup records taken from the real code against the ideal of C25.
   A record describes one name space of one module (or one synthetic table given to the
   compiled search_sorted):
     names   : the declared names (sequences of character codes)
     table   : the order of the names in the generated table as read back from the
               generated source (<<>> when not observed)
     queries : [q |-> string, out |-> "own" | "other" | "notfound"]
   Verdict per record (printed only when not clean):
     <<"VERDICT", k, "lookup", i>>   query i breaks the property (ideal, LookupG)
     <<"VERDICT", k, "harness", 0>>  the declared names are not distinct (bad record)
     <<"DIVERGE", k, what>>          the implementation model does not describe the code
                                     (table not in PySort order / not a permutation);
                                     reported as a NOTE, never a violation
   and finally <<"CHECKED", number of records, number of queries>>. *)
EXTENDS LookupIdeal, Json, IOUtils, TLC
VARIABLES k, nq
Recs == JsonDeserialize(IOEnv.TRACE_FILE)

Declared(r) == {r.names[i] : i \in DOMAIN r.names}
BadQueries(r) == LET D == Declared(r) IN {i \in DOMAIN r.queries : ~LookupG(D, r.queries[i].q, r.queries[i].out)}
Distinct(r) == Cardinality(Declared(r)) = Len(r.names)
TableModelOK(r) == \/ Len(r.table) = 0 /\ Len(r.names) # 0       \* not observed
                   \/ /\ Len(r.table) = Len(r.names)
                      /\ {r.table[i] : i \in DOMAIN r.table} = Declared(r)
                      /\ \A i \in 1..(Len(r.table) - 1) : PyLess(r.table[i], r.table[i + 1])
                      /\ \A i \in 1..(Len(r.table) - 1) : Strcmp(r.table[i], r.table[i + 1]) < 0   \* adjacent pairs suffice

TInit == k = 0 /\ nq = 0
Check(i) == LET r == Recs[i] IN
    /\ IF ~Distinct(r) THEN PrintT(<<"VERDICT", i, "harness", 0>>)
       ELSE \A b \in BadQueries(r) : PrintT(<<"VERDICT", i, "lookup", b>>)
    /\ IF TableModelOK(r) THEN TRUE ELSE PrintT(<<"DIVERGE", i, "table order">>)
TNext == \/ /\ k < Len(Recs) /\ Check(k + 1) /\ k' = k + 1 /\ nq' = nq + Len(Recs[k + 1].queries)
         \/ /\ k = Len(Recs) /\ PrintT(<<"CHECKED", k, nq>>) /\ k' = k + 1 /\ UNCHANGED nq
TSpec == TInit /\ [][TNext]_<<k, nq>>
=============================================================================
