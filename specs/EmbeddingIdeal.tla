---------------------------- MODULE EmbeddingIdeal ----------------------------
(* The property C28 itself, as a state machine over the observable events of the start-up
   of CFFI-embedded libraries (src/cffi/_embedding.h):

     CallBegin(t,l)   thread t enters an extern "Python" function of library l (calls nest:
                      init code may call back into its own or into another library)
     PyInit(t)        t initialises the Python interpreter (Py_InitializeEx)
     InitStart(t,l)   t starts running l's init code (ffi.embedding_init_code)
     InitEnd(t,l,ok)  l's init code finished normally (ok) or by raising (~ok)
     InitAbort(t,l)   l's initialisation failed before its init code could run
     Body(t,l)        t runs the Python body of an extern "Python" function of l
     CallEnd(t,l,r)   the call returns; r = "ran" (result produced by the body), "zero"
                      (zero-filled result) or "other" (anything else)

   Every action is split into a guard (the clause of the property) and an effect, so that
   the trace specification gives total verdicts naming the failing clause.  Nothing more
   than the text of C28 is demanded:
     PyInitG     Python is initialised at most once
     InitStartG  each library's init code runs at most once
     BodyG       no thread other than the library's initialiser runs an extern "Python"
                 body of the library before its initialisation finished
     CallEndG    after a failed initialisation every call returns a zeroed result
     ITerminates every call terminates *)
EXTENDS Naturals, Sequences, FiniteSets
CONSTANTS Threads, Libs
VARIABLES py,      \* number of times Python has been initialised (1 at start if the host did it)
          init,    \* init[l] \in {"none", "running", "ok", "failed"}
          ninit,   \* ninit[l] = number of times l's init code was started
          initer,  \* initer[l] = the thread that runs / ran l's init code (0: none)
          frames,  \* frames[t] = the calls t is inside, innermost last: [lib, ran]
          last     \* last[t] = result class of the call t finished last ("none" at start)
ivars == <<py, init, ninit, initer, frames, last>>

Results == {"ran", "zero", "other"}

IInit == /\ py \in {0, 1}
         /\ init = [l \in Libs |-> "none"]
         /\ ninit = [l \in Libs |-> 0]
         /\ initer = [l \in Libs |-> 0]
         /\ frames = [t \in Threads |-> <<>>]
         /\ last = [t \in Threads |-> "none"]

Depth(t) == Len(frames[t])
Top(t) == frames[t][Depth(t)]

\* ---- guards: the clauses of the property
CallBeginG(t, l)   == TRUE
PyInitG(t)         == py = 0
InitStartG(t, l)   == init[l] = "none" /\ ninit[l] = 0
InitEndG(t, l, ok) == init[l] = "running" /\ initer[l] = t
InitAbortG(t, l)   == init[l] = "none"
BodyG(t, l)        == /\ Depth(t) > 0 /\ Top(t).lib = l
                      /\ \/ init[l] \in {"ok", "failed"}            \* initialisation finished
                         \/ init[l] = "running" /\ initer[l] = t   \* the initialiser itself
CallEndG(t, l, r)  == /\ Depth(t) > 0 /\ Top(t).lib = l
                      /\ init[l] = "failed" => r = "zero"
                      /\ r = "ran" => Top(t).ran

\* ---- effects
CallBeginE(t, l)   == /\ frames' = [frames EXCEPT ![t] = Append(@, [lib |-> l, ran |-> FALSE])]
                      /\ UNCHANGED <<py, init, ninit, initer, last>>
PyInitE(t)         == py' = py + 1 /\ UNCHANGED <<init, ninit, initer, frames, last>>
InitStartE(t, l)   == /\ init' = [init EXCEPT ![l] = "running"]
                      /\ ninit' = [ninit EXCEPT ![l] = @ + 1]
                      /\ initer' = [initer EXCEPT ![l] = t]
                      /\ UNCHANGED <<py, frames, last>>
InitEndE(t, l, ok) == /\ init' = [init EXCEPT ![l] = IF ok THEN "ok" ELSE "failed"]
                      /\ UNCHANGED <<py, ninit, initer, frames, last>>
InitAbortE(t, l)   == /\ init' = [init EXCEPT ![l] = "failed"]
                      /\ UNCHANGED <<py, ninit, initer, frames, last>>
BodyE(t, l)        == /\ frames' = [frames EXCEPT ![t][Depth(t)].ran = TRUE]
                      /\ UNCHANGED <<py, init, ninit, initer, last>>
CallEndE(t, l, r)  == /\ frames' = [frames EXCEPT ![t] = SubSeq(@, 1, Depth(t) - 1)]
                      /\ last' = [last EXCEPT ![t] = r]
                      /\ UNCHANGED <<py, init, ninit, initer>>

CallBegin(t, l)   == CallBeginG(t, l) /\ CallBeginE(t, l)
PyInit(t)         == PyInitG(t) /\ PyInitE(t)
InitStart(t, l)   == InitStartG(t, l) /\ InitStartE(t, l)
InitEnd(t, l, ok) == InitEndG(t, l, ok) /\ InitEndE(t, l, ok)
InitAbort(t, l)   == InitAbortG(t, l) /\ InitAbortE(t, l)
Body(t, l)        == BodyG(t, l) /\ BodyE(t, l)
CallEnd(t, l, r)  == CallEndG(t, l, r) /\ CallEndE(t, l, r)

INext == \E t \in Threads :
           \/ PyInit(t)
           \/ \E l \in Libs :
                \/ CallBegin(t, l) \/ InitStart(t, l) \/ InitAbort(t, l) \/ Body(t, l)
                \/ \E ok \in BOOLEAN : InitEnd(t, l, ok)
                \/ \E r \in Results : CallEnd(t, l, r)

ISpec == IInit /\ [][INext]_ivars

\* every call terminates
ITerminates == \A t \in Threads : []<>(frames[t] = <<>>)

\* ---- the clauses once more as invariants of the ideal (sanity of the formulation)
PyInitAtMostOnce == py <= 1
InitCodeAtMostOncePerLib == \A l \in Libs : ninit[l] <= 1
=============================================================================
