----------------------------- MODULE UnpackOps -----------------------------
(* C18 - ffi.unpack(p, n) equals [p[i] for i in range(n)] (joined for character types).

   IDEAL: Unpack is *defined* as element-wise reading: element i is the value that reading the
   item at byte offset i*size decodes to (the C model of the item type over the bytes), and
   the result is the list of those values, or the error of the first element that cannot be
   converted (a _Bool byte other than 0/1, a char32_t above 0x10FFFF).  For character types the
   elements are joined; for 2-byte characters the documented UTF-16 reading (a high surrogate
   followed by a low surrogate is one character) is accepted as well as the plain join.

   IMPLEMENTATION MODEL: b_unpack, _cffi_backend.c:6871-7015: the character-type shortcuts
   (PyBytes_FromStringAndSize, _my_PyUnicode_FromChar16/32, wchar_helper_3.h), the casenum
   selection by (flags, itemsize, ALIGNMENT_CHECK(ct_length) of the start address) and the
   per-case C reads `*(short * )src` etc. with the platform sizes of the C types named in the
   cases; casenum -1 is convert_to_object (:1085).

   Values are kept symbolic where TLC has no arithmetic for them:
     [t |-> "int",   n |-> 1 if negative else 0, a |-> magnitude, little-endian bytes, trimmed]
     [t |-> "bool",  n |-> 0/1]           [t |-> "float"/"complex", n |-> size, a |-> the bytes]
     [t |-> "byte",  n |-> byte]          [t |-> "chr", n |-> code point]
     [t |-> "ptr",   a |-> the 8 bytes]   [t |-> "view", n |-> byte offset of the aliased item]
     [t |-> "ld",    a |-> the 10 significant bytes] *)
EXTENDS Integers, Sequences, FiniteSets, TLC

CONSTANTS Variant    \* "faithful" | "short_as_int" | "u8_signed" | "bool_truthy" | "no_stride" | "align_skip" |
                     \* "pair_past_end" | "char32_unchecked"

(* ------------------------------------------------------------ platform (x86-64 SysV) *)
SzChar == 1  SzShort == 2  SzInt == 4  SzLong == 8  SzFloat == 4  SzDouble == 8

(* item types: cls, size, ct_length (= alignment for primitives) *)
Ty(c, s, al) == [cls |-> c, sz |-> s, al |-> al]
Types == { Ty("signed", 1, 1), Ty("signed", 2, 2), Ty("signed", 4, 4), Ty("signed", 8, 8),
           Ty("unsigned", 1, 1), Ty("unsigned", 2, 2), Ty("unsigned", 4, 4), Ty("unsigned", 8, 8),
           Ty("bool", 1, 1), Ty("float", 4, 4), Ty("float", 8, 8), Ty("longdouble", 16, 16),
           Ty("char", 1, 1), Ty("char", 2, 2), Ty("char", 4, 4),
           Ty("complex", 8, 4), Ty("complex", 16, 8),
           Ty("pointer", 8, 8), Ty("struct", 3, 1), Ty("struct", 4, 2), Ty("struct", 8, 4), Ty("array", 12, 4) }
IsPrimitive(t) == t.cls \in {"signed", "unsigned", "bool", "float", "longdouble", "char", "complex"}

(* ------------------------------------------------------------------ bytes and values *)
V(t, n, a) == [t |-> t, n |-> n, a |-> a]
Read(m, off, n) == [k \in 1..n |-> IF off + k <= Len(m) THEN m[off + k] ELSE 0 - 1]   \* -1: beyond the memory of p
Trim(bs) == LET L == {k \in 1..Len(bs) : bs[k] # 0} IN
            IF L = {} THEN <<>> ELSE SubSeq(bs, 1, CHOOSE k \in L : \A j \in L : j <= k)
(* two's complement negation of a little-endian byte string *)
Negate(bs) == LET inv == [k \in 1..Len(bs) |-> 255 - bs[k]]
                  C[k \in 1..Len(bs)] == IF k = 1 THEN 1 ELSE IF inv[k - 1] + C[k - 1] > 255 THEN 1 ELSE 0
              IN [k \in 1..Len(bs) |-> (inv[k] + C[k]) % 256]
SignedVal(bs) == IF bs[Len(bs)] >= 128 THEN V("int", 1, Trim(Negate(bs))) ELSE V("int", 0, Trim(bs))
UnsignedVal(bs) == V("int", 0, Trim(bs))
Code(bs) == LET F[k \in 0..Len(bs)] == IF k = 0 THEN 0 ELSE F[k - 1] * 256 + bs[Len(bs) - k + 1] IN F[Len(bs)]
Err(c) == V("error", 0, <<c>>)
IsErr(v) == v.t = "error"

(* ------------------------------------------------------------------------------ IDEAL *)
(* what reading one item p[i] yields: the C model of the type over the item's bytes *)
ElemVal(t, bs, off) ==
  CASE t.cls = "signed"   -> SignedVal(bs)
    [] t.cls = "unsigned" -> UnsignedVal(bs)
    [] t.cls = "bool"     -> IF bs[1] = 0 THEN V("bool", 0, <<>>) ELSE IF bs[1] = 1 THEN V("bool", 1, <<>>)
                             ELSE Err("ValueError")
    [] t.cls = "float"    -> V("float", t.sz, bs)
    [] t.cls = "longdouble" -> V("ld", 0, SubSeq(bs, 1, 10))
    [] t.cls = "complex"  -> V("complex", t.sz, bs)
    [] t.cls = "char"     -> IF t.sz = 1 THEN V("byte", bs[1], <<>>)
                             ELSE IF t.sz = 4 /\ (bs[4] # 0 \/ bs[3] > 16) THEN Err("UnicodeRange")
                             ELSE V("chr", Code(bs), <<>>)
    [] t.cls = "pointer"  -> V("ptr", 0, bs)
    [] OTHER              -> V("view", off, <<>>)            \* struct / array items alias the memory

ElemAt(t, m, i) == ElemVal(t, Read(m, i * t.sz, t.sz), i * t.sz)
(* the list comprehension: all elements, or the error of the first failing one *)
Elementwise(t, m, n) ==
  LET bad == {i \in 0..(n - 1) : IsErr(ElemAt(t, m, i))} IN
  IF bad = {} THEN [st |-> "ok", vals |-> [k \in 1..n |-> ElemAt(t, m, k - 1)]]
  ELSE [st |-> ElemAt(t, m, CHOOSE i \in bad : \A j \in bad : i <= j).a[1], vals |-> <<>>]

IsHi(c) == 55296 <= c /\ c <= 56319          \* D800..DBFF
IsLo(c) == 56320 <= c /\ c <= 57343          \* DC00..DFFF
(* UTF-16 reading of a sequence of code units: a high surrogate immediately followed by a low
   surrogate is one character.  The two surrogate ranges are disjoint, so pairs never overlap and the
   reading can be stated without recursion: drop the low halves, combine at the high halves. *)
Utf16(cs) ==
  LET n == Len(cs)
      Starts == {i \in 1..(n - 1) : IsHi(cs[i].n) /\ IsLo(cs[i + 1].n)}
      Keep == {p \in 1..n : (p - 1) \notin Starts}
      Pos(j) == CHOOSE p \in Keep : Cardinality({q \in Keep : q <= p}) = j
  IN [j \in 1..Cardinality(Keep) |->
        LET p == Pos(j) IN
        IF p \in Starts THEN V("chr", 65536 + (cs[p].n - 55296) * 1024 + (cs[p + 1].n - 56320), <<>>) ELSE cs[p]]
(* the UTF-16 code units a sequence of characters encodes (a character above 0xFFFF is two units) *)
Units(vs) ==
  LET n == Len(vs)
      Big(i) == vs[i].n > 65535
      Start(i) == i + Cardinality({q \in 1..(i - 1) : Big(q)})          \* first output position of character i
      total == n + Cardinality({q \in 1..n : Big(q)})
      Src(j) == CHOOSE i \in 1..n : Start(i) <= j /\ j < Start(i) + (IF Big(i) THEN 2 ELSE 1)
  IN [j \in 1..total |->
        LET i == Src(j) IN
        IF ~Big(i) THEN vs[i].n
        ELSE IF j = Start(i) THEN 55296 + ((vs[i].n - 65536) \div 1024) ELSE 56320 + ((vs[i].n - 65536) % 1024)]
(* whatever reading is taken for surrogate pairs, unpack(p, n) over 2-byte characters encodes exactly the
   n items 0..n-1: it is a function of those items only *)
UnitsAreItems(t, m, n, res) ==
  (t.cls = "char" /\ t.sz = 2 /\ res.st = "ok" /\ \A k \in 1..Len(res.vals) : res.vals[k].t = "chr")
     => Units(res.vals) = [k \in 1..n |-> Code(Read(m, 2 * (k - 1), 2))]
(* the results the statement allows for unpack *)
IdealResults(t, m, n) ==
  LET e == Elementwise(t, m, n) IN
  IF t.cls = "char" /\ t.sz = 2 /\ e.st = "ok" THEN {e, [st |-> "ok", vals |-> Utf16(e.vals)]} ELSE {e}

(* ------------------------------------------------------------- IMPLEMENTATION MODEL *)
IsPow2(a) == a \in {1, 2, 4, 8, 16, 32}
AlignmentCheck(align, addr) == IsPow2(align) /\ addr % align = 0       \* ALIGNMENT_CHECK, :6941

(* :6945-6978 *)
CaseNum(t, addr) ==
  IF IsPrimitive(t) /\ (AlignmentCheck(t.al, addr) \/ Variant = "align_skip") THEN
     IF t.cls = "signed" THEN
          IF t.sz = SzLong THEN 3 ELSE IF t.sz = SzInt THEN 2
          ELSE IF t.sz = SzShort THEN (IF Variant = "short_as_int" THEN 2 ELSE 1)
          ELSE IF t.sz = SzChar THEN 0 ELSE 0 - 1
     ELSE IF t.cls \in {"unsigned", "bool"} THEN
          IF t.cls = "bool" THEN 11
          ELSE IF t.sz = SzLong THEN 7 ELSE IF t.sz = SzInt THEN 6
          ELSE IF t.sz = SzShort THEN 5 ELSE IF t.sz = SzChar THEN 4 ELSE 0 - 1
     ELSE IF t.cls = "float" THEN
          IF t.sz = SzDouble THEN 9 ELSE IF t.sz = SzFloat THEN 8 ELSE 0 - 1
     ELSE 0 - 1
  ELSE IF t.cls = "pointer" THEN 10
  ELSE 0 - 1

(* convert_to_object, :1085-1181 (read_raw_*_data by ct_size) *)
ConvertToObject(t, m, off) ==
  LET bs == Read(m, off, t.sz) IN
  CASE t.cls = "signed"   -> SignedVal(bs)                 \* read_raw_signed_data
    [] t.cls = "unsigned" -> UnsignedVal(bs)
    [] t.cls = "bool"     -> IF Code(bs) = 0 THEN V("bool", 0, <<>>) ELSE IF Code(bs) = 1 THEN V("bool", 1, <<>>)
                             ELSE Err("ValueError")        \* "got a _Bool of value %d"
    [] t.cls = "float"    -> V("float", t.sz, bs)
    [] t.cls = "longdouble" -> V("ld", 0, SubSeq(bs, 1, 10))
    [] t.cls = "complex"  -> V("complex", t.sz, bs)
    [] t.cls = "char"     -> IF t.sz = 1 THEN V("byte", bs[1], <<>>)
                             ELSE IF t.sz = 4 /\ (bs[4] # 0 \/ bs[3] > 16) THEN Err("UnicodeRange")
                             ELSE V("chr", Code(bs), <<>>)
    [] t.cls = "pointer"  -> V("ptr", 0, bs)
    [] OTHER              -> V("view", off, <<>>)

(* the switch of the loop, :6983-7006: which C type is read through `src` *)
CaseRead(c, t, m, off) ==
  CASE c = 0  -> SignedVal(Read(m, off, SzChar))
    [] c = 1  -> SignedVal(Read(m, off, SzShort))
    [] c = 2  -> SignedVal(Read(m, off, SzInt))
    [] c = 3  -> SignedVal(Read(m, off, SzLong))
    [] c = 4  -> IF Variant = "u8_signed" THEN SignedVal(Read(m, off, SzChar)) ELSE UnsignedVal(Read(m, off, SzChar))
    [] c = 5  -> UnsignedVal(Read(m, off, SzShort))
    [] c = 6  -> UnsignedVal(Read(m, off, SzInt))
    [] c = 7  -> UnsignedVal(Read(m, off, SzLong))
    [] c = 8  -> V("float", SzFloat, Read(m, off, SzFloat))
    [] c = 9  -> V("float", SzDouble, Read(m, off, SzDouble))
    [] c = 10 -> V("ptr", 0, Read(m, off, 8))
    [] c = 11 -> LET b == m[off + 1] IN
                 IF b = 0 THEN V("bool", 0, <<>>) ELSE IF b = 1 \/ Variant = "bool_truthy" THEN V("bool", 1, <<>>)
                 ELSE ConvertToObject(t, m, off)
    [] OTHER  -> ConvertToObject(t, m, off)

(* _my_PyUnicode_FromChar16, wchar_helper_3.h: count pairs, then build *)
FromChar16(m, n) ==
  LET w(i) == Code(Read(m, 2 * i, 2))                      \* w[i], 0-based
      pairs == Cardinality({i \in 0..(n - 2) : IsHi(w(i)) /\ IsLo(w(i + 1))})
      B[i \in 0..n] ==          \* output built from position i on
        IF i >= n THEN <<>>
        ELSE IF IsHi(w(i)) /\ (i < n - 1 \/ Variant = "pair_past_end") /\ IsLo(w(i + 1))
          THEN <<V("chr", ((w(i) % 1024) * 1024 + (w(i + 1) % 1024)) + 65536, <<>>)>> \o (IF i + 2 > n THEN <<>> ELSE B[i + 2])
          ELSE <<V("chr", w(i), <<>>)>> \o B[i + 1]
  IN IF pairs = 0 THEN [k \in 1..n |-> V("chr", w(k - 1), <<>>)] ELSE B[0]

OutOfRange32(m, i) == m[4 * i + 4] # 0 \/ m[4 * i + 3] > 16
ImplUnpack(t, addr, m, n) ==
  IF t.cls = "char" /\ t.sz = 1 THEN [st |-> "ok", vals |-> [k \in 1..n |-> V("byte", m[k], <<>>)]]
  ELSE IF t.cls = "char" /\ t.sz = 2 THEN [st |-> "ok", vals |-> FromChar16(m, n)]
  ELSE IF t.cls = "char" /\ t.sz = 4 THEN
       (* _my_PyUnicode_FromChar32: every unit is range-checked (ValueError), then
          PyUnicode_FromKindAndData.  Variant "char32_unchecked" is the code before that check existed:
          CPython sizes the string with a saturating max-char and copies the units unchecked for n >= 2
          (n = 1 goes through unicode_char -> PyUnicode_New, which rejects > 0x10FFFF). *)
       IF (\E i \in 0..(n - 1) : OutOfRange32(m, i)) /\ (Variant # "char32_unchecked" \/ n = 1)
         THEN [st |-> "UnicodeRange", vals |-> <<>>]
       ELSE [st |-> "ok", vals |-> [k \in 1..n |-> IF OutOfRange32(m, k - 1) THEN V("chr-invalid", 0, Read(m, 4 * (k - 1), 4))
                                                    ELSE V("chr", Code(Read(m, 4 * (k - 1), 4)), <<>>)]]
  ELSE
    LET c == CaseNum(t, addr)
        src(i) == IF Variant = "no_stride" THEN 0 ELSE i * t.sz
        x(i) == CaseRead(c, t, m, src(i))
        bad == {i \in 0..(n - 1) : IsErr(x(i))} IN
    IF bad = {} THEN [st |-> "ok", vals |-> [k \in 1..n |-> x(k - 1)]]
    ELSE [st |-> x(CHOOSE i \in bad : \A j \in bad : i <= j).a[1], vals |-> <<>>]

=============================================================================
