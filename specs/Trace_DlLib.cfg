SPECIFICATION TSpec
CONSTANTS Libs = {1,2,3,4,5,6,7,8}
  Funcs = {"f1","f2","f3"}
  Vars = {"v1","v2"}
CHECK_DEADLOCK FALSE
