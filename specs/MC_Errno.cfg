SPECIFICATION Spec
CONSTANTS Threads = {1,2,3}
  Raw = {}
  Vals = {0,1}
  Paths = {"api"}
  Kinds = {"cbk"}
  MaxLen = 2
  Variant = "faithful"
  Emb = {}
INVARIANT TypeOK
PROPERTY RefinesIdeal
PROPERTY NonInterference
CHECK_DEADLOCK FALSE
