------------------------------ MODULE Trace_Lifetime ------------------------------
(* Validates operation histories recorded from real cdata objects against the property machine
   LifetimeIdeal.  One verdict per history: "ok", or the violated clause of C21 (see the ideal:
   AtMostOnce, NeverAfterNone, OnlyWhenDue, AtRelease, AtCollection, Idempotent, Locked, Unlocked,
   KeptAlive, StructValid, FromHandle, HandleDistinct; "Harness" = the history is not one the
   program could perform) with the position of the offending operation. *)
EXTENDS LifetimeIdeal, Json, IOUtils, TLC
VARIABLES k, i, bad, reported
Traces == JsonDeserialize(IOEnv.TRACE_FILE)
tvars == <<ivars, k, i, bad, reported>>

TInit == IInit /\ k \in 1..Len(Traces) /\ i = 1 /\ bad = "" /\ reported = FALSE

Consume == /\ i <= Len(Traces[k]) /\ bad = ""
           /\ LET e == Traces[k][i] IN
                IF Guard(e) THEN Effect(e) /\ i' = i + 1 /\ UNCHANGED bad
                ELSE bad' = Why(e) /\ UNCHANGED <<ivars, i>>
           /\ UNCHANGED <<k, reported>>

Report == /\ (i > Len(Traces[k]) \/ bad # "") /\ ~reported
          /\ PrintT(<<"VERDICT", k, IF bad # "" THEN bad ELSE "ok", i>>)
          /\ reported' = TRUE /\ UNCHANGED <<ivars, k, i, bad>>

TNext == Consume \/ Report
TSpec == TInit /\ [][TNext]_tvars
=============================================================================
