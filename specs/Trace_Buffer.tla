---------------------------- MODULE Trace_Buffer ----------------------------
(* Validates histories recorded from real ffi.buffer / ffi.from_buffer / ffi.memmove use against
   the IDEAL section of BufferOps.tla (C19).  A trace: [mem -- initial bytes of the backing object,
   ev -- events].  Event fields (all present): op, b, i, j, n, key [a, b, s: [none, v]], val, st
   ("ok" or exception class), out (bytes read), num (observed length), lo/chg (observed minimal
   changed byte range of the backing object).
     buffer   ffi.buffer over the n bytes at offset i                      num = len(buf)
     getidx / setidx / getslice / setslice   on buffer number b
     cwrite   store through cdata at offset i
     move     ffi.memmove(arena+i, arena+j, n)      (any mix of cdata / Python buffer objects)
     movein   ffi.memmove(arena+i, external bytes val, n)
     moveout  ffi.memmove(external bytearray, arena+j, n)                   out = its new content
     frombuf  ffi.from_buffer(T[] or T[k], memoryview(obj)[i:i+j]), sizeof(T) = n, b = k+1 or 0, num = len(result)
     fbget / fbset   item i of from_buffer view number b
   Total verdict per trace: "ok" or the first failing clause and its position. *)
EXTENDS BufferOps, Json, IOUtils
VARIABLES mem, bufs, fbs, tk, tl, bad, reported
Traces == JsonDeserialize(IOEnv.TRACE_FILE)
tvars == <<mem, bufs, fbs, tk, tl, bad, reported>>
T == Traces[tk]

TInit == /\ tk \in 1..Len(Traces) /\ tl = 1 /\ bad = "" /\ reported = FALSE
         /\ mem = Traces[tk].mem /\ bufs = <<>> /\ fbs = <<>>

ObsMem(e) == IF Len(e.chg) = 0 THEN mem ELSE Write(mem, e.lo, e.chg)
NoChange(e) == Len(e.chg) = 0
BufBytes(b) == Read(mem, b.off, b.len)

Clause(e) ==
  CASE e.op = "buffer" ->
         IF e.st # "ok" THEN "buffer:not-accepted" ELSE IF e.num # e.n THEN "buffer:length"
         ELSE IF ~NoChange(e) THEN "buffer:memory-touched" ELSE ""
    [] e.op = "getidx" ->
         LET b == bufs[e.b] IN
         IF ~NoChange(e) THEN "getidx:memory-touched"
         ELSE IF RefIdxOK(b.len, e.i)
           THEN IF e.st # "ok" THEN "getidx:not-accepted"
                ELSE IF e.out # <<BufBytes(b)[RefPos(b.len, e.i) + 1]>> THEN "getidx:value" ELSE ""
           ELSE IF e.st # "IndexError" THEN "getidx:not-IndexError" ELSE ""
    [] e.op = "setidx" ->
         LET b == bufs[e.b] IN
         IF RefIdxOK(b.len, e.i)
           THEN IF e.st # "ok" THEN "setidx:not-accepted"
                ELSE IF ObsMem(e) # Write(mem, b.off + RefPos(b.len, e.i), e.val) THEN "setidx:memory" ELSE ""
           ELSE IF e.st # "IndexError" THEN "setidx:not-IndexError"
                ELSE IF ~NoChange(e) THEN "setidx:memory-touched" ELSE ""
    [] e.op = "getslice" ->
         IF ~NoChange(e) THEN "getslice:memory-touched"
         ELSE IF StepOne(e.key)
           THEN IF e.st # "ok" THEN "getslice:not-accepted"
                ELSE IF e.out # RefGet(BufBytes(bufs[e.b]), e.key) THEN "getslice:value" ELSE ""
           ELSE ""
    [] e.op = "setslice" ->
         LET b == bufs[e.b] IN
         IF StepOne(e.key)
           THEN IF RefSetOK(b.len, e.key, e.val)
                  THEN IF e.st # "ok" THEN "setslice:not-accepted"
                       ELSE IF ObsMem(e) # Write(mem, b.off, RefSet(BufBytes(b), e.key, e.val)) THEN "setslice:memory" ELSE ""
                  ELSE IF e.st = "ok" THEN "setslice:length-changing-accepted"
                       ELSE IF ~NoChange(e) THEN "setslice:memory-touched" ELSE ""
           ELSE IF e.st # "ok" /\ ~NoChange(e) THEN "setslice:memory-touched" ELSE ""
    [] e.op = "cwrite" -> IF ObsMem(e) # Write(mem, e.i, e.val) THEN "cwrite:memory" ELSE ""
    [] e.op = "move" ->
         IF e.st # "ok" THEN "memmove:not-accepted"
         ELSE IF ObsMem(e) # RefMove(mem, e.i, e.j, e.n) THEN "memmove:memory" ELSE ""
    [] e.op = "movein" ->
         IF e.st # "ok" THEN "memmove:not-accepted"
         ELSE IF ObsMem(e) # Write(mem, e.i, Read(e.val, 0, e.n)) THEN "memmove:memory" ELSE ""
    [] e.op = "moveout" ->
         IF e.st # "ok" THEN "memmove:not-accepted"
         ELSE IF e.out # Read(mem, e.j, e.n) THEN "memmove:value"
         ELSE IF ~NoChange(e) THEN "memmove:source-touched" ELSE ""
    [] e.op = "frombuf" ->
         IF ~NoChange(e) THEN "frombuf:memory-touched"
         ELSE IF e.b > 0
           THEN IF RefFromBufFixedOK(e.j, e.n, e.b - 1)
                  THEN IF e.st # "ok" THEN "frombuf:not-accepted" ELSE IF e.num # e.b - 1 THEN "frombuf:length" ELSE ""
                  ELSE IF e.st # "ValueError" THEN "frombuf:too-small-not-ValueError" ELSE ""
           ELSE IF e.st # "ok" THEN "frombuf:not-accepted"
                ELSE IF e.num # RefFromBufOpenLen(e.j, e.n) THEN "frombuf:length" ELSE ""
    [] e.op = "fbget" ->
         LET f == fbs[e.b] IN
         IF e.st # "ok" THEN "frombuf:item-not-accepted"
         ELSE IF e.out # Read(mem, f.off + e.i * f.isz, f.isz) THEN "frombuf:not-aliasing(read)"
         ELSE IF ~NoChange(e) THEN "frombuf:memory-touched" ELSE ""
    [] e.op = "fbset" ->
         LET f == fbs[e.b] IN
         IF e.st # "ok" THEN "frombuf:item-not-accepted"
         ELSE IF ObsMem(e) # Write(mem, f.off + e.i * f.isz, e.val) THEN "frombuf:not-aliasing(write)" ELSE ""
    [] OTHER -> "harness:unknown-op"

Consume ==
  /\ tl <= Len(T.ev) /\ bad = ""
  /\ LET e == T.ev[tl]  c == Clause(e) IN
       IF c = ""
         THEN /\ mem' = ObsMem(e)
              /\ bufs' = IF e.op = "buffer" THEN Append(bufs, [off |-> e.i, len |-> e.n]) ELSE bufs
              /\ fbs' = IF e.op = "frombuf" /\ e.st = "ok" THEN Append(fbs, [off |-> e.i, isz |-> e.n, len |-> e.num]) ELSE fbs
              /\ tl' = tl + 1 /\ UNCHANGED bad
         ELSE bad' = c /\ UNCHANGED <<mem, bufs, fbs, tl>>
  /\ UNCHANGED <<tk, reported>>
Report == /\ (tl > Len(T.ev) \/ bad # "") /\ ~reported
          /\ PrintT(<<"VERDICT", tk, IF bad # "" THEN bad ELSE "ok", tl>>)
          /\ reported' = TRUE /\ UNCHANGED <<mem, bufs, fbs, tk, tl, bad>>
TNext == Consume \/ Report
TSpec == TInit /\ [][TNext]_tvars
=============================================================================
