------------------------------- MODULE Errors -------------------------------
(* C30: the outcome-class contract of FFI.cdef() / FFI.typeof() on the in-line FFI and of
   typeof() on a compiled FFI.  This is the whole ideal: a total predicate on one observed
   outcome.  An outcome is a record
       [ffi    |-> "inline" | "compiled",
        api    |-> "cdef" | "typeof",
        cls    |-> "ok" | the exception class (first class of the MRO that the contract names,
                   else the class's own name) | "crash" (abnormal exit, sanitizer report),
        origin |-> "parser"  raised inside src/cffi/cparser.py, api.py, the pycparser package ...
                   "backend" raised by a type constructor of _cffi_backend (new_array_type,
                             new_function_type, complete_struct_or_union, ...) reached through
                             src/cffi/model.py, i.e. after the text was parsed: the property's
                             "well-formed but invalid type"
                   "-"       no exception / not known (compiled FFI: all of it is C)]
   The input space is not constrained at all ("for any text"); what TLC enumerates of it is the
   token-level near-miss set of CDecl.tla, the rest are byte-level mutants made by the harness. *)
EXTENDS Naturals, Sequences, FiniteSets, TLC

CffiErrors   == {"CDefError", "FFIError", "NotImplementedError", "VerificationError", "VerificationMissing"}
InvalidType  == {"TypeError", "ValueError", "OverflowError"}   \* OverflowError: array size beyond ssize_t
Named        == CffiErrors \cup InvalidType \cup {"ok", "ffi.error", "crash"}
Others       == {"ZeroDivisionError", "AssertionError", "IndexError", "KeyError", "AttributeError",
                 "RecursionError", "UnicodeError", "Exception"}

InlineG(e)   == \/ e.cls = "ok"
                \/ e.cls \in CffiErrors
                \/ e.api = "typeof" /\ e.cls \in InvalidType /\ e.origin = "backend"
CompiledG(e) == e.api = "typeof" /\ e.cls \in {"ok", "ffi.error"} \cup InvalidType

Allowed(e) == IF e.ffi = "inline" THEN InlineG(e) ELSE CompiledG(e)
Clause(e)  == IF e.cls = "crash" THEN "crash"
              ELSE IF e.ffi = "inline" THEN "escapes-" \o e.api ELSE "escapes-compiled-typeof"

-----------------------------------------------------------------------------
(* Design-level sanity of the contract itself (tiny, exhaustive): the exceptions the property
   names as forbidden are rejected for every ffi/api/origin, "crash" is never allowed, the
   cffi errors are always allowed in-line, and the compiled FFI never raises them. *)
VARIABLE e
Outcomes == [ffi : {"inline", "compiled"}, api : {"cdef", "typeof"}, cls : Named \cup Others,
             origin : {"parser", "backend", "-"}]
Init == e \in {o \in Outcomes : o.ffi = "compiled" => o.api = "typeof"}
Spec == Init /\ [][UNCHANGED e]_e
ForbiddenRejected == e.cls \in Others \cup {"crash"} => ~Allowed(e)
CffiErrorsAllowedInline == e.ffi = "inline" /\ e.cls \in CffiErrors => Allowed(e)
ParserValueErrorRejected == e.ffi = "inline" /\ e.cls \in InvalidType /\ e.origin # "backend" => ~Allowed(e)
CdefNeverInvalidType == e.ffi = "inline" /\ e.api = "cdef" /\ e.cls \in InvalidType => ~Allowed(e)
CompiledNoCffiErrors == e.ffi = "compiled" /\ e.cls \in CffiErrors => ~Allowed(e)
=============================================================================
