------------------------------- MODULE Errors -------------------------------
(* C30: the outcome-class contract of FFI.cdef() / FFI.typeof() on the in-line FFI and of
   typeof() on a compiled FFI.  This is the whole ideal: a total predicate on one observed
   outcome.  An outcome is a record
       [ffi    |-> "inline" | "compiled",
        api    |-> "cdef" | "typeof",
        cls    |-> "ok" | the exception class (first class of the MRO that the contract names,
                   else the class's own name) | "crash" (abnormal exit, sanitizer report),
        origin |-> "parser"  raised inside src/cffi/cparser.py, api.py, the pycparser package ...
                   "backend" raised by a type constructor of _cffi_backend (new_array_type,
                             new_function_type, complete_struct_or_union, ...) reached through
                             src/cffi/model.py, i.e. after the text was parsed: the property's
                             "well-formed but invalid type"
                   "-"       no exception / not known (compiled FFI: all of it is C),
        need   |-> number of opcodes the type string needs in the C parser's buffer when the
                   specification can tell (ErrorsLimit!NeedOps for the near-limit family), else 0]
   The input space is not constrained at all ("for any text"); what TLC enumerates of it is the
   token-level near-miss set of CDecl.tla, the rest are byte-level mutants made by the harness. *)
EXTENDS Naturals, Sequences, FiniteSets, TLC

CffiErrors   == {"CDefError", "FFIError", "NotImplementedError", "VerificationError", "VerificationMissing"}
InvalidType  == {"TypeError", "ValueError", "OverflowError"}   \* OverflowError: array size beyond ssize_t
ResourceLimit == {"DepthLimit"}   \* RuntimeError 'type-building recursion too deep' of realize_c_type's guard
                                  \* (more than 1000 nested levels): not an error of the text, tolerated
Named        == CffiErrors \cup InvalidType \cup ResourceLimit \cup {"ok", "ffi.error", "crash"}
Others       == {"ZeroDivisionError", "AssertionError", "IndexError", "KeyError", "AttributeError",
                 "RecursionError", "UnicodeError", "Exception"}

InlineG(e)   == \/ e.cls = "ok"
                \/ e.cls \in CffiErrors
                \/ e.api = "typeof" /\ e.cls \in InvalidType /\ e.origin = "backend"
Limit == 1200          \* FFI_COMPLEXITY_OUTPUT (src/c/ffi_obj.c): entries of the opcode buffer; see ErrorsLimit.tla
CompiledG(e) == /\ e.api = "typeof" /\ e.cls \in {"ok", "ffi.error"} \cup InvalidType \cup ResourceLimit
                /\ (e.need > Limit => e.cls = "ffi.error")   \* accepting it = writing past the buffer

Allowed(e) == IF e.ffi = "inline" THEN InlineG(e) ELSE CompiledG(e)
Clause(e)  == IF e.cls = "crash" THEN "crash"
              ELSE IF e.ffi = "compiled" /\ e.need > Limit /\ e.cls \in {"ok"} \cup InvalidType THEN "over-limit-accepted"
              ELSE IF e.ffi = "inline" THEN "escapes-" \o e.api ELSE "escapes-compiled-typeof"

-----------------------------------------------------------------------------
(* Design-level sanity of the contract itself (tiny, exhaustive): the exceptions the property
   names as forbidden are rejected for every ffi/api/origin, "crash" is never allowed, the
   cffi errors are always allowed in-line, and the compiled FFI never raises them. *)
VARIABLE e
Outcomes == [ffi : {"inline", "compiled"}, api : {"cdef", "typeof"}, cls : Named \cup Others,
             origin : {"parser", "backend", "-"}, need : {0, 1200, 1201}]
Init == e \in {o \in Outcomes : o.ffi = "compiled" => o.api = "typeof"}
Spec == Init /\ [][UNCHANGED e]_e
ForbiddenRejected == e.cls \in Others \cup {"crash"} => ~Allowed(e)
CffiErrorsAllowedInline == e.ffi = "inline" /\ e.cls \in CffiErrors => Allowed(e)
ParserValueErrorRejected == e.ffi = "inline" /\ e.cls \in InvalidType /\ e.origin # "backend" => ~Allowed(e)
CdefNeverInvalidType == e.ffi = "inline" /\ e.api = "cdef" /\ e.cls \in InvalidType => ~Allowed(e)
OverLimitOnlyError == e.ffi = "compiled" /\ e.need = 1201 /\ Allowed(e) => e.cls = "ffi.error"
AtLimitFree == e.ffi = "compiled" /\ e.api = "typeof" /\ e.cls = "ok" /\ e.need = 1200 => Allowed(e)
CompiledNoCffiErrors == e.ffi = "compiled" /\ e.cls \in CffiErrors => ~Allowed(e)
=============================================================================
