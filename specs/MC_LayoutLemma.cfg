INIT Init
NEXT Next
CONSTANT Variant = "faithful"
