------------------------------- MODULE Call -------------------------------
(* C13 / C14 / C33 -- what a call of a C function through cffi must do.

   A call is (fn, args, mem, errno):
     fn    a member of a small family of C functions whose semantics this module knows
           (sel, sum, wr, rdi, bump, seterr, smake, sget, vsum),
     args  a tuple of Python values,
     mem   the memory cells some arguments point to (flat digit sequences),
     errno the value of ffi.errno before the call.
   Outcome(call) is defined ONCE, from ConvertArg (the argument conversion rule per type
   class) and Apply (the C semantics), and is what every call path has to produce:
   API-mode lib attribute, ffi.addressof(lib, name) through libffi, in-line ABI dlopen(),
   out-of-line ABI dlopen(), and (C33) the libraries built by ffi.verify().

   Integers of any magnitude are digit sequences in base Base, little-endian:
   Base = 4 in the exhaustive configurations (a "byte" has two bits, long long has 16),
   Base = 256 when TLC validates records of real executions (a digit is a byte).
   Every operator below is the same in both uses.

   Section 5 transcribes the two *different* integer conversion algorithms the call
   paths really use (generated _cffi_to_c_iN/uN code vs. convert_from_object's
   write/read-back check); MC_Call checks them equal to the rule of section 3. *)
EXTENDS Integers, Sequences, FiniteSets, TLC
CONSTANT Base

Half == Base \div 2

-----------------------------------------------------------------------------
(* 1. digit arithmetic *)

Zeros(n) == TLCEval([i \in 1..n |-> 0])
Ones(n)  == TLCEval([i \in 1..n |-> Base - 1])
RECURSIVE StripZ(_)
StripZ(m) == IF Len(m) = 0 THEN <<>>
             ELSE IF m[Len(m)] = 0 THEN StripZ(SubSeq(m, 1, Len(m) - 1)) ELSE m
Pad(m, n) == TLCEval([i \in 1..n |-> IF i <= Len(m) THEN m[i] ELSE 0])

\* a Python int: sign and normalized magnitude
PyInt(neg, mag) == LET m == StripZ(mag) IN [k |-> "int", neg |-> (neg /\ Len(m) > 0), mag |-> m]

RECURSIVE MagCmpFrom(_, _, _)
MagCmpFrom(a, b, i) == IF i = 0 THEN 0
                       ELSE IF a[i] < b[i] THEN 0 - 1
                       ELSE IF a[i] > b[i] THEN 1
                       ELSE MagCmpFrom(a, b, i - 1)
\* compare two normalized magnitudes: -1, 0, 1
MagCmp(a, b) == IF Len(a) < Len(b) THEN 0 - 1
                ELSE IF Len(a) > Len(b) THEN 1
                ELSE MagCmpFrom(a, b, Len(a))
\* compare two Python ints
IntCmp(x, y) == IF x.neg /\ ~y.neg THEN 0 - 1
                ELSE IF ~x.neg /\ y.neg THEN 1
                ELSE IF x.neg THEN MagCmp(y.mag, x.mag) ELSE MagCmp(x.mag, y.mag)

\* 2^(bits-1) - 1 and 2^(bits-1) for a type of s digits, as normalized magnitudes
MaxMagS(s) == StripZ(TLCEval([i \in 1..s |-> IF i = s THEN Half - 1 ELSE Base - 1]))
MinMagS(s) == TLCEval([i \in 1..s |-> IF i = s THEN Half ELSE 0])

\* the C range rule: does the Python int v fit an integer type of s digits?
InRange(v, s, signed) ==
    IF signed THEN IF v.neg THEN MagCmp(v.mag, MinMagS(s)) <= 0
                   ELSE MagCmp(v.mag, MaxMagS(s)) <= 0
    ELSE ~v.neg /\ Len(v.mag) <= s

RECURSIVE AddFrom(_, _, _, _)
AddFrom(a, b, i, c) == IF i > Len(a) THEN <<>>
                       ELSE LET t == a[i] + b[i] + c
                            IN <<t % Base>> \o AddFrom(a, b, i + 1, t \div Base)
\* wrapping sum, equal lengths.  (TLC re-evaluates an operator argument at every use inside a
\* recursive operator: bind the operands once.)
AddC(a, b) == LET x == TLCEval(a) y == TLCEval(b) IN AddFrom(x, y, 1, 0)
Compl(a) == TLCEval([i \in 1..Len(a) |-> Base - 1 - a[i]])
NegC(a) == AddFrom(Compl(a), Zeros(Len(a)), 1, 1)     \* two's-complement negation
IsNegC(c) == c[Len(c)] >= Half
\* two's-complement image (s digits) of an in-range Python int, and back
Enc(v, s) == IF v.neg THEN NegC(Pad(v.mag, s)) ELSE Pad(v.mag, s)
Dec(c, signed) == IF signed /\ IsNegC(c) THEN PyInt(TRUE, NegC(c)) ELSE PyInt(FALSE, c)
\* C conversions between integer widths
Ext(c, signed, n) == TLCEval([i \in 1..n |-> IF i <= Len(c) THEN c[i]
                                            ELSE IF signed /\ IsNegC(c) THEN Base - 1 ELSE 0])
Trunc(c, n) == SubSeq(c, 1, n)

RECURSIVE NatDigits(_)
NatDigits(n) == IF n = 0 THEN <<>> ELSE <<n % Base>> \o NatDigits(n \div Base)
FromNat(n) == PyInt(FALSE, NatDigits(n))
FromInt(n) == IF n < 0 THEN PyInt(TRUE, NatDigits(0 - n)) ELSE FromNat(n)
RECURSIVE NatOfFrom(_, _)
NatOfFrom(m, i) == IF i > Len(m) THEN 0 ELSE m[i] + Base * NatOfFrom(m, i + 1)
NatOf(m) == NatOfFrom(m, 1)          \* only for small values (native TLC integers)

-----------------------------------------------------------------------------
(* 2. types, Python values, C values

   types   [k |-> "int", size, signed] | [k |-> "bool"] | [k |-> "char"]
           | [k |-> "float", size] (4: float, 8: double) | [k |-> "ptr", item]
           | [k |-> "struct", tag, fields] | [k |-> "void"]
           | [k |-> "arr", item, len]  (a struct field that is an array; nested for n dimensions)
           | [k |-> "complex", size] (8: float _Complex, 16: double _Complex) | [k |-> "ldouble"]
             (C14 only; long double values are kept double-representable: image = the double's)
   Python  [k |-> "int", neg, mag, fl, flovf]   fl = <<image>>: its float value if known
           [k |-> "float", d, f, fd]   IEEE images: as double, narrowed to float, that float
                                       widened again (supplied by the reference compiler)
           [k |-> "bytes", data] | [k |-> "str"] | [k |-> "none"] | [k |-> "pybool", b]
           [k |-> "list", items]            list or tuple
           [k |-> "dict", keys, items]      dict initializer of a struct: keys = field numbers
           [k |-> "intobj", v]              an object with __int__ only
           [k |-> "cint", ct, c]            <cdata 'int'>, 'char', '_Bool' (ffi.cast)
           [k |-> "cfloat", ct, d, f, fd]   <cdata 'float'/'double'>
           [k |-> "cptr", ct, cell]         pointer or (decayed) array cdata; cell 0 = NULL
           [k |-> "cstruct", ct, vals]      struct cdata, vals = Python values of its fields
           [k |-> "carr", vals]             (results only) the array cdata of a struct's array field
           [k |-> "pycomplex", re, im]      Python complex; re, im = [d, f, fd] images (results: d only)
           [k |-> "cldouble", d]            <cdata 'long double'> (its value as a double)
   C       integer, _Bool, char: digit sequence of the type's size
           float/double: [img |-> digits, asd |-> image as double]
           pointer: [ref |-> "null" | "cell" | "tmp" | "bytes" | "tmpv", id, data]
                    (tmp: bytes of a temporary array of scalars; tmpv: the struct values of a
                    temporary array of structs)
           struct: sequence of field C values;  array field: sequence of item C values
           complex: [re |-> float C value, im |-> float C value];  long double: like double *)

IntT(s, sg) == [k |-> "int", size |-> s, signed |-> sg]
BoolT == [k |-> "bool"]
CharT == [k |-> "char"]
FloatT(s) == [k |-> "float", size |-> s]
VoidT == [k |-> "void"]
PtrT(t) == [k |-> "ptr", item |-> t]

IsIntLike(t) == t.k \in {"int", "bool", "char"}
SizeOf(t) == CASE t.k = "int" -> t.size [] t.k = "float" -> t.size
               [] t.k \in {"bool", "char"} -> 1 [] t.k = "ptr" -> 8 [] OTHER -> 0
SignedT(t) == t.k = "int" /\ t.signed

None == [k |-> "none"]
Null == [ref |-> "null", id |-> 0, data |-> <<>>]
CellRef(id) == [ref |-> "cell", id |-> id, data |-> <<>>]
TmpRef(data) == [ref |-> "tmp", id |-> 0, data |-> data]
BytesRef(data) == [ref |-> "bytes", id |-> 0, data |-> data]

Ok(c) == [ok |-> TRUE, exc |-> "", c |-> c]
Err(e) == [ok |-> FALSE, exc |-> e, c |-> <<>>]

-----------------------------------------------------------------------------
(* 3. ConvertArg: the conversion rule, per type class *)

\* which Python values count as integers (int, bool, integer/char cdata, __int__ objects;
\* never a float or a float cdata)
IntView(v) == CASE v.k = "int" -> <<v>>
                [] v.k = "pybool" -> <<IF v.b THEN FromNat(1) ELSE FromNat(0)>>
                [] v.k = "cint" -> <<Dec(v.c, SignedT(v.ct))>>
                [] v.k = "intobj" -> <<v.v>>
                [] OTHER -> <<>>

\* integer range rule
ConvInt(t, v) == LET iv == IntView(v) IN
    IF iv = <<>> THEN Err("TypeError")
    ELSE IF InRange(iv[1], t.size, t.signed) THEN Ok(Enc(iv[1], t.size))
    ELSE Err("OverflowError")

\* _Bool accepts exactly 0 and 1
ConvBool(v) == LET iv == IntView(v) IN
    IF iv = <<>> THEN Err("TypeError")
    ELSE IF iv[1].mag = <<>> THEN Ok(<<0>>)
    ELSE IF ~iv[1].neg /\ iv[1].mag = <<1>> THEN Ok(<<1>>)
    ELSE Err("OverflowError")

\* char accepts a bytes of length 1 or a <cdata 'char'>
ConvChar(v) == IF v.k = "bytes" /\ Len(v.data) = 1 THEN Ok(<<v.data[1]>>)
               ELSE IF v.k = "cint" /\ v.ct.k = "char" THEN Ok(v.c)
               ELSE Err("TypeError")

\* float/double accept a float, a float cdata, or an int (exactly converted; OverflowError
\* beyond the double range); an integer cdata has no float value (cdata_float refuses it)
FloatView(v) == CASE v.k \in {"float", "cfloat"} -> <<[d |-> v.d, f |-> v.f, fd |-> v.fd]>>
                  [] v.k = "int" -> v.fl
                  [] OTHER -> <<>>
ConvFloat(t, v) ==
    IF v.k = "int" /\ v.flovf THEN Err("OverflowError")
    ELSE LET fv == FloatView(v) IN
         IF fv = <<>> THEN Err("TypeError")
         ELSE IF t.size = 4 THEN Ok([img |-> fv[1].f, asd |-> fv[1].fd])
         ELSE Ok([img |-> fv[1].d, asd |-> fv[1].d])

\* pointer compatibility of convert_from_object: same type, or void* on either side, or
\* char* on one side and both items one byte wide
IsVoidP(p) == p.item.k = "void"
IsCharP(p) == p.item.k = "char"
OneByteItem(p) == p.item.k \in {"char", "bool"} \/ (p.item.k = "int" /\ p.item.size = 1)
PtrCompat(a, b) == \/ a = b
                   \/ IsVoidP(a) \/ IsVoidP(b)
                   \/ ((IsCharP(a) \/ IsCharP(b)) /\ OneByteItem(a) /\ OneByteItem(b))
\* a bytes object may be passed for void*, char* and pointers to one-byte integers
BytesItem(t) == t.k \in {"void", "char", "bool"} \/ (t.k = "int" /\ t.size = 1)

RECURSIVE ZeroC(_)
ZeroC(t) == CASE t.k \in {"int", "bool", "char"} -> Zeros(SizeOf(t))
              [] t.k = "float" -> [img |-> Zeros(t.size), asd |-> Zeros(8)]
              [] t.k = "ptr" -> Null
              [] t.k = "arr" -> TLCEval([i \in 1..t.len |-> ZeroC(t.item)])
              [] OTHER -> <<>>
\* the bytes of a scalar C value in memory
BytesOf(t, c) == IF t.k = "float" THEN c.img ELSE c

RECURSIVE ConvertItem(_, _), ConvSeq(_, _, _)
\* convert the Python values vs to the types ts; the result is that of the first failing one.
\* (No recursion over the list: argument lists have hundreds of items.  i is always 1.)
ConvSeq(ts, vs, i) ==
    LET rs == TLCEval([j \in 1..Len(vs) |-> ConvertItem(ts[j], vs[j])])
        bad == {j \in 1..Len(vs) : ~rs[j].ok}
    IN IF bad # {} THEN rs[CHOOSE j \in bad : \A j2 \in bad : j <= j2]
       ELSE Ok(TLCEval([j \in 1..Len(vs) |-> rs[j].c]))
\* the bytes of an array of scalars cs of type t
Flat(t, cs, i) == LET sz == SizeOf(t) IN
                  TLCEval([k \in 1..(Len(cs) * sz) |-> BytesOf(t, cs[((k - 1) \div sz) + 1])[((k - 1) % sz) + 1]])

ConvStruct(t, v) ==
    CASE v.k = "cstruct" ->
           IF v.ct = t THEN ConvSeq(t.fields, v.vals, 1) ELSE Err("TypeError")
      [] v.k = "list" ->
           IF Len(v.items) > Len(t.fields) THEN Err("ValueError")
           ELSE LET r == ConvSeq(t.fields, v.items, 1) IN
                IF ~r.ok THEN r
                ELSE Ok(TLCEval([i \in 1..Len(t.fields) |->
                                   IF i <= Len(r.c) THEN r.c[i] ELSE ZeroC(t.fields[i])]))
      [] v.k = "dict" ->         \* keys = field numbers, in the dict's order; unnamed fields are zero
           LET r == ConvSeq(TLCEval([j \in 1..Len(v.keys) |-> t.fields[v.keys[j]]]), v.items, 1) IN
           IF ~r.ok THEN r
           ELSE Ok(TLCEval([i \in 1..Len(t.fields) |->
                              IF \E j \in 1..Len(v.keys) : v.keys[j] = i
                              THEN r.c[CHOOSE j \in 1..Len(v.keys) : v.keys[j] = i /\ \A j2 \in (j + 1)..Len(v.keys) : v.keys[j2] # i]
                              ELSE ZeroC(t.fields[i])]))
      [] OTHER -> Err("TypeError")

\* convert_from_object: a value stored into a C object of type t (array item, struct
\* field, non-pointer argument)
ConvertItem(t, v) ==
    CASE t.k = "int" -> ConvInt(t, v)
      [] t.k = "bool" -> ConvBool(v)
      [] t.k = "char" -> ConvChar(v)
      [] t.k = "float" -> ConvFloat(t, v)
      [] t.k = "struct" -> ConvStruct(t, v)
      [] t.k = "complex" ->      \* a Python complex, or anything with a float value (imaginary part 0)
           LET part(x) == IF t.size = 8 THEN [img |-> x.f, asd |-> x.fd] ELSE [img |-> x.d, asd |-> x.d]
               zero == [img |-> Zeros(t.size \div 2), asd |-> Zeros(8)]
           IN IF v.k = "pycomplex" THEN Ok([re |-> part(v.re), im |-> part(v.im)])
              ELSE LET r == ConvFloat(FloatT(t.size \div 2), v) IN
                   IF r.ok THEN Ok([re |-> r.c, im |-> zero]) ELSE r
      [] t.k = "ldouble" -> IF v.k = "cldouble" THEN Ok([img |-> v.d, asd |-> v.d]) ELSE ConvFloat(FloatT(8), v)
      [] t.k = "arr" ->          \* array field: list/tuple of items, the rest zero; too many: IndexError
           IF v.k # "list" THEN Err("TypeError")
           ELSE IF Len(v.items) > t.len THEN Err("IndexError")
           ELSE LET r == ConvSeq(TLCEval([i \in 1..Len(v.items) |-> t.item]), v.items, 1) IN
                IF ~r.ok THEN r
                ELSE Ok(TLCEval([i \in 1..t.len |-> IF i <= Len(r.c) THEN r.c[i] ELSE ZeroC(t.item)]))
      [] t.k = "ptr" -> IF v.k = "cptr" /\ PtrCompat(t, v.ct)
                        THEN Ok(IF v.cell = 0 THEN Null ELSE CellRef(v.cell))
                        ELSE Err("TypeError")
      [] OTHER -> Err("TypeError")

\* the pointer-argument rule (_prepare_pointer_call_argument): on top of the above, a
\* pointer parameter accepts list/tuple (a zero-filled temporary array of the items) and,
\* for one-byte items, a bytes object (its own storage, followed by a NUL)
ConvPtrArg(t, v) ==
    CASE v.k = "bytes" ->
           IF ~BytesItem(t.item) THEN Err("TypeError")
           ELSE IF t.item.k = "bool" /\ \E i \in 1..Len(v.data) : v.data[i] > 1
                THEN Err("ValueError")
           ELSE Ok(BytesRef(v.data \o <<0>>))
      [] v.k = "list" ->
           IF t.item.k = "struct"        \* temporary array of structs: every item zero-completed
           THEN LET r == ConvSeq(TLCEval([i \in 1..Len(v.items) |-> t.item]), v.items, 1) IN
                IF ~r.ok THEN r ELSE Ok([ref |-> "tmpv", id |-> 0, data |-> r.c])
           ELSE IF ~(t.item.k \in {"int", "bool", "char", "float"}) THEN Err("TypeError")
           ELSE LET r == ConvSeq(TLCEval([i \in 1..Len(v.items) |-> t.item]), v.items, 1) IN
                IF ~r.ok THEN r
                ELSE Ok(TmpRef(IF Len(v.items) = 0 THEN <<0>> ELSE Flat(t.item, r.c, 1)))
      [] OTHER -> ConvertItem(t, v)

ConvertArg(t, v) == IF t.k = "ptr" THEN ConvPtrArg(t, v) ELSE ConvertItem(t, v)

\* C value -> Python value
RECURSIVE ToPy(_, _)
ToPy(t, c) ==
    CASE t.k = "int" -> Dec(c, t.signed)
      [] t.k = "bool" -> [k |-> "pybool", b |-> (c[1] # 0)]
      [] t.k = "char" -> [k |-> "bytes", data |-> c]
      [] t.k = "float" -> [k |-> "float", d |-> c.asd]
      [] t.k = "ptr" -> [k |-> "cptr", ct |-> t,
                         cell |-> IF c.ref = "null" THEN 0
                                  ELSE IF c.ref = "cell" THEN c.id ELSE 0 - 1]
      [] t.k = "struct" -> [k |-> "cstruct", ct |-> t,
                            vals |-> TLCEval([i \in 1..Len(t.fields) |-> ToPy(t.fields[i], c[i])])]
      [] t.k = "complex" -> [k |-> "pycomplex", re |-> [d |-> c.re.asd], im |-> [d |-> c.im.asd]]
      [] t.k = "ldouble" -> [k |-> "cldouble", d |-> c.asd]
      [] t.k = "arr" -> [k |-> "carr", vals |-> TLCEval([i \in 1..t.len |-> ToPy(t.item, c[i])])]
      [] t.k = "void" -> None

\* equality of Python results (a pointer into temporary storage, cell -1, is not compared)
RECURSIVE PyEq(_, _)
PyEq(a, b) ==
    /\ a.k = b.k
    /\ CASE a.k = "int" -> a.neg = b.neg /\ a.mag = b.mag
         [] a.k = "float" -> a.d = b.d
         [] a.k = "bytes" -> a.data = b.data
         [] a.k = "pybool" -> a.b = b.b
         [] a.k = "cptr" -> a.ct = b.ct /\ (a.cell = b.cell \/ a.cell = 0 - 1 \/ b.cell = 0 - 1)
         [] a.k = "pycomplex" -> a.re.d = b.re.d /\ a.im.d = b.im.d
         [] a.k = "cldouble" -> a.d = b.d
         [] a.k = "carr" -> /\ Len(a.vals) = Len(b.vals)
                            /\ \A i \in 1..Len(a.vals) : PyEq(a.vals[i], b.vals[i])
         [] a.k = "cstruct" -> /\ a.ct = b.ct /\ Len(a.vals) = Len(b.vals)
                               /\ \A i \in 1..Len(a.vals) : PyEq(a.vals[i], b.vals[i])
         [] OTHER -> TRUE

-----------------------------------------------------------------------------
(* 4. the function family and Outcome

   [f |-> "sel",  args, k]    returns its k-th argument            T_k sel(T_1, ..., T_n)
   [f |-> "sum",  args, res]  64-bit wrapping sum of integer args  R sum(T_1, ..., T_n)
   [f |-> "wr",   t]          void wr(T *p, T v)   { *p = v; }
   [f |-> "rdi",  t]          T rdi(T *p, int i)   { return p[i]; }
   [f |-> "bump", t]          void bump(T *p, int n) { for i<n: p[i] += i+1; }
   [f |-> "seterr"]           int seterr(int e) { old = errno; errno = e; return old; }
   [f |-> "smake", s]         struct S smake(T_1 a_1, ...) { S s = {a_1, ...}; return s; }
   [f |-> "sget", s, k]       T_k sget(struct S s) { return s.f_k; }
   [f |-> "isum", t]          long long isum(T *p, int n): sum of p[0..n-1]
   [f |-> "asum", s]          long long asum(struct S *p, int n): sum of ALL fields of p[0..n-1]
   [f |-> "vsum", fixed]      long long vsum(const char *fmt, ...): adds the variadic
                              arguments as fmt says: i int, u unsigned, l long long,
                              d the 64-bit image of a double, p the byte *p (0 if NULL) *)

I32 == IntT(4, TRUE)
I64 == IntT(8, TRUE)
CharP == PtrT(CharT)

ArgTypes(fn) ==
    CASE fn.f = "sel" -> fn.args
      [] fn.f = "sum" -> fn.args
      [] fn.f = "wr" -> <<PtrT(fn.t), fn.t>>
      [] fn.f = "rdi" -> <<PtrT(fn.t), I32>>
      [] fn.f = "bump" -> <<PtrT(fn.t), I32>>
      [] fn.f = "isum" -> <<PtrT(fn.t), I32>>
      [] fn.f = "asum" -> <<PtrT(fn.s), I32>>
      [] fn.f = "seterr" -> <<I32>>
      [] fn.f = "smake" -> fn.s.fields
      [] fn.f = "sget" -> <<fn.s>>
      [] fn.f = "vsum" -> <<CharP>>
ResType(fn) ==
    CASE fn.f = "sel" -> fn.args[fn.k]
      [] fn.f = "sum" -> fn.res
      [] fn.f \in {"wr", "bump"} -> VoidT
      [] fn.f = "rdi" -> fn.t
      [] fn.f = "seterr" -> I32
      [] fn.f = "smake" -> fn.s
      [] fn.f = "sget" -> fn.s.fields[fn.k]
      [] fn.f \in {"vsum", "isum", "asum"} -> I64
Variadic(fn) == fn.f = "vsum"

\* memory access through a pointer C value; i is an element index, s the element size
RdMem(mem, p, i, s) == IF p.ref = "cell" THEN SubSeq(mem[p.id], i * s + 1, (i + 1) * s)
                       ELSE SubSeq(p.data, i * s + 1, (i + 1) * s)
Splice(cellv, off, bytes) == TLCEval([j \in 1..Len(cellv) |->
                                 IF j > off /\ j <= off + Len(bytes) THEN bytes[j - off] ELSE cellv[j]])
\* a write into a temporary array is lost with it; cells keep it
WrMem(mem, p, i, s, bytes) == IF p.ref = "cell"
                              THEN [mem EXCEPT ![p.id] = Splice(mem[p.id], i * s, bytes)]
                              ELSE mem

RECURSIVE SumFrom(_, _, _), BumpFrom(_, _, _, _, _)
SumFrom(ts, cs, i) == IF i > Len(cs) THEN Zeros(8)
                      ELSE AddC(Ext(cs[i], SignedT(ts[i]), 8), SumFrom(ts, cs, i + 1))
BumpFrom(mem, p, s, i, n) ==
    IF i >= n THEN mem
    ELSE BumpFrom(WrMem(mem, p, i, s, AddC(RdMem(mem, p, i, s), Enc(FromNat(i + 1), s))),
                  p, s, i + 1, n)

\* the promoted type cffi gives a cdata passed in the variadic part, as a format letter
VarTag(v) ==
    CASE v.k = "cint" -> IF SizeOf(v.ct) < 4 THEN "i"
                         ELSE IF SizeOf(v.ct) = 4 THEN (IF SignedT(v.ct) THEN "i" ELSE "u")
                         ELSE "l"
      [] v.k = "cfloat" -> "d"
      [] v.k = "cptr" -> "p"
      [] OTHER -> "?"
VarConv(v) ==
    CASE v.k = "cint" -> Ok(IF SizeOf(v.ct) < 4 THEN Enc(Dec(v.c, SignedT(v.ct)), 4) ELSE v.c)
      [] v.k = "cfloat" -> Ok(v.d)
      [] v.k = "cptr" -> Ok(IF v.cell = 0 THEN Null ELSE CellRef(v.cell))
      [] OTHER -> Err("TypeError")
\* the 64-bit addend of one variadic argument
VarAddend(tag, c, mem) ==
    CASE tag = "i" -> Ext(c, TRUE, 8)
      [] tag = "u" -> Ext(c, FALSE, 8)
      [] tag \in {"l", "d"} -> c
      [] tag = "p" -> IF c.ref = "null" THEN Zeros(8) ELSE Ext(RdMem(mem, c, 0, 1), FALSE, 8)
RECURSIVE VSumFrom(_, _, _, _)
VSumFrom(tags, cs, mem, i) == IF i > Len(cs) THEN Zeros(8)
                              ELSE AddC(VarAddend(tags[i], cs[i], mem), VSumFrom(tags, cs, mem, i + 1))

\* sums over arrays of hundreds of items: add the 8 digit columns with TLC's own integers
\* (a column sum stays far below 2^31), then propagate the carries once
RECURSIVE ColRange(_, _, _, _), Carry(_, _, _), FieldSum(_, _, _)
ColRange(vals, d, lo, hi) == IF lo > hi THEN 0 ELSE IF lo = hi THEN vals[lo][d]
                             ELSE LET mid == (lo + hi) \div 2 IN ColRange(vals, d, lo, mid) + ColRange(vals, d, mid + 1, hi)
ColSum(vals, d, i) == ColRange(vals, d, i, Len(vals))
Carry(cols, d, c) == IF d > Len(cols) THEN <<>>
                     ELSE <<(cols[d] + c) % Base>> \o Carry(cols, d + 1, (cols[d] + c) \div Base)
SumVals(vals) == LET cols == TLCEval([d \in 1..8 |-> ColSum(vals, d, 1)]) IN Carry(cols, 1, 0)
FieldSum(ts, c, j) == IF j > Len(ts) THEN Zeros(8) ELSE TLCEval(AddC(Ext(c[j], SignedT(ts[j]), 8), FieldSum(ts, c, j + 1)))
ISum(mem, p, t, n) == SumVals(TLCEval([i \in 1..n |-> Ext(RdMem(mem, p, i - 1, SizeOf(t)), SignedT(t), 8)]))
ASum(s, items, n) == SumVals(TLCEval([i \in 1..n |-> FieldSum(s.fields, items[i], 1)]))

\* Apply: the C semantics; cs = converted arguments
Apply(fn, cs, vtags, mem, errno) ==
    CASE fn.f = "sel" -> [ret |-> cs[fn.k], mem |-> mem, errno |-> errno]
      [] fn.f = "sum" -> [ret |-> Trunc(SumFrom(fn.args, cs, 1), fn.res.size), mem |-> mem, errno |-> errno]
      [] fn.f = "wr" -> [ret |-> <<>>, errno |-> errno,
                         mem |-> WrMem(mem, cs[1], 0, SizeOf(fn.t), BytesOf(fn.t, cs[2]))]
      [] fn.f = "rdi" -> LET b == RdMem(mem, cs[1], NatOf(cs[2]), SizeOf(fn.t)) IN
                         [ret |-> IF fn.t.k = "float" THEN [img |-> b, asd |-> b] ELSE b,   \* doubles only
                          mem |-> mem, errno |-> errno]
      [] fn.f = "bump" -> [ret |-> <<>>, errno |-> errno,
                           mem |-> BumpFrom(mem, cs[1], SizeOf(fn.t), 0, NatOf(cs[2]))]
      [] fn.f = "isum" -> [ret |-> ISum(mem, cs[1], fn.t, NatOf(cs[2])), mem |-> mem, errno |-> errno]
      [] fn.f = "asum" -> [ret |-> ASum(fn.s, cs[1].data, NatOf(cs[2])), mem |-> mem, errno |-> errno]
      [] fn.f = "seterr" -> [ret |-> Enc(FromNat(errno), 4), mem |-> mem, errno |-> NatOf(cs[1])]
      [] fn.f = "smake" -> [ret |-> cs, mem |-> mem, errno |-> errno]
      [] fn.f = "sget" -> [ret |-> cs[1][fn.k], mem |-> mem, errno |-> errno]
      [] fn.f = "vsum" -> [ret |-> VSumFrom(vtags, SubSeq(cs, 2, Len(cs)), mem, 1), mem |-> mem, errno |-> errno]

Raises(e, call) == [exc |-> e, ret |-> None, mem |-> call.mem, errno |-> call.errno]

Outcome(call) ==
    LET fn == call.fn
        at == ArgTypes(fn)
        n  == Len(call.args)
        nf == Len(at)
    IN
    IF (IF Variadic(fn) THEN n < nf ELSE n # nf) THEN Raises("TypeError", call)
    \* the variadic part is typed first (it must consist of cdata objects)
    ELSE IF \E i \in (nf + 1)..n : ~VarConv(call.args[i]).ok THEN Raises("TypeError", call)
    ELSE LET conv == TLCEval([i \in 1..n |-> IF i <= nf THEN ConvertArg(at[i], call.args[i])
                                             ELSE VarConv(call.args[i])])
             bad == {i \in 1..n : ~conv[i].ok}
         IN
         IF bad # {} THEN Raises(conv[CHOOSE i \in bad : \A j \in bad : i <= j].exc, call)
         ELSE LET r == Apply(fn, TLCEval([i \in 1..n |-> conv[i].c]),
                             TLCEval([i \in 1..(n - nf) |-> VarTag(call.args[nf + i])]),
                             call.mem, call.errno)
              IN [exc |-> "", ret |-> ToPy(ResType(fn), r.ret), mem |-> r.mem, errno |-> r.errno]

\* the clause of the property an observation violates ("ok" if none)
Verdict(o, obs) ==
    IF obs.exc # o.exc THEN "exc"
    ELSE IF o.exc = "" /\ ~PyEq(obs.ret, o.ret) THEN "ret"
    ELSE IF obs.mem # o.mem THEN "mem"
    ELSE IF obs.errno # o.errno THEN "errno"
    ELSE "ok"
\* two call paths agree
Agree(a, b) == /\ a.exc = b.exc /\ (a.exc = "" => PyEq(a.ret, b.ret))
               /\ a.mem = b.mem /\ a.errno = b.errno

-----------------------------------------------------------------------------
(* 5. the integer conversions as the call paths implement them (CONSTANT-free models;
      Variant selects deliberately broken forms for the non-vacuity runs of MC_Call) *)

\* _my_PyLong_AsLongLong, src/c/_cffi_backend.c:833 : any integer-like, must fit 64 bits
AsLongLong(v) == LET iv == IntView(v) IN
    IF iv = <<>> THEN Err("TypeError")
    ELSE IF InRange(iv[1], 8, TRUE) THEN Ok(Enc(iv[1], 8)) ELSE Err("OverflowError")
\* _my_PyLong_AsUnsignedLongLong(ob, strict=1), :869 : negative -> OverflowError
AsULongLong(v) == LET iv == IntView(v) IN
    IF iv = <<>> THEN Err("TypeError")
    ELSE IF iv[1].neg THEN Err("OverflowError")
    ELSE IF InRange(iv[1], 8, FALSE) THEN Ok(Enc(iv[1], 8)) ELSE Err("OverflowError")

\* convert_from_object, :1714-1739 : write the 64-bit value into a buffer of the type's
\* size, read it back, compare (cdata_call path: addressof, both dlopen modes)
FfiInt(t, v, variant) ==
    IF t.k = "bool"
    THEN LET r == AsULongLong(v) IN
         IF ~r.ok THEN r
         ELSE IF variant = "bool_range"
              THEN (IF r.c # Ext(Trunc(r.c, 1), FALSE, 8) THEN Err("OverflowError") ELSE Ok(Trunc(r.c, 1)))
              ELSE (IF r.c # Ext(<<0>>, FALSE, 8) /\ r.c # Ext(<<1>>, FALSE, 8)      \* value > 1ULL
                    THEN Err("OverflowError") ELSE Ok(Trunc(r.c, 1)))
    ELSE IF t.signed
    THEN LET r == AsLongLong(v) IN
         IF ~r.ok THEN r
         ELSE IF r.c # Ext(Trunc(r.c, t.size), variant # "ffi_zeroext", 8)          \* read_raw_signed_data
              THEN Err("OverflowError") ELSE Ok(Trunc(r.c, t.size))
    ELSE LET r == AsULongLong(v) IN
         IF ~r.ok THEN r
         ELSE IF r.c # Ext(Trunc(r.c, t.size), FALSE, 8) THEN Err("OverflowError")
              ELSE Ok(Trunc(r.c, t.size))

\* _cffi_to_c_i##SIZE / _cffi_to_c_u##SIZE / _cffi_to_c__Bool, :7689-7761 : explicit
\* comparisons against the bounds, in 64-bit arithmetic (API-mode lib attribute)
ApiInt(t, v, variant) ==
    IF t.k = "bool"
    THEN LET r == AsLongLong(v) IN                       \* note: the *signed* conversion
         IF ~r.ok THEN r
         ELSE IF r.c = Zeros(8) THEN Ok(<<0>>)
         ELSE IF r.c = Ext(<<1>>, FALSE, 8) THEN Ok(<<1>>)
         ELSE Err("OverflowError")
    ELSE IF t.signed
    THEN LET r == AsLongLong(v) IN
         IF ~r.ok THEN r
         ELSE LET tmp == Dec(r.c, TRUE)
                  hi  == PyInt(FALSE, MaxMagS(t.size))      \* (1ULL<<(SIZE-1)) - 1
                  lo  == PyInt(TRUE, MinMagS(t.size))       \* 0ULL - (1ULL<<(SIZE-1))
              IN IF IntCmp(tmp, hi) > 0 \/ IntCmp(tmp, lo) < 0 THEN Err("OverflowError")
                 ELSE Ok(Trunc(r.c, t.size))
    ELSE LET r == AsULongLong(v) IN
         IF ~r.ok THEN r
         ELSE LET tmp == Dec(r.c, FALSE)
                  hi  == PyInt(FALSE, Ones(t.size))         \* ~((ull)-2 << (SIZE-1))
              IN IF (IF variant = "api_uge" THEN IntCmp(tmp, hi) >= 0 ELSE IntCmp(tmp, hi) > 0)
                 THEN Err("OverflowError") ELSE Ok(Trunc(r.c, t.size))

\* the rule both have to implement
IdealInt(t, v) == IF t.k = "bool" THEN ConvBool(v) ELSE ConvInt(t, v)
-----------------------------------------------------------------------------
(* 6. C14, the ideal: what the C caller of a callback / extern "Python" function receives.
      c = [rt, body, retv, haserr, errv, onerr, onv], see CallCb.tla *)
RECURSIVE FlatFields(_, _, _)
FlatFields(ts, cs, i) == IF i > Len(ts) THEN <<>> ELSE BytesOf(ts[i], cs[i]) \o FlatFields(ts, cs, i + 1)
\* bytes of a C value of type t (structs: fields in order; padding is not modelled)
ImgOf(t, c) == CASE t.k = "struct" -> FlatFields(t.fields, c, 1)
                 [] t.k = "complex" -> c.re.img \o c.im.img
                 [] t.k = "ldouble" -> c.img
                 [] t.k = "ptr" -> <<c>>        \* one opaque digit-free token: addresses are not modelled
                 [] t.k = "void" -> <<>>
                 [] OTHER -> BytesOf(t, c)
RECURSIVE SizeT(_), SumSizes(_, _)
SumSizes(ts, i) == IF i > Len(ts) THEN 0 ELSE SizeT(ts[i]) + SumSizes(ts, i + 1)
SizeT(t) == CASE t.k = "struct" -> SumSizes(t.fields, 1)
              [] t.k = "complex" -> t.size
              [] t.k = "ldouble" -> 8           \* (its image here; the C object has 16 bytes)
              [] t.k = "ptr" -> 1              \* (token) -- pointers are never widened: size = ffi_arg
              [] t.k = "void" -> 0
              [] OTHER -> SizeOf(t)
\* conversion of a Python value to the result type (void accepts exactly None)
ConvRes(t, v) == IF t.k = "void" THEN (IF v.k = "none" THEN Ok(<<>>) ELSE Err("TypeError"))
                 ELSE ConvertItem(t, v)
\* the all-zero image (a pointer is one token: NULL)
ZeroImg(t) == IF t.k = "ptr" THEN <<Null>> ELSE Zeros(SizeT(t))
ErrBytes(c) == IF c.haserr THEN ImgOf(c.rt, ConvRes(c.rt, c.errv).c) ELSE ZeroImg(c.rt)
\* <<bytes>> the C caller must receive, or <<>> where the property does not say
\* (onerror returned a value that cannot be converted)
Want(c) ==
    LET r == ConvRes(c.rt, c.retv) IN
    IF c.body = "ret" /\ r.ok THEN <<ImgOf(c.rt, r.c)>>
    ELSE IF c.onerr = "value"
         THEN LET o == ConvRes(c.rt, c.onv) IN IF o.ok THEN <<ImgOf(c.rt, o.c)>> ELSE <<>>
    ELSE <<ErrBytes(c)>>


-----------------------------------------------------------------------------
(* 7. storing a struct given by value, as the code does it (argument slot of cdata_call,
      local variable of the generated _cffi_f_ wrapper, result buffer of a callback):
      the destination holds garbage; [memset 0]; then the initializer is converted field by
      field -- a cdata struct is copied whole, a list/tuple writes the leading fields, a dict
      the named ones; a failing field stops the conversion (earlier fields are written).
      zero = FALSE is the behaviour before the fixes 49ab91f / d72c0a3 / b07fef6. *)
RECURSIVE FieldOff(_, _)
FieldOff(t, i) == IF i = 1 THEN 0 ELSE FieldOff(t, i - 1) + SizeT(t.fields[i - 1])
RECURSIVE StoreFields(_, _, _, _, _)
\* idx[j] = field number receiving vs[j]; returns [ok, exc, b]
StoreFields(b, t, idx, vs, j) ==
    IF j > Len(vs) THEN [ok |-> TRUE, exc |-> "", b |-> b]
    ELSE LET f == t.fields[idx[j]]
             r == ConvertItem(f, vs[j])
         IN IF ~r.ok THEN [ok |-> FALSE, exc |-> r.exc, b |-> b]
            ELSE StoreFields(Splice(b, FieldOff(t, idx[j]), ImgOf(f, r.c)), t, idx, vs, j + 1)
StructStore(b, t, v, zero) ==
    LET b0 == IF zero THEN Splice(b, 0, Zeros(SizeT(t))) ELSE b IN
    CASE v.k = "cstruct" ->
           IF v.ct # t THEN [ok |-> FALSE, exc |-> "TypeError", b |-> b0]
           ELSE StoreFields(b0, t, TLCEval([j \in 1..Len(t.fields) |-> j]), v.vals, 1)
      [] v.k = "list" ->
           IF Len(v.items) > Len(t.fields) THEN [ok |-> FALSE, exc |-> "ValueError", b |-> b0]
           ELSE StoreFields(b0, t, TLCEval([j \in 1..Len(v.items) |-> j]), v.items, 1)
      [] v.k = "dict" -> StoreFields(b0, t, v.keys, v.items, 1)
      [] OTHER -> [ok |-> FALSE, exc |-> "TypeError", b |-> b0]

\* a list/tuple passed for a `struct S *` parameter (_cffi_convert_array_argument in
\* _cffi_include.h and its copy in vengine_cpy.py, cdata_call): the temporary array comes from
\* alloca() up to Thr bytes, from PyObject_Malloc beyond -- garbage either way --, is memset to
\* zero, and every item is converted into its slot (only the fields the item names).
\* variant "heap_nozero": the memset is skipped for the malloc'ed array.
RECURSIVE TmpItems(_, _, _, _)
TmpItems(b, t, items, i) ==
    IF i > Len(items) THEN b
    ELSE LET sz == SizeT(t)
             slot == SubSeq(b, (i - 1) * sz + 1, i * sz)
             r == StructStore(slot, t, items[i], FALSE)
         IN TmpItems(Splice(b, (i - 1) * sz, r.b), t, items, i + 1)
TmpArrayStore(t, items, thr, variant) ==
    LET n == Len(items) * SizeT(t)
        g == TLCEval([j \in 1..n |-> Base - 1])
        b0 == IF variant = "heap_nozero" /\ n > thr THEN g ELSE Zeros(n)
    IN TmpItems(b0, t, items, 1)
RECURSIVE IdealItems(_, _, _)
IdealItems(t, items, i) == IF i > Len(items) THEN <<>>
                           ELSE ImgOf(t, ConvStruct(t, items[i]).c) \o IdealItems(t, items, i + 1)

-----------------------------------------------------------------------------
(* 8. C14: the argument slots of an extern "Python" function (recompiler._extern_python_decl
      writes them, general_invoke_callback(0, ...) reads them).  The generated C wrapper has
      `char a[8 * nargs]`; argument i is stored at a + 8*i -- by value if it is "small", else
      the slot receives a pointer to it; the decoder applies the same test.
      Sizes are the real ones in bytes.  byref = "impl": what the code does (long double, struct,
      union by reference -- a 16-byte double _Complex by value!);  byref = "wide": every
      argument wider than a slot by reference. *)
SlotSize(t) == CASE t.k = "complex" -> t.size [] t.k = "ldouble" -> 16 [] t.k = "struct" -> 16
                 [] t.k = "ptr" -> 8 [] OTHER -> SizeOf(t)
ByRef(t, byref) == IF byref = "impl" THEN t.k \in {"ldouble", "struct"} ELSE SlotSize(t) > 8
SlotTok(kind, i, n) == TLCEval([j \in 1..n |-> <<kind, i, j>>])
RECURSIVE SlotsWritten(_, _, _, _)
\* the buffer after the wrapper stored arguments i.. in order (a store may run over the next slot)
SlotsWritten(b, ts, i, byref) ==
    IF i > Len(ts) THEN b
    ELSE LET toks == IF ByRef(ts[i], byref) THEN SlotTok("ref", i, 8) ELSE SlotTok("val", i, SlotSize(ts[i]))
             room == Len(b) - (i - 1) * 8
             kept == SubSeq(toks, 1, IF Len(toks) <= room THEN Len(toks) ELSE room)
         IN SlotsWritten(Splice(b, (i - 1) * 8, kept), ts, i + 1, byref)
SlotBuf(ts) == TLCEval([j \in 1..(IF Len(ts) = 0 THEN 8 ELSE 8 * Len(ts)) |-> <<"free", 0, 0>>])
\* every store stays inside `char a[]`
SlotsInBounds(ts, byref) == \A i \in 1..Len(ts) :
    (i - 1) * 8 + (IF ByRef(ts[i], byref) THEN 8 ELSE SlotSize(ts[i])) <= Len(SlotBuf(ts))
\* the decoder finds every argument as it was stored
SlotsExact(ts, byref) ==
    LET b == SlotsWritten(SlotBuf(ts), ts, 1, byref) IN
    \A i \in 1..Len(ts) :
        LET want == IF ByRef(ts[i], byref) THEN SlotTok("ref", i, 8) ELSE SlotTok("val", i, SlotSize(ts[i]))
            have == SubSeq(b, (i - 1) * 8 + 1, IF (i - 1) * 8 + Len(want) <= Len(b) THEN (i - 1) * 8 + Len(want) ELSE Len(b))
        IN have = SubSeq(want, 1, Len(have)) /\ Len(have) = Len(want)
=============================================================================
