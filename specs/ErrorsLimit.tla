---------------------------- MODULE ErrorsLimit ----------------------------
(* C30, the complexity limit of the C type-string parser: _ffi_type (src/c/ffi_obj.c:182) gives
   parse_c_type an opcode buffer of FFI_COMPLEXITY_OUTPUT = 1200 entries, and every write goes
   through write_ds (parse_c_type.c:209), which refuses index >= 1200 with ffi.error
   'internal type complexity limit reached'.  Hence the rule used by Errors!CompiledG:
        a type string that NEEDS more than Limit opcodes must be rejected with ffi.error
   (accepting it means that something was written past the buffer).

   NeedOps(toks) counts, on the token level, what the parser writes for the strings of the
   family below: one opcode per base type, per '*', per grouping parenthesis (OP_NOOP), two per
   '[n]', one per '[]', and per parameter list OP_FUNCTION + (commas + 1) argument slots +
   OP_FUNCTION_END.  TLC checks NeedOps against the length of the opcode array that the
   transcription of parse_c_type.c (CDeclRead!PComplete) produces, for every small member of
   the family, together with Tokenize(Text) = Family (invariant CountLaw), and prints the near-limit members with their need for the
   replayer:  <<"L", k, p, n, need, text>>.

   Family(k, p, n) =  void ( * ) ( int , {k times}  int * , {p times}  Tail(n) )
   Tail(0) = int ( * ) ( )           Tail(n) = int ( * ) ( Tail(n-1) ) [ 2 ]              *)
EXTENDS CDeclRead

CONSTANTS KS, PS, NS,      \* the parameters to enumerate
          Mode             \* "law": check CountLaw (small parameters); "emit": print need and text
Limit == 1200

RECURSIVE TailToks(_)
TailToks(n) == IF n = 0 THEN <<"int", "(", "*", ")", "(", ")">>
               ELSE <<"int", "(", "*", ")", "(">> \o TailToks(n - 1) \o <<")", "[", "2", "]">>
(* no recursion over k: the members near the limit have about 1 800 tokens *)
Family(k, p, n) == <<"void", "(", "*", ")", "(">>
                   \o [i \in 1..(2 * k) |-> IF i % 2 = 1 THEN "int" ELSE ","]
                   \o [i \in 1..(3 * p) |-> IF i % 3 = 1 THEN "int" ELSE IF i % 3 = 2 THEN "*" ELSE ","]
                   \o TailToks(n) \o <<")">>

Count(s, Q(_, _)) == Cardinality({i \in 1..Len(s) : Q(s, i)})
IsBase(s, i)  == s[i] \in {"int", "void"}
IsStar(s, i)  == s[i] = "*"
IsGroup(s, i) == s[i] = "(" /\ At(s, i + 1) = "*"
IsParams(s, i) == s[i] = "(" /\ At(s, i + 1) # "*"
IsComma(s, i) == s[i] = ","
IsArrN(s, i)  == s[i] = "[" /\ At(s, i + 1) # "]"
IsArr0(s, i)  == s[i] = "[" /\ At(s, i + 1) = "]"
NeedOps(s) == Count(s, IsBase) + Count(s, IsStar) + Count(s, IsGroup) + Count(s, IsComma)
              + 3 * Count(s, IsParams) + 2 * Count(s, IsArrN) + Count(s, IsArr0)

RECURSIVE RepStr(_, _), TailText(_)
RepStr(x, n) == IF n = 0 THEN "" ELSE IF n % 2 = 0 THEN LET h == RepStr(x, n \div 2) IN h \o h ELSE x \o RepStr(x, n - 1)
TailText(n) == IF n = 0 THEN "int(*)()" ELSE "int(*)(" \o TailText(n - 1) \o ")[2]"
Text(k, p, n) == "void(*)(" \o RepStr("int, ", k) \o RepStr("int*, ", p) \o TailText(n) \o ")"

VARIABLES k, p, n
lvars == <<k, p, n>>
Init == k \in KS /\ p \in PS /\ n \in NS
Spec == Init /\ [][UNCHANGED lvars]_lvars

(* the counting rule agrees with the transcribed parser (which has no limit) *)
CountLaw == Mode = "law" =>
               LET r == PComplete(Family(k, p, n), 1, << >>)
               IN /\ ~IsErr(r) /\ Len(r.out) = NeedOps(Family(k, p, n))
                  /\ Tokenize(Text(k, p, n)) = Family(k, p, n)
Emit == Mode = "emit" =>
           LET f == Family(k, p, n)
               need == NeedOps(f)
           IN (need >= Limit - 6 /\ need <= Limit + 6) => PrintT(ToString(<<"L", k, p, n, need, Text(k, p, n)>>))
=============================================================================
