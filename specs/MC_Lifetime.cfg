SPECIFICATION Spec
CONSTANTS Ids = {1,2,3}
  MaxAddr = 2
  Variant = "faithful"
VIEW View
PROPERTY RefinesIdeal
INVARIANT NoLeak
INVARIANT ExportsExact
INVARIANT ArmedAgree
CHECK_DEADLOCK FALSE
