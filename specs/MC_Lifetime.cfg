SPECIFICATION Spec
CONSTANTS Ids = {1,2}
  MaxAddr = 2
  Variant = "faithful"
  KindsOn = {"P","S","W","A","T","V","E","H"}
VIEW View
PROPERTY RefinesIdeal
INVARIANT NoLeak
INVARIANT ExportsExact
INVARIANT ArmedAgree
CHECK_DEADLOCK FALSE
