SPECIFICATION Spec
CONSTANTS ISz = 2
  RootLen = 2
  RootKind = "arr"
  MaxViews = 3
  MaxSteps = 3
  IdxNeg = 1
  IdxHi = 3
  Seeds = {17}
  Prune = FALSE
  Variant = "faithful"
VIEW StateView
INVARIANT SafeInside
INVARIANT NoOOBValue
INVARIANT MemIsBytes
INVARIANT Laws
PROPERTY RefinesIdeal
CHECK_DEADLOCK FALSE
