------------------------------ MODULE MC_ConstExpr ------------------------------
(* Design-level check of C09 with int = 8 bits, long = 10 bits: every expression tree grown from
   a leaf by wrapping it MaxDepth times in an operator whose other operand is a leaf ("comb"
   trees; both operand orders; the ten binary and two unary operators).  Leaves: integer
   constants around every type boundary, in decimal and hexadecimal, with and without u / l
   suffix, plain and escaped character constants.
     Mode "full"  : 79 leaves (MaxDepth 1 gives every operator applied to every pair of leaves)
     Mode "mid"   : 37 leaves (quick tier)
     Mode "small" : 8 leaves, deeper trees
   Invariant AgreeKnown: wherever C defines the value, cffi's untyped evaluation gives the same
   value OR the first node where the two part belongs to one of the recorded classes
   (ConstExpr!KnownClass: unsigned wrap-around, negative operand converted to unsigned).  AgreeExact
   (no exception) must be violated: the classes are real.  Variant "ordchr" (character constants
   evaluated as before fix 4d735ce) must violate AgreeKnown.
   Every defined tree is printed as <<"EXPR", enc>> for replay at the true widths.          *)
EXTENDS ConstExpr
CONSTANTS Mode, MaxDepth, PrintFrom
VARIABLES enc, depth       \* enc: <<"leaf", index>> | <<op, enc>> | <<op, enc, enc>>

Lit(b, v, s) == [op |-> "lit", base |-> b, mag |-> NFromInt(v), suf |-> s]
Chr(esc, ch) == [op |-> "chr", esc |-> esc, ch |-> ch]
FullVals == <<0, 1, 2, 3, 7, 127, 128, 255, 256, 511, 512, 1023>>
FullLeaves ==
  [i \in 1..(Len(FullVals) * 6) |->
     LET v == FullVals[((i - 1) \div 6) + 1]
         j == (i - 1) % 6
     IN Lit(IF j < 3 THEN "dec" ELSE "hex", v, <<"", "u", "l">>[(j % 3) + 1])]
  \o <<Chr(FALSE, 97), Chr(FALSE, 48), Chr(TRUE, 110), Chr(TRUE, 116), Chr(TRUE, 48), Chr(TRUE, 92), Chr(TRUE, 55)>>
SmallLeaves == <<Lit("dec", 1, ""), Lit("dec", 2, ""), Lit("hex", 127, ""), Lit("hex", 255, ""),
                 Lit("dec", 3, "u"), Chr(TRUE, 110), Chr(FALSE, 97), Lit("hex", 511, "")>>
MidVals == <<0, 1, 2, 127, 128, 255, 256, 1023>>
MidLeaves ==
  [i \in 1..(Len(MidVals) * 4) |->
     LET v == MidVals[((i - 1) \div 4) + 1]
         j == (i - 1) % 4
     IN Lit(IF j < 2 THEN "dec" ELSE "hex", v, <<"", "u">>[(j % 2) + 1])]
  \o <<Chr(FALSE, 97), Chr(TRUE, 110), Chr(TRUE, 48), Chr(TRUE, 92), Chr(TRUE, 55)>>
Leaves == CASE Mode = "full" -> FullLeaves [] Mode = "mid" -> MidLeaves [] OTHER -> SmallLeaves
BinOps == {"+", "-", "*", "/", "%", "<<", ">>", "&", "|", "^"}

RECURSIVE Dec(_)
Dec(x) == IF x[1] = "leaf" THEN Leaves[x[2]]
          ELSE IF Len(x) = 2 THEN [op |-> x[1], a |-> Dec(x[2])]
          ELSE [op |-> x[1], a |-> Dec(x[2]), b |-> Dec(x[3])]
expr == Dec(enc)

Init == enc \in {<<"leaf", i>> : i \in 1..Len(Leaves)} /\ depth = 0
Grow(x) == /\ depth < MaxDepth /\ enc' = x /\ depth' = depth + 1
           /\ (depth' >= PrintFrom /\ Defined(Dec(x)) => PrintT(<<"EXPR", x>>))
Next == \/ \E o \in {"neg", "pos"} : Grow(<<o, enc>>)
        \/ \E o \in BinOps : \E l \in 1..Len(Leaves) : Grow(<<o, enc, <<"leaf", l>>>>) \/ Grow(<<o, <<"leaf", l>>, enc>>)
Spec == Init /\ [][Next]_<<enc, depth>>

AgreeKnown == AgreeModuloKnown(expr)
AgreeExact == AgreeExactly(expr)
ASSUME PrintT(<<"LEAVES", Leaves>>)
=============================================================================
