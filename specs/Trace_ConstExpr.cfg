SPECIFICATION TSpec
CONSTANTS LB = 15
  IntBits = 32
  LongBits = 64
  Variant = "faithful"
CHECK_DEADLOCK FALSE
