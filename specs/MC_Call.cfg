SPECIFICATION Spec
CONSTANTS Base = 4
  Window = 300
  Edge = 3
  Variant = "faithful"
INVARIANT ApiIsRule
INVARIANT FfiIsRule
INVARIANT PathsAgree
INVARIANT ApiStructIsRule
INVARIANT FfiStructIsRule
INVARIANT DigitsSound
CHECK_DEADLOCK FALSE
