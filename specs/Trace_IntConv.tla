------------------------------ MODULE Trace_IntConv ------------------------------
(* Validates records of real integer conversions (any magnitude, true widths) against the
   ideal of C02/C03/C04.  Integers are BV bit sequences; memory is a sequence of bytes.
   One verdict per record: "ok" or the first failing clause.  *)
EXTENDS BV, Json, IOUtils, TLC
R == JsonDeserialize(IOEnv.TRACE_FILE)

Accepts(w, kind, v) == CASE kind = "bool" -> ~IsNeg(v) /\ MagLt2Pow(v.mag, 1)
                         [] kind = "signed" -> FitsSigned(v, w)
                         [] kind = "unsigned" -> FitsUnsigned(v, w)
Window(bits, from, n) == [i \in 1..n |-> bits[from + i]]
Decode(bits, kind) == IF kind = "signed" THEN FromSigned(bits) ELSE FromUnsigned(bits)

StoreClause(r) ==
    LET acc == Accepts(r.w, r.kind, r.v) IN
    IF r.out \notin {"ok", "overflow"} THEN "outcome-class"
    ELSE IF (r.out = "ok") # acc THEN "accept-iff-in-range"
    ELSE IF r.out = "overflow" THEN (IF r.after = r.before THEN "ok" ELSE "unchanged-on-reject")
    ELSE IF Window(BytesBits(r.after), 0, r.w) # Twos(r.v, r.w) THEN "stored-bytes"
    ELSE IF r.rberr \/ (r.hasrb /\ ~Eq(r.rb, r.v)) THEN "readback"
    ELSE "ok"

BfAccepts(kind, bs, v) == Accepts(bs, kind, v) \/ (kind = "signed" /\ bs = 1 /\ ~IsNeg(v) /\ MagIs2Pow(v.mag, 0))
MinusOne == [neg |-> TRUE, mag |-> <<1>>]
BfClause(r) ==
    LET acc == BfAccepts(r.kind, r.bs, r.v)
        b0 == BytesBits(r.before)
        b1 == BytesBits(r.after)
        lo == r.foff + r.sh
        expect == IF r.kind = "signed" /\ r.bs = 1 /\ ~IsZero(r.v) /\ ~IsNeg(r.v) THEN MinusOne ELSE r.v
    IN
    IF r.out \notin {"ok", "overflow"} THEN "outcome-class"
    ELSE IF (r.out = "ok") # acc THEN "accept-iff-in-range"
    ELSE IF r.out = "overflow" THEN (IF r.after = r.before THEN "ok" ELSE "unchanged-on-reject")
    ELSE IF Window(b1, lo, r.bs) # Twos(r.v, r.bs) THEN "stored-bits"
    ELSE IF \E i \in 1..Len(b1) : (i <= lo \/ i > lo + r.bs) /\ b1[i] # b0[i] THEN "isolation"
    ELSE IF ~Eq(r.rb, expect) THEN "readback"
    ELSE IF r.hascrb /\ ~Eq(r.crb, r.rb) THEN "c-reads-same"
    ELSE "ok"

\* a read of arbitrary storage: Python and C read the value the bits denote
BfReadClause(r) ==
    LET b == BytesBits(r.mem)
        val == Decode(Window(b, r.foff + r.sh, r.bs), r.kind)
    IN IF r.out # "ok" THEN "outcome-class"
       ELSE IF ~Eq(r.rb, val) THEN "read-value"
       ELSE IF r.hascrb /\ ~Eq(r.crb, val) THEN "c-reads-same"
       ELSE "ok"

CastClause(r) ==
    LET x == Scale(r.src, r.e)
        want == IF r.kind = "bool" THEN [neg |-> FALSE, mag |-> <<IF IsZero(r.src) THEN 0 ELSE 1>>]
                ELSE Decode(Twos(x, r.w), r.kind)
    IN IF r.out # "ok" THEN "cast-must-succeed"
       ELSE IF ~Eq(r.res, want) THEN "cast-value"
       ELSE "ok"

EqClause(r) == IF r.out = "ok" /\ Eq(r.a, r.b) THEN "ok" ELSE "round-trip"

Clause(r) == CASE r.op = "store" -> StoreClause(r)
               [] r.op = "bf" -> BfClause(r)
               [] r.op = "bfread" -> BfReadClause(r)
               [] r.op = "cast" -> CastClause(r)
               [] r.op = "eq" -> EqClause(r)
               [] OTHER -> "unknown-op"

ASSUME \A i \in 1..Len(R) : LET c == Clause(R[i]) IN c = "ok" \/ PrintT(<<"BAD", R[i].id, c>>)
ASSUME PrintT(<<"CHECKED", Len(R)>>)

VARIABLE x
Spec == x = 0 /\ [][UNCHANGED x]_x
=============================================================================
