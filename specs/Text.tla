------------------------------ MODULE Text ------------------------------
(* C15 - implementation model of the string paths of _cffi_backend.c / wchar_helper_3.h,
   operator per C function, and a small machine (one character array, repeatedly assigned
   and poked) on which TLC compares the model with the clauses of TextIdeal.

   `v' is the model variant:
     "faithful"  the code as it is in the pinned tree
     "fixed"     with the proposed repair (wide converters write the terminator when room)
     "nocount16" / "alwaysterm" / "lastpair"   deliberately broken (non-vacuity)          *)
EXTENDS TextIdeal

\* ------------------------------------------------------------------ wchar_helper_3.h
\* _my_PyUnicode_SizeAsChar16: length + number of code points > 0xFFFF
SizeAsChar16(v, s) == IF v = "nocount16" THEN Len(s)
                      ELSE Len(s) + Cardinality({i \in 1..Len(s) : s[i] > 65535})
\* _my_PyUnicode_SizeAsChar32
SizeAsChar32(s) == Len(s)
SizeAs(v, W, s) == IF W = 2 THEN SizeAsChar16(v, s) ELSE Len(s)

\* _my_PyUnicode_AsChar16: the copy loop (never looks at resultlen)
RECURSIVE AsChar16(_, _, _)
AsChar16(s, i, out) ==
  IF i > Len(s) THEN out
  ELSE LET o == s[i] IN
       IF o > 65535
         THEN AsChar16(s, i + 1, out \o << 55296 + ((o - 65536) \div 1024),      \* 0xD800 | (ordinal >> 10)
                                           56320 + ((o - 65536) % 1024) >>)      \* 0xDC00 | (ordinal & 0x3FF)
         ELSE AsChar16(s, i + 1, Append(out, o))
\* _my_PyUnicode_AsChar32 = PyUnicode_AsUCS4(unicode, result, resultlen, copy_null = 0)
AsChar32(s) == s

\* _my_PyUnicode_FromChar16: first pass counts pairs (i < size - 1), then fast or slow path
CountSurr(v, u) == LET last == IF v = "lastpair" THEN Len(u) - 2 ELSE Len(u) - 1
                   IN Cardinality({i \in 1..last : IsHigh(u[i]) /\ IsLow(u[i + 1])})
RECURSIVE Slow16(_, _, _)
Slow16(u, i, out) ==
  IF i > Len(u) THEN out
  ELSE IF IsHigh(u[i]) /\ i < Len(u) /\ IsLow(u[i + 1])
       THEN Slow16(u, i + 2, Append(out, ((u[i] % 1024) * 1024 + (u[i + 1] % 1024)) + 65536))
       ELSE Slow16(u, i + 1, Append(out, u[i]))
FromChar16(v, u) == IF CountSurr(v, u) = 0 THEN u ELSE Slow16(u, 1, <<>>)
\* the slow path fills a string allocated with size - count_surrogates characters
FromChar16LenOK(v, u) == CountSurr(v, u) # 0 => Len(Slow16(u, 1, <<>>)) = Len(u) - CountSurr(v, u)
FromUnits(v, W, u) == IF W = 2 THEN FromChar16(v, u) ELSE u

\* ------------------------------------------------------------------ _cffi_backend.c
\* memcpy-like write of `src' at the start of `mem'; ovf = wrote past the end of the array
Write(mem, src) == [mem |-> [i \in 1..Len(mem) |-> IF i <= Len(src) THEN src[i] ELSE mem[i]],
                    ovf |-> Len(src) > Len(mem), err |-> "none"]

\* convert_array_from_object (:1476), string initializer; ctlen = ct->ct_length (-1: 'T[]')
ConvertArrayFromStr(v, W, ctlen, mem, s) ==
  LET n0 == SizeAs(v, W, s) IN
  IF ctlen >= 0 /\ n0 > ctlen THEN [mem |-> mem, ovf |-> FALSE, err |-> "IndexError"]
  ELSE LET n == IF n0 # ctlen \/ v = "alwaysterm" THEN n0 + 1 ELSE n0 IN     \* if (n != ct->ct_length) n++;
       CASE W = 1 -> Write(mem, SubSeq(s \o <<0>>, 1, n))       \* memcpy(data, srcdata, n): bytes objects end with NUL
         [] W = 2 -> Write(mem, AsChar16(s, 1, <<>>) \o (IF v = "fixed" /\ n > n0 THEN <<0>> ELSE <<>>))
         [] W = 4 -> Write(mem, AsChar32(s) \o (IF v = "fixed" /\ n > n0 THEN <<0>> ELSE <<>>))

Zeros(n) == [i \in 1..n |-> 0]
\* direct_newp (:3833) for 'T[decl]' / 'T[]' (decl < 0): get_new_array_length = size + 1, calloc, convert
ImplNew(v, W, decl, s) ==
  LET len == IF decl < 0 THEN SizeAs(v, W, s) + 1 ELSE decl
  IN ConvertArrayFromStr(v, W, decl, Zeros(len), s)

\* b_string (:6759): the scan loops; isarr = cdata is an array (else a pointer)
RECURSIVE Scan(_, _, _)
Scan(mem, maxlen, length) ==
  IF (maxlen < 0 \/ length < maxlen) /\ length < Len(mem) /\ mem[length + 1] # 0
    THEN Scan(mem, maxlen, length + 1) ELSE length
ImplString(v, W, mem, isarr, maxlen) ==
  LET length0 == IF maxlen < 0 /\ isarr THEN Len(mem) ELSE maxlen
  IN FromUnits(v, W, SubSeq(mem, 1, Scan(mem, length0, 0)))
\* b_unpack (:6871), character items
ImplUnpack(v, W, mem, n) == FromUnits(v, W, SubSeq(mem, 1, n))

\* ------------------------------------------------------------------ the machine
CONSTANTS Widths, MaxL, CPs, MaxS, Variant
VARIABLES W, mem, old, op, ovf
vars == <<W, mem, old, op, ovf>>

CPsOf(w)   == IF w = 1 THEN {c \in CPs : c <= 255} ELSE CPs
Strs(w)    == UNION {[1..n -> CPsOf(w)] : n \in 0..MaxS}
UnitsOf(w) == {0} \cup UNION {{Units(w, <<c>>)[i] : i \in 1..Len(Units(w, <<c>>))} : c \in CPsOf(w)}

Init == \E w \in Widths, decl \in {0 - 1} \cup (1..MaxL) : \E s \in Strs(w) :
          /\ IF decl >= 0 THEN SizeAs(Variant, w, s) <= decl ELSE SizeAs(Variant, w, s) < MaxL
          /\ LET r == ImplNew(Variant, w, decl, s) IN
               /\ W = w /\ mem = r.mem /\ ovf = r.ovf
               /\ old = Zeros(Len(r.mem))
               /\ op = [k |-> "new", s |-> s, decl |-> decl]

Assign(s) == LET r == ConvertArrayFromStr(Variant, W, Len(mem), mem, s) IN
               /\ op.k = "idle"
               /\ mem' = r.mem /\ old' = mem /\ ovf' = (ovf \/ r.ovf)
               /\ op' = [k |-> IF r.err = "none" THEN "assign" ELSE "toolong", s |-> s, decl |-> Len(mem)]
               /\ UNCHANGED W
SetUnit(i, c) == /\ op.k = "idle" /\ mem[i] # c
                 /\ mem' = [mem EXCEPT ![i] = c] /\ old' = mem
                 /\ op' = [k |-> "set", s |-> <<c>>, decl |-> i]
                 /\ UNCHANGED <<W, ovf>>
\* Operations start from a state without history ("idle"): the outcome of an operation
\* depends on W and mem only, so this keeps the graph at |mem| * |operations| states.
Forget == /\ op.k # "idle"
          /\ op' = [k |-> "idle", s |-> <<>>, decl |-> 0] /\ old' = mem
          /\ UNCHANGED <<W, mem, ovf>>
Next == \/ \E s \in Strs(W) : Assign(s)
        \/ \E i \in 1..Len(mem), c \in UnitsOf(W) : SetUnit(i, c)
        \/ Forget
Spec == Init /\ [][Next]_vars

\* ---- the clauses of the property, on the model
Storing   == op.k \in {"new", "assign"}
L         == Len(mem)
PrefixWritten       == Storing => UnitsWrittenG(W, op.s, mem)
TerminatorWritten   == Storing => TerminatorG(W, op.s, mem)
TerminatorWritten1  == W = 1 => TerminatorWritten
TailUnchanged       == Storing => TailG(W, op.s, old, mem)
NewLength           == op.k = "new" => NewLenG(W, op.decl, op.s, mem)
RoundTripAll        == op.k = "new" /\ op.decl < 0 /\ NoZero(op.s)
                          => RoundTripG(op.s, ImplString(Variant, W, mem, TRUE, 0 - 1))
RoundTrip           == (W = 2 /\ LonePair(op.s)) \/ RoundTripAll
StopsAtFirstZero    == \A maxlen \in (0 - 1)..L, isarr \in BOOLEAN :
                          (isarr \/ maxlen >= 0 \/ \E i \in 1..L : mem[i] = 0)
                            => ImplString(Variant, W, mem, isarr, maxlen) = String(W, mem, Bound(L, maxlen))
UnpackExact         == \A n \in 0..L : LET r == ImplUnpack(Variant, W, mem, n) IN
                          r = UnpackV(W, mem, n) /\ Units(W, r) = SubSeq(mem, 1, n)
\* ---- internal consistency of the model (memory safety of the transcribed loops)
NoOverflow          == ~ovf
FromChar16Len       == W = 2 => \A n \in 0..L : FromChar16LenOK(Variant, SubSeq(mem, 1, n))
Rejected            == op.k = "toolong" => mem = old /\ ~Fits(W, L, op.s)
\* ---- lemmas about the ideal encoding itself (UTF-16 facts the property rests on)
EncodeDecode        == Units(W, Decode(W, mem)) = mem
DecodeEncode        == Storing => ((Decode(W, Units(W, op.s)) = op.s) <=> ~(W = 2 /\ LonePair(op.s)))
=============================================================================
