SPECIFICATION Spec
CONSTANTS Threads = {1,2,3}
  Tags = {"A","B"}
  MaxCalls = 1
  Variant = "faithful"
INVARIANT MutexF
INVARIANT LockSafe
PROPERTY RefinesIdeal
CHECK_DEADLOCK FALSE
