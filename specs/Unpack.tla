------------------------------- MODULE Unpack -------------------------------
(* C18, exhaustive comparison of the b_unpack model with the element-wise definition
   (operators: UnpackOps.tla).  Every initial state is one case: item type, start
   misalignment, memory contents, item count, and the implementation model's result. *)
EXTENDS UnpackOps
CONSTANTS MaxN,      \* items per case
          Big        \* TRUE: one item from the large per-size alphabets; FALSE: up to MaxN items, small alphabets

VARIABLES ty, mis, mem, cnt, out
vars == <<ty, mis, mem, cnt, out>>

AlphaBig(sz) == CASE sz = 1 -> 0..255
                  [] sz = 2 -> {0, 1, 2, 65, 127, 128, 216, 219, 220, 223, 255}
                  [] sz = 4 -> {0, 1, 16, 17, 128, 255}
                  [] OTHER  -> {0, 128, 255}
PatsBig(sz) == IF sz <= 4 THEN [1..sz -> AlphaBig(sz)]
               ELSE {[k \in 1..sz |-> IF k = sz THEN hi ELSE IF k = 1 THEN lo ELSE IF k % 2 = 0 THEN a ELSE b] :
                        hi \in {0, 1, 127, 128, 255}, lo \in {0, 1, 255}, a \in {0, 255}, b \in {0, 128, 255}}
PatsSmall(sz) == CASE sz = 1 -> {<<0>>, <<1>>, <<2>>, <<255>>}
                   [] sz = 2 -> {<<65, 0>>, <<0, 216>>, <<255, 219>>, <<0, 220>>, <<255, 223>>}
                   [] OTHER  -> {[k \in 1..sz |-> IF k = sz THEN hi ELSE lo] : hi \in {0, 16, 255}, lo \in {0, 255}}
Flat(ss) == LET F[n \in 0..Len(ss)] == IF n = 0 THEN <<>> ELSE F[n - 1] \o ss[n] IN F[Len(ss)]

Init == /\ ty \in Types /\ mis \in 0..7
        /\ IF Big THEN cnt = 1 /\ \E p \in PatsBig(ty.sz) : mem = p
           ELSE /\ cnt \in 0..MaxN
                (* 2-byte characters: the memory may continue after the n items (one more unit) *)
                /\ \E ext \in (IF ty.cls = "char" /\ ty.sz = 2 THEN {0, 1} ELSE {0}) :
                     \E ps \in [1..(cnt + ext) -> PatsSmall(ty.sz)] : mem = Flat(ps)
        /\ out = ImplUnpack(ty, mis, mem, cnt)          \* what the implementation model returns
Next == UNCHANGED vars
Spec == Init /\ [][Next]_vars

(* the fast paths agree with element-wise reading: every item type class x start misalignment x contents *)
FastEqualsGeneric == out \in IdealResults(ty, mem, cnt)
UnitsExact == UnitsAreItems(ty, mem, cnt, out)
(* the implementation's element conversion is the ideal's reading *)
ConvertIsElem == cnt > 0 => ConvertToObject(ty, mem, 0) = ElemAt(ty, mem, 0)
(* fast paths are really taken (non-vacuity of the alignment split) *)
CaseOf == CaseNum(ty, mis)
=============================================================================
