------------------------------ MODULE Trace_InitOnce ------------------------------
(* Validates event traces recorded from the real ffi.init_once implementations against
   the property machine InitOnceIdeal.  One JSON file holds many traces; every trace gets
   a total verdict: "ok", the name of the event whose guard (= property clause) failed
   together with its position, or "unfinished" (a call never returned). *)
EXTENDS InitOnceIdeal, Json, IOUtils, TLC
VARIABLES k, l, bad, reported
Traces == JsonDeserialize(IOEnv.TRACE_FILE)
tvars == <<st, done, k, l, bad, reported>>

TInit == IInit /\ k \in 1..Len(Traces) /\ l = 1 /\ bad = "" /\ reported = FALSE

Guard(e) == CASE e.ev = "call"   -> CallG(e.t, e.g)
              [] e.ev = "fstart" -> FStartG(e.t)
              [] e.ev = "fok"    -> FEndOkG(e.t, e.v)
              [] e.ev = "fexc"   -> FEndExcG(e.t)
              [] e.ev = "ret"    -> ReturnG(e.t, e.v)
              [] e.ev = "exc"    -> RaiseG(e.t)
              [] OTHER -> FALSE
Effect(e) == CASE e.ev = "call"   -> CallE(e.t, e.g)
               [] e.ev = "fstart" -> FStartE(e.t)
               [] e.ev = "fok"    -> FEndOkE(e.t, e.v)
               [] e.ev = "fexc"   -> FEndExcE(e.t)
               [] e.ev = "ret"    -> ReturnE(e.t, e.v)
               [] e.ev = "exc"    -> RaiseE(e.t)

Consume == /\ l <= Len(Traces[k]) /\ bad = ""
           /\ LET e == Traces[k][l] IN
                IF Guard(e) THEN Effect(e) /\ l' = l + 1 /\ UNCHANGED bad
                ELSE bad' = e.ev /\ UNCHANGED <<st, done, l>>
           /\ UNCHANGED <<k, reported>>

AllIdle == \A t \in Threads : st[t].ph = "idle"
Report == /\ (l > Len(Traces[k]) \/ bad # "") /\ ~reported
          /\ PrintT(<<"VERDICT", k, IF bad # "" THEN bad ELSE IF AllIdle THEN "ok" ELSE "unfinished", l>>)
          /\ reported' = TRUE /\ UNCHANGED <<st, done, k, l, bad>>

TNext == Consume \/ Report
TSpec == TInit /\ [][TNext]_tvars
=============================================================================
