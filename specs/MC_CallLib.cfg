SPECIFICATION Spec
CONSTANTS Base = 4
PROPERTY FailedStoreKeeps
PROPERTY StoreIsolated
PROPERTY ReadSeesStore
CHECK_DEADLOCK FALSE
