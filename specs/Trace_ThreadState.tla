------------------------------ MODULE Trace_ThreadState ------------------------------
(* Validates histories recorded from real foreign threads (harness/thr_foreign.py) against the
   property machine ThreadStateIdeal.  One JSON file holds many traces (sequences of events
   [ev, f, tok, seen, v, live, ok]); the first event of a trace is "Init" with the thread states
   left over by earlier histories of the same process (they count as thread states of exited
   threads).  tok/live are thread-state addresses renamed to small integers; live = <<-1>> means
   "not observed at this event" (free-running histories).
   Verdict per trace: <<"VERDICT", k, verdict, position>>, verdict = "ok" or the failing clause
   ("valid", "local", "reclaim", "account") or "ctx:<ev>" for an ill-formed history. *)
EXTENDS ThreadStateIdeal, Integers, Json, IOUtils, TLC
VARIABLES k, l, bad, reported
Traces == JsonDeserialize(IOEnv.TRACE_FILE)
tvars == <<fst, its, loc, saw, dead, zomb, pre, live, k, l, bad, reported>>
Unobserved == -1

ToSet(s) == {s[i] : i \in 1..Len(s)}
\* the interpreter's thread states at the event; if not observed: whatever keeps the state as it is
NL(x) == IF x.live = <<Unobserved>> THEN live ELSE ToSet(x.live)
Observed(x) == x.live # <<Unobserved>>

TInit == /\ k \in 1..Len(Traces) /\ IInit /\ l = 1 /\ bad = "" /\ reported = FALSE

Ctx(x) == CASE x.ev = "Init"     -> l = 1
            [] x.ev = "Spawn"    -> SpawnC(x.f)
            [] x.ev = "CbEnter"  -> CbEnterC(x.f)
            [] x.ev = "SetLocal" -> SetLocalC(x.f)
            [] x.ev = "CbExit"   -> CbExitC(x.f)
            [] x.ev = "Exit"     -> ExitC(x.f)
            [] x.ev = "Quiet"    -> TRUE
            [] OTHER -> FALSE
\* the failing clause of event x, "" if none
Clause(x) == CASE x.ev = "CbEnter" ->
                    IF ~x.ok \/ (Observed(x) /\ x.tok \notin NL(x)) \/ x.tok \in Owned(Running \ {x.f}) THEN "valid"
                    ELSE IF ~LocalG(x.f, x.seen) THEN "local"
                    ELSE IF Observed(x) /\ ~ReclaimG(x.f, NL(x)) THEN "reclaim"
                    ELSE ""
              [] x.ev = "Quiet" -> IF AccountG(NL(x)) THEN "" ELSE "account"
              [] OTHER -> ""
Effect(x) == CASE x.ev = "Init"     -> /\ zomb' = NL(x) /\ live' = NL(x)
                                       /\ UNCHANGED <<fst, its, loc, saw, dead, pre>>
               [] x.ev = "Spawn"    -> SpawnE(x.f, NL(x))
               [] x.ev = "CbEnter"  -> CbEnterE(x.f, x.tok, x.seen, NL(x) \cup {x.tok})
               [] x.ev = "SetLocal" -> SetLocalE(x.f, x.v)
               [] x.ev = "CbExit"   -> CbExitE(x.f, NL(x))
               [] x.ev = "Exit"     -> ExitE(x.f, NL(x) \cup (IF Observed(x) THEN {} ELSE TokOf(x.f)))
               [] x.ev = "Quiet"    -> TauE(NL(x))

Consume == /\ l <= Len(Traces[k]) /\ bad = ""
           /\ LET x == Traces[k][l] IN
                IF ~Ctx(x) THEN bad' = "ctx:" \o x.ev /\ UNCHANGED <<fst, its, loc, saw, dead, zomb, pre, live, l>>
                ELSE IF Clause(x) # "" THEN bad' = Clause(x) /\ UNCHANGED <<fst, its, loc, saw, dead, zomb, pre, live, l>>
                ELSE Effect(x) /\ l' = l + 1 /\ UNCHANGED bad
           /\ UNCHANGED <<k, reported>>

Report == /\ (l > Len(Traces[k]) \/ bad # "") /\ ~reported
          /\ PrintT(<<"VERDICT", k, IF bad # "" THEN bad ELSE "ok", l>>)
          /\ reported' = TRUE /\ UNCHANGED <<fst, its, loc, saw, dead, zomb, pre, live, k, l, bad>>

TNext == Consume \/ Report
TSpec == TInit /\ [][TNext]_tvars
=============================================================================
