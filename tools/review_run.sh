#!/bin/sh
# tools/review_run.sh <seed> <ids...> : run quick checks sequentially, one summary line each
seed="$1"; shift
for id in "$@"; do
  t0=$(date +%s)
  VERIF_SEED=$seed ./check $id --tier quick > /tmp/review/${id}_$seed.log 2>&1; rc=$?
  t1=$(date +%s)
  echo "$id seed=$seed rc=$rc wall=$((t1-t0))s viol=$(grep -c '^VIOLATION' /tmp/review/${id}_$seed.log) known=$(grep -c '^KNOWN-FINDING' /tmp/review/${id}_$seed.log) notes=$(grep -c '^NOTE' /tmp/review/${id}_$seed.log)" >> /tmp/review/summary.txt
done
