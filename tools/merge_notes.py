#!/usr/bin/env python3
"""Rebuilds Appendix B of DESIGN.md (per-property design notes, as built) from design_notes/*.md."""
import glob, os, re
V = os.path.dirname(os.path.dirname(os.path.abspath(__file__)))
p = os.path.join(V, "DESIGN.md")
s = open(p).read()
B, E = "<!-- BEGIN design_notes -->", "<!-- END design_notes -->"
body = [B, "", "## Appendix B — per-property notes as built (generated from design_notes/*.md by tools/merge_notes.py)", ""]
for f in sorted(glob.glob(os.path.join(V, "design_notes", "C*.md"))) + sorted(glob.glob(os.path.join(V, "design_notes", "X*.md"))):
    txt = open(f).read().strip()
    txt = re.sub(r"^# ", "### ", txt, flags=re.M) if txt.startswith("# ") else "### %s\n\n%s" % (os.path.basename(f)[:-3], txt)
    txt = re.sub(r"^## ", "#### ", txt, flags=re.M)
    body += [txt, ""]
body.append(E)
blk = "\n".join(body)
if B in s:
    s = s[:s.index(B)] + blk + s[s.index(E) + len(E):]
else:
    s = s.rstrip() + "\n\n" + blk + "\n"
open(p, "w").write(s)
print("merged", len(glob.glob(os.path.join(V, "design_notes", "C*.md"))), "notes")
