#!/usr/bin/env python3
"""Regenerates /verif/MANIFEST.json from the META dictionaries of props/*.py.
A property without a props module (or whose module sets CLAIM = False) is listed under
not_applicable with its reason from tools/not_applicable.json (default: not built yet)."""
import ast, json, os, re, sys
V = os.path.dirname(os.path.dirname(os.path.abspath(__file__)))
props = [json.loads(l) for l in open(os.path.join(V, "properties.jsonl"))]
na_reasons = {}
p = os.path.join(V, "tools", "not_applicable.json")
if os.path.exists(p):
    na_reasons = json.load(open(p))

REVIEWED = set(open(os.path.join(V, "tools", "reviewed.txt")).read().split())

def meta_of(pid):
    f = os.path.join(V, "props", pid.lower() + ".py")
    if not os.path.exists(f) or pid not in REVIEWED:
        return None
    tree = ast.parse(open(f).read())
    meta, claim = None, True
    for node in tree.body:
        if isinstance(node, ast.Assign) and len(node.targets) == 1 and isinstance(node.targets[0], ast.Name):
            if node.targets[0].id == "META":
                meta = ast.literal_eval(node.value)
            if node.targets[0].id == "CLAIM":
                claim = ast.literal_eval(node.value)
    return meta if claim else None

checks, na = [], []
for pr in props:
    pid = pr["id"]
    m = meta_of(pid)
    if m is None:
        na.append({"property_id": pid, "reason": na_reasons.get(pid, "check not built yet; planned in DESIGN.md §3 " + pid)})
        continue
    checks.append({
        "property_id": pid,
        "quick_cmd": "./check %s --tier quick" % pid,
        "thorough_cmd": "./check %s --tier thorough" % pid,
        "evidence_file": "/verif/evidence/%s.json" % pid,
        "replay_cmd_template": "./check %s --replay {path}" % pid,
        "engine": "tlc",
        "level_claimed": {"category": m["category"], "text": m["text"], "design_ref": m.get("design_ref", "DESIGN.md §3 " + pid)},
        "level_note": m["note"],
        "technique": m["technique"],
    })
man = {
    "version": 1,
    "setup_cmd": "./setup.sh",
    "hooks": {"guard": "PYTHON_CFFI_CFFI_VERIF", "enable": "no source hooks are used: checks rebuild src/c/_cffi_backend.c "
              "from /repo's working tree with plain gcc and import src/cffi from /repo/src; the guard name is reserved",
              "baseline_off_cmd": "cd /repo && /venv/bin/python -m pytest -ra -q -p no:cacheprovider --timeout=900 --continue-on-collection-errors",
              "source_commits": [], "add_only": True},
    "engines": [{"name": "tlc", "path": "/usr/local/bin/tlc", "serves_properties": [c["property_id"] for c in checks],
                 "kind_free_text": "TLC 1.8 explicit-state model checker (design-level checks, state-graph dumps for replay, trace validation)"},
                {"name": "apalache", "path": "apalache-mc", "serves_properties": [], "kind_free_text": "symbolic checker for unbounded integer laws"}],
    "checks": checks,
    "not_applicable": na,
    "notes": "Specifications live in /verif/specs (flat directory). ./check <ID> --tier quick|thorough; exit 0 held, 1 violation, 2 machinery failure. Known findings: /verif/known_findings.json. Extra specification coverage beyond the listed properties (not claimed as checks): ./check X01 (specs/Redecl.tla, redeclaration rules of cdef(); evidence in /verif/evidence/extra/).",
}
json.dump(man, open(os.path.join(V, "MANIFEST.json"), "w"), indent=1)
print("MANIFEST: %d checks, %d not_applicable" % (len(checks), len(na)))
