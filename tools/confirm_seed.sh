#!/bin/sh
# tools/confirm_seed.sh <seed out dir> [pytest targets...]
# Confirms a seeded change in scratch worktrees: demo passes on pristine HEAD, fails with the patch;
# optional pytest targets are run with the patch applied. Prints a summary; removes the worktrees.
set -u
out="$(realpath "$1")"; shift
base=/tmp/confirm_base_$$; mut=/tmp/confirm_mut_$$
git -C /repo worktree add --detach $base HEAD -q; git -C /repo worktree add --detach $mut HEAD -q
git -C $mut apply -3 "$out/patch.diff" || { echo "PATCH DOES NOT APPLY"; }
for d in $base $mut; do (cd $d && /venv/bin/python setup.py build_ext -i >/dev/null 2>&1 || echo "BUILD FAILED in $d"); done
demo="$out/demo.py"
run_demo() { if grep -q "^def test_" "$demo" && ! grep -q "__main__" "$demo"; then (cd $1 && PYTHONPATH=$1/src timeout 900 /venv/bin/python -m pytest -q -p no:cacheprovider "$demo" >/tmp/confirm_demo_$$.log 2>&1); else (cd $1 && PYTHONPATH=$1/src timeout 900 /venv/bin/python "$demo" >/tmp/confirm_demo_$$.log 2>&1); fi; echo $?; }
echo "demo on pristine: exit $(run_demo $base)"
echo "demo with patch : exit $(run_demo $mut)"; tail -3 /tmp/confirm_demo_$$.log
if [ $# -gt 0 ]; then (cd $mut && PYTHONPATH=$mut/src timeout 3000 /venv/bin/python -m pytest -q -p no:cacheprovider --timeout=900 -n 4 "$@" 2>&1 | tail -2); fi
git -C /repo worktree remove --force $base; git -C /repo worktree remove --force $mut; git -C /repo worktree prune; rm -f /tmp/confirm_demo_$$.log
