#!/usr/bin/env python3
"""tools/seed_status.py NAME PID first now "keys" "note"
Registers (or updates) a seed in seeded/status.json and completes seeded/NAME/meta.json with the coordinator's
confirmation record (from seeded/NAME/confirm.txt)."""
import json, os, sys
V = os.path.dirname(os.path.dirname(os.path.abspath(__file__)))
name, pid, first, now, keys, note = sys.argv[1:7]
sp = os.path.join(V, "seeded", "status.json")
s = json.load(open(sp))
e = s["seeds"].get(name, {})
e.update({"property": pid, "first": e.get("first", first), "now": now, "keys": keys, "note": note})
s["seeds"][name] = e
json.dump(s, open(sp, "w"), indent=1)
mp = os.path.join(V, "seeded", name, "meta.json")
try:
    m = json.load(open(mp))
except Exception:
    m = {"property": pid}
conf = []
cp = os.path.join(V, "seeded", name, "confirm.txt")
if os.path.exists(cp):
    conf = [l.strip() for l in open(cp) if l.startswith("demo ")]
m["coordinator"] = {
    "confirmed": "tools/confirm_seed.sh seeded/%s : scratch worktrees of /repo HEAD, build_ext -i in both" % name,
    "confirm_output": conf,
    "tests": "relevant test files run before/after by the seeding agent (see tests_run); not re-run per seed by the coordinator",
    "check_run": "tools/try_seed.sh seeded/%s/patch.diff %s" % (name, pid),
    "check_first_result": e["first"], "check_result_now": now, "violation_keys": keys}
json.dump(m, open(mp, "w"), indent=1)
print(name, e)
