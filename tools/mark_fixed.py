#!/usr/bin/env python3
"""tools/mark_fixed.py <PID> <substring of key or what> <commit> : move a finding from known_findings.d/<PID>.json
to known_findings.json as a 'fixed' record (suppresses nothing)."""
import json, os, sys
V = os.path.dirname(os.path.dirname(os.path.abspath(__file__)))
pid, sub, commit = sys.argv[1:4]
dp = os.path.join(V, "known_findings.d", pid + ".json")
d = json.load(open(dp))
hit = [f for f in d["findings"] if sub in f["key"] or sub in f["what"]]
assert len(hit) == 1, "matches: %d" % len(hit)
f = hit[0]
d["findings"].remove(f)
if d["findings"]:
    json.dump(d, open(dp, "w"), indent=1)
else:
    os.remove(dp)
mp = os.path.join(V, "known_findings.json")
m = json.load(open(mp))
f["status"] = "fixed"; f["commit"] = commit
f["line"] = "fixed: property=%s %s %s" % (pid, commit, f["what"])
m["findings"].append(f)
json.dump(m, open(mp, "w"), indent=1)
print(f["line"][:200])
