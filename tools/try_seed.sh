#!/bin/sh
# tools/try_seed.sh <seeded/<name>/patch.diff> <CHECK-ID> [tier]
# Applies a seeded change to a scratch worktree of /repo HEAD, runs the check against it
# (VERIF_REPO), prints the verdict lines, removes the worktree.  Never touches /repo itself.
set -u
patch="$1"; id="$2"; tier="${3:-quick}"
wt="/tmp/seedwt_$$"
git -C /repo worktree add --detach "$wt" HEAD -q || exit 2
if ! git -C "$wt" apply -3 "$(realpath "$patch")" 2>/tmp/seed_apply_$$.log; then
  echo "PATCH DOES NOT APPLY"; cat /tmp/seed_apply_$$.log; git -C /repo worktree remove --force "$wt"; exit 2
fi
cd "$(dirname "$0")/.." && VERIF_REPO="$wt" VERIF_EVIDENCE="/tmp/cffi_verif_evidence_scratch" ./check "$id" --tier "$tier" > /tmp/seed_run_$$.log 2>&1
rc=$?
grep -E "^VIOLATION|^KNOWN-FINDING|^NOTE|tier=|MACHINERY" /tmp/seed_run_$$.log | sort | uniq -c | sort -rn | head -12
grep -E "^  key=" /tmp/seed_run_$$.log | sed 's/ what=.*//' | sort | uniq -c | sort -rn | head -8
echo "exit=$rc"
git -C /repo worktree remove --force "$wt"; git -C /repo worktree prune
rm -f /tmp/seed_run_$$.log /tmp/seed_apply_$$.log
exit $rc
