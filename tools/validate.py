#!/usr/bin/env python3-vt
import json, sys, glob, jsonschema
ms = json.load(open('/root/.vp/MANIFEST.schema.json')); es = json.load(open('/root/.vp/EVIDENCE.schema.json'))
jsonschema.validate(json.load(open('/verif/MANIFEST.json')), ms); print('manifest ok')
for f in sorted(glob.glob('/verif/evidence/*.json')):
    try:
        jsonschema.validate(json.load(open(f)), es); print(f, 'ok')
    except Exception as e:
        print(f, 'INVALID', str(e)[:300]); sys.exit(1)
