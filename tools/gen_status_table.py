#!/usr/bin/env python3
"""Regenerates the per-property status table of DESIGN.md (between the STATUS markers) from props META,
seeded/status.json and the known-findings files."""
import ast, glob, json, os, re
V = os.path.dirname(os.path.dirname(os.path.abspath(__file__)))
props = [json.loads(l) for l in open(os.path.join(V, "properties.jsonl"))]
seeds = json.load(open(os.path.join(V, "seeded", "status.json")))["seeds"]
known = json.load(open(os.path.join(V, "known_findings.json")))["findings"]
for f in sorted(glob.glob(os.path.join(V, "known_findings.d", "*.json"))):
    known += json.load(open(f))["findings"]
def meta(pid):
    t = ast.parse(open(os.path.join(V, "props", pid.lower() + ".py")).read())
    for n in t.body:
        if isinstance(n, ast.Assign) and getattr(n.targets[0], "id", "") == "META":
            return ast.literal_eval(n.value)
    return {}
rows = ["| id | level | deciding technique | independent seeded change(s): first run -> now | findings on the pinned tree |", "|---|---|---|---|---|"]
for p in props:
    pid = p["id"]; m = meta(pid)
    ss = ["%s: %s%s (%s)" % (k, s["first"], "" if s["first"] == s["now"] else " -> " + s["now"], s["note"])
          for k, s in seeds.items() if s["property"] == pid]
    fx = [k for k in known if k["property"] == pid and k.get("status") == "fixed"]
    op = [k for k in known if k["property"] == pid and k.get("status", "open") == "open"]
    fcol = []
    if fx: fcol.append("%d repaired (`fix:` commits %s)" % (len(fx), ", ".join(sorted(set(k.get("commit", "?")[:7] for k in fx if len(k.get("commit","")) < 20)))))
    if op: fcol.append("%d open known finding(s)" % len(op))
    rows.append("| %s | %s | %s | %s | %s |" % (pid, m.get("category", "?"), m.get("technique", "?").replace("|", "/"),
                "; ".join(ss) or "none yet", "; ".join(fcol) or "none"))
B, E = "<!-- BEGIN status -->", "<!-- END status -->"
p = os.path.join(V, "DESIGN.md"); s = open(p).read()
blk = B + "\n" + "\n".join(rows) + "\n" + E
if B in s:
    s = s[:s.index(B)] + blk + s[s.index(E) + len(E):]
else:
    raise SystemExit("markers missing")
open(p, "w").write(s)
print("status table: %d rows" % (len(rows) - 2))
