#!/bin/sh
# tools/seed_intake.sh <NAME> <PID>: copy /tmp/seed_<NAME>_out into seeded/<NAME>, confirm the demo, run the check against the patch
n="$1"; p="$2"; cd "$(dirname "$0")/.."
mkdir -p seeded/$n; cp /tmp/seed_${n}_out/patch.diff /tmp/seed_${n}_out/demo.py /tmp/seed_${n}_out/meta.json seeded/$n/ 2>/dev/null
tools/confirm_seed.sh seeded/$n > seeded/$n/confirm.txt 2>&1
tools/try_seed.sh seeded/$n/patch.diff $p > /tmp/seedlogs/$n.log 2>&1
echo "$n ($p): $(grep -E '^demo' seeded/$n/confirm.txt | tr '\n' ' ') | check: $(grep -E 'exit=' /tmp/seedlogs/$n.log) $(grep -E 'key=' /tmp/seedlogs/$n.log | head -2 | sed 's/ *[0-9]* *key=/key=/' | tr '\n' ' ' | cut -c1-160)" >> /tmp/seedlogs/intake_summary.txt
