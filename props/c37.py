"""C37 — closed dlopen libraries refuse further symbol access.

Design level : specs/DlLibIdeal.tla is the property as a machine over the events of lib objects
               (open/getfunc/call/readvar/writevar/addressof/close with outcome class and the number
               of dlsym()/dlclose() calls the operation made).  specs/DlLib.tla transcribes both
               front ends (api.py FFILibrary + dl_* of _cffi_backend.c; cdlopen.c + lib_obj.c) on a
               small model of the dynamic loader (shared handle, reference count, unmapping, stale
               handles, RTLD_DEFAULT); TLC explores every history of 2 lib objects on one shared
               object, 2 functions, 1 variable, 2 dlopen flag sets and checks that the model refines
               the ideal; three broken variants must be rejected.
Binding      : spec -> code: every action sequence of the explored graph up to a depth (and, in the
               thorough tier, every transition of the complete graph) is executed on real lib objects
               in worker processes running under a dlopen/dlsym/dlclose interposer;
               code -> spec: random long histories over up to 8 lib objects on two shared objects.
               TLC validates every recorded trace against the ideal (verdicts) and, for the small
               universe, against the implementation model (notes on divergence).
"""
import json, os, threading, time
from harness import core, tlaval
from harness import life_dl, life_common

LEVEL = "model_checking"

MC = """SPECIFICATION Spec
CONSTANTS Libs = {1,2}
  Funcs = {"f1","f2"}
  Vars = {"v1"}
  Flags = {"local","global"}
  Mode = "%s"
  Variant = "%s"
VIEW View
PROPERTY ISpec
%s
CHECK_DEADLOCK FALSE
"""
FULL = """PROPERTY ClosedForever
INVARIANT NeverDies
INVARIANT ClosedIsClean
INVARIANT CacheIsFetched"""

VARIANTS = [("inline", "noclose-when-not-owner"), ("inline", "nonull"), ("outofline", "nonull"), ("inline", "nocheck"), ("outofline", "nocheck"),
            ("outofline", "noclear")]
NEEDED = {"inline": {"Open", "OpenH", "Close", "Call", "IGetFunc", "IReadVar", "IWriteVar", "IAddressOfVar"},
          "outofline": {"Open", "OpenH", "Close", "Call", "OGet", "OReadVar", "OWriteVar"}}

CLAUSE = {"getfunc": "fetching a function that was not fetched before the close did not raise, or reached dlsym()",
          "readvar": "reading a global variable through a closed lib did not raise, or reached dlsym()",
          "writevar": "writing a global variable through a closed lib did not raise, or reached dlsym()",
          "close": "closing an already closed lib raised, crashed or called dlclose() again"}


def op_of(action, args):
    a = list(args)
    if action == "Open":
        return ["open", a[0], "", a[1], 0, "a", "path"]
    if action == "OpenH":          # the program calls dlopen() itself and passes the handle to ffi.dlopen()
        return ["open", a[0], "", a[1], 0, "a", "handle"]
    if action == "Close":
        return ["close", a[0], "", "", 0]
    if action == "Call":
        return ["call", a[0], a[1], "", 0]
    if action in ("IGetFunc", "OGet"):
        return [a[2], a[0], a[1], "", 0]
    if action in ("IReadVar", "OReadVar"):
        return ["readvar", a[0], a[1], "", 0]
    if action in ("IWriteVar", "OWriteVar"):
        return ["writevar", a[0], a[1], "", a[2]]
    if action == "IAddressOfVar":
        return ["addressof", a[0], a[1], "", 0]
    raise core.MachineryError("unknown action %s in the DlLib graph" % action)


class G:
    """The explored graph of DlLib (nodes = View values): per node the distinct labelled edges."""
    def __init__(self, dot):
        g = tlaval.load_dot(dot, parse=False)
        if len(g.init) != 1:
            raise core.MachineryError("DlLib graph: %d initial states" % len(g.init))
        self.init = g.init[0]
        self.out = {}
        self.actions = set()
        for n, es in g.out.items():
            seen, lst = set(), []
            for act, args, dst in es:
                if (act, args) not in seen:
                    seen.add((act, args))
                    lst.append((act, args, dst))
                    self.actions.add(act)
            self.out[n] = lst
        self.nodes = set(g.states)
        self.nedges = sum(len(v) for v in self.out.values())

    def all_upto(self, depth):
        """every action sequence of `depth` steps (shorter at dead ends); by the symmetry of the two
        lib objects only sequences whose first operation is Open(1, .) are produced"""
        res = []

        def rec(n, path):
            es = self.out.get(n, [])
            if len(path) == depth or not es:
                res.append(list(path))
                return
            for act, args, dst in es:
                if not path and not (act in ("Open", "OpenH") and args[0] == 1):
                    continue
                path.append((act, args))
                rec(dst, path)
                path.pop()
        rec(self.init, [])
        return res

    def walks(self, rng, n, length):
        res = []
        for _ in range(n):
            cur, path = self.init, []
            for _i in range(length):
                es = self.out.get(cur, [])
                if not es:
                    break
                act, args, dst = rng.choice(es)
                path.append((act, args))
                cur = dst
            res.append(path)
        return res

    def edge_cover(self, rng, limit=None):
        """one path per transition of the graph: a shortest path to its source, then the edge"""
        parent = {self.init: None}
        order = [self.init]
        for n in order:
            for act, args, dst in self.out.get(n, []):
                if dst not in parent:
                    parent[dst] = (n, act, args)
                    order.append(dst)

        def prefix(n):
            p = []
            while parent[n] is not None:
                m, act, args = parent[n]
                p.append((act, args))
                n = m
            return p[::-1]
        edges = [(n, act, args) for n in order for act, args, _d in self.out.get(n, [])]
        if limit is not None and len(edges) > limit:
            edges = rng.sample(edges, limit)
        return [prefix(n) + [(act, args)] for n, act, args in edges], len(edges)


def random_history(rng, length):
    """code -> spec driver: up to 8 lib objects on two shared objects, 3 functions, 2 variables."""
    ops, state, fetched = [], {}, {}
    nextid = 1
    for _ in range(length):
        opened = [l for l in state]
        r = rng.random()
        if (not opened or r < 0.12) and nextid <= 8:
            l = nextid
            nextid += 1
            ops.append(["open", l, "", rng.choice(["local", "global", "lazy", ""]), 0, rng.choice("ab"),
                        rng.choice(["path", "handle"])])
            state[l] = "open"
            fetched[l] = set()
            continue
        if not opened:
            break
        l = rng.choice(opened)
        r = rng.random()
        if r < 0.16:
            ops.append(["close", l, "", "", 0])
            state[l] = "closed"
        elif r < 0.36:
            f = rng.choice(life_dl.FUNCS)
            ops.append(["getfunc", l, f, "", 0])
            if state[l] == "open":
                fetched[l].add(f)
        elif r < 0.48:
            cands = sorted(fetched[l]) if state[l] == "open" else []
            if cands:
                ops.append(["call", l, rng.choice(cands), "", 0])
        elif r < 0.68:
            ops.append(["readvar", l, rng.choice(life_dl.VARS), "", 0])
        elif r < 0.86:
            ops.append(["writevar", l, rng.choice(life_dl.VARS), "", rng.randrange(-2 ** 31, 2 ** 31)])
        else:
            n = rng.choice(life_dl.FUNCS + life_dl.VARS)
            ops.append(["addressof", l, n, "", 0])
            if state[l] == "open" and n in life_dl.FUNCS:
                fetched[l].add(n)
    return ops


def ideal_trace(events):
    return [{"ev": e["ev"], "l": e["l"], "n": e["n"], "out": e["out"], "touch": e["touch"]} for e in events]


def validate_ideal(ctx, traces):
    """-> {index: (verdict, pos)} for traces rejected by the ideal"""
    bad = {}
    for base in range(0, len(traces), 6000):
        part = traces[base:base + 6000]
        tups = life_common.verdicts(ctx, "Trace_DlLib", [ideal_trace(t) for t in part])
        got = {}
        for t in tups:
            got[int(t[0])] = (core.unq(t[1]), int(t[2]))
        if len(got) != len(part):
            raise core.MachineryError("Trace_DlLib: %d verdicts for %d traces" % (len(got), len(part)))
        for k, (v, pos) in got.items():
            if v != "ok":
                bad[base + k - 1] = (v, pos)
    return bad


def validate_impl(ctx, mode, traces):
    """-> {index: (field, pos)} for traces on which the implementation model predicts otherwise"""
    div = {}
    for base in range(0, len(traces), 6000):
        part = traces[base:base + 6000]
        tups = life_common.verdicts(ctx, "Trace_DlLibImpl", part, head="IMPL", cfg="Trace_DlLibImpl_" + mode,
                                 name="Trace_DlLibImpl(%s)" % mode)
        got = {}
        for t in tups:
            got[int(t[0])] = (core.unq(t[1]), int(t[2]))
        if len(got) != len(part):
            raise core.MachineryError("Trace_DlLibImpl: %d verdicts for %d traces" % (len(got), len(part)))
        for k, (v, pos) in got.items():
            if v != "same":
                div[base + k - 1] = (v, pos)
    return div


def violation_key(mode, events, verdict, pos):
    e = events[pos - 1]
    closed = any(x["ev"] == "close" and x["l"] == e["l"] and x["out"] == "ok" for x in events[:pos - 1])
    if verdict in ("open", "call", "addressof") or not closed:
        raise core.MachineryError("C37 harness produced a history outside the domain of the ideal: "
                                  "%s at %d in %r" % (verdict, pos, events[:pos]))
    what = "reclose" if verdict == "close" else verdict + "-after-close"
    return "%s:%s:%s" % (mode, what, e["out"] if e["out"] != "error" else "touched-loader")


def design_level(ctx, mode):
    dump = os.path.join(ctx.tmp, "dl_" + mode)
    r = core.tlc("DlLib", cfg_text=MC % (mode, "faithful", FULL), dump=dump, workers=4, timeout=3000)
    ctx.add_tlc("MC_DlLib(%s,2libs,2funcs,1var)" % mode, r)
    g = G(dump + ".dot")
    missing = NEEDED[mode] - g.actions
    if missing:
        raise core.MachineryError("DlLib(%s): actions never taken: %s" % (mode, sorted(missing)))
    for a in sorted(g.actions):
        ctx.cov["actions"]["DlLib(%s).%s" % (mode, a)] = sum(1 for es in g.out.values() for e in es if e[0] == a)
    return g


def run(ctx):
    quick = ctx.quick
    phases = ctx.cov.setdefault("phase_wall_s", {})
    t0 = time.time()

    def phase(name):
        nonlocal t0
        phases[name] = round(time.time() - t0, 1)
        t0 = time.time()
    cfg = life_dl.build(ctx)
    phase("build")
    graphs, errs = {}, []

    def dl(mode):
        try:
            graphs[mode] = design_level(ctx, mode)
        except Exception as e:          # noqa
            errs.append(e)

    def variant(mode, v):
        try:
            r = core.tlc("DlLib", cfg_text=MC % (mode, v, ""), workers=2, timeout=3000)
            ctx.add_tlc("sanity:%s/%s" % (mode, v), r, require_ok=False, count_states=False)
            if r.ok or "is violated" not in r.out:
                raise core.MachineryError("broken variant %s/%s of DlLib was not rejected by TLC:\n%s"
                                          % (mode, v, r.out[-1500:]))
        except Exception as e:          # noqa
            errs.append(e)
    ths = [threading.Thread(target=dl, args=(m,)) for m in ("inline", "outofline")]
    ths += [threading.Thread(target=variant, args=mv) for mv in VARIANTS]
    for t in ths:
        t.start()
    for t in ths:
        t.join()
    if errs:
        raise errs[0]
    phase("tlc-design")

    # ------------------------------------------------------------ spec -> code
    jobs, meta = [], []
    exhaustive = True
    for mode in ("inline", "outofline"):
        g = graphs[mode]
        depth = 3 if quick else 4
        paths = g.all_upto(depth)
        if quick:                       # plus a sample of the sequences of length 4
            longer = g.all_upto(4)
            paths += ctx.rng.sample(longer, min(len(longer), 2000))
        cover, ncov = g.edge_cover(ctx.rng, 1000 if quick else 40000)
        if ncov < g.nedges:
            exhaustive = False
        paths += cover
        paths += g.walks(ctx.rng, 200 if quick else 2000, 14)
        ctx.cov.setdefault("graph", {})[mode] = {"nodes": len(g.nodes), "transitions": g.nedges,
                                                 "all_sequences_upto": depth, "transitions_replayed": ncov}
        for p in paths:
            jobs.append({"id": len(jobs), "mode": mode, "ops": [op_of(a, args) for a, args in p]})
            meta.append({"kind": "model-path", "mode": mode})
    nmodel = len(jobs)
    # ------------------------------------------------------------ code -> spec
    for i in range(400 if quick else 3000):
        mode = "inline" if i % 2 else "outofline"
        jobs.append({"id": len(jobs), "mode": mode, "ops": random_history(ctx.rng, ctx.rng.randrange(20, 70))})
        meta.append({"kind": "random-history", "mode": mode})
    phase("paths")
    results = life_dl.run_jobs(cfg, jobs, nworkers=8)
    phase("execute")
    traces = [results[j["id"]] for j in jobs]
    for j, t in zip(jobs, traces):
        ctx.case((j["mode"], json.dumps(j["ops"])))
    # ------------------------------------------------------------ TLC validates all traces (4 JVMs in parallel)
    out, errs = {}, []

    def job(name, fn, *a):
        try:
            out[name] = fn(ctx, *a)
        except Exception as e:          # noqa
            errs.append(e)
    half = len(traces) // 2
    idx = {m: [k for k in range(nmodel) if meta[k]["mode"] == m] for m in ("inline", "outofline")}
    ths = [threading.Thread(target=job, args=("ideal0", validate_ideal, traces[:half])),
           threading.Thread(target=job, args=("ideal1", validate_ideal, traces[half:]))]
    ths += [threading.Thread(target=job, args=("impl-" + m, validate_impl, m, [traces[k] for k in idx[m]]))
            for m in idx]
    for t in ths:
        t.start()
    for t in ths:
        t.join()
    if errs:
        raise errs[0]
    # ------------------------------------------------------------ verdicts from the ideal
    ctx.validated(len(traces))
    bad = dict(out["ideal0"])
    bad.update({half + k: v for k, v in out["ideal1"].items()})
    for k, (v, pos) in sorted(bad.items()):
        key = violation_key(meta[k]["mode"], traces[k], v, pos)
        ctx.violation(key, CLAUSE.get(v, v), {"mode": meta[k]["mode"], "ops": jobs[k]["ops"],
                                              "events": traces[k], "failing_event": pos})
    # ------------------------------------------------------------ notes from the implementation model
    divs = []
    for mode in ("inline", "outofline"):
        d = out["impl-" + mode]
        for kk, (field, pos) in sorted(d.items()):
            k = idx[mode][kk]
            divs.append("%s: step %d %r: field %s differs from the model's prediction" % (
                mode, pos, traces[k][pos - 1] if 0 < pos <= len(traces[k]) else None, field))
        ctx.validated(len(idx[mode]) - len(d))
    phase("tlc-validate")
    ctx.cov["model_divergences"] = divs[:10]
    ctx.cov["model_divergence_count"] = len(divs)
    if divs:
        print("NOTE C37: %d replays differ from the implementation model (first: %s); verdicts come from "
              "the ideal" % (len(divs), divs[0]))
    for k in (0, nmodel // 2, nmodel, len(jobs) - 1):
        ctx.sample({"kind": meta[k]["kind"], "mode": meta[k]["mode"], "ops": jobs[k]["ops"],
                    "events": [(e["ev"], e["l"], e["n"], e["out"], e["exc"], e["val"], e["touch"]) for e in traces[k]]})
    nclosed = sum(1 for t in traces for i, e in enumerate(t) if e["ev"] in ("readvar", "writevar", "getfunc", "close")
                  and any(x["ev"] == "close" and x["l"] == e["l"] for x in t[:i]))
    ctx.cov["operations_on_closed_libs"] = nclosed
    ctx.cov["rule"] = ("distinct = distinct (mode, operation sequence) executed on real lib objects; non-trivial: "
                       "every sequence opens a library; %d operations were made on already closed libs" % nclosed)
    ctx.cov["exhaustive"] = exhaustive
    ctx.assumptions += ["the interposer sees every dlsym()/dlclose() call of _cffi_backend (PLT calls, LD_PRELOAD)",
                        "functions are only called while their lib is open (calling into an unmapped library "
                        "is outside the property)"]


def replay(ctx, obj):
    cfg = life_dl.build(ctx)
    rp = obj["replay"]
    res = life_dl.run_jobs(cfg, [{"id": 0, "mode": rp["mode"], "ops": rp["ops"]}], nworkers=1)
    bad = validate_ideal(ctx, [res[0]])
    ctx.cov["states"] = ctx.cov["transitions"] = 1
    for k, (v, pos) in bad.items():
        ctx.violation(obj["key"], CLAUSE.get(v, v), {"mode": rp["mode"], "ops": rp["ops"], "events": res[0],
                                                     "failing_event": pos})
    print("re-executed %d operations (%s): %s" % (len(rp["ops"]), rp["mode"],
                                                  "rejected by the ideal" if bad else "accepted"))


def selftest(ctx):
    cfg = life_dl.build(ctx)
    ops = [["open", 1, "", "local", 0], ["getfunc", 1, "f1", "", 0], ["writevar", 1, "v1", "", 2],
           ["close", 1, "", "", 0], ["readvar", 1, "v1", "", 0], ["getfunc", 1, "f2", "", 0], ["close", 1, "", "", 0]]
    res = life_dl.run_jobs(cfg, [{"id": 0, "mode": "inline", "ops": ops}, {"id": 1, "mode": "outofline", "ops": ops}],
                           nworkers=1)
    ok = not validate_ideal(ctx, [res[0], res[1]])
    ok = ok and not validate_impl(ctx, "inline", [res[0]]) and not validate_impl(ctx, "outofline", [res[1]])
    a = json.loads(json.dumps(res[0]))
    a[4]["out"], a[4]["val"] = "ok", 2              # the read after the close "succeeds"
    b = json.loads(json.dumps(res[1]))
    b[6]["touch"] = 1                               # the second close reaches dlclose()
    bad = validate_ideal(ctx, [a, b])
    ok = ok and bad.get(0, ("",))[0] == "readvar" and bad.get(1, ("",))[0] == "close"
    c = json.loads(json.dumps(res[1]))
    c[4]["exc"] = "ValueError"                      # model predicts FFIError out-of-line
    ok = ok and bool(validate_impl(ctx, "outofline", [c]))
    return ok


META = {
    "category": "model_checking",
    "text": "TLC explores every history of two lib objects opened on one shared object (2 functions, 1 variable, "
            "RTLD_LOCAL/GLOBAL) in action-per-operation models of both dlopen front ends (api.py FFILibrary + dl_* "
            "and cdlopen.c + lib_obj.c) over a model of the dynamic loader, and checks that they refine the "
            "property machine (access through a closed lib is refused without reaching dlsym/dlclose; re-close "
            "harmless); every operation sequence of the explored graph up to a depth and (thorough) every "
            "transition of the complete graph is executed on real lib objects under a dlsym/dlclose "
            "interposer, random long histories over 8 lib objects on two libraries are added, and TLC validates "
            "every recorded trace against the property machine and against the implementation model.",
    "note": "Trusted: TLC, glibc's loader, the LD_PRELOAD interposer. Functions are called only while their lib "
            "is open. Process death is detected and attributed to the operation by re-running the sequence in a "
            "fresh worker.",
    "technique": "TLA+ refinement (TLC) + replay of the explored graph on real lib objects + TLC trace validation",
    "design_ref": "DESIGN.md §3 C37",
}
