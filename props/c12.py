"""C12 - API-mode modules reflect the C source and detect mismatches.

Design level : specs/CdefApi.tla - the declaration machine of Cdef.tla run on two environments,
               the C world `cw` (what the C source declares) and the cdef `cenv`; after the
               declarations the cdef is mutated (MutateField type/drop/swap, MutateConst,
               MutateEnumerator) and/or made flexible (AddDots).  Ideal: an item is usable iff its
               checked facts agree (field size always; field offset and total size without "...";
               constant / enumerator value without "..."), and then shows the compiler's facts.
               Implementation model: _CFFI_F_CHECK_FIELDS, detect_custom_layout,
               b_complete_struct_or_union, _cffi_check_int / realize_global_int.  TLC checks
               model = ideal on every behaviour of <= 3 declarations + <= 1 mutation + <= 1 "...",
               and must reject three weakened models; "strict" shows the enumerator class.
Binding      : every explored behaviour is rendered twice - the C world as C source (functions
               with bodies, variables defined, plus helper functions that let gcc itself report
               sizeof / alignof / offsetof / addresses and read/write the variables) and the
               (mutated) cdef - emitted with emit_c_code(), compiled with plain gcc (several
               behaviours per module, renamed apart), imported and projected; TLC
               (specs/Trace_CdefApi.tla) re-runs the behaviour and judges: gcc against the
               platform model first (disagreement = machinery error), then the module against
               the ideal.
"""
import contextlib, io, json, os, sys, time, warnings
from concurrent.futures import ProcessPoolExecutor, ThreadPoolExecutor
from harness import core, tlaval
from harness import modes_gen as mg
from harness import modes_api as ma
from props.c11 import q, tuples, NONE, Gen

LEVEL = "model_checking"

CFG = """SPECIFICATION ASpec
CONSTANTS
  TdNames = {%(td)s}
  Tags = {%(tags)s}
  EnumTags = {%(en)s}
  ConstNames = {%(k)s}
  FuncNames = {%(fn)s}
  GlobNames = {%(gv)s}
  Prims = {%(prims)s}
  Feat = {%(feat)s}
  MaxDecls = %(n)d
  MaxMut = %(mut)d
  Variants = {%(variants)s}
INVARIANT ApiRefines
%(extra)s
CHECK_DEADLOCK FALSE
"""

BROKEN = ("strict", "nosizecheck", "nototal", "nocheckint", "lenmaskbit", "lenzero", "packed-wipes-checkfields")


def cfg(td=(), tags=("s1",), en=(), k=(), fn=(), gv=(), prims=("int", "char"), feat=(), n=2, mut=1,
        variants=("faithful",), emit=False, probe=False):
    extra = ("CONSTRAINT EmitApi\n" if emit else "") + ("CONSTRAINT ApiProbe\n" if probe else "")
    return CFG % dict(td=q(td), tags=q(tags), en=q(en), k=q(k), fn=q(fn), gv=q(gv), prims=q(prims),
                      feat=q(feat), n=n, mut=mut, variants=q(variants), extra=extra)


SCENARIOS = {
    "q_struct": dict(tags=("s1",), n=1),
    "q_const": dict(tags=(), en=("e1",), k=("k1",), feat=("zero",), n=2),
    "q_bigk": dict(tags=(), en=("e1",), k=("k1",), feat=("bigconst",), n=1),
    "q_use": dict(tags=("s1",), fn=("f1",), gv=("g1",), prims=("int",), n=2),
    # a global array declared with [...] next to a struct whose cdef is mutated (either order)
    "q_arrdots": dict(tags=("s1",), gv=("g1",), prims=("int",), feat=("arr",), n=2),
    "sanity": dict(tags=("s1",), en=("e1",), k=("k1",), prims=("int", "char"), feat=("zero",), n=1),
    # thorough
    "struct2": dict(td=("t1",), tags=("s1", "s2"), feat=("union",), n=2),
    "mixed2": dict(td=("t1",), tags=("s1",), en=("e1",), k=("k1",), fn=("f1",), gv=("g1",), prims=("int",), n=2),
}


def hist_to_beh(hist):
    return [mg.action(h[0], h[1]) for h in hist]


# --------------------------------------------------------------------------- renaming apart

NAME_FIELDS = ("n", "tag")


def rn_term(t, sfx):
    k = t[0]
    if k in ("td", "struct", "union", "enum"):
        return [k, t[1] + sfx]
    if k in ("ptr",):
        return ["ptr", rn_term(t[1], sfx)]
    if k == "arr":
        return ["arr", rn_term(t[1], sfx), t[2]]
    if k == "fnp":
        return ["fnp", rn_term(t[1], sfx), [rn_term(a, sfx) for a in t[2]], t[3]]
    if k == "anon":
        return ["anon", t[1], [[f[0], rn_term(f[1], sfx), f[2]] for f in t[2]]]
    return t


def rename(act, sfx):
    d = dict(act)
    for f in NAME_FIELDS:
        if f in d:
            d[f] = d[f] + sfx
    if "names" in d:
        d["names"] = [x + sfx for x in d["names"]]
    for f in ("t", "res"):
        if f in d:
            d[f] = rn_term(d[f], sfx)
    if "args" in d:
        d["args"] = [rn_term(a, sfx) for a in d["args"]]
    if "fs" in d:
        d["fs"] = [[x[0], rn_term(x[1], sfx), x[2]] for x in d["fs"]]
    if d["a"] == "AddDots":
        d["item"] = [d["item"][0], d["item"][1] + sfx] if isinstance(d["item"], list) else d["item"] + sfx
    return d


def unrename(obj, sfx, anon_offset=0):
    """undo the renaming apart; nested anonymous aggregates are numbered "$N" through the whole
    cdef of the module, so the numbers of this behaviour are shifted back"""
    import re
    text = json.dumps(obj).replace(sfx, "")
    if anon_offset:
        text = re.sub(r"\$(\d+)", lambda m: "$%d" % (int(m.group(1)) - anon_offset), text)
    return json.loads(text)


def count_anon(decls):
    return sum(1 for d in decls if "fs" in d for f in d["fs"] if f[1][0] == "anon")


# --------------------------------------------------------------------------- one module = several behaviours

def texts(beh, sfx):
    rb = [rename(a, sfx) for a in beh]
    decls, muts = ma.split_mutations(rb)
    cdef_decls, flex = ma.apply_mutations(decls, muts)
    hc, hcdef, plan = ma.helpers(decls, sfx)
    chunks = ma.cdef_chunks(cdef_decls, flex) + [(hcdef, False)]
    cpacked = {k for (w, k) in flex if w == "pkw"}
    csrc = ma.render_csource(decls, prelude=False, cpacked=cpacked) + hc
    return rb, decls, chunks, csrc, plan


def int_range(p):
    size = {"char": 1, "signed char": 1, "unsigned char": 1, "_Bool": 1, "short": 2, "unsigned short": 2,
            "int8_t": 1, "uint8_t": 1, "int16_t": 2, "uint16_t": 2}.get(p, 4)
    return size


def as_int(v):
    if isinstance(v, bytes):
        return v[0] if v[0] < 128 else v[0] - 256        # char is signed on this platform
    if isinstance(v, str):
        return ord(v)
    return int(v)


def observe_one(ffi, lib, decls, plan, sfx, seed, anon_offset=0):
    import random
    rng = random.Random(seed)
    names = mg.names_of(decls)
    obs = mg.observe(ffi, lib, names)
    td = ma.track_td(decls)
    # ---- integer constants and enumerators used as array lengths in run-time type strings
    alen = {}
    for c in names.k:
        def q(c=c):
            ct = ffi.typeof("char[%s]" % c)
            n = ct.length
            if ffi.sizeof("char[%s]" % c) != n:
                return "inconsistent: sizeof %d, typeof %d" % (ffi.sizeof("char[%s]" % c), n)
            if n <= 4096 and len(ffi.new("char[%s]" % c)) != n:
                return "inconsistent: new"
            return str(n)
        alen[c] = mg.guarded(q, "str")
    obs["alen"] = alen
    # ---- what gcc says
    gcc = {}
    fact = getattr(lib, "_vfact" + sfx)
    for i, (key, what, fname) in enumerate(plan["facts"]):
        g = gcc.setdefault(key, {"size": -1, "align": -1, "fields": []})
        v = int(fact(i))
        if what in ("size", "align"):
            g[what] = v
        elif what == "off":
            g["fields"].append([fname, v, -1])
        else:
            g["fields"][-1][2] = v
    addr, calls, rw = {}, {}, {}
    vaddr = getattr(lib, "_vaddr" + sfx)
    for i, name in enumerate(plan["addrs"]):
        try:
            a = int(ffi.cast("intptr_t", ffi.addressof(lib, name)))
            addr[name] = (a == int(ffi.cast("intptr_t", vaddr(i))))
        except Exception:
            addr[name] = False
    for d in decls:
        if d["a"] == "DeclFunc" and not d["ell"]:
            rres = ma.resolve(d["res"], td)
            rargs = [ma.resolve(a, td) for a in d["args"]]
            if not (ma.prim_is_int(rres) and all(a[0] in ("prim", "ptr", "fnp") for a in rargs)):
                continue
            vals, ints = [], []
            for a in rargs:
                if ma.prim_is_int(a):
                    v = rng.randrange(0, 2 if a[1] == "_Bool" else 50)
                    ints.append(v)
                    vals.append(bytes([v]) if a[1] == "char" else (chr(v) if a[1] == "wchar_t" else v))
                elif a[0] == "prim":
                    vals.append(1.5)
                else:
                    vals.append(ffi.NULL)
            try:
                got = str(as_int(getattr(lib, d["n"])(*vals)))
            except Exception as e:
                got = "error:" + type(e).__name__
            calls[d["n"]] = {"args": ints, "k": ma.fn_const(d["n"]), "got": got}
        elif d["a"] == "DeclGlobal":
            rt = ma.resolve(d["t"], td)
            if not ma.prim_is_int(rt):
                continue
            g = d["n"]
            hi = 2 if rt[1] == "_Bool" else 100
            v1, v2 = rng.randrange(1, hi), rng.randrange(1, hi)

            def enc(v):
                return bytes([v]) if rt[1] == "char" else (chr(v) if rt[1] == "wchar_t" else v)
            r = {"wl": "ok", "wc": "ok"}
            try:
                setattr(lib, g, enc(v1))
                got = int(getattr(lib, "_vget_" + g)())
                if got != v1:
                    r["wl"] = "wrote %d through lib, C reads %d" % (v1, got)
            except Exception as e:
                r["wl"] = "error:" + type(e).__name__
            try:
                getattr(lib, "_vset_" + g)(v2)
                got = as_int(getattr(lib, g))
                if got != v2:
                    r["wc"] = "C wrote %d, lib reads %d" % (v2, got)
            except Exception as e:
                r["wc"] = "error:" + type(e).__name__
            rw[g] = r
    return unrename({"obs": obs, "gcc": gcc, "calls": calls, "rw": rw, "addr": addr}, sfx, anon_offset)


def build_pack(pack, workdir, tag):
    """pack: list of (idx, beh). Returns the records."""
    import cffi
    parts = []
    for idx, beh in pack:
        sfx = "__c%d" % idx
        parts.append((idx, beh, sfx) + texts(beh, sfx))
    ffi = cffi.FFI()
    for p in parts:
        for text, packed in p[5]:
            ffi.cdef(text, packed=packed)
    name = "m_c12_%s" % tag
    ffi.set_source(name, ma.PRELUDE + "".join(p[6] for p in parts))
    ma.build_api(core, ffi, name, workdir)
    mod = ma.import_from(workdir, name)
    recs = []
    offset = 0
    for idx, beh, sfx, rb, decls, cdef, csrc, plan in parts:
        rec = {"id": idx, "beh": beh, "err": ""}
        rec.update(observe_one(mod.ffi, mod.lib, decls, plan, sfx, idx, offset))
        offset += count_anon(decls)
        rec["cdef"] = "".join(("/* ffi.cdef(packed=True): */ " if pk else "") + t for t, pk in cdef).replace(sfx, "")
        rec["csource"] = csrc.replace(sfx, "")
        recs.append(rec)
    return recs


def run_pack(arg):
    pack, workdir, tag = arg
    warnings.simplefilter("ignore")
    with contextlib.redirect_stdout(io.StringIO()):
        try:
            return build_pack(pack, workdir, tag)
        except Exception as e:
            if len(pack) == 1:
                idx, beh = pack[0]
                return [{"id": idx, "beh": beh, "err": "%s: %s" % (type(e).__name__, str(e)[-600:]),
                         "obs": {}, "gcc": {}, "calls": {}, "rw": {}, "addr": {}}]
            out = []
            for k, item in enumerate(pack):
                out += run_pack(([item], workdir, "%s_%d" % (tag, k)))
            return out


def run_packs(ctx, behs, jobs, per):
    work = os.path.join(ctx.tmp, "mods")
    os.makedirs(work, exist_ok=True)
    items = [(i + 1, b) for i, b in enumerate(behs)]
    packs = [(items[i:i + per], work, "%d_%d" % (os.getpid(), i)) for i in range(0, len(items), per)]
    def crashed(pk, exitcode):
        return [{"id": idx, "beh": beh, "err": "crash: worker process died (exit code %s)" % exitcode,
                 "obs": {}, "gcc": {}, "calls": {}, "rw": {}, "addr": {}} for idx, beh in pk[0]]
    res = mg.run_parallel(run_pack, packs, jobs, crashed)
    return [r for rs in res for r in rs]


# --------------------------------------------------------------------------- verdicts

CLAUSE = {"len": "integer constant / enumerator used as an array length in a type string: no error although the cdef disagrees, or a wrong length",
          "su": "struct/union: usable although a checked fact disagrees, or not showing the compiler's layout",
          "k": "integer constant: wrong value, or no error although the cdef disagrees with the C source",
          "en": "enumerator: wrong value, or no error although the cdef disagrees with the C source",
          "td": "typedef not exposed with its declared type", "fn": "function not exposed with its declared type",
          "gv": "global variable not exposed with its declared type",
          "addr": "address of a function / variable differs from the C address",
          "call": "a call through the module does not return what the C function returns",
          "rw": "a global variable is not read / written in place", "build": "the module could not be built or imported"}


def validate(ctx, recs, name="Trace_CdefApi"):
    out = {}
    slim = [{k: r[k] for k in ("id", "beh", "err", "obs", "gcc", "calls", "rw", "addr")} for r in recs]
    for i in range(0, len(slim), 1000):
        chunk = slim[i:i + 1000]
        path = os.path.join(ctx.tmp, "api_trace_%d.json" % len(ctx.cov["tlc_runs"]))
        core.write_json(path, chunk)
        r = core.tlc("Trace_CdefApi", workers=1, env={"TRACE_FILE": path, "JAVA_TOOL_OPTIONS": "-Xss256m"}, timeout=1500)
        ctx.add_tlc(name, r, count_states=False)
        got = tuples(r.out, "VERDICT")
        if len(got) != len(chunk):
            raise core.MachineryError("trace validation incomplete: %d verdicts for %d records\n%s" % (
                len(got), len(chunk), r.out[-3000:]))
        for t in got:
            out[int(t[0])] = tuple(tlaval.parse_value(x) for x in t[1:4])
    return out


def judge(ctx, recs, verdicts, origin):
    divs, guard = [], 0
    for r in recs:
        V, D, G = verdicts[r["id"]]
        if G:
            raise core.MachineryError("gcc disagrees with the specification's layout model for %s in\n%s" % (
                sorted(G), r.get("csource", "")))
        ctx.validated()
        for clause, item, cls in sorted(V):
            if clause == "guard":
                guard += 1
                continue
            key = cls if cls else "%s:unexplained" % clause
            ctx.violation(key, "%s [%s]" % (CLAUSE.get(clause, clause), item),
                          {"origin": origin, "beh": r["beh"], "cdef": r.get("cdef"), "csource": r.get("csource"),
                           "clause": clause, "item": item, "obs": r["obs"], "err": r["err"],
                           "calls": r["calls"], "rw": r["rw"], "addr": r["addr"]})
        for d in sorted(D):
            divs.append(tuple(d) + (r.get("cdef", ""),))
    return divs, guard


# --------------------------------------------------------------------------- random (cdef, C source) pairs + mutations

def random_case(rng):
    g = Gen(rng, c_safe=True)
    n = rng.randrange(3, 10)
    tries = 0
    while len(g.beh) < n and tries < 20 * n:
        g.step()
        tries += 1
    beh = list(g.beh)
    # single-point mutation of the cdef against the same C source
    structs = [a for a in beh if a["a"] == "DeclStruct" and all(f[2] < 0 and f[1][0] != "anon" for f in a["fs"])]
    consts = [a for a in beh if a["a"] == "DeclConst"]
    enums = [a for a in beh if a["a"] == "DeclEnum"]
    c = rng.randrange(5)
    td = ma.track_td(beh)
    if c == 0 and structs:
        s = rng.choice(structs)
        how = rng.choice(["type", "drop", "swap"])
        idxs = list(range(len(s["fs"])))
        if how == "type":
            cand = [i for i in idxs if ma.prim_is_int(s["fs"][i][1])]
            if cand:
                i = rng.choice(cand)
                size = {"_Bool": 1}.get(s["fs"][i][1][1])
                new = rng.choice([p for p in ("char", "short", "int", "long", "unsigned char", "uint16_t", "uint32_t", "uint64_t")])
                beh.append({"a": "MutateField", "kind": s["kind"], "tag": s["tag"], "how": "type", "i": i + 1, "arg": new})
        elif how == "drop" and len(idxs) >= 2:
            cand = [i for i in idxs if not mg.sus_of(ma.resolve(s["fs"][i][1], td))]
            if cand:
                beh.append({"a": "MutateField", "kind": s["kind"], "tag": s["tag"], "how": "drop", "i": rng.choice(cand) + 1, "arg": "char"})
        elif how == "swap" and len(idxs) >= 2:
            beh.append({"a": "MutateField", "kind": s["kind"], "tag": s["tag"], "how": "swap", "i": rng.choice(idxs[:-1]) + 1, "arg": "char"})
        if rng.random() < 0.4:
            beh.append({"a": "AddDots", "what": "su", "item": [s["kind"], s["tag"]]})
    elif c == 1 and consts:
        k = rng.choice(consts)
        v = int(k["val"])
        beh.append({"a": "MutateConst", "n": k["n"], "val": str(v + rng.choice([1, -1, 256]) if abs(v) < 2**31 - 300 else v // 2)})
        if rng.random() < 0.4:
            beh.append({"a": "AddDots", "what": "k", "item": k["n"]})
    elif c == 2 and enums:
        e = rng.choice(enums)
        i = rng.randrange(len(e["vals"]))
        v = int(e["vals"][i])
        nv = v + 1 if v >= 0 else v - 1
        if (nv < 0) == (v < 0) and abs(nv) < 2**31 - 1:
            beh.append({"a": "MutateEnumerator", "tag": e["tag"], "i": i + 1, "val": str(nv)})
    elif c == 3 and structs:
        s = rng.choice(structs)
        beh.append({"a": "AddDots", "what": "su", "item": [s["kind"], s["tag"]]})
    elif c == 4 and structs:
        def byval(rt):
            return [tuple(rt[:2])] if rt[0] in ("struct", "union") else byval(rt[1]) if rt[0] == "arr" else []
        held = {k for a in beh if "fs" in a for f in a["fs"] if f[1][0] != "anon" for k in byval(ma.resolve(f[1], td))}
        cand = [s for s in structs if (s["kind"], s["tag"]) not in held
                and not any(byval(ma.resolve(f[1], td)) for f in s["fs"])]
        if cand:
            s = rng.choice(cand)
            beh.append({"a": "MutatePack", "kind": s["kind"], "tag": s["tag"], "where": rng.choice(["cdef", "c", "both"])})
    garr = [a for a in beh if a["a"] == "DeclGlobal" and a["t"][0] == "arr" and a["t"][2] >= 0]
    if garr and not any(a["a"] == "AddDots" for a in beh) and rng.random() < 0.6:
        # "extern T g[...];" - possibly next to the struct mutated above
        beh.append({"a": "AddDots", "what": "gv", "item": rng.choice(garr)["n"]})
    return beh


# --------------------------------------------------------------------------- the check

def run(ctx):
    quick = ctx.quick
    jobs = int(os.environ.get("VERIF_JOBS", "8"))
    scen = ["q_struct", "q_const", "q_bigk", "q_use", "q_arrdots"] if quick else ["q_struct", "q_const", "q_bigk", "q_use", "q_arrdots", "struct2", "mixed2"]

    def tlc_job(name):
        r = core.tlc("CdefApi", cfg_text=cfg(emit=True, **SCENARIOS[name]), workers=1, timeout=1700)
        hs = sorted(set(t[0] for t in tuples(r.out, "BEH")))
        return name, r, [hist_to_beh(tlaval.parse_value(h)) for h in hs]

    def sanity_job():
        return core.tlc("CdefApi", cfg_text=cfg(probe=True, variants=("faithful",) + BROKEN, **SCENARIOS["sanity"]),
                        workers=1, timeout=900)

    behs, must = [], []
    with ThreadPoolExecutor(max(2, min(jobs, 6))) as ex:
        fs = ex.submit(sanity_job)
        fd = [ex.submit(tlc_job, s) for s in scen]
        for f in fd:
            name, r, bs = f.result()
            ctx.add_tlc("MC_CdefApi(%s)" % name, r)
            if len(bs) != r.distinct:
                raise core.MachineryError("%s: %d behaviours printed, %d states" % (name, len(bs), r.distinct))
            behs += [b for b in bs if b]
            if name == "q_bigk":
                must = [b for b in bs if b]          # every 64-bit boundary value, always replayed
        r = fs.result()
        ctx.add_tlc("sanity(strict + 3 weakened models)", r, count_states=False)
        caught = {}
        for t in tuples(r.out, "CAUGHT"):
            caught.setdefault(core.unq(t[0]), t[1])
        ctx.cov["variants_caught"] = {v: caught[v][:200] for v in caught}
        for v in BROKEN:
            if v not in caught:
                raise core.MachineryError("variant %r of the model was not rejected by TLC" % v)

    # ---------------------------------------------------------------- spec -> code
    seen, sel = set(), []
    mutated = [b for b in behs if any(a["a"] in ma.MUTATIONS for a in b)]
    plain = [b for b in behs if not any(a["a"] in ma.MUTATIONS for a in b)]
    ctx.rng.shuffle(mutated)
    ctx.rng.shuffle(plain)
    n_mut, n_plain = (200, 50) if quick else (2500, 500)
    # the same share for every kind of mutation (field type / drop / swap, constant, enumerator, "...")
    groups = {}
    for b in mutated:
        kind = tuple(sorted((a["a"], a.get("how", a.get("what", a.get("where", "")))) for a in b if a["a"] in ma.MUTATIONS))
        groups.setdefault(kind, []).append(b)
    strat = []
    while len(strat) < n_mut and any(groups.values()):
        for kind in sorted(groups):
            if groups[kind] and len(strat) < n_mut:
                strat.append(groups[kind].pop())
    ctx.cov["mutation_kinds"] = len(groups)
    for b in must + strat + plain[:n_plain]:
        kk = mg.beh_key(b)
        if kk not in seen:
            seen.add(kk)
            sel.append(b)
    nrand = 40 if quick else 400
    sel += [random_case(ctx.rng) for _ in range(nrand)]
    kinds = {}
    for b in sel:
        for a in b:
            kinds[a["a"]] = kinds.get(a["a"], 0) + 1
    for need in ("MutateField", "MutateConst", "MutateEnumerator", "AddDots", "MutatePack", "DeclStruct", "DeclFunc", "DeclGlobal"):
        if not kinds.get(need):
            raise core.MachineryError("no behaviour with action %s was selected" % need)
    ctx.cov["actions_replayed"] = kinds
    recs = run_packs(ctx, sel, jobs, per=10)
    recs.sort(key=lambda r: r["id"])
    for r in recs:
        ctx.case(mg.beh_key(r["beh"]))
    ctx.cov["modules_compiled"] = (len(sel) + 9) // 10
    verdicts = validate(ctx, recs)
    divs, guard = judge(ctx, recs, verdicts, "TLC behaviours + random pairs")
    if guard > nrand // 2:
        raise core.MachineryError("%d records were refused by the specification's guards" % guard)
    ctx.cov["guard_rejects"] = guard
    for r in recs[:2] + recs[-1:]:
        ctx.sample({"kind": "cdef / C source pair", "cdef": r.get("cdef"), "csource": r.get("csource", "")[:1500],
                    "mutations": [a for a in r["beh"] if a["a"] in ma.MUTATIONS]}, limit=3)
    ctx.cov["model_divergences"] = [list(d[:3]) for d in divs[:10]]
    ctx.cov["model_divergence_count"] = len(divs)
    if divs:
        print("NOTE C12: %d structs behave differently from the implementation model (first: %r)" % (len(divs), divs[0][:3]))
    ctx.cov["rule"] = ("distinct = distinct (cdef, C source) pairs compiled with gcc and observed; mutated pairs have "
                       "exactly one disagreement between cdef and C source")
    ctx.cov["exhaustive"] = False
    ctx.assumptions += ["gcc's sizeof/alignof/offsetof (helper functions compiled into the same module) are checked "
                        "against the specification's x86-64 layout model before any verdict",
                        "items that need, by value, a struct whose use is an error are not constrained",
                        "a disagreement in the total alignment only is not constrained (the statement does not name it)"]


def replay(ctx, obj):
    rp = obj["replay"]
    os.makedirs(os.path.join(ctx.tmp, "mods"), exist_ok=True)
    recs = run_pack(([(1, rp["beh"])], os.path.join(ctx.tmp, "mods"), "replay"))
    print(recs[0].get("cdef")); print(recs[0].get("csource"))
    v = validate(ctx, recs)
    ctx.cov["states"] = 1
    for clause, item, cls in sorted(v[1][0]):
        if clause == "guard":
            print("the recorded behaviour is refused by the specification's guards (action %s): it says nothing about cffi" % item)
            continue
        print("clause %s item %s class %r" % (clause, item, cls))
        ctx.violation(cls if cls else "%s:unexplained" % clause, CLAUSE.get(clause, clause), rp)
    print("replayed: %s" % ("still violated" if [x for x in v[1][0] if x[0] != "guard"] else "accepted by the specification"))


def selftest(ctx):
    os.makedirs(os.path.join(ctx.tmp, "mods"), exist_ok=True)
    beh = [mg.action("DeclStruct", ("struct", "s1", (("a", ("prim", "int"), -1), ("b", ("prim", "char"), -1)))),
           mg.action("DeclConst", ("define", "k1", "7")),
           mg.action("DeclFunc", ("f1", ("prim", "int"), (("prim", "int"),), False))]
    recs = run_pack(([(1, beh)], os.path.join(ctx.tmp, "mods"), "st"))
    ok1 = validate(ctx, recs)[1][0] == frozenset()
    recs[0]["obs"]["su"]["struct s1"]["fields"][1][2] = 1
    recs[0]["calls"]["f1"]["got"] = "0"
    v = validate(ctx, recs)[1][0]
    ok2 = ("su", "struct s1", "") in v and ("call", "f1", "") in v
    # a mutated cdef that the module accepts silently must be reported
    beh2 = beh + [{"a": "MutateConst", "n": "k1", "val": "8"}]
    recs = run_pack(([(1, beh2)], os.path.join(ctx.tmp, "mods"), "st2"))
    ok3 = validate(ctx, recs)[1][0] == frozenset()           # real module raises: accepted
    recs[0]["obs"]["k"]["k1"] = "8"                          # pretend it used the cdef's value
    ok4 = ("k", "k1", "") in validate(ctx, recs)[1][0]
    return ok1 and ok2 and ok3 and ok4


META = {
    "category": "model_checking",
    "text": "TLC explores every behaviour of up to 3 declarations followed by at most one mutation of the cdef "
            "(field type / dropped field / swapped fields / constant / enumerator) and at most one '...', over a "
            "C world that keeps the original declarations, and checks that the implementation model "
            "(_CFFI_F_CHECK_FIELDS, detect_custom_layout, _cffi_check_int) makes an item an error exactly when the "
            "property says so; every behaviour, plus random (cdef, C source) pairs with single-point mutations, is "
            "compiled with gcc and TLC judges the module's projection, gcc's own layout answers, calls, variable "
            "access and addresses against the specification.",
    "note": "gcc's answers are validated against the platform model first (machinery error on disagreement). "
            "Several behaviours share one compiled module (renamed apart) to keep gcc time low.",
    "technique": "TLA+ refinement (TLC) + replay of TLC behaviours through gcc-compiled API modules + TLC trace validation",
    "design_ref": "DESIGN.md §3 C12",
}
