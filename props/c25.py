"""C25 -- every declared name is found by the runtime lookup of generated tables.

Design level : specs/Lookup.tla (generator's list.sort(key=name) + search_sorted() transcribed
               from src/c/parse_c_type.c, one action per loop iteration) is checked by TLC against
               specs/LookupIdeal.tla for EVERY table of <= MaxTable identifiers and EVERY search
               string of the bound (found-own / not-found / loop invariant / termination bound /
               table sorted for strcmp), specs/LookupOrder.tla checks Python order = strcmp order
               on every pair of identifiers; four broken variants must be rejected.
Binding      : (i)  spec -> code: TLC prints every table of the bound with the ideal answer for
                    every search string; the REAL search_sorted (compiled from the working tree's
                    parse_c_type.c through a wrapper that #includes it, reached through all four
                    search_in_* instances and the raw form used by commontypes.c) is run on
                    exactly these, with different bytes following the search token;
               (ii) code -> spec: random adversarial identifier sets are realised as API modules
                    (emit_c_code + gcc) and ABI modules (emit_python_code + dlopen); every
                    declared global / struct-union tag / enum tag / typedef is looked up through
                    lib.<name>, ffi.integer_const, ffi.typeof and must resolve to its own payload,
                    one-character-edit neighbours must not resolve; large synthetic tables go
                    through the compiled search_in_*; all records are validated by TLC
                    (Trace_Lookup.tla) against the ideal.
"""
import contextlib, ctypes, importlib.util, io, json, os, subprocess, sys, warnings
from concurrent.futures import ThreadPoolExecutor
from harness import core, gen_names
from harness.gen_tlc import light, tlc_light

LEVEL = "model_checking"

CFG = """SPECIFICATION %(spec)s
CONSTANTS Alpha = {%(alpha)s}
  MaxName = %(name)d
  MaxTable = %(table)d
  MaxSearch = %(search)d
  TailByte = %(tail)d
  Variant = "%(variant)s"
%(invs)s
CHECK_DEADLOCK FALSE
"""
INVS = ["TableSortedForC", "TableIsPerm", "LoopInv", "FoundOwn", "NotFound", "RefinesIdeal", "Progress"]


def cfg(alpha, name, table, search, tail=0, variant="faithful", spec="Spec", invs=INVS):
    return CFG % dict(spec=spec, alpha=", ".join(str(ord(c)) for c in alpha), name=name, table=table,
                      search=search, tail=tail, variant=variant,
                      invs="\n".join("INVARIANT " + i for i in invs))


ORDER_CFG = """SPECIFICATION OSpec
CONSTANTS Alpha = {%s}
  MaxName = %d
INVARIANT OrderAgreement
INVARIANT Trichotomy
INVARIANT AntiSym
CHECK_DEADLOCK FALSE
"""

# ------------------------------------------------------------------ the real search_sorted

WRAPPER = r"""
#include <stddef.h>
#include <Python.h>
static const char *get_common_type(const char *search, size_t search_len);
#include "%(repo)s/src/c/parse_c_type.c"
static const char *get_common_type(const char *search, size_t search_len) { return NULL; }

/* ns: 0 globals, 1 struct_unions, 2 typenames, 3 enums, 4 raw array of char* (commontypes.c) */
int verif_batch(int ns, const char **names, int n, const char *blob, const int *offs,
                const int *lens, int nq, int *out)
{
    struct _cffi_type_context_s ctx;
    struct _cffi_global_s *g = NULL; struct _cffi_struct_union_s *s = NULL;
    struct _cffi_typename_s *t = NULL; struct _cffi_enum_s *e = NULL;
    int i;
    memset(&ctx, 0, sizeof(ctx));
    /* n + 1 entries, the extra one poisoned: it must never be looked at */
    switch (ns) {
    case 0: g = calloc(n + 1, sizeof(*g)); for (i = 0; i < n; i++) g[i].name = names[i];
            ctx.globals = g; ctx.num_globals = n; break;
    case 1: s = calloc(n + 1, sizeof(*s)); for (i = 0; i < n; i++) s[i].name = names[i];
            ctx.struct_unions = s; ctx.num_struct_unions = n; break;
    case 2: t = calloc(n + 1, sizeof(*t)); for (i = 0; i < n; i++) t[i].name = names[i];
            ctx.typenames = t; ctx.num_typenames = n; break;
    case 3: e = calloc(n + 1, sizeof(*e)); for (i = 0; i < n; i++) e[i].name = names[i];
            ctx.enums = e; ctx.num_enums = n; break;
    }
    for (i = 0; i < nq; i++) {
        const char *q = blob + offs[i];
        switch (ns) {
        case 0: out[i] = search_in_globals(&ctx, q, lens[i]); break;
        case 1: out[i] = search_in_struct_unions(&ctx, q, lens[i]); break;
        case 2: out[i] = search_in_typenames(&ctx, q, lens[i]); break;
        case 3: out[i] = search_in_enums(&ctx, q, lens[i]); break;
        default: out[i] = search_sorted(names, sizeof(const char *), n, q, lens[i]); break;
        }
    }
    free(g); free(s); free(t); free(e);
    return 0;
}
"""
NS_CODE = {"globals": 0, "struct_unions": 1, "typenames": 2, "enums": 3, "raw": 4}


class RealSearch:
    def __init__(self, ctx):
        so = os.path.join(ctx.tmp, "verif_search.so")
        core.gcc_shared(WRAPPER % {"repo": core.REPO}, so,
                        flags=["-I" + core.py_include(), "-I" + os.path.join(core.REPO, "src", "c")])
        self.lib = ctypes.CDLL(so)
        self.lib.verif_batch.restype = ctypes.c_int

    def batch(self, ns, table, queries, tail=b"\0"):
        """table: list of bytes; queries: list of bytes; returns list of int.
        Every query is laid out in one blob followed by `tail` (the bytes after the token)."""
        n = len(table)
        keep = [ctypes.create_string_buffer(t) for t in table]
        arr = (ctypes.c_char_p * (n + 1))(*[ctypes.cast(k, ctypes.c_char_p) for k in keep], None)
        blob, offs, lens = b"", [], []
        parts = []
        pos = 0
        for q in queries:
            offs.append(pos); lens.append(len(q))
            parts.append(q + tail)
            pos += len(q) + len(tail)
        blob = b"".join(parts) + b"\0"
        nq = len(queries)
        out = (ctypes.c_int * nq)()
        self.lib.verif_batch(NS_CODE[ns], arr, n, blob, (ctypes.c_int * nq)(*offs),
                             (ctypes.c_int * nq)(*lens), nq, out)
        return list(out)


def tostr(codes):
    return bytes(codes)


# ------------------------------------------------------------------ spec -> code

def oracle_replay(ctx, real, alpha, name, table, search, tails, corrupt=False):
    """TLC prints all tables of the bound + ideal answers; run the real code on them."""
    out = os.path.join(ctx.tmp, "oracle_%d.json" % len(ctx.cov["tlc_runs"]))
    r = core.tlc("Lookup", cfg_text=cfg(alpha, name, table, search, variant="oracle", spec="TSpec", invs=[]),
                 workers=1, env=light({"ORACLE_OUT": out}))
    ctx.add_tlc("oracle(alpha=%s,name<=%d,table<=%d,search<=%d)" % (alpha, name, table, search), r,
                count_states=False)
    if not os.path.exists(out):
        raise core.MachineryError("oracle run wrote no file:\n" + r.out[-2000:])
    with open(out) as f:
        orc = json.load(f)
    searches = [tostr(x) for x in orc["searches"]]
    tbls = [(t["tbl"], t["ans"]) for t in orc["tables"]]
    if len(tbls) != r.distinct or not tbls:
        raise core.MachineryError("oracle run: %d tables written, %d states" % (len(tbls), r.distinct))
    nbad = 0
    seen = set()
    for ti, (tbl_s, ans_s) in enumerate(tbls):
        tbl = [tostr(x) for x in tbl_s]
        want = list(ans_s)
        seen.add(tuple(tbl))
        if corrupt and ti == len(tbls) // 2 and len(tbl) >= 2:
            tbl[0], tbl[-1] = tbl[-1], tbl[0]
        for ns in ("globals", "struct_unions", "typenames", "enums", "raw"):
            for tail in tails:
                got = real.batch(ns, tbl, searches, tail)
                ctx.case(None, n=len(searches))
                if got != want:
                    nbad += 1
                    for q, g, w in zip(searches, got, want):
                        if g != w:
                            if corrupt:
                                return 1
                            ctx.violation("search_sorted:%s" % ns,
                                          "compiled search_in_%s(%r, %r) returned %d, the ideal is %d"
                                          % (ns, [t.decode() for t in tbl], q.decode(), g, w),
                                          {"kind": "synthetic", "ns": ns, "table": [list(t) for t in tbl],
                                           "query": list(q), "tail": list(tail), "want": w})
                            break
                else:
                    ctx.validated(len(searches))
        ctx._distinct.add(("tbl", tuple(tbl)))
    if len(seen) != len(tbls):
        raise core.MachineryError("oracle printed duplicate tables")
    ctx.sample({"kind": "TLC table replayed on compiled search_in_*", "table": [t.decode() for t in tbl],
                "searches": len(searches), "answers_equal_ideal": True}, limit=1)
    return nbad


# ------------------------------------------------------------------ code -> spec: synthetic large tables

def synthetic_records(ctx, real, ntables, maxn):
    rng = ctx.rng
    recs, metas = [], []
    for i in range(ntables):
        n = rng.choice([1, 2, 3, 7, 8, 9, 31, 32, 33, 100, maxn])
        n = min(n, maxn)
        names = gen_names.ident_set(rng, n, maxlen=rng.choice([6, 12, 40]))
        table = sorted(names)
        ns = rng.choice(list(NS_CODE))
        qs = list(table)
        for nm in rng.sample(table, min(len(table), 60)):
            qs += gen_names.neighbours(rng, nm, 6)
        qs += ["", "0", "z", "Z", "_", "$"]
        tail = rng.choice([b"\0", b"z", b"$", b"\xff", b" *"])
        got = real.batch(ns, [t.encode() for t in table], [q.encode() for q in qs], tail)
        queries = []
        for q, g in zip(qs, got):
            out = "notfound" if g < 0 else ("own" if 0 <= g < len(table) and table[g] == q else "other")
            queries.append({"q": gen_names.codes(q), "out": out})
        ctx.case(("syn", ns, tuple(table)), n=len(qs))
        recs.append({"names": [gen_names.codes(x) for x in names], "table": [gen_names.codes(x) for x in table],
                     "queries": queries})
        metas.append({"kind": "synthetic-large", "ns": ns, "table": table, "tail": list(tail), "qs": qs})
    return recs, metas


# ------------------------------------------------------------------ code -> spec: real modules

CHILD = r"""
import sys, json, importlib.util
job = json.load(open(sys.argv[1]))
def load(name, path):
    spec = importlib.util.spec_from_file_location(name, path)
    m = importlib.util.module_from_spec(spec); spec.loader.exec_module(m); return m
m = load(job["modname"], job["path"])
ffi = m.ffi
lib = m.lib if job["mode"] == "api" else ffi.dlopen(job["so"])
res = []
def classify_global(q, kind, payload):
    # (a) lib.<q>
    outs = []
    try:
        v = getattr(lib, q)
    except AttributeError:
        outs.append(("lib", "notfound"))
    else:
        if kind == "func":
            try: v = v()
            except Exception: v = None
        outs.append(("lib", "own" if kind is not None and v == payload else "other"))
    # (b) ffi.integer_const(q)
    try:
        v = ffi.integer_const(q)
    except AttributeError:
        outs.append(("iconst", "notfound"))
    except ffi.error:
        # found, but a function / variable: "must be fetched from its original 'lib' object"
        outs.append(("iconst", "own" if kind in ("func", "var") else "other"))
    else:
        outs.append(("iconst", "own" if kind in ("macro", "enumval") and v == payload else "other"))
    return outs
def classify_type(ns, q, kind, payload):
    outs = []
    if ns == "typenames":
        forms = [q]
    elif ns == "enums":
        forms = ["enum " + q]
    else:
        forms = (["union " + q, "struct " + q] if kind == "union" else ["struct " + q, "union " + q])
    found = None
    for f in forms:
        try:
            tp = ffi.typeof(f)
        except ffi.error as e:
            if "wrong kind of tag" in str(e):
                continue
            break
        else:
            found = (f, tp)
            break
    if found is None:
        return [("typeof", "notfound")]
    f, tp = found
    ok = False
    if kind is not None:
        if ns == "typenames":
            ok = ffi.sizeof(tp) == payload
        elif ns == "struct_unions":
            ok = ffi.sizeof(tp) == payload and tp.kind == ("union" if kind == "union" else "struct") \
                 and f.split()[0] == tp.kind
        else:
            ok = {k: v for v, k in tp.elements.items()} == payload
    return [("typeof", "own" if ok else "other")]
for ns, q, kind, payload in job["queries"]:
    if ns == "globals":
        outs = classify_global(q, kind, payload)
    else:
        outs = classify_type(ns, q, kind, payload)
    res.append(outs)
json.dump(res, open(sys.argv[2], "w"))
"""


TOKENIZER_KEYWORDS = ["_Bool", "_Complex", "char", "const", "double", "enum", "float", "int", "long", "short", "signed",
                      "struct", "union", "unsigned", "void", "volatile"]
_C_RESERVED = set(TOKENIZER_KEYWORDS) | {"do", "if", "for", "int", "auto", "case", "else", "goto", "enum", "long"}
KEYWORD_NEIGHBOURS = sorted({w for k in TOKENIZER_KEYWORDS
                             for w in (k[:-1], k[:-2], k[:-3], k + "_", k + "s", k + "0")
                             if len(w) >= 3 and w not in _C_RESERVED and not w.startswith("_")
                             and w not in ("con", "sig", "uni")})


def build_case(ctx, idx, nnames, dollar):
    """generate declarations + both generated sources (done in-process: needs cffi)"""
    import cffi
    warnings.simplefilter("ignore")
    rng = ctx.rng
    names = gen_names.ident_set(rng, nnames, maxlen=rng.choice([5, 9, 16]), dollar=dollar)
    # identifiers next to the keywords of the type-string tokenizer (parse_c_type.c:next_token): proper prefixes
    # and one-character extensions of every keyword must be looked up as names, never taken for the keyword
    kw = KEYWORD_NEIGHBOURS[:]
    rng.shuffle(kw)
    names = names + [k for k in kw[:max(4, nnames // 4)] if k not in names]
    d = gen_names.Decls(rng, names)
    case = {"idx": idx, "decls": d, "cdef": d.cdef, "csource": d.csource}
    base = os.path.join(ctx.tmp, "m%d" % idx)
    os.makedirs(base, exist_ok=True)
    case["dir"] = base
    # API
    ffi = cffi.FFI()
    ffi.cdef(d.cdef)
    ffi.set_source("zapi%d" % idx, d.csource)
    cpath = os.path.join(base, "zapi%d.c" % idx)
    try:
        with contextlib.redirect_stdout(io.StringIO()):
            ffi.emit_c_code(cpath)
    except AssertionError:
        import traceback
        tb = traceback.format_exc()
        if "collect_step_tables" not in tb:
            raise
        # the generator's own cross-check between the index a struct/enum gets (sorted by name in
        # collect_type_table) and its position in the sorted table failed: the tables would be unusable
        ctx.violation("generator-table-order", "the generator's table-order consistency assertion failed on valid "
                      "declarations: " + tb.strip().splitlines()[-2].strip(),
                      {"kind": "module", "cdef": d.cdef, "csource": d.csource, "queries": [], "mode": "api"})
        return None
    case["c"] = cpath
    # ABI
    ffi2 = cffi.FFI()
    ffi2.cdef(d.cdef)
    ffi2.set_source("zabi%d" % idx, None)
    ppath = os.path.join(base, "zabi%d.py" % idx)
    with contextlib.redirect_stdout(io.StringIO()):
        ffi2.emit_python_code(ppath)
    case["py"] = ppath
    with open(os.path.join(base, "lib.c"), "w") as f:
        f.write(d.csource)
    # queries
    qs = []
    for ns in ("globals", "struct_unions", "enums", "typenames"):
        ent = {e["name"]: e for e in d.entries if e["ns"] == ns}
        for nm, e in ent.items():
            qs.append([ns, nm, e["kind"], e["payload"]])
        neigh = set()
        for nm in ent:
            for q in gen_names.neighbours(rng, nm.lstrip("$") or "z", 4, dollar=dollar):
                cand = "$" + q if nm.startswith("$") else q
                if cand not in ent:
                    neigh.add(cand)
        # names declared in ANOTHER name space are the most interesting undeclared queries
        for e in d.entries:
            if e["ns"] != ns and e["name"] not in ent:
                neigh.add(e["name"])
        neigh = sorted(neigh)
        rng.shuffle(neigh)
        for q in neigh[: max(20, 2 * len(ent))]:
            qs.append([ns, q, None, None])
        if ns == "globals":
            for q in ("", "0", "0z", "z", "Z", "_z", "$"):
                if q not in ent:
                    qs.append([ns, q, None, None])
    case["queries"] = qs
    return case


def compile_case(case):
    idx = case["idx"]
    base = case["dir"]
    core.build_ext_module("zapi%d" % idx, case["c"], base)
    so = os.path.join(base, "libz%d.so" % idx)
    r = subprocess.run(["gcc", "-shared", "-fPIC", "-O0", "-w", os.path.join(base, "lib.c"), "-o", so],
                       capture_output=True, text=True)
    if r.returncode != 0:
        raise core.MachineryError("gcc failed on plain library: " + r.stderr[-2000:])
    case["so"] = so
    import sysconfig
    outs = {}
    for mode in ("api", "abi"):
        job = {"mode": mode, "modname": ("zapi%d" if mode == "api" else "zabi%d") % idx,
               "path": os.path.join(base, "zapi%d%s" % (idx, sysconfig.get_config_var("EXT_SUFFIX")))
               if mode == "api" else case["py"],
               "so": so, "queries": case["queries"]}
        jp = os.path.join(base, "job_%s.json" % mode)
        rp = os.path.join(base, "res_%s.json" % mode)
        core.write_json(jp, job)
        cp = os.path.join(base, "child.py")
        with open(cp, "w") as f:
            f.write(CHILD)
        r = subprocess.run([core.PY, cp, jp, rp], capture_output=True, text=True, env=core.sub_env(), timeout=300)
        if r.returncode != 0 or not os.path.exists(rp):
            outs[mode] = ("crash", r.returncode, r.stderr[-1500:])
        else:
            with open(rp) as f:
                outs[mode] = ("ok", json.load(f))
    case["outs"] = outs
    return case


def module_records(ctx, cases):
    """one record per (module, mode, name space, access path)"""
    recs, metas = [], []
    for case in cases:
        d = case["decls"]
        with open(case["c"]) as f:
            tc = gen_names.tables_from_c(f.read())
        with open(case["py"]) as f:
            tp = gen_names.tables_from_py(f.read())
        for mode in ("api", "abi"):
            st = case["outs"][mode]
            if st[0] != "ok":
                ctx.violation("module-crash:%s" % mode,
                              "lookups in a generated %s module crashed the interpreter (rc=%s): %s"
                              % (mode, st[1], st[2]),
                              {"kind": "module", "cdef": case["cdef"], "csource": case["csource"],
                               "queries": case["queries"], "mode": mode})
                continue
            tables = tc if mode == "api" else tp
            per = {}
            for (ns, q, kind, payload), outs in zip(case["queries"], st[1]):
                for path, out in outs:
                    per.setdefault((ns, path), []).append({"q": gen_names.codes(q), "out": out, "_q": q})
            for (ns, path), queries in per.items():
                names = d.declared(ns)
                recs.append({"names": [gen_names.codes(x) for x in names],
                             "table": [gen_names.codes(x) for x in tables.get(ns, [])],
                             "queries": [{"q": x["q"], "out": x["out"]} for x in queries]})
                metas.append({"kind": "module", "mode": mode, "ns": ns, "path": path, "idx": case["idx"],
                              "names": names, "qs": [x["_q"] for x in queries],
                              "outs": [x["out"] for x in queries],
                              "cdef": case["cdef"], "csource": case["csource"]})
                ctx.case((mode, ns, path, tuple(sorted(names))), n=len(queries))
    return recs, metas


def validate(ctx, recs, metas, report=True):
    """TLC decides every record against the ideal; returns number of bad queries."""
    nbad = 0
    div = []
    for lo in range(0, len(recs), 400):
        chunk = recs[lo:lo + 400]
        r_path = os.path.join(ctx.tmp, "lk_%d.json" % len(ctx.cov["tlc_runs"]))
        core.write_json(r_path, chunk)
        r = core.tlc("Trace_Lookup", workers=1, env=(light if sum(len(x["queries"]) for x in chunk) < 5000 else dict)({"TRACE_FILE": r_path}))
        ctx.add_tlc("Trace_Lookup", r, count_states=False)
        chk = core.tla_tuples(r.out, "CHECKED")
        nq = sum(len(x["queries"]) for x in chunk)
        if len(chk) != 1 or int(chk[0][0]) != len(chunk) or int(chk[0][1]) != nq:
            raise core.MachineryError("Trace_Lookup did not check all records: %r\n%s" % (chk, r.out[-1500:]))
        for k, what, i in core.tla_tuples(r.out, "VERDICT"):
            m = metas[lo + int(k) - 1]
            what = core.unq(what)
            if what == "harness":
                raise core.MachineryError("duplicate names in a record: %r" % (m,))
            i = int(i) - 1
            nbad += 1
            if report:
                q, out = m["qs"][i], (m["outs"][i] if "outs" in m else "?")
                declared = q in (m.get("names") or m.get("table"))
                ctx.violation("%s:%s:%s" % (m["kind"], m.get("mode", "c"), m["ns"]),
                              "%s name %r in %s (%s): lookup gave %r"
                              % ("declared" if declared else "undeclared", q, m["ns"], m.get("path", "search_in"), out),
                              dict(m, failing_query=q))
        for tup in core.tla_tuples(r.out, "DIVERGE"):
            div.append(metas[lo + int(tup[0]) - 1])
        ctx.validated(nq - 0)
    return nbad, div


def run(ctx):
    quick = ctx.quick
    pool = ThreadPoolExecutor(6)
    # ---------------------------------------------------------------- design level (started in the background)
    confs = [("0_a", 2, 4, 3), ("_a", 3, 3, 3)] if quick else \
            [("$0A_ab", 2, 3, 3), ("$_a", 3, 3, 3), ("_a", 4, 4, 4), ("0A_a", 2, 4, 3)]
    futs = []
    for i, (alpha, nm, tb, se) in enumerate(confs):
        futs.append(("MC_Lookup(alpha=%s,name<=%d,table<=%d,search<=%d)" % (alpha, nm, tb, se), "mc", i == 0,
                     pool.submit(core.tlc, "Lookup",
                                 cfg_text=cfg(alpha, nm, tb, se, tail=(0 if i % 2 == 0 else ord("a"))),
                                 workers=4, coverage=(i == 0), timeout=2400)))
    oa = ("$09AZ_az", 2) if quick else ("$09AZ_az", 3)
    futs.append(("MC_LookupOrder(alpha=%s,name<=%d)" % oa, "mc", False,
                 pool.submit(core.tlc, "LookupOrder",
                             cfg_text=ORDER_CFG % (", ".join(str(ord(c)) for c in oa[0]), oa[1]),
                             workers=2 if quick else 6, timeout=2400, env=light() if quick else None)))
    for v, alpha in (("gt", "_a"), ("noterm", "_a"), ("sortlower", "A_a"), ("leftmid", "_a")):
        futs.append(("sanity:" + v, "sanity", False,
                     pool.submit(tlc_light, "Lookup", cfg_text=cfg(alpha, 2, 3, 3, variant=v))))
    # ---------------------------------------------------------------- code -> spec (modules are built meanwhile)
    real = RealSearch(ctx)
    recs, metas = synthetic_records(ctx, real, 30 if quick else 300, 400 if quick else 3000)
    nmod = 14 if quick else 400
    cfuts = []
    for i in range(nmod):
        case = build_case(ctx, i, ctx.rng.choice([6, 12, 25, 40]) if quick else
                          ctx.rng.choice([3, 8, 20, 40, 80]), dollar=False)
        if case is not None:
            cfuts.append(pool.submit(compile_case, case))
    # ---------------------------------------------------------------- spec -> code
    tails = [b"\0", b"a", b"\xff"]
    oc = [("0_a", 2, 4, 3)] if quick else [("$0A_a", 2, 3, 3), ("_a", 3, 4, 4)]
    for alpha, nm, tb, se in oc:
        oracle_replay(ctx, real, alpha, nm, tb, se, tails)
    ctx.cov["exhaustive"] = True
    cases = [f.result() for f in cfuts]
    r2, m2 = module_records(ctx, cases)
    recs += r2
    metas += m2
    nbad, div = validate(ctx, recs, metas)
    # ---------------------------------------------------------------- collect the design-level results
    for name, kind, first, f in futs:
        r = f.result()
        if kind == "mc":
            ctx.add_tlc(name, r)
            if first:
                cov = r.coverage()
                for a in ("Call", "Step"):
                    if cov.get(a, (0, 0))[1] == 0:
                        raise core.MachineryError("action %s never taken in the design-level run" % a)
        else:
            ctx.add_tlc(name, r, require_ok=False, count_states=False)
            if r.ok or not r.invariant_violated:
                raise core.MachineryError("broken variant %s of the model was not rejected by TLC" % name)
    pool.shutdown()
    if div:
        ctx.cov["model_divergences"] = [{k: m[k] for k in ("kind", "ns", "mode") if k in m} for m in div[:10]]
        ctx.cov["model_divergence_count"] = len(div)
        print("NOTE C25: %d generated tables are not in PySort order (implementation model divergence); "
              "verdicts come from the ideal" % len(div))
    for m in m2[:2]:
        ctx.sample({"kind": "module record", "mode": m["mode"], "ns": m["ns"], "path": m["path"],
                    "names": m["names"][:8], "queries": list(zip(m["qs"], m["outs"]))[:8]})
    ctx.cov["rule"] = ("distinct = distinct tables (TLC-enumerated tables replayed on the compiled search_in_*, "
                       "synthetic large tables, and (mode, name space, access path, name set) of generated modules); "
                       "all non-trivial: every table is queried with all its names and with undeclared neighbours")
    ctx.assumptions += ["identifiers are ASCII (pycparser's lexer admits [A-Za-z_$][A-Za-z0-9_$]*); user identifiers "
                        "containing '$' are not generated for modules (cffi reserves '$' for invented names); "
                        "'$'-names enter the module tables through anonymous typedef'd structs/enums",
                        "strncmp compares unsigned chars and stops at a terminator (ISO C)",
                        "generated identifiers all start with z/Z/_z to stay clear of names known to Python.h "
                        "and to cffi's parser; the TLC-enumerated tables have no such restriction"]


def selftest(ctx):
    real = RealSearch(ctx)
    # (1) a flipped predicted value is noticed by the replay
    bad1 = oracle_replay(ctx, real, "_a", 2, 2, 2, [b"\0"], corrupt=True)
    # (2) a corrupted recorded outcome is rejected by the trace specification
    recs, metas = synthetic_records(ctx, real, 2, 20)
    ok0, _ = validate(ctx, recs, metas, report=False)
    recs[0]["queries"][0]["out"] = "notfound"
    ok1, _ = validate(ctx, recs, metas, report=False)
    ctx.cov["states"] = 1
    return bad1 >= 1 and ok0 == 0 and ok1 == 1


def replay(ctx, obj):
    rp = obj["replay"]
    ctx.cov["states"] = 1
    if rp["kind"] == "synthetic":
        real = RealSearch(ctx)
        got = real.batch(rp["ns"], [bytes(t) for t in rp["table"]], [bytes(rp["query"])], bytes(rp["tail"]))[0]
        print("compiled search gives %d, ideal %d" % (got, rp["want"]))
        if got != rp["want"]:
            ctx.violation(obj["key"], obj["what"], rp)
    elif rp["kind"] == "synthetic-large":
        real = RealSearch(ctx)
        table = rp["table"]
        got = real.batch(rp["ns"], [t.encode() for t in table], [rp["failing_query"].encode()], bytes(rp["tail"]))[0]
        want = table.index(rp["failing_query"]) if rp["failing_query"] in table else -1
        print("compiled search gives %d, ideal %d" % (got, want))
        if got != want:
            ctx.violation(obj["key"], obj["what"], rp)
    else:
        import cffi
        from harness import gen_names as gn
        print("re-generating the module from the stored cdef and repeating the failing lookup")
        case = {"idx": 0, "dir": ctx.tmp, "cdef": rp["cdef"], "csource": rp["csource"]}
        ffi = cffi.FFI(); ffi.cdef(rp["cdef"]); ffi.set_source("zapi0", rp["csource"])
        case["c"] = os.path.join(ctx.tmp, "zapi0.c")
        try:
            ffi.emit_c_code(case["c"])
        except AssertionError as e:
            print("the generator's consistency assertion fails again")
            ctx.violation(obj["key"], obj["what"], rp)
            return
        ffi2 = cffi.FFI(); ffi2.cdef(rp["cdef"]); ffi2.set_source("zabi0", None)
        case["py"] = os.path.join(ctx.tmp, "zabi0.py"); ffi2.emit_python_code(case["py"])
        with open(os.path.join(ctx.tmp, "lib.c"), "w") as f:
            f.write(rp["csource"])
        q = rp.get("failing_query")
        declared = q in rp.get("names", [])
        case["queries"] = [[rp["ns"], q, "?" if declared else None, None]] if q is not None else rp["queries"]
        compile_case(case)
        st = case["outs"][rp["mode"]]
        print("outcome:", st)
        if st[0] != "ok":
            ctx.violation(obj["key"], obj["what"], rp)
        else:
            outs = dict(st[1][0])
            found = any(o != "notfound" for o in outs.values())
            if found != declared:
                ctx.violation(obj["key"], obj["what"], rp)


META = {
    "category": "model_checking",
    "text": "TLC checks, for every table of up to 4-5 identifiers and every search string of the bound, that the "
            "generator's Python sort followed by the transcribed search_sorted() finds exactly the declared names "
            "(own entry / not found / loop invariant / log2 termination bound) and that Python string order equals "
            "strcmp order on all identifier pairs; every TLC-enumerated table is replayed on the real search_sorted "
            "compiled from parse_c_type.c (all search_in_* instances), and lookups in generated API and ABI modules "
            "over adversarial identifier sets are validated by TLC against the ideal.",
    "note": "Trusted: TLC, gcc, ISO-C strncmp semantics. The unbounded (all table sizes) statement is not proved; "
            "tables beyond the TLC bound are covered by trace validation only.",
    "technique": "TLA+ model checking of algorithm vs ideal (TLC) + exhaustive replay of the TLC-enumerated tables "
                 "on the compiled C function + TLC trace validation of lookups in generated modules",
    "design_ref": "DESIGN.md §3 C25",
}
