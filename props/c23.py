"""C23 -- generated source is deterministic, idempotent and replaced atomically.

(b) atomic replacement / idempotence  [model checking]
  Design level : specs/AtomicWrite.tla (the file part of recompiler._make_c_or_py_source, one action
                 per system call, Crash enabled in every state, 1-3 concurrent processes, stale temp
                 file, 1-3 write chunks) against the clauses of specs/AtomicWriteIdeal.tla (target is
                 complete-old or complete-new at every instant; identical content => nothing touched,
                 returns False; otherwise returns True and the target is new); four broken variants
                 must be rejected; the unlink+rename fallback is shown non-atomic under the fault
                 "rename fails" (a NOTE: outside the property's quantifier).
  Binding      : code -> spec: the real function runs in a child under strace; the system-call log of
                 every run (clean runs and runs killed at a system call) is validated by TLC
                 (Trace_AtomicWrite.tla) against the ideal, with the content found on disk afterwards.
                 spec -> code: every behaviour "k steps, then Crash" of the TLC state graph
                 (-dump) is replayed by killing the child (strace fault injection: SIGKILL on entry
                 of the system call that realises step k+1, the call itself suppressed) and the
                 directory is compared with the model's projection (target class, temp-file class);
                 in addition the child is killed at EVERY file system call of the write path.
(a) determinism  [exploration]
  specs/GenDet.tla supplies the configuration matrix (hash seed x repetition x sink) and the clause
  "the text is a function of the input"; random cdefs (API and ABI flavour) are generated in
  sub-processes under different PYTHONHASHSEEDs, repeatedly, to a path and to a file-like object;
  TLC (Trace_GenDet.tla) checks that all digests of one input coincide.
"""
import contextlib, glob, hashlib, io, json, os, re, shutil, subprocess, sys, warnings
from concurrent.futures import ThreadPoolExecutor
from harness import core, tlaval, gen_cdef, gen_names
from harness.gen_tlc import light, tlc_light

LEVEL = "model_checking"

AW_CFG = """SPECIFICATION Spec
CONSTANTS Olds = {%(olds)s}
  MaxChunks = %(chunks)d
  StaleTmp = {%(stale)s}
  RenameFails = %(rf)s
  Procs = {%(procs)s}
  Variant = "%(variant)s"
INVARIANT InvAtomic
INVARIANT InvUntouched
INVARIANT InvReturn
INVARIANT InvDoneNew
%(live)s
CHECK_DEADLOCK FALSE
"""


def aw_cfg(olds=("absent", "same", "diff"), chunks=3, stale=("TRUE", "FALSE"), rf=False, procs=(1,),
           variant="faithful", live=True):
    return AW_CFG % dict(olds=", ".join('"%s"' % o for o in olds), chunks=chunks, stale=", ".join(stale),
                         rf="TRUE" if rf else "FALSE", procs=", ".join(map(str, procs)), variant=variant,
                         live="PROPERTY Finishes" if live else "")


GD_CFG = """SPECIFICATION Spec
CONSTANTS HashSeeds = {%s}
  Reps = %d
  Sinks = {"path", "filelike"}
CHECK_DEADLOCK FALSE
"""

# ------------------------------------------------------------------ children

GEN_CHILD = gen_cdef.BUILD_SRC + r"""
import sys, json, hashlib, io, os, warnings, contextlib
warnings.simplefilter("ignore")
import cffi
job = json.load(open(sys.argv[1]))
out = []
tmpd = job["tmp"]
for inp in job["inputs"]:
    for rep in range(1, job["reps"] + 1):
        for sink in ("path", "filelike"):
            ffi = build_ffi(inp)
            emit = ffi.emit_c_code if inp["preamble"] is not None else ffi.emit_python_code
            with contextlib.redirect_stdout(io.StringIO()):
                if sink == "path":
                    p = os.path.join(tmpd, "g_%s_%d" % (inp["id"], rep))
                    emit(p)
                    with open(p, "rb") as f:
                        data = f.read()
                else:
                    f = io.StringIO()
                    emit(f)
                    data = f.getvalue().encode("utf-8")
            out.append({"id": inp["id"], "rep": rep, "sink": sink, "digest": hashlib.sha256(data).hexdigest()})
json.dump(out, open(sys.argv[2], "w"))
"""

IDEM_CHILD = gen_cdef.BUILD_SRC + r"""
import sys, json, os, warnings
warnings.simplefilter("ignore")
from cffi import recompiler
job = json.load(open(sys.argv[1]))
inp = job["input"]
ffi = build_ffi(inp)
if inp["preamble"] is not None:
    r = recompiler.make_c_source(ffi, inp["modname"], inp["preamble"], job["target"])
else:
    r = recompiler.make_py_source(ffi, inp["modname"], job["target"])
sys.stdout.write("RET %r\\n" % (r,))
"""

AW_CHILD = r"""
import sys, json, os, warnings, io, contextlib
warnings.simplefilter("ignore")
job = json.load(open(sys.argv[1]))
import cffi
from cffi import recompiler
ffi = cffi.FFI()
ffi.cdef(job["cdef"])
target = job["target"]
if job.get("stale"):
    with open("%s.~%d" % (target, os.getpid()), "w") as f:
        f.write("stale junk")
sys.stdout.flush()
try: os.open("/verif_marker_begin", os.O_RDONLY)
except OSError: pass
r = recompiler._make_c_or_py_source(ffi, job["modname"], job["preamble"], target, False)
try: os.open("/verif_marker_end", os.O_RDONLY)
except OSError: pass
sys.stdout.write("RET %r\n" % (r,))
"""

# ------------------------------------------------------------------ strace log handling

_LINE = re.compile(r"^(\w+)\((.*)\)\s+= (-?\d+|\?)(.*)$")
_STR = r'"((?:[^"\\]|\\.)*)"'


def parse_log(path):
    """-> list of (name, args string, result string) for syscall lines; killed flag"""
    out, killed = [], False
    with open(path, errors="replace") as f:
        for line in f:
            line = line.rstrip("\n")
            if line.startswith("+++ killed"):
                killed = True
            m = _LINE.match(line)
            if m:
                out.append((m.group(1), m.group(2), m.group(3)))
    return out, killed


def window(calls):
    b = [i for i, c in enumerate(calls) if c[0] == "openat" and "/verif_marker_begin" in c[1]]
    e = [i for i, c in enumerate(calls) if c[0] == "openat" and "/verif_marker_end" in c[1]]
    return (b[0] if b else None), (e[0] if e else None)


def normalise(calls, lo, hi, target):
    """system calls of the window -> events of the ideal machine (only files in the target's directory)"""
    tdir = os.path.dirname(target)
    evs, idx = [], []
    fds = {}

    def pname(p):
        return "T" if p == target else os.path.basename(p)
    for i in range(lo + 1, hi):
        name, args, res = calls[i]
        if name == "openat":
            m = re.match(r"AT_FDCWD, " + _STR + r", ([A-Z_|0-9]+)", args)
            if not m or os.path.dirname(m.group(1)) != tdir:
                continue
            w = any(fl in m.group(2) for fl in ("O_WRONLY", "O_RDWR", "O_TRUNC", "O_CREAT", "O_APPEND"))
            fd = int(res) if res != "?" else -1
            if res == "?":
                continue
            evs.append({"ev": "open", "path": pname(m.group(1)), "w": w, "fd": fd}); idx.append(i)
            if fd >= 0:
                fds[fd] = pname(m.group(1))
        elif name == "write":
            fd = int(args.split(",", 1)[0])
            if fd in fds and res != "?":
                evs.append({"ev": "write", "fd": fd, "n": max(int(res), 0)}); idx.append(i)
        elif name == "close":
            fd = int(args.split(",", 1)[0].strip() or -1)
            if fd in fds and res != "?":
                evs.append({"ev": "close", "fd": fd}); idx.append(i)
                del fds[fd]
        elif name in ("rename", "renameat", "renameat2"):
            ps = re.findall(_STR, args)
            if len(ps) >= 2 and res != "?":
                evs.append({"ev": "rename", "src": pname(ps[0]), "dst": pname(ps[1]), "ok": res == "0"}); idx.append(i)
        elif name in ("unlink", "unlinkat"):
            ps = re.findall(_STR, args)
            if ps and res != "?":
                evs.append({"ev": "unlink", "path": pname(ps[0]), "ok": res == "0"}); idx.append(i)
        elif name in ("truncate", "ftruncate", "link", "linkat", "symlink", "symlinkat", "pwrite64", "writev",
                      "copy_file_range", "sendfile"):
            raise core.MachineryError("system call %s in the write path is not modelled: %s" % (name, args))
    return evs, idx


def relevant_points(calls, lo, hi, target):
    """indices (into calls) of the system calls of the write path: everything between the first access to the
    target's directory and the end marker"""
    tdir = os.path.dirname(target)
    first = None
    for i in range(lo + 1, hi):
        if tdir in calls[i][1]:
            first = i
            break
    if first is None:
        return []
    # hi = end marker: "crash right after the last step"; memory mappings are not steps of the write path
    return [i for i in range(first, hi + 1) if calls[i][0] not in ("mmap", "munmap", "mremap", "brk", "madvise")]


def ordinal(calls, i):
    name = calls[i][0]
    return name, sum(1 for c in calls[:i + 1] if c[0] == name)


# ------------------------------------------------------------------ running the real function

class Scenario:
    """one (cdef, module, flavour, old state, stale) situation in its own directory"""

    def __init__(self, ctx, sid, cdef, modname, preamble, old, stale):
        self.ctx, self.sid = ctx, sid
        self.cdef, self.modname, self.preamble, self.old, self.stale = cdef, modname, preamble, old, stale
        import cffi
        from cffi import recompiler
        ffi = cffi.FFI()
        with warnings.catch_warnings():
            warnings.simplefilter("ignore")
            ffi.cdef(cdef)
        f = io.StringIO()
        recompiler._make_c_or_py_source(ffi, modname, preamble, f, False)
        self.new = f.getvalue().encode("utf-8")
        self.oldbytes = {"absent": None, "same": self.new, "diff": b"/* previous content */\n" + self.new[:2000]}[old]
        self.base = os.path.join(ctx.tmp, "sc%d" % sid)
        os.makedirs(self.base, exist_ok=True)
        self.nruns = 0

    def fresh_dir(self):
        self.nruns += 1
        d = os.path.join(self.base, "r%d" % self.nruns)
        os.makedirs(d)
        target = os.path.join(d, "out" + (".c" if self.preamble is not None else ".py"))
        if self.oldbytes is not None:
            with open(target, "wb") as f:
                f.write(self.oldbytes)
            os.utime(target, ns=(10 ** 18, 10 ** 18))
        job = {"cdef": self.cdef, "modname": self.modname, "preamble": self.preamble, "target": target,
               "stale": self.stale}
        core.write_json(os.path.join(d, "job.json"), job)
        return d, target

    def classify(self, target):
        try:
            with open(target, "rb") as f:
                data = f.read()
        except FileNotFoundError:
            return "absent"
        if data == self.new:
            return "new"
        if self.oldbytes is not None and data == self.oldbytes:
            return "old"
        return "partial"

    def tmp_class(self, target):
        fs = glob.glob(target + ".~*")
        if not fs:
            return "absent"
        with open(fs[0], "rb") as f:
            data = f.read()
        if data == b"stale junk":
            return "junk"
        if self.new.startswith(data):
            return ["new", 1 if data == self.new else 0]
        return "junk"

    def run(self, child, inject=None):
        d, target = self.fresh_dir()
        st0 = os.stat(target) if self.oldbytes is not None else None
        log = os.path.join(d, "strace.log")
        cmd = ["strace", "-o", log, "-e", "trace=%file,%desc"]
        if inject:
            cmd += ["-e", "inject=%s:error=EIO:signal=KILL:when=%d" % inject]
        cmd += [core.PY, child, os.path.join(d, "job.json")]
        r = subprocess.run(cmd, capture_output=True, text=True, env=core.sub_env(PYTHONHASHSEED="0"), timeout=300)
        calls, killed = parse_log(log)
        res = {"dir": d, "target": target, "rc": r.returncode, "stdout": r.stdout, "stderr": r.stderr[-800:],
               "calls": calls, "killed": killed, "cls": self.classify(target), "tmp": self.tmp_class(target)}
        if st0 is not None and os.path.exists(target):
            st1 = os.stat(target)
            res["mtime_same"] = (st1.st_mtime_ns == st0.st_mtime_ns and st1.st_ino == st0.st_ino)
        else:
            res["mtime_same"] = False
        m = re.search(r"RET (True|False)", r.stdout)
        res["ret"] = None if not m else (m.group(1) == "True")
        return res

    def env(self):
        return {"old": self.old, "newlen": len(self.new)}


def trace_of(sc, res, complete):
    """JSON trace for Trace_AtomicWrite from one run"""
    calls = res["calls"]
    lo, hi = window(calls)
    if lo is None:
        return None
    if hi is None:
        hi = len(calls)
    evs, _ = normalise(calls, lo, hi, res["target"])
    pre = []
    if sc.stale:
        pre = [e["path"] for e in evs if e["ev"] == "open" and e["w"] and e["path"] != "T"][:1]
        if not pre:
            pre = ["stale-not-reached"]
    if complete:
        evs.append({"ev": "ret", "updated": bool(res["ret"])})
    else:
        evs.append({"ev": "crash"})
    evs.append({"ev": "final", "cls": res["cls"], "mtime_same": bool(res["mtime_same"])})
    return {"env": sc.env(), "pre": pre, "events": evs}


CLAUSE = {"atomic": "a system call left the target neither complete-old nor complete-new",
          "untouched": "the target (or its name) was touched although its content was already identical",
          "return": "wrong 'updated' result, or the target is not the new text after the call",
          "atomic-final": "after the (killed) run the target holds neither the complete old nor the complete new text",
          "untouched-mtime": "content identical but mtime/inode of the target changed"}


def validate_traces(ctx, traces, metas, report=True):
    bad = []
    for lo in range(0, len(traces), 1500):
        chunk = traces[lo:lo + 1500]
        verd = core.tlc_verdicts(ctx, "Trace_AtomicWrite", chunk, extra_env=light())
        if len(verd) != len(chunk):
            raise core.MachineryError("Trace_AtomicWrite: %d verdicts for %d traces" % (len(verd), len(chunk)))
        for k, v, pos, cls in verd:
            k = lo + int(k) - 1
            v = core.unq(v)
            ctx.validated()
            metas[k]["model_final"] = core.unq(cls)
            if v != "ok":
                bad.append((k, v, int(pos)))
                if report:
                    m = metas[k]
                    ctx.violation("atomicwrite:%s:old=%s:%s" % (v, m["old"], m["kind"]), CLAUSE.get(v, v),
                                  {"meta": m, "trace": traces[k], "failing_event_index": int(pos)})
    return bad


# ------------------------------------------------------------------ spec -> code: TLC crash behaviours

STEP_SYSCALL = {  # model action -> predicate on (event) selecting the system call that realises it
    "CmpOpen": lambda e: e["ev"] == "open" and e["path"] == "T" and not e["w"],
    "CmpClose": lambda e: e["ev"] == "close",
    "OpenTmp": lambda e: e["ev"] == "open" and e["w"] and e["path"] != "T",
    "WriteChunk": lambda e: e["ev"] == "write",
    "CloseTmp": lambda e: e["ev"] == "close",
    "RenameOk": lambda e: e["ev"] == "rename",
}


def model_paths(ctx):
    """all behaviours (k steps then Crash, or a complete run) of the model with one write chunk, grouped by the
    situation (old, stale): {(old, stale): [(steps before the crash, projected state at the end)]}"""
    dump = os.path.join(ctx.tmp, "aw_graph")
    r = tlc_light("AtomicWrite", cfg_text=aw_cfg(chunks=1, live=False), dump=dump)
    ctx.add_tlc("dump(AtomicWrite,1 chunk)", r, count_states=False)
    g = tlaval.load_dot(dump + ".dot")
    out = {}
    for i0 in g.init:
        S0 = g.states[i0]["S"]
        fs0 = S0["fs"] if isinstance(S0["fs"], dict) else {}
        key = (S0["env"]["old"], "TMP1" in fs0)
        lst = out.setdefault(key, [])

        def rec(cur, acts):
            succ = [e for e in g.succ(cur) if e[2] != cur]
            if not succ:
                lst.append(([a for a in acts if a != "CrashP"], project(g.states[cur]["S"])))
                return
            for a, _args, dst in succ:
                rec(dst, acts + [a])
        rec(i0, [])
    return out


def project(S):
    """same projection as AtomicWriteIdeal!TargetClass / AtomicWrite!TmpClass, on a parsed TLC state"""
    fs, ino, env = S["fs"], S["ino"], S["env"]
    fs = fs if isinstance(fs, dict) else {}

    def iget(i):
        return ino[i] if isinstance(ino, dict) else ino[i - 1]      # TLC prints functions on 1..n as tuples

    def cls(i):
        f = iget(i)
        if f["tag"] == "old":
            return "old"
        if f["tag"] == "new" and f["n"] == env["newlen"]:
            return "new"
        return "partial" if f["tag"] == "new" else "junk"
    t = "absent" if "T" not in fs else cls(fs["T"])
    tmp = "absent"
    if "TMP1" in fs:
        f = iget(fs["TMP1"])
        tmp = ["new", 1 if f["n"] == env["newlen"] else 0] if f["tag"] == "new" else "junk"
    return {"target": t, "tmp": tmp}


def cross_process_idempotence(ctx, pool, inps):
    """one process generates the file, processes with other hash seeds regenerate it: the content is identical, so the
    file must stay untouched and the call must report 'not updated' (clauses return / untouched-mtime of the ideal)"""
    child = os.path.join(ctx.tmp, "idem_child.py")
    with open(child, "w") as f:
        f.write(IDEM_CHILD)

    def one(inp):
        d = os.path.join(ctx.tmp, "idem_" + inp["id"])
        os.makedirs(d)
        target = os.path.join(d, "out" + (".c" if inp["preamble"] is not None else ".py"))
        jp = core.write_json(os.path.join(d, "job.json"), {"input": inp, "target": target})
        out = []
        first = None
        for seed in ("1", "2", "3", "random"):
            st0 = os.stat(target) if os.path.exists(target) else None
            r = subprocess.run([core.PY, child, jp], capture_output=True, text=True, env=core.sub_env(PYTHONHASHSEED=seed),
                               timeout=600)
            m = re.search(r"RET (True|False)", r.stdout)
            if r.returncode != 0 or not m:
                raise core.MachineryError("idempotence child failed: " + r.stderr[-1500:])
            with open(target, "rb") as f:
                data = f.read()
            if first is None:
                first = data
                os.utime(target, ns=(10 ** 18, 10 ** 18))
                continue
            st1 = os.stat(target)
            same = st0 is not None and (st1.st_mtime_ns, st1.st_ino) == (st0.st_mtime_ns, st0.st_ino)
            out.append((seed, m.group(1) == "True", "new" if data == first else "partial", same))
        return inp, len(first), out
    traces, metas = [], []
    for inp, n, out in pool.map(one, inps):
        for seed, updated, cls, same in out:
            traces.append({"env": {"old": "same", "newlen": n}, "pre": [],
                           "events": [{"ev": "ret", "updated": updated}, {"ev": "final", "cls": cls, "mtime_same": same}]})
            metas.append({"kind": "cross-process(seed %s after seed 1)" % seed, "old": "same", "input": inp["id"],
                          "shape": inp.get("shape"), "updated": updated, "final": cls, "mtime_same": same})
            ctx.case(("idem", inp["id"], seed))
    return traces, metas


def compile_case(ctx, rng):
    """ffi.compile() writes the same C text as emit_c_code() and leaves it untouched the second time"""
    import cffi
    d = gen_names.Decls(rng, gen_names.ident_set(rng, 8, dollar=False))
    out = os.path.join(ctx.tmp, "compile_case")
    os.makedirs(out)
    digests, mtimes = [], []
    for rep in (1, 2):
        ffi = cffi.FFI()
        with warnings.catch_warnings():
            warnings.simplefilter("ignore")
            ffi.cdef(d.cdef)
        ffi.set_source("zcompiled", d.csource)
        try:
            with contextlib.redirect_stdout(io.StringIO()):
                ffi.compile(tmpdir=out, verbose=0)
        except Exception as e:
            raise core.MachineryError("ffi.compile() failed: %r" % (e,))
        p = os.path.join(out, "zcompiled.c")
        with open(p, "rb") as f:
            digests.append(hashlib.sha256(f.read()).hexdigest())
        mtimes.append((os.stat(p).st_mtime_ns, os.stat(p).st_ino))
        if rep == 1:
            os.utime(p, ns=(10 ** 18, 10 ** 18))
            mtimes[0] = (os.stat(p).st_mtime_ns, os.stat(p).st_ino)
    ffi = cffi.FFI()
    with warnings.catch_warnings():
        warnings.simplefilter("ignore")
        ffi.cdef(d.cdef)
    ffi.set_source("zcompiled", d.csource)
    f = io.StringIO()
    with contextlib.redirect_stdout(io.StringIO()):
        ffi.emit_c_code(f)
    ref = hashlib.sha256(f.getvalue().encode("utf-8")).hexdigest()
    ctx.case(("compile",), n=2)
    rp = {"kind": "determinism", "input": {"id": "compile", "cdef": d.cdef, "modname": "zcompiled", "preamble": d.csource}}
    if digests != [ref, ref]:
        ctx.violation("determinism:compile", "ffi.compile() wrote a C text different from emit_c_code()", rp)
    if mtimes[0] != mtimes[1]:
        ctx.violation("untouched:compile", "the second ffi.compile() rewrote an identical C file (mtime/inode changed)", rp)
    ctx.validated(2)


def run(ctx):
    quick = ctx.quick
    pool = ThreadPoolExecutor(8)
    # ---------------------------------------------------------------- design level (background)
    futs = [("MC_AtomicWrite(1 proc,chunks<=3)", "mc", pool.submit(tlc_light, "AtomicWrite", cfg_text=aw_cfg(), coverage=True)),
            ("MC_AtomicWrite(2 procs,chunks<=%d)" % (2 if quick else 3), "mc",
             pool.submit(tlc_light, "AtomicWrite", cfg_text=aw_cfg(procs=(1, 2), chunks=2 if quick else 3), workers=2))]
    if not quick:
        futs.append(("MC_AtomicWrite(3 procs,chunks<=2)", "mc",
                     pool.submit(core.tlc, "AtomicWrite", cfg_text=aw_cfg(procs=(1, 2, 3), chunks=2, live=False),
                                 workers=8, timeout=3000)))
    for v in ("inplace", "unlinkfirst", "nocompare", "renameearly"):
        futs.append(("sanity:" + v, "sanity", pool.submit(tlc_light, "AtomicWrite", cfg_text=aw_cfg(variant=v))))
    futs.append(("fault:rename-fails", "fault", pool.submit(tlc_light, "AtomicWrite", cfg_text=aw_cfg(rf=True))))
    seeds = ["0", "1", "2", "random", "inproc"] if quick else ["0", "1", "2", "3", "random", "inproc"]
    gd_out = os.path.join(ctx.tmp, "gendet.json")
    futs.append(("GenDet(configs)", "mc", pool.submit(core.tlc, "GenDet", cfg_text=GD_CFG % (
        ", ".join('"%s"' % s for s in seeds), 2), workers=1, env=light({"GENDET_OUT": gd_out}))))

    # ---------------------------------------------------------------- (a) determinism
    rng = ctx.rng
    ninputs = 16 if quick else 500
    inputs = []
    for i in range(ninputs):
        fl = "api" if i % 2 == 0 else "abi"
        if i % 7 == 6:
            d = gen_names.Decls(rng, gen_names.ident_set(rng, rng.randint(3, 20), dollar=False), with_funcs=True)
            cdef = d.cdef
        else:
            cdef = gen_cdef.gen(rng, rng.randint(2, 30), fl)
        inputs.append({"id": "i%d" % i, "cdef": cdef, "modname": rng.choice(["m%d", "pkg.m%d", "a.b.c%d"]) % i,
                       "preamble": gen_cdef.preamble(rng) if fl == "api" else None})
    # FFIs that include 1-4 other FFIs (chains, siblings, diamonds), both targets
    inc_inputs = []
    shapes = list(gen_cdef.SHAPES)
    for k in range(len(shapes) * 2 if quick else 60):
        fl = "api" if k % 2 == 0 else "abi"
        inp = gen_cdef.gen_includes(rng, fl, shapes[(k // 2) % len(shapes)], "q%d" % k)
        inp["id"] = "inc%d" % k
        inc_inputs.append(inp)
    inputs += inc_inputs
    child = os.path.join(ctx.tmp, "gen_child.py")
    with open(child, "w") as f:
        f.write(GEN_CHILD)

    def gen_run(seed, part, k):
        jd = os.path.join(ctx.tmp, "gd_%s_%d" % (seed, k))
        os.makedirs(jd, exist_ok=True)
        core.write_json(os.path.join(jd, "job.json"), {"inputs": part, "reps": 2, "tmp": jd})
        env = core.sub_env()
        if seed == "random":
            env["PYTHONHASHSEED"] = "random"
        else:
            env["PYTHONHASHSEED"] = seed
        r = subprocess.run([core.PY, child, os.path.join(jd, "job.json"), os.path.join(jd, "out.json")],
                           capture_output=True, text=True, env=env, timeout=1200)
        if r.returncode != 0:
            raise core.MachineryError("generation child failed (seed %s): %s" % (seed, r.stderr[-1500:]))
        with open(os.path.join(jd, "out.json")) as f:
            return seed, json.load(f)
    nparts = 2 if quick else 4
    parts = [inputs[i::nparts] for i in range(nparts)]
    gfuts = [pool.submit(gen_run, s, part, k) for s in seeds if s != "inproc" for k, part in enumerate(parts)]

    # ---------------------------------------------------------------- (b) the real write path
    aw_child = os.path.join(ctx.tmp, "aw_child.py")
    with open(aw_child, "w") as f:
        f.write(AW_CHILD)
    if shutil.which("strace") is None:
        raise core.MachineryError("strace not available")
    nfiles = 2 if quick else 30
    scenarios = []
    sid = 0
    for i in range(nfiles):
        fl = "api" if i % 2 == 0 else "abi"
        cdef = gen_cdef.gen(rng, rng.randint(2, 12), fl)
        pre = gen_cdef.preamble(rng) if fl == "api" else None
        if i == 0:
            pre = pre + "/* " + "x" * 300000 + " */\n"          # a large file: more than one buffer
        for old in ("absent", "same", "diff"):
            stale = (i + len(old)) % 2 == 1 and old != "same"
            scenarios.append(Scenario(ctx, sid, cdef, "pkg.mod%d" % i, pre, old, stale))
            sid += 1
    clean = list(pool.map(lambda sc: sc.run(aw_child), scenarios))
    traces, metas = [], []
    kill_jobs = []
    for sc, res in zip(scenarios, clean):
        lo, hi = window(res["calls"])
        if res["rc"] != 0 or lo is None or hi is None or res["ret"] is None:
            raise core.MachineryError("clean run of the write path failed: rc=%s %s" % (res["rc"], res["stderr"]))
        tr = trace_of(sc, res, True)
        traces.append(tr)
        metas.append({"kind": "clean", "old": sc.old, "stale": sc.stale, "sid": sc.sid, "cdef": sc.cdef,
                      "modname": sc.modname, "preamble": sc.preamble, "ret": res["ret"], "final": res["cls"]})
        ctx.case(("clean", sc.sid))
        for i in relevant_points(res["calls"], lo, hi, res["target"]):
            kill_jobs.append((sc, res, i))
    ctx.sample({"kind": "strace trace of the real _make_c_or_py_source", "old": scenarios[2].old,
                "events": traces[2]["events"]}, limit=1)      # scenario 2 = first file, old content differs

    def count_rel(calls, lo, upto, name):
        return sum(1 for c in calls[lo + 1:upto + 1] if c[0] == name)

    def kill_run(job):
        """kill the child on entry of system call i of the clean run.  strace counts invocations per system call from
        process start; the number before the marker can differ slightly between runs (memory mappings, caches), so the
        hit is verified relative to the marker and the ordinal corrected once if needed"""
        sc, cres, i = job
        name, ordn = ordinal(cres["calls"], i)
        clo, _ = window(cres["calls"])
        want_rel = count_rel(cres["calls"], clo, i, name)
        res = None
        for attempt in range(3):
            res = sc.run(aw_child, inject=(name, ordn))
            lo, _ = window(res["calls"])
            res["hit"] = bool(res["killed"] and lo is not None and res["calls"] and res["calls"][-1][0] == name
                              and res["calls"][-1][2] == "?" and count_rel(res["calls"], lo, len(res["calls"]) - 1, name) == want_rel)
            if res["hit"] or lo is None:
                break
            before_clean = sum(1 for c in cres["calls"][:clo] if c[0] == name)
            before_here = sum(1 for c in res["calls"][:lo] if c[0] == name)
            if before_here == before_clean and res["killed"]:
                break
            if not res["killed"]:
                # the run finished: count from its complete log
                ordn = before_here + want_rel
            else:
                ordn = before_here + want_rel
        res["index"] = i
        return res
    kills = list(pool.map(kill_run, kill_jobs))
    skipped = 0
    killmap = {}
    for (sc, cres, i), res in zip(kill_jobs, kills):
        lo, _ = window(res["calls"])
        ok = res.get("hit", False)
        if not ok:
            skipped += 1
            if os.environ.get("C23_DEBUG"):
                print("MISS", sc.sid, i, cres["calls"][i][:2], "| killed", res["killed"], "lo", lo, clo, "n", len(res["calls"]),
                      "last", res["calls"][-1] if res["calls"] else None, res["rc"], res["stderr"][-200:])
            continue
        killmap[(sc.sid, i)] = res
        tr = trace_of(sc, res, False)
        traces.append(tr)
        metas.append({"kind": "killed", "old": sc.old, "stale": sc.stale, "sid": sc.sid, "cdef": sc.cdef,
                      "modname": sc.modname, "preamble": sc.preamble,
                      "killed_at": "%s(%s)" % cres["calls"][i][:2], "final": res["cls"], "tmp": res["tmp"]})
        ctx.case(("kill", sc.sid, i))
    if skipped > max(2, len(kill_jobs) // 10):
        raise core.MachineryError("%d of %d kill injections did not hit the intended system call" % (skipped, len(kill_jobs)))
    ctx.cov["kill_points"] = len(kill_jobs)
    ctx.cov["kill_points_skipped"] = skipped
    validate_traces(ctx, traces, metas)
    if metas:
        km = [m for m in metas if m["kind"] == "killed"]
        if km:
            ctx.sample({"kind": "killed run", **{k: km[len(km) // 2][k] for k in ("old", "killed_at", "final", "tmp")}})

    # ---------------------------------------------------------------- spec -> code: model crash behaviours
    divergences = []
    nrep = 0
    cache = model_paths(ctx)
    for sc, cres in zip(scenarios, clean):
        key = (sc.old, sc.stale)
        lo, hi = window(cres["calls"])
        evs, idx = normalise(cres["calls"], lo, hi, cres["target"])
        for steps, proj in cache[key]:
            # locate the system call realising the step that follows `steps`
            pos = 0
            okmap = True
            for a in steps:
                while pos < len(evs) and not STEP_SYSCALL[a](evs[pos]):
                    pos += 1
                if pos >= len(evs):
                    okmap = False
                    break
                if a == "WriteChunk":          # all write calls of the real run form the model's single chunk
                    while pos + 1 < len(evs) and evs[pos + 1]["ev"] == "write":
                        pos += 1
                pos += 1
            if not okmap:
                divergences.append("old=%s: model behaviour %s has no counterpart in the real trace" % (sc.old, steps))
                continue
            full = [a for a in steps]
            if pos < len(evs):
                kill_i = idx[pos]
                # a crash "after step k" = a kill on entry of the next write-path system call
                res = killmap.get((sc.sid, kill_i))
                if res is None:
                    continue
                got = {"target": res["cls"], "tmp": res["tmp"]}
            else:
                # behaviour ran to completion (or crashes after the last step): compare the final state
                res = killmap.get((sc.sid, hi)) if proj is not None else None
                got = {"target": (res or cres)["cls"], "tmp": (res or cres)["tmp"]}
            nrep += 1
            ctx.validated()
            ctx.case(("model-crash", sc.sid, tuple(full)))
            if proj is not None and got != proj:
                # the ideal decides: only a target outside {old, new} is a violation (already reported by the
                # trace validation); a different temp-file state is a model divergence
                divergences.append("old=%s stale=%s after %s: directory %r, model %r" % (sc.old, sc.stale, steps, got, proj))
    ctx.cov["model_crash_behaviours_replayed"] = nrep
    ctx.cov["model_divergences"] = divergences[:10]
    ctx.cov["model_divergence_count"] = len(divergences)
    if divergences:
        print("NOTE C23: %d replays left the implementation model (first: %s); verdicts come from the ideal"
              % (len(divergences), divergences[0]))

    # ---------------------------------------------------------------- (a) collect and validate digests
    obs = {inp["id"]: [] for inp in inputs}
    for f in gfuts:
        seed, out = f.result()
        for o in out:
            obs[o["id"]].append({"seed": seed, "rep": o["rep"], "sink": o["sink"], "digest": o["digest"]})
    import cffi
    for inp in inputs:                                     # the checking process itself
        for rep in (1, 2):
            for sink in ("path", "filelike"):
                with warnings.catch_warnings():
                    warnings.simplefilter("ignore")
                    ffi = gen_cdef.build_ffi(inp)
                emit = ffi.emit_c_code if inp["preamble"] is not None else ffi.emit_python_code
                with contextlib.redirect_stdout(io.StringIO()):
                    if sink == "path":
                        p = os.path.join(ctx.tmp, "inproc_%s" % inp["id"])
                        emit(p)
                        with open(p, "rb") as fh:
                            data = fh.read()
                    else:
                        fh = io.StringIO()
                        emit(fh)
                        data = fh.getvalue().encode("utf-8")
                obs[inp["id"]].append({"seed": "inproc", "rep": rep, "sink": sink,
                                       "digest": hashlib.sha256(data).hexdigest()})
    # ---------------------------------------------------------------- idempotence across processes / hash seeds
    idem_traces, idem_metas = cross_process_idempotence(ctx, pool, [x for x in inc_inputs if len(x["incs"]) >= 2][:4 if quick else 24])
    validate_traces(ctx, idem_traces, idem_metas)
    # ---------------------------------------------------------------- ffi.compile(): same text, idempotent (thorough)
    if not quick:
        compile_case(ctx, rng)
    # ---------------------------------------------------------------- collect TLC design-level results
    for name, kind, f in futs:
        r = f.result()
        if kind == "mc":
            ctx.add_tlc(name, r)
        elif kind == "sanity":
            ctx.add_tlc(name, r, require_ok=False, count_states=False)
            if r.ok or not r.invariant_violated:
                raise core.MachineryError("broken variant %s was not rejected by TLC" % name)
        else:
            ctx.add_tlc(name, r, require_ok=False, count_states=False)
            if "InvAtomic" in r.invariant_violated:
                print("NOTE C23: under the fault 'first rename fails' the unlink+rename fallback is not atomic "
                      "(TLC counterexample); outside the property's quantifier (crash points, not I/O errors)")
                ctx.cov["fallback_branch_atomic"] = False
            else:
                ctx.cov["fallback_branch_atomic"] = True
    with open(gd_out) as f:
        configs = json.load(f)
    want = {(c["seed"], c["rep"], c["sink"]) for c in configs}
    recs = []
    for inp in inputs:
        got = {(o["seed"], o["rep"], o["sink"]) for o in obs[inp["id"]]}
        if got != want:
            raise core.MachineryError("configuration matrix not covered for %s: missing %r" % (inp["id"], sorted(want - got)[:3]))
        recs.append({"id": inp["id"], "obs": obs[inp["id"]]})
        ctx.case(("det", inp["id"]), n=len(obs[inp["id"]]))
    tp = core.write_json(os.path.join(ctx.tmp, "gendet_trace.json"), recs)
    r = core.tlc("Trace_GenDet", workers=1, env=light({"TRACE_FILE": tp}))
    ctx.add_tlc("Trace_GenDet", r, count_states=False)
    chk = core.tla_tuples(r.out, "CHECKED")
    nobs = sum(len(x["obs"]) for x in recs)
    if len(chk) != 1 or int(chk[0][0]) != len(recs) or int(chk[0][1]) != nobs:
        raise core.MachineryError("Trace_GenDet did not check all records: %r" % (chk,))
    out = core.tla_tuples(r.out, "VERDICT")
    for k, what, i, j in out:
        inp = inputs[int(k) - 1]
        o = obs[inp["id"]]
        ctx.violation("determinism:%s" % ("c" if inp["preamble"] is not None else "py"),
                      "generated text differs between configurations %r and %r" % (
                          {x: o[int(i) - 1][x] for x in ("seed", "rep", "sink")},
                          {x: o[int(j) - 1][x] for x in ("seed", "rep", "sink")}),
                      {"kind": "determinism", "input": inp, "obs": o})
    ctx.validated(sum(len(v) for v in obs.values()))
    pool.shutdown()
    ctx.cov["rule"] = ("distinct = (scenario, crash point) pairs executed on the real function + clean runs + "
                       "model crash behaviours replayed + determinism inputs; every kill run is non-trivial "
                       "(a real process is killed at a system call of the write path)")
    ctx.cov["exhaustive"] = True
    ctx.assumptions += ["a crash is modelled as SIGKILL delivered on entry of a system call (the call itself is "
                        "suppressed by strace fault injection); power loss / missing fsync is not modelled",
                        "Python writes the text with one or more write(2) calls on one descriptor; partial writes "
                        "inside one write(2) are covered by the model (chunks) but not injected into the real run",
                        "the expected new text is what the checking process generates for the same input "
                        "(justified by part (a))"]


def selftest(ctx):
    # a trace in which the target is written in place must be rejected; so must a changed mtime
    env = {"old": "diff", "newlen": 10}
    good = {"env": env, "pre": [], "events": [
        {"ev": "open", "path": "T", "w": False, "fd": 3}, {"ev": "close", "fd": 3},
        {"ev": "open", "path": "T.~1", "w": True, "fd": 3}, {"ev": "write", "fd": 3, "n": 10}, {"ev": "close", "fd": 3},
        {"ev": "rename", "src": "T.~1", "dst": "T", "ok": True}, {"ev": "ret", "updated": True},
        {"ev": "final", "cls": "new", "mtime_same": False}]}
    bad1 = json.loads(json.dumps(good)); bad1["events"][3]["n"] = 9           # one byte short at rename time
    bad2 = json.loads(json.dumps(good)); bad2["events"][2]["path"] = "T"; bad2["events"][5]["src"] = "T"
    bad3 = json.loads(json.dumps(good)); bad3["events"][-1]["cls"] = "partial"
    metas = [{"kind": "selftest", "old": "diff"} for _ in range(4)]
    bad = validate_traces(ctx, [good, bad1, bad2, bad3], metas, report=False)
    ctx.cov["states"] = 1
    return sorted(k for k, _v, _p in bad) == [1, 2, 3]


def replay(ctx, obj):
    rp = obj["replay"]
    ctx.cov["states"] = 1
    if rp.get("kind") == "determinism":
        print("re-generating the input under two hash seeds")
        child = os.path.join(ctx.tmp, "gen_child.py")
        with open(child, "w") as f:
            f.write(GEN_CHILD)
        digs = set()
        for seed in ("0", "1", "2", "random"):
            jd = os.path.join(ctx.tmp, "r_" + seed)
            os.makedirs(jd)
            core.write_json(os.path.join(jd, "job.json"), {"inputs": [rp["input"]], "reps": 2, "tmp": jd})
            subprocess.run([core.PY, child, os.path.join(jd, "job.json"), os.path.join(jd, "out.json")],
                           env=core.sub_env(PYTHONHASHSEED=seed), check=True)
            with open(os.path.join(jd, "out.json")) as f:
                digs |= {o["digest"] for o in json.load(f)}
        print("distinct digests:", len(digs))
        if len(digs) > 1:
            ctx.violation(obj["key"], obj["what"], rp)
    else:
        bad = validate_traces(ctx, [rp["trace"]], [dict(rp["meta"])], report=False)
        print("recorded trace: %s" % ("rejected by the ideal" if bad else "accepted"))
        if bad:
            ctx.violation(obj["key"], obj["what"], rp)


META = {
    "category": "model_checking",
    "text": "TLC checks an action-per-system-call model of the write path of _make_c_or_py_source (1-3 concurrent "
            "processes, 1-3 write chunks, stale temp file, crash in every state) against a POSIX file-system machine "
            "with the clauses atomic / untouched-when-identical / return value; every crash behaviour of the model is "
            "replayed on the real function by killing a child with strace fault injection at the corresponding "
            "system call, the child is additionally killed at every file system call of the write path, and TLC "
            "validates every strace log against the ideal. Determinism is explored: random API/ABI cdefs are "
            "generated under several PYTHONHASHSEEDs, repeatedly, to paths and file-like sinks, and TLC checks that "
            "all digests of one input coincide.",
    "note": "Part (a) is exploration (the spec supplies the configuration matrix and the clause only). Crash = "
            "SIGKILL at a system-call boundary; durability (fsync) and I/O errors are outside the property. Trusted: "
            "strace's log and fault injection, TLC.",
    "technique": "TLA+ model checking with crash actions (TLC) + replay of model crash behaviours by syscall fault "
                 "injection + TLC trace validation of strace logs + cross-process digest comparison",
    "design_ref": "DESIGN.md §3 C23",
}
