"""C04 — ffi.cast to integer and character types follows C conversion rules.

Design level : specs/IntConv.tla: IdealCast (truncate toward zero, reduce modulo 2^w into the
               signed/unsigned range, non-zeroness for _Bool) against the transcription of
               cast_to_integer_or_char (PyLong_AsUnsignedLongLongMask + write_raw_integer_data
               + signed/unsigned read) for every value over a small word, plus the
               pointer -> intptr_t/uintptr_t -> pointer round trip; truncation of m*2^e is
               checked in MC_BV against native integer division.
Binding      : every integer/char type x every source kind (ints up to 70 bits and far beyond,
               finite floats next to +-2^k and fractions, bools, 1-byte bytes, 1-char str,
               pointer/array/function cdata) is cast on the real code; int() of the result is
               recorded and TLC validates each record against IdealCast at the true width
               (Trace_IntConv.tla, bit-sequence integers).
"""
import math, os
from harness import core
from harness.intconv import bv, bvfloat, INT_TYPES, gcc_type_facts, validate_records

LEVEL = "model_checking"
CHAR_TYPES = [("char", "c"), ("wchar_t", "wc"), ("char16_t", "c16"), ("char32_t", "c32")]


def char_facts(tmp):
    out = core.gcc_run("""#include <stdio.h>
#include <wchar.h>
#include <uchar.h>
int main(void){
 printf("c %d 0\\n", (int)sizeof(char));
 printf("wc %d %d\\n", (int)sizeof(wchar_t), (int)((wchar_t)-1 < (wchar_t)0));
 printf("c16 %d %d\\n", (int)sizeof(char16_t), (int)((char16_t)-1 < (char16_t)0));
 printf("c32 %d %d\\n", (int)sizeof(char32_t), (int)((char32_t)-1 < (char32_t)0));
 return 0;}""", tmp, "charfacts")
    f = {}
    for line in out.split("\n"):
        if line.strip():
            i, sz, sg = line.split()
            f[i] = (int(sz) * 8, "signed" if int(sg) else "unsigned")
    return f


def float_sources(rng, n):
    xs = [0.0, -0.0, 0.5, -0.5, 0.999, -0.999, 1.5, -1.5, 2.5, 255.9, -128.9, 1e300, -1e300, 5e-324, 1e19, -1e19]
    for k in (7, 8, 15, 16, 31, 32, 53, 63, 64, 70):
        for s in (1.0, -1.0):
            b = s * float(2 ** k)
            xs += [b, math.nextafter(b, 0.0), math.nextafter(b, s * math.inf), b - s * 0.5 if k < 50 else b]
    for _ in range(n):
        xs.append(rng.uniform(-1, 1) * 2.0 ** rng.randint(0, 72))
    return xs


def int_sources(rng, w, n):
    vals = set([0, 1, -1, 2, -2, 255, 256, -255, -256])
    for k in (w - 1, w, 63, 64):
        for s in (1, -1):
            for d in (-1, 0, 1):
                vals.add(s * (1 << k) + d)
    for _ in range(n):
        vals.add(rng.randint(-(1 << 70), 1 << 70))
        vals.add(rng.randint(-(1 << w), 1 << w))
    vals.add(rng.randint(-(1 << 300), 1 << 300))
    return sorted(vals)


def run(ctx):
    import cffi
    quick = ctx.quick
    rng = ctx.rng
    r = core.tlc("IntConv", "MC_IntConv")
    ctx.add_tlc("MC_IntConv(CastRefines, CastPtrRoundTrip; LL=5)", r)
    r = core.tlc("MC_BV", workers=8)
    ctx.add_tlc("MC_BV(Scale = truncation toward zero, Twos, FromSigned)", r)
    ok, out, wall = core.apalache("APA_IntConv", "Laws")
    if not ok:
        raise core.MachineryError("Apalache refutes the cast law at true widths:\n" + out[-2000:])
    ctx.cov["apalache"] = [{"module": "APA_IntConv", "inv": "Laws (CastImpl = IdealCast)", "outcome": "NoError",
                            "wall_s": round(wall, 1), "scope": "w in {8,16,32,64}, v in Int (unbounded)"}]
    facts = gcc_type_facts(ctx.tmp)
    facts.update(char_facts(ctx.tmp))
    ffi = cffi.FFI()
    ffi.cdef("enum eu { EU_A, EU_B = 4000000000u }; enum es { ES_A = -1, ES_B = 5 };"
             "enum el { EL_A = -1, EL_B = 0x100000000LL }; int puts(const char *);")
    libc = ffi.dlopen(None)
    keep = [ffi.new("int[10]"), ffi.new("char[]", b"hello"), ffi.new("struct_unused *") if False else ffi.new("long *")]
    ptrs = [keep[0], keep[0] + 3, keep[1], keep[2], ffi.cast("void *", keep[1]), ffi.NULL,
            ffi.cast("int *", 0xdeadbeef0), ffi.addressof(libc, "puts"),
            ffi.callback("int(int)", lambda x: x)]
    keep.append(ptrs[-1])
    records, metas = [], []

    def add(tname, w, kind, srcdesc, src_bv, e, fn):
        try:
            res = int(fn())
            out = "ok"
        except Exception as ex:
            res, out = 0, "other:" + type(ex).__name__
        records.append({"op": "cast", "id": len(records), "w": w, "kind": kind, "src": src_bv, "e": e,
                        "res": bv(res), "out": out})
        metas.append({"type": tname, "source": srcdesc, "result": res, "out": out})
        ctx.case((tname, srcdesc))
    types = INT_TYPES + CHAR_TYPES
    nint, nflt = (2, 3) if quick else (25, 60)
    for tname, ident in types:
        w, kind = facts[ident]
        ints = int_sources(rng, w, nint)
        flts = float_sources(rng, nflt)
        if quick:
            ints = rng.sample(ints, min(len(ints), 14))
            flts = rng.sample(flts, min(len(flts), 16))
        for v in ints:
            add(tname, w, kind, "int:%d" % v, bv(v), 0, lambda: ffi.cast(tname, v))
        for x in flts:
            b, e = bvfloat(x)
            if kind == "bool" and x == 0:
                b = bv(0)
            add(tname, w, kind, "float:%r" % x, b, e, lambda: ffi.cast(tname, x))
        for bval in (True, False):
            add(tname, w, kind, "bool:%r" % bval, bv(int(bval)), 0, lambda: ffi.cast(tname, bval))
        for byt in (b"\x00", b"A", b"\xff", bytes([rng.randrange(256)])):
            add(tname, w, kind, "bytes:%r" % byt, bv(byt[0]), 0, lambda: ffi.cast(tname, byt))
        for cp in (0x41, 0xE9, 0xFFFF, 0x10000, 0x10FFFF, rng.randrange(1, 0xD800)):
            add(tname, w, kind, "str:U+%04X" % cp, bv(cp), 0, lambda: ffi.cast(tname, chr(cp)))
        for i, p in enumerate(ptrs):
            addr = int(ffi.cast("uintptr_t", p)) if i else None
            if addr is None:
                # address of the first pointer obtained independently of the cast under test
                addr = int.from_bytes(bytes(ffi.buffer(ffi.new("int **", p))), "little")
            add(tname, w, kind, "cdata:%s" % ffi.typeof(p).cname, bv(addr), 0, lambda: ffi.cast(tname, p))
    # pointer round trip through intptr_t / uintptr_t
    for p in ptrs[:7]:
        for it in ("intptr_t", "uintptr_t"):
            raw = int.from_bytes(bytes(ffi.buffer(ffi.new("void **", ffi.cast("void *", p)))), "little")
            try:
                back = ffi.cast("void *", ffi.cast(it, p))
                raw2 = int.from_bytes(bytes(ffi.buffer(ffi.new("void **", back))), "little")
                out = "ok"
            except Exception as ex:
                raw2, out = 0, "other:" + type(ex).__name__
            records.append({"op": "eq", "id": len(records), "a": bv(raw), "b": bv(raw2), "out": out})
            metas.append({"type": it, "source": "pointer round trip %s" % ffi.typeof(p).cname, "out": out})
            ctx.case((it, "ptr-rt", raw))
    for i in (0, len(records) // 3, len(records) - 1):
        ctx.sample({"meta": metas[i], "record": records[i]})
    bad = validate_records(ctx, records)
    for i, clause in sorted(bad.items()):
        m = metas[i]
        ctx.violation("cast:%s:%s:%s" % (m["type"], m["source"].split(":")[0], clause),
                      "ffi.cast(%r, %s) -> %s (%s): clause %s failed" % (m["type"], m["source"], m.get("result"), m["out"], clause),
                      {"meta": m, "record": records[i]})
    ctx.cov["rule"] = "one record per (target type, source value); distinct = distinct pairs; sources: ints, floats, bools, bytes, str, cdata"
    ctx.assumptions += ["type widths/signedness from gcc; plain 'char' is treated as an unsigned 8-bit target "
                        "(int() of a char cdata is its ordinal)"]


def replay(ctx, obj):
    rec = obj["replay"]["record"]
    rec["id"] = 0
    bad = validate_records(ctx, [rec])
    ctx.cov["states"] = ctx.cov["transitions"] = 1
    if bad:
        ctx.violation(obj["key"], obj["what"], obj["replay"])
    print("replayed recorded cast: %s" % (bad or "accepted"))


def selftest(ctx):
    import cffi
    ffi = cffi.FFI()
    b, e = bvfloat(-300.75)
    rec = {"op": "cast", "id": 0, "w": 8, "kind": "signed", "src": b, "e": e,
           "res": bv(int(ffi.cast("signed char", -300.75))), "out": "ok"}
    ok1 = not validate_records(ctx, [rec])
    rec["res"] = bv(int(ffi.cast("signed char", -300.75)) + 1)
    ok2 = bool(validate_records(ctx, [rec]))
    return ok1 and ok2


META = {
    "category": "model_checking",
    "text": "TLC compares the transcribed cast algorithm with the C conversion rule for every value over a small word "
            "and checks the pointer/intptr round trip; real casts from every source kind into every integer and "
            "character type are recorded and validated by TLC against the rule at the true width with bit-sequence "
            "integers (truncation of floats is an exact shift of the mantissa).",
    "note": "Trusted: TLC, gcc for widths/signedness. Plain 'char' is taken as an unsigned 8-bit target.",
    "technique": "TLA+ ideal vs transcribed algorithm (TLC exhaustive, small word) + TLC validation of real cast records",
    "design_ref": "DESIGN.md §3 C04",
}
