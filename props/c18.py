"""C18 - ffi.unpack equals element-wise reading.

Design level : specs/Unpack.tla.  IDEAL: Unpack(view, n) is defined as the list of element-wise
               readings (the C model of the item type over the item's bytes), with the error of the
               first failing element; IMPLEMENTATION MODEL: b_unpack transcribed (character
               shortcuts, casenum selection by kind/size/ALIGNMENT_CHECK, the per-case C reads,
               convert_to_object as fall-back).  TLC compares them for every item type class x
               start misalignment 0..7 x contents (one item over large byte alphabets; up to 3
               items over small ones incl. _Bool bytes 0,1,2,255 and surrogate code units) and
               rejects four broken variants.
Binding      : spec -> code: every state of the small exhaustive configuration (type, misalignment,
               bytes, n, model result) is executed on real cdata at that misalignment and compared
               with the model's result.  code -> spec: seeded random records over ~45 real item
               types, all start offsets mod 16, n in 0..9 (and long arrays), pointer and array
               cdata: ffi.unpack(p, n) and [p[i] for i in range(n)] are both recorded (values or
               exception class) and TLC (Trace_Unpack.tla) requires the former to be the latter
               and both to be the specification's decoding of the bytes.  Verdict = ideal only.
"""
import math, os, struct
from harness import core, tlaval
from harness import mem_common as mc

LEVEL = "model_checking"

# (C type, class, size, alignment) on x86-64 SysV; checked against the backend before use
TYPES = [
    ("signed char", "signed", 1, 1), ("short", "signed", 2, 2), ("int", "signed", 4, 4), ("long", "signed", 8, 8),
    ("long long", "signed", 8, 8), ("int8_t", "signed", 1, 1), ("int16_t", "signed", 2, 2),
    ("int32_t", "signed", 4, 4), ("int64_t", "signed", 8, 8), ("ssize_t", "signed", 8, 8),
    ("ptrdiff_t", "signed", 8, 8), ("intptr_t", "signed", 8, 8), ("en_t", "signed", 4, 4),
    ("unsigned char", "unsigned", 1, 1), ("unsigned short", "unsigned", 2, 2), ("unsigned int", "unsigned", 4, 4),
    ("unsigned long", "unsigned", 8, 8), ("unsigned long long", "unsigned", 8, 8), ("uint8_t", "unsigned", 1, 1),
    ("uint16_t", "unsigned", 2, 2), ("uint32_t", "unsigned", 4, 4), ("uint64_t", "unsigned", 8, 8),
    ("size_t", "unsigned", 8, 8), ("uintptr_t", "unsigned", 8, 8), ("eu_t", "unsigned", 4, 4),
    ("_Bool", "bool", 1, 1), ("float", "float", 4, 4), ("double", "float", 8, 8),
    ("long double", "longdouble", 16, 16),
    ("char", "char", 1, 1), ("char16_t", "char", 2, 2), ("char32_t", "char", 4, 4), ("wchar_t", "char", 4, 4),
    ("float _Complex", "complex", 8, 4), ("double _Complex", "complex", 16, 8),
    ("vp_t", "pointer", 8, 8), ("i16p_t", "pointer", 8, 8), ("fn_t", "pointer", 8, 8), ("char *", "pointer", 8, 8),
    ("s3_t", "struct", 3, 1), ("s4_t", "struct", 4, 2), ("s8_t", "struct", 8, 4), ("a3_t", "array", 12, 4),
]
BY_SIG = {}
for _t in TYPES:
    BY_SIG.setdefault(_t[1:], []).append(_t[0])
VARIANTS = ["short_as_int", "u8_signed", "bool_truthy", "no_stride", "pair_past_end", "char32_unchecked"]


def unpack_cfg(maxn, big, variant="faithful"):
    return ("SPECIFICATION Spec\nCONSTANTS MaxN = %d\n  Big = %s\n  Variant = \"%s\"\n"
            "INVARIANT FastEqualsGeneric\nINVARIANT UnitsExact\nINVARIANT ConvertIsElem\nCHECK_DEADLOCK FALSE\n"
            % (maxn, "TRUE" if big else "FALSE", variant))


def check_platform(f):
    for ct, cls, sz, al in TYPES:
        if f.sizeof(ct) != sz or f.alignof(ct) != al:
            raise core.MachineryError("platform table: %s has size %d align %d, table says %d/%d"
                                      % (ct, f.sizeof(ct), f.alignof(ct), sz, al))


# ------------------------------------------------------------------ encoding of observed values
def V(t, n=0, a=()):
    return {"t": t, "n": n, "a": list(a)}


def enc_int(v):
    m = abs(v)
    return V("int", 1 if v < 0 else 0, m.to_bytes((m.bit_length() + 7) // 8, "little"))


def enc_value(f, x, cls, sz, ct, base):
    """One element of a result -> the specification's symbolic value."""
    if isinstance(x, bool):
        return V("bool", int(x))
    if isinstance(x, int):
        return enc_int(x)
    if isinstance(x, float):
        if math.isnan(x):
            return V("nan", sz)
        return V("float", sz, struct.pack("<f" if sz == 4 else "<d", x))
    if isinstance(x, complex):
        if math.isnan(x.real) or math.isnan(x.imag):
            return V("nan", sz)
        fmt = "<f" if sz == 8 else "<d"
        return V("complex", sz, struct.pack(fmt, x.real) + struct.pack(fmt, x.imag))
    if isinstance(x, f.CData):
        t = f.typeof(x)
        if cls == "longdouble":
            if t is not f.typeof("long double"):
                return V("wrongtype:" + t.cname)
            tmp = f.new("long double *", x)
            return V("ld", 0, bytes(f.buffer(tmp))[:10])
        if cls == "pointer":
            if t is not f.typeof(ct):
                return V("wrongtype:" + t.cname)
            return V("ptr", 0, int(f.cast("uintptr_t", x)).to_bytes(8, "little"))
        if t is not f.typeof(ct):
            return V("wrongtype:" + t.cname)
        addr = int(f.cast("uintptr_t", f.addressof(x) if cls == "struct" else x))
        return V("view", addr - base)
    return V("unknown:" + type(x).__name__)


def enc_result(f, fn, cls, sz, ct, base, join):
    try:
        r = fn()
    except Exception as e:
        name = type(e).__name__
        if cls == "char" and sz == 4 and name in ("ValueError", "SystemError"):
            name = "UnicodeRange"
        return {"st": name, "vals": []}
    if join:
        if isinstance(r, list):
            r = (b"" if sz == 1 else "").join(r)
        if isinstance(r, bytes):
            return {"st": "ok", "vals": [V("byte", b) for b in r]}
        if isinstance(r, str):
            try:
                return {"st": "ok", "vals": [V("chr", ord(c)) for c in r]}
            except Exception as e:      # a str object that cannot even be iterated
                return {"st": "ok", "vals": [V("invalid-str:" + type(e).__name__, len(r))]}
        return {"st": "ok", "vals": [V("unknown:" + type(r).__name__)]}
    if not isinstance(r, list):
        return {"st": "ok", "vals": [V("notalist:" + type(r).__name__)]}
    return {"st": "ok", "vals": [enc_value(f, x, cls, sz, ct, base) for x in r]}


def has_nan(cls, sz, mem):
    if cls == "float":
        fmt, w = ("<f", 4) if sz == 4 else ("<d", 8)
    elif cls == "complex":
        fmt, w = ("<f", 4) if sz == 8 else ("<d", 8)
    else:
        return False
    return any(math.isnan(struct.unpack_from(fmt, mem, o)[0]) for o in range(0, len(mem) - w + 1, w))


_store = {}


def execute(f, ct, cls, sz, al, mis, n, mem, how="ptr"):
    """Put `mem` at an address = mis (mod 16), run both sides on its first n items, return the record.
    `mem` may be longer than n items: what follows the range is real memory too and must not matter."""
    need = len(mem) + 48
    big = f.new("char[]", need)
    addr0 = int(f.cast("uintptr_t", big))
    off = (-addr0) % 16 + mis
    f.buffer(big)[off:off + len(mem)] = bytes(mem)
    base = addr0 + off
    if how == "array" and len(mem) != n * sz:
        how = "ptr"
    if how == "array":        # a real array cdata (only when the start is where ffi.new puts it)
        arr = f.new(f.getctype(ct, "[%d]" % n) if "*" in ct else "%s[%d]" % (ct, n))
        f.buffer(arr)[:] = bytes(mem)
        p, base, big = arr, int(f.cast("uintptr_t", arr)), arr
        mis = base % 16
    else:
        p = f.cast(f.getctype(ct, "*"), f.cast("char *", big) + off)
    join = cls == "char"
    u = enc_result(f, lambda: f.unpack(p, n), cls, sz, ct, base, join)
    l = enc_result(f, lambda: [p[i] for i in range(n)], cls, sz, ct, base, join)
    _store["keep"] = big
    return {"ct": ct, "cls": cls, "sz": sz, "al": al, "mis": mis, "n": n, "mem": list(mem), "how": how,
            "nan": has_nan(cls, sz, bytes(mem)), "u": u, "l": l}


# ------------------------------------------------------------------ contents
def ld_bytes(x):
    """x87 80-bit encoding (+6 padding bytes) of a finite double, built without cffi."""
    if x == 0:
        return bytes(9) + (b"\x80" if math.copysign(1, x) < 0 else b"\x00") + bytes(6)
    m, e = math.frexp(abs(x))                  # abs(x) = m * 2**e, 0.5 <= m < 1
    mant = int(m * (1 << 64))                  # explicit integer bit set
    ex = e - 1 + 16383
    if ex <= 0:
        return bytes(16)
    se = ex | (0x8000 if x < 0 else 0)
    return mant.to_bytes(8, "little") + se.to_bytes(2, "little") + bytes(6)


def gen_item(rng, cls, sz):
    r = rng.random()
    if cls == "bool":
        return bytes([rng.choice([0, 1, 0, 1, 0, 1, 0, 1, 2, 255, 128, 3])])
    if cls == "longdouble":
        return ld_bytes(rng.choice([0.0, -0.0, 1.0, -1.5, 1e300, -1e-300, rng.uniform(-1e6, 1e6), float(rng.getrandbits(53))]))
    if cls == "char" and sz == 2:
        c = rng.choice([0x41, 0, 0xFFFF, 0xD800, 0xDBFF, 0xDC00, 0xDFFF, 0xD7FF, 0xE000, rng.getrandbits(16),
                        0xD800 + rng.getrandbits(10), 0xDC00 + rng.getrandbits(10)])
        return c.to_bytes(2, "little")
    if cls == "char" and sz == 4:
        c = rng.choice([0x41, 0, 0x10FFFF, 0xFFFF, 0x10000, 0xD800, rng.randrange(0x110000), rng.randrange(0x110000),
                        rng.randrange(0x110000), 0x110000, 0xFFFFFFFF, 0x80000000, rng.getrandbits(32)])
        return c.to_bytes(4, "little")
    if r < 0.2:
        return bytes([rng.choice((0, 0xFF, 0x80, 0x7F, 1))]) * sz
    if r < 0.4:
        return bytes(rng.choice((0, 0, 1, 0xFF, 0x80, 0x7F)) for _ in range(sz))
    return bytes(rng.getrandbits(8) for _ in range(sz))


# ------------------------------------------------------------------ TLC validation
def validate(ctx, recs):
    """-> ([(index, verdict, casenum)], set of casenums seen by the model)"""
    out, cases = [], set()
    keys = ("cls", "sz", "al", "mis", "n", "mem", "nan", "u", "l")
    for lo in range(0, len(recs), 10000):
        chunk = [{k: r[k] for k in keys} for r in recs[lo:lo + 10000]]
        path = os.path.join(ctx.tmp, "unpack_%d.json" % len(ctx.cov["tlc_runs"]))
        core.write_json(path, chunk)
        r = core.tlc("Trace_Unpack", workers=1, env={"TRACE_FILE": path})
        ctx.add_tlc("Trace_Unpack", r, count_states=False)
        chk = core.tla_tuples(r.out, "CHECKED")
        if not chk or int(chk[0][0]) != len(chunk):
            raise core.MachineryError("Trace_Unpack did not check all %d records:\n%s" % (len(chunk), r.out[-2000:]))
        cases |= set(tlaval.parse_value(chk[0][1]))
        for t in core.tla_tuples(r.out, "VERDICT"):
            out.append((lo + int(t[0]) - 1, core.unq(t[1]), int(t[2])))
        ctx.validated(len(chunk))
    return out, cases


def content_class(rec):
    cls, sz, mem = rec["cls"], rec["sz"], bytes(rec["mem"])[:rec["n"] * rec["sz"]]
    if cls == "char" and sz == 2 and rec["n"] > 0 and len(rec["mem"]) >= (rec["n"] + 1) * 2:
        last = int.from_bytes(mem[-2:], "little")
        nxt = int.from_bytes(bytes(rec["mem"])[rec["n"] * 2:rec["n"] * 2 + 2], "little")
        if 0xD800 <= last <= 0xDBFF and 0xDC00 <= nxt <= 0xDFFF:
            return "high-surrogate-at-end-low-after"
    if cls == "char" and sz == 2:
        cu = [int.from_bytes(mem[i:i + 2], "little") for i in range(0, len(mem), 2)]
        if any(0xD800 <= a <= 0xDBFF and 0xDC00 <= b <= 0xDFFF for a, b in zip(cu, cu[1:])):
            return "surrogate-pair"
    if cls == "bool" and any(b > 1 for b in mem):
        return "bad-bool"
    if cls == "char" and sz == 4 and any(int.from_bytes(mem[i:i + 4], "little") > 0x10FFFF for i in range(0, len(mem), 4)):
        return "out-of-range"
    return "plain"


def judge(ctx, recs, bad):
    notes = []
    for k, verdict, case in bad:
        r = recs[k]
        if verdict in ("differs", "units"):
            key = "unpack:%s:%s:%s:case%d" % (r["ct"], "aligned" if r["mis"] % r["al"] == 0 else "misaligned",
                                             content_class(r), case)
            what = ("ffi.unpack(p, n) differs from [p[i] for i in range(n)]" if verdict == "differs" else
                    "ffi.unpack(p, n) over 2-byte characters does not encode exactly the items 0..n-1")
            ctx.violation(key, what, {"record": r})
        else:
            notes.append({"ct": r["ct"], "mis": r["mis"], "mem": r["mem"], "l": r["l"]})
    if notes:
        print("NOTE C18: %d records where p[i] itself is not the specification's decoding of the bytes "
              "(unpack agrees with p[i]; not a C18 verdict); first: %s" % (len(notes), notes[0]))
    ctx.cov["decode_notes"] = notes[:5]
    ctx.cov["decode_note_count"] = len(notes)


# ------------------------------------------------------------------ the check
def design_runs(ctx):
    return [("MC_Unpack(1 item, large alphabets, 22 types x 8 misalignments)", unpack_cfg(1, True)),
            ("MC_Unpack(<=%d items, small alphabets)" % (2 if ctx.quick else 3), unpack_cfg(2 if ctx.quick else 3, False))]


def submit_design(ctx, jobs):
    for name, cfg in design_runs(ctx):
        jobs.submit(name, "Unpack", cfg_text=cfg, workers=4, timeout=3000)
    for v in VARIANTS:
        # pair_past_end needs a complete pair inside the range plus a high surrogate at n-1: 3 items
        jobs.submit("sanity:" + v, "Unpack", cfg_text=unpack_cfg(3 if v == "pair_past_end" else 2, False, v),
                    workers=2, timeout=1200)


def collect_design(ctx, jobs):
    for name, _cfg in design_runs(ctx):
        ctx.add_tlc(name, jobs.result(name))
    for v in VARIANTS:
        name = "sanity:" + v
        r = jobs.result(name)
        ctx.add_tlc(name, r, require_ok=False, count_states=False)
        if r.ok or "is violated" not in r.out:
            raise core.MachineryError("%s: TLC did not reject it:\n%s" % (name, r.out[-1500:]))


def norm_model(out):
    return {"st": out["st"], "vals": [V(v["t"], v["n"], v["a"]) for v in out["vals"]]}


def submit_dumps(ctx, jobs):
    jobs.submit("dump(Unpack)", "Unpack", cfg_text=unpack_cfg(1 if ctx.quick else 2, False),
                dump=os.path.join(ctx.tmp, "ug"), workers=4, timeout=1200)


def spec_to_code(ctx, jobs, f, recs, divergences):
    dump = os.path.join(ctx.tmp, "ug")
    ctx.add_tlc("dump(Unpack)", jobs.result("dump(Unpack)"), count_states=False)
    g = tlaval.load_dot(dump + ".dot")
    cases = set()
    for idx, (sid, st) in enumerate(sorted(g.states.items())):
        t = st["ty"]
        names = BY_SIG[(t["cls"], t["sz"], t["al"])]
        ct = names[idx % len(names)]
        rec = execute(f, ct, t["cls"], t["sz"], t["al"], st["mis"] + 8 * (idx % 2), st["cnt"], bytes(st["mem"]))  # mem may exceed cnt items
        recs.append(rec)
        ctx.case()
        want = norm_model(st["out"])
        if any(v["t"] == "chr-invalid" for v in want["vals"]) and rec["u"]["vals"][:1] and \
                rec["u"]["vals"][0]["t"].startswith("invalid-str"):
            continue                       # the known char32_t defect, as the model describes it
        if rec["u"] != want and not rec["nan"]:
            divergences.append("%s mis=%d mem=%r: unpack %r, model %r" % (ct, rec["mis"], rec["mem"], rec["u"], want))
    ctx.cov["model_states_replayed"] = len(g.states)


def code_to_spec(ctx, f, recs):
    rng = ctx.rng
    ncase = 1500 if ctx.quick else 40000
    for k in range(ncase):
        ct, cls, sz, al = TYPES[k % len(TYPES)]
        mis = (k // len(TYPES)) % 16
        r = rng.random()
        n = rng.randint(0, 9) if r < 0.9 else rng.choice([16, 33, 100, 257])
        mem = b"".join(gen_item(rng, cls, sz) for _ in range(n))
        how = "array" if rng.random() < 0.15 and n > 0 else "ptr"
        if cls == "char" and sz == 2 and n >= 3 and rng.random() < 0.5:
            # pairs inside the range, a high surrogate as the last item, a low surrogate right after the range
            units = [rng.choice([0x41, 0xD800 + rng.getrandbits(10), 0xDC00 + rng.getrandbits(10), rng.getrandbits(16)])
                     for _ in range(n)]
            q = rng.randrange(n - 2)
            units[q], units[q + 1] = 0xD800 + rng.getrandbits(10), 0xDC00 + rng.getrandbits(10)
            units[n - 1] = 0xD800 + rng.getrandbits(10)
            units.append(0xDC00 + rng.getrandbits(10))
            mem, how = b"".join(u.to_bytes(2, "little") for u in units), "ptr"
        elif how == "ptr" and rng.random() < 0.3:
            mem += b"".join(gen_item(rng, cls, sz) for _ in range(rng.randint(1, 2)))     # memory after the range
        rec = execute(f, ct, cls, sz, al, mis, n, mem, how)
        recs.append(rec)
        ctx.case((ct, rec["mis"] % al == 0, content_class(rec), min(n, 3)))
    # 2-byte characters at every start offset: pair(s) inside the range, high surrogate last, low surrogate after
    for mis in range(16):
        for n in (3, rng.randint(4, 9)):
            units = [0xD800 + rng.getrandbits(10), 0xDC00 + rng.getrandbits(10)] + \
                    [rng.choice([0x41, 0xD800 + rng.getrandbits(10), 0xDC00 + rng.getrandbits(10)]) for _ in range(n - 3)] + \
                    [0xD800 + rng.getrandbits(10), 0xDC00 + rng.getrandbits(10)]
            rec = execute(f, "char16_t", "char", 2, 2, mis, n, b"".join(u.to_bytes(2, "little") for u in units))
            recs.append(rec)
            ctx.case(("char16_t", mis % 2 == 0, content_class(rec), 3))
    ctx.sample({"kind": "ffi.unpack vs list comprehension on real cdata", "record": recs[-1]}, limit=3)


def run(ctx):
    f, _bf = mc.ffis()
    check_platform(f)
    skip = bool(os.environ.get("VERIF_MEM_SKIP_DESIGN"))      # development aid for mutation experiments only
    jobs = mc.TlcJobs()
    submit_dumps(ctx, jobs)
    if skip:
        ctx.cov["states"] = 1
    else:
        submit_design(ctx, jobs)
    recs, divergences = [], []
    spec_to_code(ctx, jobs, f, recs, divergences)
    nreplay = len(recs)
    code_to_spec(ctx, f, recs)
    bad, cases = validate(ctx, recs)
    if not skip:
        collect_design(ctx, jobs)
    judge(ctx, recs, bad)
    missing = set(range(-1, 12)) - cases
    if missing:
        raise core.MachineryError("casenum values never exercised: %s" % sorted(missing))
    pairs = sum(1 for r in recs if content_class(r) == "surrogate-pair" and r["u"] != r["l"])
    ctx.cov["observations_outside_statement"] = {
        "char16_t surrogate pairs combined by unpack but not by p[i] (documented UTF-16 reading, accepted)": pairs}
    ctx.cov["casenums_exercised"] = sorted(cases)
    ctx.cov["model_divergences"] = divergences[:10]
    ctx.cov["model_divergence_count"] = len(divergences)
    if divergences:
        print("NOTE C18: %d executions differ from the b_unpack model (first: %s); verdicts come from the ideal"
              % (len(divergences), divergences[0]))
    ctx.cov["replayed_model_states"] = nreplay
    ctx.cov["rule"] = ("evaluations = (type, start offset, contents, n) cases executed through both ffi.unpack and the "
                       "list comprehension; distinct = (C type, aligned?, content class, min(n,3)) classes")
    ctx.cov["exhaustive"] = False
    ctx.assumptions += ["x86-64 SysV sizes/alignments (checked against ffi.sizeof/alignof first)",
                        "NaN floats are compared between the two results only (not with the symbolic decoding)",
                        "n stays within the memory of p (the statement's domain)"]


def replay(ctx, obj):
    f, _bf = mc.ffis()
    r0 = obj["replay"]["record"]
    rec = execute(f, r0["ct"], r0["cls"], r0["sz"], r0["al"], r0["mis"], r0["n"], bytes(r0["mem"]), r0.get("how", "ptr"))
    bad, _ = validate(ctx, [rec])
    ctx.cov["states"] = max(ctx.cov["states"], 1)
    judge(ctx, [rec], bad)
    print("replayed %s n=%d at offset %d: unpack=%r elementwise=%r -> %s" % (
        rec["ct"], rec["n"], rec["mis"], rec["u"], rec["l"], bad[0][1] if bad else "ok"))


def selftest(ctx):
    """Flip one observed element / status of the unpack side: TLC must answer 'differs'."""
    f, _bf = mc.ffis()
    import copy
    good = [execute(f, "short", "signed", 2, 2, 2, 3, bytes([1, 0, 0xFF, 0xFF, 0, 0x80])),
            execute(f, "_Bool", "bool", 1, 1, 0, 3, bytes([0, 1, 2])),
            execute(f, "char16_t", "char", 2, 2, 0, 2, bytes([0, 0xD8, 0, 0xDC]))]
    b1 = copy.deepcopy(good[0]); b1["u"]["vals"][1] = enc_int(65535)
    b2 = copy.deepcopy(good[1]); b2["u"] = {"st": "ok", "vals": [V("bool", 0), V("bool", 1), V("bool", 1)]}
    b3 = copy.deepcopy(good[2]); b3["u"]["vals"] = [V("chr", 0x10001)]
    bad, _ = validate(ctx, good + [b1, b2, b3])
    ctx.cov["states"] = max(ctx.cov["states"], 1)
    got = sorted((k, v) for k, v, _c in bad)
    print("selftest verdicts:", got)
    return got == [(3, "differs"), (4, "differs"), (5, "differs")]


META = {
    "category": "model_checking",
    "text": "Unpack.tla defines unpack as element-wise reading (C model of the item type over the bytes, first "
            "failing element's error) and models b_unpack's character shortcuts, casenum selection "
            "(kind/size/ALIGNMENT_CHECK of the start address) and per-case reads; TLC proves them equal for 22 item "
            "type classes x start misalignment 0..7 x contents (single items over large byte alphabets, up to 3 "
            "items over small ones incl. _Bool 0/1/2/255, surrogates, out-of-range char32_t) and rejects four broken "
            "variants. Every state of the small configuration is executed on real cdata at that misalignment and "
            "compared with the model; seeded random cases over 43 C item types, all start offsets mod 16, n up to "
            "257, pointer and array cdata record ffi.unpack and the list comprehension, and TLC "
            "(Trace_Unpack.tla) requires them equal and equal to the specification's decoding of the bytes.",
    "note": "Trusted: TLC, struct as float codec. For char16_t the documented UTF-16 reading of surrogate pairs by "
            "unpack is accepted next to the plain join (reported as an observation). NaN items are compared between "
            "the two sides only. A disagreement between p[i] and the specification's byte decoding with unpack == "
            "p[i] is a NOTE (not C18).",
    "technique": "TLA+ equivalence of fast-path model and element-wise definition (TLC) + replay of every model state "
                 "on real cdata + TLC validation of recorded unpack/list-comprehension pairs",
    "design_ref": "DESIGN.md §3 C18",
}
