"""C27 — non-aggregate ctypes are canonical over any history.

Design level : specs/UniqueCacheIdeal.tla is the property as a machine over "the program obtained ctype
               object s of description d" / "object s died" events (Requested, SameObject, Canonical).
               specs/UniqueCache.tla models the C unique_cache (keys built from component *addresses*,
               weak-reference values, remove_dead_unique_reference at dealloc, the cycle collector's
               weakref-clear / tp_clear / dealloc phases as separate steps, malloc reusing any freed
               address, and the window inside ctypedescr_dealloc between PyObject_ClearWeakRefs() and
               remove_dead_unique_reference(), where weakref callbacks of the program run and may make
               requests) and the Python-side model.global_cache (WeakValueDictionary with strong keys);
               TLC explores every history of requests for a primitive, pointers, arrays and function
               types over 3 addresses and checks the refinement, that live cache entries never point
               to a freed or different object (the address-reuse hazard) and that components outlive
               their users; two broken variants must be rejected.
Binding      : spec -> code: walks and a transition cover of the explored graph (atomic collection)
               are executed through _cffi_backend.new_*_type directly;  code -> spec: random histories
               of typeof() strings through several FFI objects and an out-of-line module, direct
               backend calls, introspection, drops, drops with a weakref callback that rebuilds the dying
               type inside its dealloc, reference cycles (self-referential structs, containers, cycles
               with a finalizer that rebuilds / resurrects the ctype) and gc.collect().  Objects are numbered by identity (weak-reference
               callbacks report deaths, so a recycled id() is never confused with a live object) and
               described by introspection.  TLC validates every history against the ideal (verdicts)
               and the backend histories against the implementation model (notes).
"""
import json, os, subprocess, time
from harness import core, tlaval, life_common

LEVEL = "model_checking"
MC = """SPECIFICATION Spec
CONSTANTS Addrs = {%s}
  MaxSer = %d
  Mode = "%s"
  Variant = "%s"
  GcAtomic = %s
  Prims = {%s}
  MinAddr = %s
VIEW View
PROPERTY RefinesIdeal
%s
CHECK_DEADLOCK FALSE
"""
FULL = """INVARIANT LiveAgree
INVARIANT NoStaleEntry
INVARIANT CompsAlive"""
WORKER = os.path.join(core.VERIF, "harness", "life_ucworker.py")
CLAUSE = {"Requested": "a request returned a ctype of another description than the one asked for",
          "SameObject": "a live ctype object changed its description",
          "Canonical": "two live non-aggregate ctype objects describe the same C type"}
PRIMS = ["int", "short", "long", "double", "unsigned char", "long long"]


def render(ast, inner=""):
    k = ast[0]
    if k in ("prim", "struct"):
        return (ast[1] + " " + inner).strip()
    if k == "ptr":
        sub = ast[1]
        return render(sub, "(*%s)" % inner if sub[0] in ("arr", "fn") else "*" + inner)
    if k == "arr":
        return render(ast[1], "%s[%d]" % (inner, ast[2]))
    if k == "fn":
        return render(ast[1], "%s(%s)" % (inner, ", ".join(render(a) for a in ast[2]) or "void"))
    raise ValueError(ast)


def gen_type(rng, bases, depth):
    """a random non-aggregate type over the bases: (ast, C string)"""
    def scalar(d):
        t = rng.choice(bases)
        for _ in range(rng.randrange(0, d + 1)):
            t = ["ptr", t]
        return t

    def any_type(d):
        r = rng.random()
        if d <= 0 or r < 0.35:
            return scalar(max(d, 0))
        if r < 0.60:
            return ["ptr", any_type(d - 1)]
        if r < 0.80:
            return ["arr", scalar(d - 1), rng.randrange(1, 4)]
        return ["ptr", ["fn", scalar(1), [scalar(1) for _ in range(rng.randrange(0, 3))]]]
    ast = any_type(depth)
    if ast[0] in ("prim", "struct"):
        ast = ["ptr", ast]
    return ast, render(ast)


def random_history(rng, steps, resurrect=False):
    ops, refs, ffis, nref, nffi = [], {}, [], 0, 0
    recipe = {}            # ref -> the backend operation that built it (to rebuild "the same type")

    def newref(kind):
        nonlocal nref
        nref += 1
        r = "r%d" % nref
        refs[r] = kind
        return r
    for _ in range(steps):
        r = rng.random()
        if (not ffis or r < 0.04) and nffi < 6:
            nffi += 1
            ops.append(["ffi", nffi])
            ffis.append(nffi)
        elif r < 0.34:
            f = rng.choice(ffis)
            bases = [["prim", p] for p in PRIMS] + [["struct", "struct node%d" % f]] * 3
            ast, s = gen_type(rng, bases, 3)
            ops.append(["typeof", f, s, ast, newref(ast[0])])
        elif r < 0.40:
            if rng.random() < 0.3:
                s, ast = rng.choice(TYPEDEF_FN)
                ops.append(["ool", s, ast, newref("fn")] if rng.random() < 0.5 else
                           ["typeof", rng.choice(ffis), s, ast, newref("fn")])
            else:
                ast, s = gen_type(rng, [["prim", p] for p in PRIMS], 3)
                ops.append(["ool", s, ast, newref(ast[0])])
        elif r < 0.46:
            ops.append(["bprim", rng.choice(PRIMS), newref("prim")])
        elif r < 0.56 and refs:
            x = rng.choice(sorted(refs))
            ops.append(["bptr", x, newref("ptr")])
            recipe[ops[-1][-1]] = ops[-1]
        elif r < 0.62:
            cand = [x for x in sorted(refs) if refs[x] == "ptr"]
            if cand:
                ops.append(["barr", rng.choice(cand), rng.choice([None, 1, 2, 3]), newref("arr")])
                recipe[ops[-1][-1]] = ops[-1]
        elif r < 0.68:
            cand = [x for x in sorted(refs) if refs[x] in ("prim", "ptr")]
            acand = cand + [x for x in sorted(refs) if refs[x] == "arr"] * 2     # array parameters decay
            if cand:
                args = [rng.choice(acand) for _ in range(rng.randrange(0, 3))]
                ops.append(["bfn", args, rng.choice(cand), False, newref("fn")])
                recipe[ops[-1][-1]] = ops[-1]
        elif r < 0.74:
            cand = [x for x in sorted(refs) if refs[x] in ("ptr", "arr")]
            if cand:
                ops.append(["item", rng.choice(cand), newref("?")])
        elif r < 0.90 and refs:
            x = rng.choice(sorted(refs))
            kind = refs.pop(x)
            rr = rng.random()
            if rr < 0.25:
                # drop with a weakref callback that rebuilds the same type (if its parts are still held) and/or
                # a type sharing a component, and keeps the results
                inner = []
                rc = recipe.get(x)
                if rc is not None and rng.random() < 0.8:
                    parts = [rc[1]] if rc[0] in ("bptr", "barr") else list(rc[1]) + [rc[2]]
                    if all(p in refs for p in parts):
                        inner.append(rc[:-1] + [newref(kind)])
                        recipe[inner[-1][-1]] = inner[-1]
                others = sorted(y for y in refs if y != x)
                if others and rng.random() < 0.5:
                    inner.append(["bptr", rng.choice(others), newref("ptr")])
                    recipe[inner[-1][-1]] = inner[-1]
                ops.append(["dropcb", x, inner])
            elif rr < 0.40:
                # into a garbage cycle with a finalizer that rebuilds the type / a related type while the
                # collector has already cleared the weak references (and, in the dedicated histories,
                # resurrects the old ctype)
                inner = []
                rc = recipe.get(x)
                if rc is not None:
                    parts = [rc[1]] if rc[0] in ("bptr", "barr") else list(rc[1]) + [rc[2]]
                    if all(p in refs for p in parts):
                        inner.append(rc[:-1] + [newref(kind)])
                        recipe[inner[-1][-1]] = inner[-1]
                res = resurrect and rng.random() < 0.7
                ops.append(["cycfin", x, res, inner, newref(kind) if res else ""])
            else:
                ops.append(["drop" if rr < 0.8 else "cycdrop", x])
        elif r < 0.94 and len(ffis) > 1:
            f = ffis.pop(rng.randrange(len(ffis)))
            ops.append(["dropffi", f])
        else:
            ops.append(["gc"])
    return ops


TYPEDEF_FN = [  # (type string, expected structure): typedef'd array parameters decay like literal ones
    ("fn_t *", ["ptr", ["fn", ["void"], [["ptr", ["prim", "int"]]]]]),
    ("void(*)(int *)", ["ptr", ["fn", ["void"], [["ptr", ["prim", "int"]]]]]),
    ("void(*)(int[5])", ["ptr", ["fn", ["void"], [["ptr", ["prim", "int"]]]]]),
    ("fn2_t *", ["ptr", ["fn", ["prim", "short"], [["ptr", ["prim", "long"]], ["ptr", ["prim", "int"]]]]]),
    ("short(*)(long *, int[])", ["ptr", ["fn", ["prim", "short"], [["ptr", ["prim", "long"]], ["ptr", ["prim", "int"]]]]]),
]


def array_param_history(rng):
    """function types with array-typed parameters through the backend constructor, in both construction
    orders and several lengths; then the array types are dropped and collected, fresh unrelated ctypes are
    built (their addresses may be those of the dead array types) and function types over them requested"""
    p1, p2 = rng.sample(PRIMS, 2)
    ops = [["bprim", p1, "p"], ["bptr", "p", "q"], ["bprim", p2, "r"], ["bptr", "r", "rq"]]
    lens = rng.sample([None, 1, 2, 5, 7], 3)
    for i, n in enumerate(lens):
        ops.append(["barr", "q", n, "a%d" % i])
    order = rng.random() < 0.5
    k = 0
    for i in range(len(lens)):
        first = [["bfn", ["a%d" % i], "r", False, "fa%d" % i], ["bfn", ["q"], "r", False, "fq%d" % i]]
        for op in (first if order else first[::-1]):
            ops.append(op)
        if rng.random() < 0.5:
            ops.append(["bfn", ["p", "a%d" % i, "a%d" % ((i + 1) % len(lens))], "q", False, "fm%d" % i])
            ops.append(["bfn", ["p", "q", "q"], "q", False, "fn%d" % i])
    keep = rng.random() < 0.5
    for i in range(len(lens)):          # drop the array types (and perhaps the pointer-parameter twins)
        ops.append(["drop", "a%d" % i])
        if not keep:
            ops.append(["drop", "fq%d" % i])
    ops.append(["gc"])
    for j in range(rng.randrange(3, 9)):     # fresh unrelated ctypes: address reuse
        kind = rng.choice(["ptrptr", "arr", "ptr"])
        if kind == "ptrptr":
            ops += [["bptr", "rq" if j % 2 else "q", "n%d" % j]]
        elif kind == "arr":
            ops += [["barr", "rq", rng.choice([None, 3, 4]), "n%d" % j]]
        else:
            ops += [["bprim", rng.choice(PRIMS), "np%d" % j], ["bptr", "np%d" % j, "n%d" % j]]
        ops.append(["bfn", ["n%d" % j], "r", False, "g%d" % j])
        if rng.random() < 0.4:
            ops.append(["bfn", ["p", "n%d" % j, "n%d" % j], "q", False, "h%d" % j])
    if rng.random() < 0.5:
        ops += [["ool", s, a, "t%d" % i] for i, (s, a) in enumerate(rng.sample(TYPEDEF_FN, 3))]
    return ops


def resurrection_history(rng):
    """a finalizer in a garbage cycle resurrects a collected ctype (and may rebuild its type first); the type
    is then requested again"""
    ops = [["bprim", rng.choice(PRIMS), "p"], ["bptr", "p", "q"]]
    build = rng.choice([["bptr", "p"], ["bptr", "q"], ["barr", "q", rng.choice([None, 2, 5])],
                        ["bfn", ["p", "q"], "p", False], ["bfn", [], "q", False]])
    ops.append(build + ["x"])
    if rng.random() < 0.5:
        ops.append(build + ["x1"])
        ops.append(["drop", "x1"])
    inner = [build + ["y"]] if rng.random() < 0.6 else []
    ops.append(["cycfin", "x", True, inner, "z"])
    if rng.random() < 0.5:
        ops.append(["bptr", "q", "w"])
    ops.append(["gc"])
    ops.append(build + ["v"])
    if rng.random() < 0.5:
        ops += [["drop", "z"], ["gc"], build + ["u"]]
    return ops


def ops_from_path(path):
    """a path of the explored graph (atomic collection) as direct backend requests; operands are the
    model's object numbers.  SDropCb .. SWinClose (a death by reference counting with the program's
    requests made from a weakref callback, inside the dealloc) becomes one "dropcb" operation."""
    ops, n, window = [], 0, None
    for act, a in path:
        n += 1
        tgt = ops if window is None else window[2]
        if act == "ReqPrim":
            tgt.append(["bprim", "short" if a[0] == 0 else "long", "m%d" % n])
        elif act == "SReqPtr":
            tgt.append(["bptr", a[0], "m%d" % n])
        elif act == "SReqArr":
            tgt.append(["barr", a[0], 2, "m%d" % n])
        elif act == "SReqFn":
            tgt.append(["bfn", [a[1]], a[0], False, "m%d" % n])
        elif act == "SDropRef":
            ops.append(["drop", a[0]])
        elif act == "SCycDrop":
            ops.append(["cycdrop", a[0]])
        elif act == "SGcOne":
            if not ops or ops[-1] != ["gc"]:
                ops.append(["gc"])
        elif act == "SDropCb":
            window = ["dropcb", a[0], []]
        elif act == "SWinWr":
            pass
        elif act == "SWinClose":
            ops.append(window)
            window = None
        elif act == "SDeallocRC":
            pass                        # happens by itself (reference counting)
        else:
            raise core.MachineryError("unknown action %s in the UniqueCache graph" % act)
    if window is not None:              # the path ends inside the window: close it
        ops.append(window)
    return ops + [["dropall"], ["gc"]]


def run_worker(cfg, histories):
    p = subprocess.run([core.PY, WORKER, json.dumps(cfg)], input=json.dumps(histories), capture_output=True,
                       text=True, env=core.sub_env(), timeout=3000)
    res, ended = {}, False
    for line in p.stdout.splitlines():
        m = json.loads(line)
        if "end" in m:
            ended = True
        else:
            res[m["h"]] = m["events"]
    if not ended:
        raise core.MachineryError("C27 worker failed (rc=%s):\n%s" % (p.returncode, p.stderr[-3000:]))
    return res


def ideal_trace(events):
    return [{"op": e["op"], "s": e["s"], "d": e["d"], "req": e["req"], "agg": e["agg"]}
            for e in events if e["op"] != "skipped"]


def involves_resurrected(events, pos):
    """is the object of the failing obtain event, or its live twin of the same description, an object that a
    finalizer resurrected after the collector had cleared its weak references?"""
    evs = [e for e in events if e["op"] != "skipped"]
    live, res = {}, set()
    for e in evs[:pos - 1]:
        if e["op"] == "obtain":
            live[e["s"]] = e["d"]
            if e.get("res"):
                res.add(e["s"])
        elif e["op"] == "dead":
            live.pop(e["s"], None)
    e = evs[pos - 1]
    twins = {s for s, d in live.items() if d == e["d"]}
    return bool(e.get("res")) or bool(twins & res)


def impl_trace(events):
    return [e for e in events if e["op"] != "skipped" and not (e["op"] == "obtain" and e["rk"] == "")]


def validate(ctx, traces, impl_idx):
    chunks = life_common.chunks_by_events(traces, 50000, 3000)
    jobs = {}
    for ci, (base, ch) in enumerate(chunks):
        jobs["ideal%d" % ci] = (life_common.verdicts, (ctx, "Trace_UniqueCache", [ideal_trace(t) for t in ch]))
    ichunks = life_common.chunks_by_events([impl_trace(traces[k]) for k in impl_idx], 50000, 3000)
    for ci, (base, ch) in enumerate(ichunks):
        jobs["impl%d" % ci] = (life_common.verdicts, (ctx, "Trace_UniqueCacheImpl", ch, "IMPL"))
    out = life_common.run_limited(jobs, 4)
    bad, div = {}, {}
    for ci, (base, ch) in enumerate(chunks):
        got = {int(t[0]): (core.unq(t[1]), int(t[2])) for t in out["ideal%d" % ci]}
        if len(got) != len(ch):
            raise core.MachineryError("Trace_UniqueCache: %d verdicts for %d histories" % (len(got), len(ch)))
        bad.update({base + k - 1: v for k, v in got.items() if v[0] != "ok"})
    for ci, (base, ch) in enumerate(ichunks):
        got = {}
        for t in out["impl%d" % ci]:
            k, v, pos = int(t[0]), core.unq(t[1]), int(t[2])
            if v == "same" or k not in got:
                got[k] = (v, pos)
        if len(got) != len(ch):
            raise core.MachineryError("Trace_UniqueCacheImpl: %d verdicts for %d histories" % (len(got), len(ch)))
        div.update({impl_idx[base + k - 1]: v for k, v in got.items() if v[0] != "same"})
    return bad, div


def design_level(ctx, quick):
    dump = os.path.join(ctx.tmp, "ucache")
    n = 3 if quick else 4
    pr = "0" if quick else "0,1"        # quick: one primitive in the interleaved runs

    def mc(name, mode, atomic, d, maxser, prims="0,1", addrs="1,2,3", minaddr="FALSE"):
        r = core.tlc("UniqueCache", cfg_text=MC % (addrs, maxser, mode, "faithful", atomic, prims, minaddr, FULL), dump=d,
                     workers=6 if d else 3,
                     timeout=3000)
        ctx.add_tlc(name, r)

    def variant(v):
        if v == "key-from-raw-args":      # needs a function type with an array parameter: 4 addresses, 5 objects
            text = MC % ("1,2,3,4", 5, "c", v, "TRUE", "0", "TRUE", "")
        else:
            text = MC % ("1,2,3", 4, "c", v, "TRUE" if v == "removealways" else "FALSE", "0", "FALSE", "")
        r = core.tlc("UniqueCache", cfg_text=text, workers=2, timeout=1500)
        ctx.add_tlc("sanity:" + v, r, require_ok=False, count_states=False)
        if r.ok or "RefinesIdeal is violated" not in r.out:
            raise core.MachineryError("broken variant %s of UniqueCache was not rejected by TLC:\n%s" % (v, r.out[-1500:]))
    jobs = {"c": (mc, ("MC_UniqueCache(C cache, 3 addresses, %d objects, gc phases interleaved)" % n, "c", "FALSE", None, n, pr)),
            "py": (mc, ("MC_UniqueCache(Python cache, 3 addresses, %d objects)" % n, "py", "FALSE", None, n, pr)),
            "dump": (mc, ("MC_UniqueCache(C cache, atomic collection, 4 addresses, 4 objects, lowest free address)",
                          "c", "TRUE", dump, 4, "0", "1,2,3,4", "TRUE")),
            "removealways": (variant, ("removealways",)), "nodeadcheck": (variant, ("nodeadcheck",)),
            "key-from-raw-args": (variant, ("key-from-raw-args",))}
    if not quick:
        jobs["a44"] = (mc, ("MC_UniqueCache(C cache, atomic collection, 4 addresses, 4 objects, any free address)",
                            "c", "TRUE", None, 4, "0", "1,2,3,4", "FALSE"))
        jobs["c5"] = (mc, ("MC_UniqueCache(C cache, 3 addresses, 5 objects)", "c", "FALSE", None, 5))
    life_common.parallel(jobs)
    g = tlaval.load_dot(dump + ".dot", parse=False)
    out = {}
    for nn, es in g.out.items():
        seen, lst = set(), []
        for act, args, dst in es:
            if (act, args) not in seen:
                seen.add((act, args))
                lst.append((act, args, dst))
        out[nn] = lst
    acts = {e[0] for es in out.values() for e in es}
    need = {"ReqPrim", "SReqPtr", "SReqArr", "SReqFn", "SDropRef", "SCycDrop", "SDeallocRC", "SGcOne", "SDropCb", "SWinWr",
            "SWinClose"}
    if need - acts:
        raise core.MachineryError("UniqueCache: actions never taken: %s" % sorted(need - acts))
    for a in sorted(acts):
        ctx.cov["actions"]["UniqueCache." + a] = sum(1 for es in out.values() for e in es if e[0] == a)
    return g.init[0], out


def graph_paths(init, out, rng, nwalks, cover):
    parent, order = {init: None}, [init]
    for n in order:
        for act, args, dst in out.get(n, []):
            if dst not in parent:
                parent[dst] = (n, act, args)
                order.append(dst)
    edges = [(n, act, args) for n in order for act, args, _d in out.get(n, [])]
    nedges = len(edges)
    if cover is not None and nedges > cover:
        edges = rng.sample(edges, cover)
    paths = []
    for n, act, args in edges:
        p = [(act, args)]
        while parent[n] is not None:
            m, a, ar = parent[n]
            p.append((a, ar))
            n = m
        paths.append(p[::-1])
    for _ in range(nwalks):
        cur, p = init, []
        for _i in range(rng.randrange(6, 22)):
            es = out.get(cur, [])
            if not es:
                break
            act, args, cur = rng.choice(es)
            p.append((act, args))
        paths.append(p)
    return paths, nedges, len(edges)


def build(ctx):
    import cffi
    d = os.path.join(ctx.tmp, "uc")
    os.makedirs(d, exist_ok=True)
    fb = cffi.FFI()
    fb.cdef("struct cv27s { struct cv27s *next; int v; }; int cv27f(int);"
            "typedef int vec_t[5]; typedef void fn_t(vec_t); typedef long lvec_t[2]; typedef short fn2_t(lvec_t, vec_t);")
    fb.set_source("_cv27_ool", None)
    fb.emit_python_code(os.path.join(d, "_cv27_ool.py"))
    return {"ooldir": d, "oolmod": "_cv27_ool"}


def run(ctx):
    quick = ctx.quick
    phases = ctx.cov.setdefault("phase_wall_s", {})
    t0 = [time.time()]

    def phase(name):
        phases[name] = round(time.time() - t0[0], 1)
        t0[0] = time.time()
    cfg = build(ctx)
    init, out = design_level(ctx, quick)
    phase("tlc-design")
    rng = ctx.rng
    paths, nedges, ncov = graph_paths(init, out, rng, 300 if quick else 3000, 1500 if quick else 30000)
    hist = [ops_from_path(p) for p in paths]
    nmodel = len(hist)
    for _ in range(150 if quick else 2000):
        hist.append(random_history(rng, rng.randrange(30, 120)))
    for _ in range(40 if quick else 800):          # function types with array-typed parameters
        hist.append(array_param_history(rng))
    nres0 = len(hist)
    for _ in range(12 if quick else 200):          # finalizers that resurrect a collected ctype
        hist.append(resurrection_history(rng) if rng.random() < 0.7 else
                    random_history(rng, rng.randrange(30, 90), resurrect=True))
    ctx.cov["graph"] = {"transitions": nedges, "transitions_replayed": ncov}
    phase("generate")
    nw = 8
    parts = [list(range(i, len(hist), nw)) for i in range(nw)]
    res = life_common.parallel({i: (run_worker, (cfg, [hist[j] for j in idx])) for i, idx in enumerate(parts) if idx})
    traces = [None] * len(hist)
    for i, idx in enumerate(parts):
        for loc, j in enumerate(idx):
            traces[j] = res[i][loc]
    phase("execute")
    for j, t in enumerate(traces):
        ctx.case(("model-path" if j < nmodel else "random", json.dumps(hist[j])))
    bad, div = validate(ctx, traces, list(range(nmodel)))
    phase("tlc-validate")
    ctx.validated(len(traces))
    for k, (v, pos) in sorted(bad.items()):
        if v == "Harness":
            raise core.MachineryError("C27 harness produced an impossible history at %d: %r" % (pos, traces[k][:pos][-3:]))
        e = ideal_trace(traces[k])[pos - 1]
        kind = e["d"].split(":")[0]
        label = "model-path" if k < nmodel else "random"
        if involves_resurrected(traces[k], pos):
            label = "resurrected-ctype"
        ctx.violation("%s:%s:%s" % (v, kind, label), CLAUSE.get(v, v),
                      {"ops": hist[k], "failing_event": e, "position": pos})
    divs = ["model path %d leaves the implementation model at event %d: %r" % (
        k, pos, impl_trace(traces[k])[pos - 1] if 0 < pos <= len(impl_trace(traces[k])) else None)
        for k, (v, pos) in sorted(div.items())]
    ctx.cov["model_divergences"] = divs[:10]
    ctx.cov["model_divergence_count"] = len(divs)
    if divs:
        print("NOTE C27: %d histories differ from the implementation model (first: %s); verdicts come from the "
              "ideal" % (len(divs), divs[0]))
    nobt = sum(1 for t in traces for e in t if e["op"] == "obtain")
    ndead = sum(1 for t in traces for e in t if e["op"] == "dead")
    hits = 0
    for t in traces:
        seen = set()
        for e in t:
            if e["op"] == "obtain":
                hits += e["s"] in seen
                seen.add(e["s"])
    ctx.cov["obtain_events"], ctx.cov["deaths"], ctx.cov["cache_hits_observed"] = nobt, ndead, hits
    for k in (0, nmodel, len(hist) - 1):
        ctx.sample({"kind": "model-path" if k < nmodel else "random", "ops": hist[k][:20],
                    "events": [(e["op"], e.get("s"), e.get("d")) for e in traces[k][:25]]})
    ctx.cov["rule"] = ("distinct = distinct histories executed; non-trivial: %d obtain events, %d returned an "
                       "already known object, %d ctype objects died and were rebuilt" % (nobt, hits, ndead))
    ctx.cov["exhaustive"] = ncov == nedges
    ctx.assumptions += ["ctype identity is observed through id() while a weak reference with a callback exists; "
                        "deaths are reported by the callbacks before the id can be reused",
                        "the order of deaths inside one operation is normalised (composites first)"]


def replay(ctx, obj):
    cfg = build(ctx)
    rp = obj["replay"]
    tr = run_worker(cfg, [rp["ops"]])[0]
    bad, _ = validate(ctx, [tr], [])
    ctx.cov["states"] = ctx.cov["transitions"] = 1
    for k, (v, pos) in bad.items():
        ctx.violation(obj["key"], CLAUSE.get(v, v), rp)
    print("re-executed %d operations: %s" % (len(rp["ops"]), "rejected" if bad else "accepted by the ideal"))


def selftest(ctx):
    cfg = build(ctx)
    ops = [["bprim", "short", "a"], ["bptr", "a", "b"], ["bptr", "a", "c"], ["barr", "b", 2, "d"], ["drop", "b"],
           ["drop", "c"], ["drop", "d"], ["bptr", "a", "e"], ["dropall"], ["gc"]]
    tr = run_worker(cfg, [ops])[0]
    bad, div = validate(ctx, [tr], [0])
    ok = not bad and not div
    a = json.loads(json.dumps(tr))
    obt = [e for e in a if e["op"] == "obtain" and e["d"].startswith("ptr:")]
    obt[1]["s"] = 99                    # the second request for the pointer type returns another object
    b = json.loads(json.dumps(tr))
    [e for e in b if e["op"] == "obtain" and e["d"].startswith("arr:")][0]["req"] = "arr:77:2"
    bad, div = validate(ctx, [a, b], [0])
    ok = ok and bad.get(0, ("",))[0] == "Canonical" and bad.get(1, ("",))[0] == "Requested" and len(div) == 1
    return ok


META = {
    "category": "model_checking",
    "text": "TLC explores every history of requests (primitive, pointer, array, function types), drops, "
            "reference-counted deaths and the three phases of cyclic collection, over 3 reusable addresses, in "
            "models of the C unique_cache (address-built keys, weak values, remove_dead_unique_reference) and "
            "of model.global_cache (WeakValueDictionary), and checks that they refine the property machine "
            "(the object asked for, same object => same type, same type => same object, rebuilt types unique) "
            "and never keep a live entry to a freed or recycled address; walks covering the explored graph are "
            "executed through the backend constructors (including requests made from weakref callbacks inside a "
            "dying ctype's dealloc), random histories through several FFI objects, an "
            "out-of-line module, introspection, cycles and gc.collect(); TLC validates every recorded history "
            "against the property machine and the backend histories against the implementation model.",
    "note": "Trusted: TLC, CPython weak references (callbacks fire before an id() can be recycled). The "
            "interleaving of requests with the collector's phases is checked at design level only; real "
            "collections are atomic for a single-threaded program.",
    "technique": "TLA+ refinement (TLC) + replay of the explored graph on the real constructors + TLC trace validation",
    "design_ref": "DESIGN.md §3 C27",
}
