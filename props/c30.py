"""C30 - declaration and type-string errors are reported as cffi errors.

Specification: specs/Errors.tla is the property as a total predicate on one observed outcome
               [ffi, api, cls, origin] (TLC checks the contract's own sanity exhaustively: 171
               outcomes).  The input space is "any text"; TLC contributes the token-level part:
               the renderings and one-token near-misses of specs/CDecl.tla (shared with C07).
Binding      : spec -> code: every TLC-enumerated token string is given to typeof() of the in-line
               FFI and of an API-mode FFI, and wrapped into declarations for cdef().
               code -> spec: seeded byte-level mutants of a corpus of declaration texts and type
               strings are executed (cdef on a fresh FFI, typeof on both FFIs; the compiled half in
               a sub-process so that a crash is an outcome), every outcome is recorded and TLC
               validates all records against the contract (Trace_Errors.tla).
               The compiled half also gets strs that are not UTF-8 encodable, embedded NULs, very long strings and
               the near-limit family of specs/ErrorsLimit.tla (TLC computes how many opcodes each member needs; more
               than 1200 must be refused), and runs with PYTHONMALLOC=debug.
               Thorough tier: the compiled half runs a second time against a backend built with
               clang -fsanitize=address,undefined; a sanitizer report / abnormal exit is the
               outcome class "crash".
Level        : exploration - TLA+ decides only the outcome-class contract; memory safety is observed.
"""
import os
from concurrent.futures import ThreadPoolExecutor
from harness import core, tlaval
from harness import parse_env as pe
from harness import parse_fuzz as pf

LEVEL = "exploration"

LIMIT_CFG = ("SPECIFICATION Spec\nCONSTANTS KS = %s\n PS = %s\n NS = %s\n Mode = \"%s\"\n Depth = 0\n"
             " Profile = \"small\"\n Variant = \"faithful\"\nINVARIANT %s\nCHECK_DEADLOCK FALSE\n")

# once expected to escape as ValueError/ZeroDivisionError (fixed in /repo since); ordinary inputs now
EXPECTED = [("cdef", "#define FOO abc\n"), ("cdef", "#define FOO 08\n"), ("cdef", "#define X 1e5\n"),
            ("cdef", "int a[5/0];"), ("cdef", "int b[1<<-1];")]

CLAUSE = {"escapes-cdef": "an exception that is not a cffi error escapes FFI.cdef()",
          "escapes-typeof": "an exception that is not a cffi error escapes FFI.typeof() (in-line FFI)",
          "escapes-compiled-typeof": "typeof() of the compiled FFI raises something else than ffi.error/TypeError/ValueError",
          "crash": "typeof() of the compiled FFI crashed or a sanitizer / the debug allocator reported an error",
          "over-limit-accepted": "typeof() of the compiled FFI accepted a type that needs more opcodes than the parser's "
                                 "1200-entry buffer holds (ErrorsLimit!NeedOps)"}


def checked_count(ctx, recs):
    """run the validation and insist that TLC saw every record"""
    bad = []
    for i in range(0, len(recs), 100000):
        part = [{"id": k + 1, "ffi": r["ffi"], "api": r["api"], "cls": r["cls"], "origin": r["origin"],
                 "need": r.get("need", 0)} for k, r in enumerate(recs[i:i + 100000])]
        path = os.path.join(ctx.tmp, "c30_recs_%d.json" % i)
        core.write_json(path, part)
        r = core.tlc("Trace_Errors", workers=1, env={"TRACE_FILE": path}, timeout=1800)
        ctx.add_tlc("Trace_Errors", r, count_states=False)
        chk = core.tla_tuples(r.out, "CHECKED")
        if not chk or int(chk[0][0]) != len(part):
            raise core.MachineryError("Trace_Errors did not check all %d records:\n%s" % (len(part), r.out[-2000:]))
        for t in core.tla_tuples(r.out, "VERDICT"):
            bad.append((i + int(t[0]) - 1, core.unq(t[1])))
        ctx.validated(len(part))
    return bad


def build_inputs(ctx, rows_r, rows_nm, n_mut):
    rng = ctx.rng
    inputs = []          # (api, text, kind)
    seen = set()

    def add(api, text, kind):
        if _HUGE_SHIFT.search(text):
            return           # 1 << 10**9 ... : resource exhaustion is not part of the input space
        if (api, text) not in seen:
            seen.add((api, text))
            inputs.append((api, text, kind))
    for api, text in EXPECTED:
        add(api, text, "expected")
    for row in rows_r + rows_nm:
        toks = row[2] if row[0] == "R" else row[1]
        if not toks:
            continue
        s = " ".join(toks)
        kind = "tok-" + row[0]
        add("typeof", s, kind)
        add("cdef", "void f_(%s);" % s, kind)
        if "x" in toks:
            add("cdef", "extern %s;" % s, kind)
            add("cdef", "typedef %s;" % s, kind)
            add("cdef", "struct s_ { %s; };" % s, kind)
    structured = pf.structured_inputs()
    for api, text in structured:
        add(api, text, "structured")
    for s in pf.CDEF_SEEDS:
        add("cdef", s, "seed")
    for s in pf.TYPEOF_SEEDS:
        add("typeof", s, "seed")
    for _ in range(n_mut):
        if rng.random() < 0.2:                         # mutants of the structured inputs
            api, text = rng.choice(structured)
            add(api, pf.mutate(rng, text), "mutant")
        elif rng.random() < 0.7:
            base = rng.choice(pf.CDEF_SEEDS)
            if rng.random() < 0.2:                     # two declarations texts in a row (also twice the same)
                base = base + (base if rng.random() < 0.5 else rng.choice(pf.CDEF_SEEDS))
            add("cdef", pf.mutate(rng, base), "mutant")
        else:
            add("typeof", pf.mutate(rng, rng.choice(pf.TYPEOF_SEEDS)), "mutant")
    return inputs


def run(ctx):
    quick = ctx.quick
    with ThreadPoolExecutor(3) as ex:
        f1 = ex.submit(core.tlc, "Errors", workers=2)
        f2 = ex.submit(core.tlc, "CDecl", cfg_text=pe.gen_cfg(1, 0, 0, 1, "small") if quick
                       else pe.gen_cfg(1, 1, 0, 1, "mid"), workers=4, timeout=2400)
        f3 = ex.submit(pe.Env, ctx.tmp, "c30")
        f4 = ex.submit(core.tlc, "ErrorsLimit", cfg_text=LIMIT_CFG % ("{0,1,2,5}", "{0,1,2}", "{0,1,2}", "law", "CountLaw"), workers=2)
        ks = "{590,591,592,593,594,595}" if quick else "{" + ",".join(map(str, range(578, 600))) + "}"
        f5 = ex.submit(core.tlc, "ErrorsLimit", cfg_text=LIMIT_CFG % (ks, "{0,1}" if quick else "{0,1,2}", "{0,1,2}" if quick
                       else "{0,1,2,3}", "emit", "Emit"), workers=3, timeout=1500)
        r = f1.result()
        ctx.add_tlc("Errors(contract sanity)", r)
        r = f2.result()
        ctx.add_tlc("CDecl(renderings+near-misses)", r)
        rows = pe.parse_generator_output(r.out)
        env = f3.result()
        r = f4.result()
        ctx.add_tlc("ErrorsLimit(CountLaw)", r)
        r = f5.result()
        ctx.add_tlc("ErrorsLimit(near-limit family)", r, count_states=False)
        limit_rows = [x for x in pe.parse_generator_output(r.out) if x[0] == "L"]
        if not any(x[4] == 1201 for x in limit_rows) or not any(x[4] == 1200 for x in limit_rows):
            raise core.MachineryError("the near-limit family does not straddle the limit: %s" % sorted(x[4] for x in limit_rows))
    rows_r = [x for x in rows if x[0] == "R"]
    rows_nm = [x for x in rows if x[0] == "NM"]
    if not rows_nm:
        raise core.MachineryError("no near-miss was enumerated")
    inputs = build_inputs(ctx, rows_r, rows_nm, 2500 if quick else 150000)
    # ---------------------------------------------------------------- in-line half
    res = pe.pool_map(env, {"inline": pf.inline_worker}, "inline", [(a, t) for a, t, _k in inputs], nproc=8, chunk=500)
    recs = []
    for (api, text, kind), (cls, origin, site, msg) in zip(inputs, res):
        ctx.case((api, text))
        recs.append({"ffi": "inline", "api": api, "cls": cls, "origin": origin, "site": site, "msg": msg,
                     "text": text, "kind": kind})
    # ---------------------------------------------------------------- compiled half (sub-process)
    tstrings = [t for a, t, _k in inputs if a == "typeof"]
    # strings only the compiled half gets: not encodable as UTF-8 (lone surrogates), embedded NUL, very long, and
    # the near-limit family with the number of opcodes each member needs (from TLC)
    need = {}
    for t in pf.special_strings(ctx.rng, 60 if quick else 600):
        if t not in need:
            need[t] = 0
            tstrings.append(t)
    for _l, k, p, n, nd, text in limit_rows:
        need[text] = nd
        tstrings.append(text)
        for extra in ("\udc80", " x", "\x00"):                  # the same types with trailing noise: need unknown
            tstrings.append(text + extra)
    # plain pass with the debug allocator: a write past a PyMem_Malloc'ed buffer aborts the worker at free time
    cres = pf.run_compiled(ctx.tmp, env.api_name, tstrings, env=core.sub_env(PYTHONMALLOC="debug"), tag="plain")
    for t, (cls, msg) in zip(tstrings, cres):
        recs.append({"ffi": "compiled", "api": "typeof", "cls": cls, "origin": "-",
                     "site": pf.crash_site(msg) if cls == "crash" else "-", "msg": msg,
                     "text": t, "kind": "compiled", "need": need.get(t, 0)})
    san = 0
    if not quick:
        d = core.build_backend(extra_flags=["-fsanitize=address,undefined", "-fno-omit-frame-pointer", "-O1",
                                            "-shared-libasan", "-fno-sanitize=function,alignment",
                                            "-fsanitize-recover=address,undefined"], cc="clang", tag="asan")
        sres = pf.run_compiled(ctx.tmp, env.api_name, tstrings, env=pf.asan_env(d, ctx.tmp), tag="asan", timeout=3000)
        for t, (cls, msg) in zip(tstrings, sres):
            recs.append({"ffi": "compiled", "api": "typeof", "cls": cls, "origin": "-",
                         "site": "asan:" + pf.crash_site(msg) if cls == "crash" else "asan", "msg": msg,
                         "text": t, "kind": "compiled-sanitized", "need": need.get(t, 0)})
        san = len(sres)
    # ---------------------------------------------------------------- code -> spec: TLC validates
    bad = checked_count(ctx, recs)
    for idx, clause in bad:
        r = recs[idx]
        key = vkey(r)
        ctx.violation(key, "%s: %s(%r) -> %s: %s" % (CLAUSE.get(clause, clause), r["api"], r["text"][:200], r["cls"], r["msg"]),
                      {"ffi": r["ffi"], "api": r["api"], "text": r["text"], "sanitized": r["site"].startswith("asan"),
                       "need": r.get("need", 0)})
    vk = {}
    for idx, clause in bad:
        r = recs[idx]
        key = vkey(r)
        e = vk.setdefault(key, {"n": 0, "examples": []})
        e["n"] += 1
        if len(e["examples"]) < 4:
            e["examples"].append([r["text"][:120], r["msg"]])
    ctx.cov["verdict_keys"] = vk
    hist = {}
    for r in recs:
        k = "%s:%s:%s" % (r["ffi"], r["api"], r["cls"])
        hist[k] = hist.get(k, 0) + 1
    ctx.cov["outcome_histogram"] = hist
    ctx.cov["inputs"] = {"total": len(inputs), "token_level": sum(1 for i in inputs if i[2].startswith("tok")),
                         "mutants": sum(1 for i in inputs if i[2] == "mutant"), "compiled_typeof": len(tstrings),
                         "sanitized_typeof": san}
    for r in recs[:2] + [x for x in recs if x["kind"] == "mutant"][:3]:
        ctx.sample({k: r[k] for k in ("ffi", "api", "text", "cls", "origin", "site")})
    ctx.cov["rule"] = "distinct = distinct (api, text) inputs executed; all count (each is parsed by the real parser)"
    ctx.cov["exhaustive"] = False
    ctx.assumptions += [
        "TypeError/ValueError/OverflowError raised by a backend type constructor after parsing (origin = model.py "
        "global_cache/finish_backend_type) count as the statement's 'well-formed but invalid types' for the in-line "
        "typeof as well",
        "inputs are at most a few hundred bytes; resource exhaustion (deep nesting -> RecursionError, huge shifts) is "
        "not part of the input space",
        "memory safety is observed (debug allocator in the quick tier, ASan/UBSan in the thorough tier), not specified, "
        "except for the opcode-buffer rule of ErrorsLimit.tla",
        "RuntimeError 'type-building recursion too deep' (more than 1000 nested levels) is tolerated as a resource limit"]


import re
_HUGE_SHIFT = re.compile(r"<<[-+~!(\s]*\d{4,}|<<[-+~!(\s]*0[xX][0-9a-fA-F]{3,}")


def vkey(r):
    """ffi:api:class:site[:head of the message, digits abstracted] - the specific call site and failure"""
    if r["ffi"] != "inline":
        over = ":over-limit" if r.get("need", 0) > 1200 else ""
        return "%s:%s:%s:%s%s" % (r["ffi"], r["api"], r["cls"], r["site"], over)
    head = re.sub(r"\d+", "N", r["msg"].split(":")[0])[:60]
    return "%s:%s:%s:%s:%s" % (r["ffi"], r["api"], r["cls"], r["site"], head)


def _encodable(t):
    try:
        t.encode("utf-8")
        return True
    except UnicodeError:
        return False


def replay(ctx, obj):
    rp = obj["replay"]
    env = pe.Env(ctx.tmp, tag="c30r")
    if rp["ffi"] == "inline":
        cls, origin, site, msg = pf.inline_outcome(rp["api"], rp["text"])
        recs = [{"ffi": "inline", "api": rp["api"], "cls": cls, "origin": origin, "site": site, "msg": msg, "text": rp["text"]}]
    else:
        e = None
        if rp.get("sanitized"):
            d = core.build_backend(extra_flags=["-fsanitize=address,undefined", "-fno-omit-frame-pointer", "-O1",
                                                "-shared-libasan", "-fno-sanitize=function,alignment",
                                            "-fsanitize-recover=address,undefined"], cc="clang", tag="asan")
            e = pf.asan_env(d, ctx.tmp)
        (cls, msg), = pf.run_compiled(ctx.tmp, env.api_name, [rp["text"]], env=e or core.sub_env(PYTHONMALLOC="debug"),
                                      tag="replay")
        recs = [{"ffi": "compiled", "api": "typeof", "cls": cls, "origin": "-",
                 "site": ("asan:" + pf.crash_site(msg) if cls == "crash" else "asan") if e else "-", "msg": msg,
                 "text": rp["text"], "need": rp.get("need", 0)}]
    bad = checked_count(ctx, recs)
    for idx, clause in bad:
        r = recs[idx]
        ctx.violation(vkey(r), "%s: %s" % (CLAUSE.get(clause, clause), r["msg"]), rp)
    print("replayed %s(%r): %s %s" % (rp["api"], rp["text"], recs[0]["cls"], "REJECTED by the contract" if bad else "allowed"))


def selftest(ctx):
    recs = [{"ffi": "inline", "api": "cdef", "cls": "CDefError", "origin": "parser"},
            {"ffi": "compiled", "api": "typeof", "cls": "ffi.error", "origin": "-", "need": 1201},
            {"ffi": "compiled", "api": "typeof", "cls": "ok", "origin": "-", "need": 1200}]
    ok1 = not checked_count(ctx, recs)
    recs2 = [{"ffi": "inline", "api": "cdef", "cls": "ZeroDivisionError", "origin": "parser"},
             {"ffi": "compiled", "api": "typeof", "cls": "crash", "origin": "-"},
             {"ffi": "compiled", "api": "typeof", "cls": "ok", "origin": "-", "need": 1201}]
    bad = checked_count(ctx, recs2)
    return ok1 and [b[1] for b in bad] == ["escapes-cdef", "crash", "over-limit-accepted"]


META = {
    "category": "exploration",
    "text": "The property is a total predicate on an observed outcome (specs/Errors.tla, its own sanity model-checked); "
            "TLC enumerates the token-level input space (renderings and one-token near-misses of the declarator "
            "grammar), the harness adds seeded byte-level mutants of a corpus of declaration texts and type strings; "
            "every input runs through cdef()/typeof() of the in-line FFI and typeof() of an API-mode FFI (sub-process; "
            "thorough tier also against a clang ASan+UBSan build of the backend), and TLC validates every recorded "
            "outcome against the contract, including the opcode-buffer rule (ErrorsLimit.tla: NeedOps checked against the "
            "transcribed parser; a type needing more than 1200 opcodes must raise ffi.error).",
    "note": "TLA+ decides only the outcome-class contract; out-of-bounds reads are observed by the sanitizers on the "
            "replayed inputs, not specified. Fuzzing is sampling: exhaustive only for the token-level near-miss set.",
    "technique": "TLA+ outcome contract + TLC-enumerated near-misses + seeded byte-level fuzzing + sanitizer build + TLC trace validation",
    "design_ref": "DESIGN.md §3 C30",
}
