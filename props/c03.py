"""C03 — integer stores accept exactly the type's range and round-trip.

Design level : specs/IntConv.tla — ideal Store vs the transcribed algorithms
               (convert_from_object integer part, _cffi_to_c_i<N>/_u<N>) over a parametric
               word (long long = 5 bits, sizes 2/3/5): TLC compares them for EVERY value; the
               BV bit-sequence library used at true widths is itself checked against native
               integers (MC_BV).  Broken variant ("bool2": _Bool accepts 2) must be rejected.
Binding      : every integer type x every store path (new-init, item, field, API global,
               dlopen global in-line and out-of-line, API call argument, libffi call argument
               via addressof, dlopen call argument, ffi.callback result, extern "Python"
               result) x boundary/random Python ints up to 70 bits on the real code; each
               store is a record (outcome, bytes before/after, neighbours, value read back or
               echoed by C) validated by TLC against the ideal at the true width
               (Trace_IntConv.tla); type widths/signedness come from gcc.
"""
import os, time
from harness import core
from harness.intconv import (bv, INT_TYPES, build_modules, gcc_type_facts, boundary_values,
                             validate_records)

LEVEL = "model_checking"
PATHS = ["new", "item", "field", "global_api", "global_inline", "global_ool", "arg_api", "arg_libffi",
         "arg_inline", "arg_ool", "cb_result", "ep_result"]


def outcome_of(fn):
    try:
        return "ok", fn()
    except OverflowError:
        return "overflow", None
    except Exception as e:          # noqa
        return "other:" + type(e).__name__, None


def do_store(mods, path, tname, ident, v, rng, errv):
    rec = _do_store(mods, path, tname, ident, v, rng, errv)
    rec.setdefault("rberr", False)
    return rec


class _Raised:
    """a read-back that raised: reported through the record (clause "readback")"""


def rd(fn):
    try:
        return fn()
    except Exception:
        return _Raised


def _do_store(mods, path, tname, ident, v, rng, errv):
    """Perform one store of v; returns dict(out, before, after, around0, around1, rb)."""
    ffi, lib = mods["api"]
    rec = {"around0": [], "around1": []}
    if path == "new":
        out, p = outcome_of(lambda: ffi.new(tname + " *", v))
        n = ffi.sizeof(tname)
        rec.update(out=out, before=[0] * n, after=list(bytes(ffi.buffer(p))) if p is not None else [0] * n)
        rb = rd(lambda: p[0]) if p is not None else None
    elif path == "item":
        a = ffi.new(tname + "[3]")
        buf = ffi.buffer(a)
        buf[:] = bytes(rng.randrange(2 if ident == 'b' else 256) for _ in range(len(buf)))
        n = ffi.sizeof(tname)
        b0 = bytes(buf)

        def st():
            a[1] = v
        out, _ = outcome_of(st)
        b1 = bytes(buf)
        rec.update(out=out, before=list(b0[n:2 * n]), after=list(b1[n:2 * n]),
                   around0=list(b0[:n] + b0[2 * n:]), around1=list(b1[:n] + b1[2 * n:]))
        rb = rd(lambda: a[1])
    elif path == "field":
        s = ffi.new("struct s_%s *" % ident)
        buf = ffi.buffer(s)
        buf[:] = bytes(rng.randrange(2 if ident == 'b' else 256) for _ in range(len(buf)))
        off, n = ffi.offsetof("struct s_%s" % ident, "f"), ffi.sizeof(tname)
        b0 = bytes(buf)

        def st():
            s.f = v
        out, _ = outcome_of(st)
        b1 = bytes(buf)
        rec.update(out=out, before=list(b0[off:off + n]), after=list(b1[off:off + n]),
                   around0=list(b0[:off] + b0[off + n:]), around1=list(b1[:off] + b1[off + n:]))
        rb = rd(lambda: s.f)
    elif path.startswith("global_"):
        f2, l2 = mods[path[7:]]
        name = "g_" + ident
        try:
            addr = f2.addressof(l2, name)
        except Exception as e:      # the variable is not reachable at all through this lib
            rec.update(out="other:" + type(e).__name__, before=[], after=[], hasrb=False, rb=bv(0))
            return rec
        buf = f2.buffer(addr)
        b0 = bytes(buf)
        out, _ = outcome_of(lambda: setattr(l2, name, v))
        b1 = bytes(buf)
        rec.update(out=out, before=list(b0), after=list(b1))
        rb = rd(lambda: getattr(l2, name))
    elif path.startswith("arg_"):
        which = path[4:]
        f2, l2 = mods["api" if which == "libffi" else which]
        fn = getattr(l2, "id_" + ident)
        if which == "libffi":
            fn = f2.addressof(l2, "id_" + ident)
        buf = f2.buffer(getattr(l2, "addr_last_" + ident)(), f2.sizeof(tname))
        b0 = bytes(buf)
        out, rb = outcome_of(lambda: fn(v))
        b1 = bytes(buf)
        rec.update(out=out, before=list(b0), after=list(b1))
    else:
        # callback / extern "Python" returning v; the C caller stores what it received
        captured = []

        def onerror(exc, val, tb):
            captured.append(exc)
        buf = ffi.buffer(ffi.addressof(lib, "last_" + ident))
        if path == "cb_result":
            cb = ffi.callback("%s(void)" % tname, lambda: v, error=errv, onerror=onerror)
            got = getattr(lib, "callcb_" + ident)(cb)
        else:
            ffi.def_extern(name="ep_" + ident, error=errv, onerror=onerror)(lambda: v)
            got = getattr(lib, "callep_" + ident)()
        b1 = bytes(buf)
        # bytes of the declared error value, as C represents it
        e = ffi.new(tname + " *", errv)
        if not captured:
            out = "ok"
        elif captured[0] is OverflowError:
            out = "overflow"
        else:
            out = "other:" + captured[0].__name__
        rec.update(out=out, before=list(bytes(ffi.buffer(e))), after=list(b1))
        rb = got if out == "ok" else None
    rec["rberr"] = rb is _Raised and rec["out"] == "ok"
    rec["hasrb"] = rec["out"] == "ok" and rb is not None and rb is not _Raised
    rec["rb"] = bv(int(rb)) if rec["hasrb"] else bv(0)
    return rec


def run(ctx):
    quick = ctx.quick
    rng = ctx.rng
    # ---------------------------------------------------------------- design level
    r = core.tlc("IntConv", "MC_IntConv")
    ctx.add_tlc("MC_IntConv(LL=5,sizes 2/3/5,all v)", r)
    r = core.tlc("MC_BV", workers=8)
    ctx.add_tlc("MC_BV", r)
    cfgtxt = open(os.path.join(core.SPECS, "MC_IntConv.cfg")).read()
    for variant, inv in (("bool2", "StoreRefines"),):
        r = core.tlc("IntConv", cfg_text=cfgtxt.replace('"fixed"', '"%s"' % variant), workers=4)
        ctx.add_tlc("sanity:" + variant, r, require_ok=False, count_states=False)
        if inv not in r.out or "is violated" not in r.out:
            raise core.MachineryError("broken variant %s not rejected" % variant)
    # unbounded side check (SMT): the same laws at the true widths for ALL integers v
    ok, out, wall = core.apalache("APA_IntConv", "Laws")
    if not ok:
        raise core.MachineryError("Apalache refutes the store laws at true widths:\n" + out[-2000:])
    ctx.cov["apalache"] = [{"module": "APA_IntConv", "inv": "Laws", "outcome": "NoError", "wall_s": round(wall, 1),
                            "scope": "w in {8,16,32,64}, long long = 64 bits, v in Int (unbounded)"}]
    if not quick:
        ok, out, wall = core.apalache("APA_IntConv", "WrongLaw")
        if ok:
            raise core.MachineryError("Apalache accepted a deliberately wrong bound")
        ctx.cov["apalache"].append({"module": "APA_IntConv", "inv": "WrongLaw", "outcome": "refuted (expected)"})
    # ---------------------------------------------------------------- binding
    mods = build_modules(ctx.tmp)
    facts = gcc_type_facts(ctx.tmp)
    records, metas = [], []
    for tname, ident in INT_TYPES:
        w, kind = facts[ident]
        ffi = mods["api"][0]
        if ffi.sizeof(tname) * 8 != w:
            # C06's business; here we only need the record to carry the compiler's width
            pass
        for path in PATHS:
            vals = boundary_values(rng, w, extra_random=1 if quick else 6)
            if quick:
                core_vals = [x for x in vals if abs(abs(x) - (1 << (w - 1))) <= 2 or abs(abs(x) - (1 << w)) <= 2 or abs(x) <= 2]
                alias = [x + s * (1 << k) for k in (w, 32, 64) for x in (0, 1) for s in (1, -1)]
                vals = sorted(set(rng.sample(core_vals, min(len(core_vals), 9)) + rng.sample(vals, 3)
                                  + rng.sample(alias, 5)))
            for v in vals:
                if kind == "bool":
                    errv = rng.choice([0, 1])
                elif ident in ("eu", "es", "el"):
                    errv = 5 if ident == "es" else 0
                else:
                    errv = rng.choice([0, 1, 42 % (1 << (w - 1))])
                rec = do_store(mods, path, tname, ident, v, rng, errv)
                rec.update(op="store", id=len(records), w=w, kind=kind, v=bv(v))
                records.append(rec)
                metas.append({"type": tname, "path": path, "v": v, "out": rec["out"]})
                ctx.case((ident, path, v))
    for i in (0, len(records) // 2, len(records) - 1):
        ctx.sample({"meta": metas[i], "record": {k: records[i][k] for k in ("w", "kind", "out", "before", "after")}})
    bad = validate_records(ctx, records)
    # neighbours unchanged is part of "leaves the target memory unchanged"/writes only the target
    for i, rec in enumerate(records):
        if rec["around0"] != rec["around1"] and i not in bad:
            bad[i] = "neighbours-changed"
    for i, clause in sorted(bad.items()):
        m = metas[i]
        ctx.violation("store:%s:%s:%s" % (m["type"], m["path"], clause),
                      "store of %d into %s via %s: clause %s failed (outcome %s)" % (m["v"], m["type"], m["path"], clause, m["out"]),
                      {"meta": m, "record": records[i]})
    ctx.cov["rule"] = ("one record per (integer type, store path, value); values: all boundaries +-2 of the type's own "
                       "width, other powers of two, random up to 70 bits; distinct = distinct triples")
    ctx.assumptions += ["type widths/signedness taken from gcc", "little-endian two's complement (x86-64)",
                        "Trace_IntConv's BV operators are verified against native integers by MC_BV"]


def replay(ctx, obj):
    rec = obj["replay"]["record"]
    rec["id"] = 0
    bad = validate_records(ctx, [rec])
    ctx.cov["states"] = ctx.cov["transitions"] = 1
    if bad:
        ctx.violation(obj["key"], obj["what"], obj["replay"])
    print("replayed recorded store: %s" % (bad or "accepted"))


def selftest(ctx):
    mods = build_modules(ctx.tmp)
    rec = do_store(mods, "item", "short", "sh", 1234, ctx.rng, 0)
    rec.update(op="store", id=0, w=16, kind="signed", v=bv(1234))
    ok1 = not validate_records(ctx, [rec])
    rec["after"][0] ^= 1
    ok2 = bool(validate_records(ctx, [rec]))
    return ok1 and ok2


META = {
    "category": "model_checking",
    "text": "TLC compares, for every value, the ideal store with the transcribed algorithms of every store path over a "
            "parametric word size (exhaustive), and validates records of real stores (all integer types x 12 store "
            "paths x boundary and 70-bit values) against the ideal at the true width using a bit-sequence integer "
            "library that is itself model-checked against native integers.",
    "note": "Trusted: TLC, gcc for type widths, x86-64 little-endian representation. The design-level equivalence is "
            "exhaustive only for the small word size; at 64 bits the same ideal is evaluated on sampled values.",
    "technique": "TLA+ ideal vs transcribed algorithm (TLC exhaustive, small word) + TLC validation of real store records",
    "design_ref": "DESIGN.md §3 C03",
}
