"""C35 -- pkg-config output is translated to build keywords without loss.

Design level : specs/PkgConfig.tla: ideal (tokenise at white space, classify by prefix, order-preserving
               partition into the six keywords, -DX=V split at the first '=', per-key concatenation over the
               package list, any failing call => PkgConfigError) and the implementation model (the six list
               comprehensions, kwargs(), the merge_flags loop) compared by TLC on every token sequence of
               the bound over an alphabet of tricky tokens (-I alone, -DX=, -DX=a=b, cross tokens, ...) in
               three white-space styles, and on every package list of length <= 2 with every failure
               placement; four broken translators must be rejected.
Binding      : spec -> code: the universe written by TLC (with the model's prediction) is replayed on the
               real flags_from_pkgconfig against a stub pkg-config placed first on PATH;
               code -> spec: random outputs (long token sequences, unicode, odd white space, failing /
               undecodable / missing pkg-config, random package lists) are run the same way and TLC
               (Trace_PkgConfig.tla) gives the verdict from the ideal.
Level        : exploration (the specification is an oracle; the decision is by replay).
"""
import json, os, subprocess, sys, threading
from concurrent.futures import ThreadPoolExecutor
from harness import core
from harness.gen_tlc import light, tlc_light

LEVEL = "exploration"

MC_CFG = """SPECIFICATION Spec
CONSTANTS Variant = "%s"
  MaxToks = %d
  Mode = "%s"
  MergeFull = %s
%s
CHECK_DEADLOCK FALSE
"""
INVS = "INVARIANT AllClauses"


def mc_cfg(mode, maxtoks, variant="faithful", full=False):
    return MC_CFG % (variant, maxtoks, mode, "TRUE" if full else "FALSE", "" if mode == "dump" else INVS)


STUB_C = r"""
#include <stdio.h>
#include <stdlib.h>
#include <unistd.h>
#include <string.h>
#include <signal.h>
/* pkg-config --print-errors FLAG LIBNAME : prints <dir>/<LIBNAME>.<FLAG>.out, exits with .status */
int main(int argc, char **argv) {
    const char *d = getenv("PKGSTUB_DIR");
    char path[4096]; FILE *f; int st = 0, c;
    if (argc != 4 || !d || strcmp(argv[1], "--print-errors")) { fprintf(stderr, "stub: bad call\n"); return 99; }
    snprintf(path, sizeof path, "%s/%s.%s.status", d, argv[3], argv[2]);
    if ((f = fopen(path, "r"))) { if (fscanf(f, "%d", &st) != 1) st = 98; fclose(f); }
    snprintf(path, sizeof path, "%s/%s.%s.out", d, argv[3], argv[2]);
    if (!(f = fopen(path, "rb"))) { fprintf(stderr, "Package %s was not found in the stub\n", argv[3]); return 97; }
    while ((c = fgetc(f)) != EOF) putchar(c);
    fclose(f);
    if (st < 0) { fflush(stdout); raise(-st); pause(); }      /* terminated by a signal after a partial output */
    if (st) { fputs("stub: simulated failure \xff\xfe\n", stderr); }
    return st;
}
"""

KEYS = ["include_dirs", "library_dirs", "libraries", "define_macros", "extra_compile_args", "extra_link_args"]


def codes(s):
    return [ord(c) for c in s]


class Stub:
    def __init__(self, ctx):
        self.dir = os.path.join(ctx.tmp, "stubbin")
        self.data = os.path.join(ctx.tmp, "stubdata")
        os.makedirs(self.dir); os.makedirs(self.data)
        src = os.path.join(self.dir, "stub.c")
        with open(src, "w") as f:
            f.write(STUB_C)
        r = subprocess.run(["gcc", "-O1", "-w", src, "-o", os.path.join(self.dir, "pkg-config")],
                           capture_output=True, text=True)
        if r.returncode != 0:
            raise core.MachineryError("cannot build the pkg-config stub: " + r.stderr[-1000:])
        self.oldpath = os.environ.get("PATH", "")
        os.environ["PATH"] = self.dir + os.pathsep + self.oldpath
        os.environ["PKGSTUB_DIR"] = self.data
        self.n = 0
        self.lock = threading.Lock()

    def close(self):
        os.environ["PATH"] = self.oldpath

    def run(self, pkgs):
        """pkgs: list of {cf: str|bytes, lb: str|bytes, fail: none|cflags|libs, how: status|undecodable}
        -> (err, res, names)"""
        import cffi.pkgconfig as pc
        from cffi.error import PkgConfigError
        with self.lock:
            self.n += 1
            cid = self.n
        names = []
        for i, p in enumerate(pkgs):
            nm = "c%d_p%d%s" % (cid, i, p.get("suffix", ""))
            names.append(nm)
            for flag, key in (("--cflags", "cf"), ("--libs", "lb")):
                data = p[key] if isinstance(p[key], bytes) else p[key].encode("utf-8")
                failing = p["fail"] == ("cflags" if key == "cf" else "libs")
                if failing and p.get("how") == "undecodable":
                    data = b"-I/x \xff\xfe\xfa " + data
                with open(os.path.join(self.data, "%s.%s.out" % (nm, flag)), "wb") as f:
                    f.write(data)
                if failing and p.get("how", "status") == "status":
                    with open(os.path.join(self.data, "%s.%s.status" % (nm, flag)), "w") as f:
                        f.write(str(p.get("status", 1)))
                if failing and p.get("how") == "signal":
                    with open(os.path.join(self.data, "%s.%s.status" % (nm, flag)), "w") as f:
                        f.write(str(-p.get("signal", 9)))
        try:
            res = pc.flags_from_pkgconfig(list(names))
            err = False
        except PkgConfigError:
            res, err = {}, True
        return err, res, names


def res_to_json(res):
    out = {}
    for k in KEYS:
        v = res.get(k, [])
        if k == "define_macros":
            out[k] = [{"name": codes(n), "has": val is not None, "val": codes(val or "")} for n, val in v]
        else:
            out[k] = [codes(x) for x in v]
    return out


def spec_res_to_py(res):
    """TLC's JSON of a result -> the python dict flags_from_pkgconfig returns"""
    s = lambda cs: "".join(chr(c) for c in cs)
    out = {}
    for k in KEYS:
        v = res.get(k, [])
        if k == "define_macros":
            out[k] = [(s(m["name"]), s(m["val"]) if m["has"] else None) for m in v]
        else:
            out[k] = [s(x) for x in v]
    return out


TOKENS = ["-I/usr/include/foo", "-I/opt/é中/inc", "-I", "-Irel/dir", "-DNDEBUG", "-DVER=1.2", "-DX=a=b", "-DX=", "-D",
          "-D=x", "-L/usr/lib", "-L", "-lfoo", "-lm", "-l", "-pthread", "-Wl,-rpath,/x", "-framework", "Cocoa",
          "--coverage", "-", "--", "-i", "-Ifoo=bar", "x=y", "-O2", "-std=c99", "-isystem", "/sys", "-include", "cfg.h",
          "-DA=\"q\"", "-I/a/b-c_d", "-lstdc++", "-Lλ", "-d", "-Dé=中", "-l:libx.a", "-Xlinker", "-z,now"]
CFLAG_TOKENS = [t for t in TOKENS if not (t.startswith("-L") or t.startswith("-l"))]
LIB_TOKENS = [t for t in TOKENS if not (t.startswith("-I") or t.startswith("-D"))]


def rand_output(rng, toks, cross):
    n = rng.choice([0, 1, 2, 3, 5, 8, 20])
    pool = TOKENS if cross else toks
    ts = [rng.choice(pool) for _ in range(n)]
    style = rng.random()
    if style < 0.5:
        s = " ".join(ts)
    elif style < 0.75:
        s = "  \t" + " \t ".join(ts) + " \n"
    else:
        s = "\n".join(ts) + "\n"
    return s


def rand_pkgs(rng):
    n = rng.choice([0, 1, 1, 1, 2, 2, 3, 4])
    cross = rng.random() < 0.15
    pk = []
    for i in range(n):
        f = rng.random()
        fail = "none" if f < 0.85 else ("cflags" if f < 0.92 else "libs")
        pk.append({"cf": rand_output(rng, CFLAG_TOKENS, cross), "lb": rand_output(rng, LIB_TOKENS, cross), "fail": fail,
                   "how": rng.choice(["status", "signal", "signal", "undecodable"]) if fail != "none" else "status",
                   "status": rng.choice([1, 2, 127, 255]), "signal": rng.choice([9, 11, 15]),
                   "suffix": rng.choice(["", "", " >= 1.8.3", "-2.0"])})
    return pk


def record(pkgs, err, res):
    return {"pkgs": [{"cf": codes(p["cf"]), "lb": codes(p["lb"]), "fail": p["fail"],
                      "how": p.get("how", "status") if p["fail"] != "none" else "status"} for p in pkgs],
            "err": err, "res": res_to_json(res)}


def validate(ctx, recs):
    bad, div = [], []
    for lo in range(0, len(recs), 3000):
        chunk = recs[lo:lo + 3000]
        tp = core.write_json(os.path.join(ctx.tmp, "pk_%d.json" % len(ctx.cov["tlc_runs"])), chunk)
        r = core.tlc("Trace_PkgConfig", workers=1, env=(light({"TRACE_FILE": tp}) if len(chunk) < 600 else {"TRACE_FILE": tp}), timeout=3000)
        ctx.add_tlc("Trace_PkgConfig", r, count_states=False)
        chk = core.tla_tuples(r.out, "CHECKED")
        if len(chk) != 1 or int(chk[0][0]) != len(chunk):
            raise core.MachineryError("Trace_PkgConfig did not check all records:\n" + r.out[-2000:])
        bad += [(lo + int(k) - 1, core.unq(v)) for k, v in core.tla_tuples(r.out, "VERDICT")]
        div += [lo + int(t[0]) - 1 for t in core.tla_tuples(r.out, "DIVERGE")]
    return bad, div


CLAUSE = {"error-expected": "a pkg-config call failed (non-zero exit status / killed by a signal / undecodable output / "
                            "not runnable) but no PkgConfigError was raised",
          "spurious-error": "PkgConfigError although every pkg-config call succeeded",
          "lost-or-duplicated": "a token of the output was lost or appears more than once in the returned keywords",
          "wrong-keyword-or-order": "a token landed in the wrong keyword, was converted wrongly or the order changed"}


def run(ctx):
    quick = ctx.quick
    pool = ThreadPoolExecutor(8)
    dump = os.path.join(ctx.tmp, "pkg_universe.json")
    futs = [("MC_PkgConfig(stream,<=%d tokens)" % (2 if quick else 3), "mc",
             pool.submit(core.tlc, "MC_PkgConfig", cfg_text=mc_cfg("stream", 2 if quick else 3), workers=4, timeout=3000)),
            ("MC_PkgConfig(merge%s)" % (",2 tokens" if quick else ",4 tokens"), "mc",
             pool.submit(core.tlc, "MC_PkgConfig", cfg_text=mc_cfg("merge", 1, full=not quick),
                                                      workers=4 if quick else 8, timeout=3000)),
            ("oracle dump", "dump", pool.submit(core.tlc, "MC_PkgConfig", cfg_text=mc_cfg("dump", 1 if quick else 2),
                                                workers=1, env=light({"PKG_OUT": dump}), timeout=3000))]
    for v, mode in (("rsplit", "stream"), ("dupD", "stream"), ("overwrite", "merge"), ("dropempty", "stream"),
                    ("signalok", "merge")):
        futs.append(("sanity:" + v, "sanity", pool.submit(tlc_light, "MC_PkgConfig", cfg_text=mc_cfg(mode, 1, v))))
    stub = Stub(ctx)
    try:
        rng = ctx.rng
        # ---------------------------------------------------------------- code -> spec
        cases = [rand_pkgs(rng) for _ in range(300 if quick else 6000)]
        outs = list(pool.map(stub.run, cases))
        recs, metas = [], []
        for pk, (err, res, names) in zip(cases, outs):
            recs.append(record(pk, err, res))
            metas.append({"kind": "random", "pkgs": pk, "err": err, "res": res})
            ctx.case(("r", json.dumps(recs[-1]["pkgs"])))
        # pkg-config cannot be run at all: every package list of length >= 1 must raise
        import cffi.pkgconfig as pc
        from cffi.error import PkgConfigError
        os.environ["PATH"] = os.path.join(ctx.tmp, "nowhere")
        try:
            try:
                pc.flags_from_pkgconfig(["anything"])
                err = False
            except PkgConfigError:
                err = True
        finally:
            os.environ["PATH"] = stub.dir + os.pathsep + stub.oldpath
        pk = [{"cf": "", "lb": "", "fail": "cflags", "how": "missing"}]
        recs.append(record(pk, err, {}))
        metas.append({"kind": "missing-binary", "pkgs": pk, "err": err, "res": {}})
        ctx.case(("missing",))
        # ---------------------------------------------------------------- spec -> code
        r = [f for n, k, f in futs if k == "dump"][0].result()
        if not os.path.exists(dump):
            raise core.MachineryError("oracle dump failed:\n" + r.out[-2000:])
        with open(dump) as f:
            uni = json.load(f)
        s = lambda cs: "".join(chr(c) for c in cs)
        ucases = [[{"cf": s(p["cf"]), "lb": s(p["lb"]), "fail": p["fail"], "how": p["how"], "signal": 9 + 2 * (len(p["cf"]) % 2)}
                   for p in u["pkgs"]] for u in uni]
        uouts = list(pool.map(stub.run, ucases))
        div = []
        for u, pk, (err, res, names) in zip(uni, ucases, uouts):
            want_err = u["want"]["err"]
            want = spec_res_to_py(u["want"]["res"]) if not want_err else {}
            got = {k: list(res.get(k, [])) for k in KEYS} if not err else {}
            if not pk and not err:
                got = {k: [] for k in KEYS}
            ctx.case(("u", json.dumps(u["pkgs"])))
            if err != want_err or got != want:
                div.append("pkgs %r: real (%s, %r), model (%s, %r)" % (pk, err, got, want_err, want))
            recs.append(record(pk, err, res))
            metas.append({"kind": "tlc-universe", "pkgs": pk, "err": err, "res": res})
        ctx.cov["universe_replayed"] = len(uni)
    finally:
        stub.close()
    bad, div2 = validate(ctx, recs)
    for k, v in bad:
        m = metas[k]
        hows = sorted({p.get("how", "status") for p in m["pkgs"] if p["fail"] != "none"})
        ctx.violation("pkgconfig:%s:%s%s" % (v, m["kind"], (":" + "+".join(hows)) if v == "error-expected" else ""), CLAUSE.get(v, v) + ": outputs %r -> %s" % (
            [(p["cf"], p["lb"], p["fail"], p.get("how") if p["fail"] != "none" else "") for p in m["pkgs"]], "PkgConfigError" if m["err"] else m["res"]),
                      {"pkgs": [{k2: (v2.decode("latin-1") if isinstance(v2, bytes) else v2) for k2, v2 in p.items()}
                                for p in m["pkgs"]]})
    ctx.validated(len(recs))
    for i in div2[:5]:
        div.append("record %d (%s) differs from the implementation model" % (i, metas[i]["kind"]))
    for name, kind, f in futs:
        r = f.result()
        if kind == "mc":
            ctx.add_tlc(name, r)
        elif kind == "dump":
            ctx.add_tlc(name, r, count_states=False)
        else:
            ctx.add_tlc(name, r, require_ok=False, count_states=False)
            if r.ok or not r.invariant_violated:
                raise core.MachineryError("broken variant %s was not rejected by TLC" % name)
    pool.shutdown()
    ctx.cov["model_divergence_count"] = len(div) + max(0, len(div2) - 5)
    ctx.cov["model_divergences"] = div[:10]
    if div:
        print("NOTE C35: %d outcomes differ from the implementation model (first: %s); verdicts come from the ideal"
              % (len(div), div[0]))
    for m in metas[:3]:
        ctx.sample({"kind": m["kind"], "pkgs": m["pkgs"], "raised": m["err"], "result": m["res"]})
    ctx.cov["exhaustive"] = True
    ctx.cov["rule"] = "distinct = distinct package-output lists run against the stub; empty lists counted once"
    ctx.assumptions += ["white space = ASCII white space; outputs with non-ASCII white space (U+00A0, U+3000: Python's "
                        "str.split() splits there, pkg-config does not) and with backslashes (cffi raises "
                        "PkgConfigError) are outside the checked domain",
                        "cross tokens (-L/-l in --cflags, -I/-D in --libs): only conservation is demanded",
                        "the stub is found through PATH exactly as a real pkg-config would be"]


def selftest(ctx):
    stub = Stub(ctx)
    try:
        pk = [{"cf": "-I/a -DX=1=2 -pthread", "lb": "-L/b -lfoo -Wl,x", "fail": "none"}]
        err, res, _ = stub.run(pk)
    finally:
        stub.close()
    good = record(pk, err, res)
    bad1 = json.loads(json.dumps(good)); bad1["res"]["define_macros"][0]["val"] = codes("2")
    bad2 = json.loads(json.dumps(good)); bad2["res"]["extra_link_args"] = []
    bad3 = json.loads(json.dumps(good)); bad3["err"] = True
    bad, _ = validate(ctx, [good, bad1, bad2, bad3])
    ctx.cov["states"] = 1
    return sorted(k for k, _ in bad) == [1, 2, 3]


def replay(ctx, obj):
    stub = Stub(ctx)
    try:
        pk = obj["replay"]["pkgs"]
        err, res, _ = stub.run(pk)
    finally:
        stub.close()
    ctx.cov["states"] = 1
    bad, _ = validate(ctx, [record(pk, err, res)])
    print("re-executed: %s -> %s" % ("PkgConfigError" if err else res, "rejected by the ideal" if bad else "accepted"))
    if bad:
        ctx.violation(obj["key"], obj["what"], obj["replay"])


META = {
    "category": "exploration",
    "text": "TLC compares the transcribed translation (six list comprehensions, kwargs, merge_flags loop) with the ideal "
            "(white-space tokenisation, prefix classification, order-preserving partition, first-'=' macro split, per-key "
            "concatenation, failure => PkgConfigError) on every token sequence of the bound and every package list of "
            "length <= 2 with every failure placement; the TLC universe and random outputs (unicode, odd white space, "
            "failing / undecodable / missing pkg-config) are run through the real flags_from_pkgconfig against a stub on "
            "PATH and TLC gives the verdicts from the ideal.",
    "note": "The specification mostly supplies the oracle; the decision is by replay. Outputs with backslashes or "
            "non-ASCII white space are outside the checked domain.",
    "technique": "TLA+ oracle (TLC) + stub-driven replay + TLC trace validation",
    "design_ref": "DESIGN.md §3 C35",
}
