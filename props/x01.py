"""X01 (extra coverage, not a listed property) -- redeclaration rules of the declaration environment.

Design level : specs/Redecl.tla transcribes Parser._declare / _add_constants / _add_integer_constant /
               _process_macros / the abort-at-first-failure loop of cdef() with explicit object identity;
               MC_Redecl.tla explores every history of the bound and checks the laws IntsImmutable,
               BindImmutable, MacroConsistent, OkMeansDeclared; three broken variants must be rejected; the
               two ideal expectations the code does not meet (NoEqualRejected, FailureAtomicItem) must be
               violated by the faithful model and satisfied by the corrected variants (documented deviations).
Binding      : spec -> code: every maximal history TLC enumerates (with the model's predicted outcome and
               tables) is replayed as real ffi.cdef() calls; code -> spec: those and random longer histories
               (2 names per kind, 1-3 items per call, integer values at the small-int cache boundary) are
               recorded from the real parser and validated by TLC (Trace_Redecl.tla): laws on the recorded
               states -> VIOLATION (reported as property X01, not in MANIFEST), disagreement with the
               implementation model -> NOTE.
"""
import json, os, warnings
from harness import core
from harness.gen_tlc import light

LEVEL = "model_checking"
META = {"extra": True, "title": "redeclaration rules of the cdef() environment (extra coverage)"}

CFG_INC = """SPECIFICATION Spec
CONSTANTS Variant = "%s"
 MaxSteps = %d
 Emit = %s
%s
CHECK_DEADLOCK FALSE
"""
LAWS_INC = ["IntsImmutable", "BindImmutable", "MacroConsistent", "OkMeansDeclared", "IncNeverOverrides", "IncShares",
            "IncIdempotent", "FreshDisjoint"]


def cfg_inc(variant="faithful", steps=4, emit=False, invs=LAWS_INC):
    return CFG_INC % (variant, steps, "TRUE" if emit else "FALSE",
                      "\n".join("INVARIANT " + i for i in invs) + ("\nCONSTRAINT EmitHist" if emit else ""))


CFG = """SPECIFICATION Spec
CONSTANTS Variant = "%s"
 TNames = {"t1"}
 GNames = {"g1"}
 MNames = {"M1"}
 MaxCalls = %d
 MaxItems = %d
 Emit = %s
%s
CONSTRAINT Bound
CHECK_DEADLOCK FALSE
"""
LAWS = ["IntsImmutable", "BindImmutable", "MacroConsistent", "OkMeansDeclared", "NextGrows"]


def cfg(variant="faithful", calls=3, items=1, emit=False, invs=LAWS):
    return CFG % (variant, calls, items, "TRUE" if emit else "FALSE",
                  "\n".join("INVARIANT " + i for i in invs) + ("\nCONSTRAINT EmitHist" if emit else ""))


# ------------------------------------------------------------------ rendering and projection
def render_item(it):
    k = it[0]
    if k == "typedef":
        return {"int": "typedef int %s;", "long": "typedef long %s;", "int *": "typedef int *%s;",
                "int[3]": "typedef int %s[3];"}[it[2]] % it[1]
    if k == "var":
        if it[2] == "int":
            return "extern %sint %s;" % ("const " if it[3] else "", it[1])
        return "extern int *%s%s;" % ("const " if it[3] else "", it[1])
    if k == "func":
        return {"int(*)(int)": "int %s(int);", "long(*)(void)": "long %s(void);"}[it[2]] % it[1]
    if k == "macroint":
        return "#define %s %d" % (it[1], it[2])
    if k == "macrodots":
        return "#define %s ..." % it[1]
    if k == "sconst":
        return "static const int %s = %d;" % (it[1], it[2])
    raise ValueError(it)


def project(ffi):
    decl = []
    for key, (obj, quals) in ffi._parser._declarations.items():
        desc = str(obj) if isinstance(obj, (int, str)) else obj.get_c_name()
        decl.append([key, desc, quals])
    return sorted(decl), sorted([k, v] for k, v in ffi._parser._int_constants.items())


def classify(e):
    import cffi
    msg = str(e)
    if isinstance(e, cffi.FFIError) and not isinstance(e, cffi.CDefError):
        if msg.startswith("multiple declarations of constant:"):
            return "const"
        if msg.startswith("multiple declarations of "):
            return "decl"
    return "other:%s:%s" % (type(e).__name__, msg[:60])


def run_history(calls):
    """calls: [(items, override)] or [(op, items, override)] with op in a / b / inc -> recorded trace"""
    import cffi
    ffis = {"a": cffi.FFI(), "b": cffi.FFI()}
    tr = []
    for c in calls:
        op, items, ov = c if len(c) == 3 else ("b",) + tuple(c)
        ffi = ffis["a" if op == "a" else "b"]
        try:
            with warnings.catch_warnings():
                warnings.simplefilter("ignore")
                if op == "inc":
                    ffi.include(ffis["a"])
                else:
                    ffi.cdef("\n".join(render_item(it) for it in items) + "\n", override=ov)
            err = ""
        except Exception as e:
            err = classify(e)
        d, i = project(ffi)
        tr.append({"op": op, "items": [list(it) for it in items], "override": ov, "err": err, "decl": d, "ints": i})
    return tr


def random_inc_history(rng):
    """histories over two FFIs: cdef() on either, b.include(a) at any time (also twice)"""
    h = []
    for items, ov in random_history(rng):
        r = rng.random()
        if r < 0.25:
            h.append(("inc", [], False))
        h.append(("a" if rng.random() < 0.4 else "b", items, ov and r >= 0.25))
    if rng.random() < 0.5:
        h.append(("inc", [], False))
    return h


def random_history(rng):
    T, G, M = ["t1", "t2"], ["g1", "g2"], ["M1", "M2"]
    vals = [1, 2, 1000, 256, 257, -5, -6, 0]

    def item():
        k = rng.choice(["typedef", "var", "func", "macroint", "macroint", "macrodots", "sconst"])
        if k == "typedef":
            return ("typedef", rng.choice(T), rng.choice(["int", "long", "int *", "int[3]"]))
        if k == "var":
            return ("var", rng.choice(G), rng.choice(["int", "int *"]), rng.random() < 0.5)
        if k == "func":
            return ("func", rng.choice(G), rng.choice(["int(*)(int)", "long(*)(void)"]))
        if k in ("macroint", "sconst"):
            return (k, rng.choice(M), rng.choice(vals))
        return ("macrodots", rng.choice(M))
    return [([item() for _ in range(rng.randint(1, 3))], rng.random() < 0.25) for _ in range(rng.randint(2, 10))]


def validate(ctx, traces, name):
    """TLC verdicts for recorded traces; returns (#law failures, #divergences)"""
    bad = div = 0
    CH = 4000
    for off in range(0, len(traces), CH):
        chunk = traces[off:off + CH]
        out = core.tlc_verdicts(ctx, "Trace_Redecl", chunk, head="VERDICT", name="%s_%d" % (name, off),
                                extra_env=light())
        r = ctx.cov["tlc_runs"][-1]
        # tlc_verdicts only returns one head: re-read all heads from a second parse of the same output
        for v in out:
            t, step, law = int(v[0]), int(v[1]), core.unq(v[2])
            bad += 1
            ctx.violation("law:%s" % law, "trace %d step %d breaks %s" % (off + t, step, law),
                          replay={"trace": chunk[t - 1]})
        for v in _LAST.get("DIVERGE", []):
            div += 1
            t, step, what = int(v[0]), int(v[1]), core.unq(v[2])
            if div <= 5:
                print("NOTE: X01 model divergence (%s) at step %d of %s" % (what, step, json.dumps(chunk[t - 1])[:300]))
        chk = _LAST.get("CHECKED", [])
        if not chk or int(chk[0][0]) != len(chunk):
            raise core.MachineryError("Trace_Redecl did not check every trace of the chunk")
        ctx.validated(len(chunk))
    return bad, div


_LAST = {}
_orig_tuples = core.tla_tuples


def _tuples_all(out, head):
    for h in ("DIVERGE", "CHECKED"):
        _LAST[h] = _orig_tuples(out, h)
    return _orig_tuples(out, head)


def design(ctx):
    from concurrent.futures import ThreadPoolExecutor
    calls = 3 if ctx.quick else 4
    jobs = {"faithful_single": dict(cfg_text=cfg(calls=calls), workers=4, coverage=True),
            "faithful_pairs": dict(cfg_text=cfg(calls=2, items=2), workers=4)}
    # documented deviations: the faithful model must violate them, the corrected variant must satisfy them
    DEV = (("NoEqualRejected", "equality"), ("FailureAtomicItem", "declfirst"))
    for inv, fixed in DEV:
        jobs["deviation_" + inv] = dict(cfg_text=cfg(calls=2, invs=[inv]), workers=2)
        jobs["corrected_" + fixed] = dict(cfg_text=cfg(variant=fixed, calls=3, invs=LAWS + [inv]), workers=4)
    # broken variants must be rejected by the laws (non-vacuity)
    BROKEN = ("override-consts", "override-sticky")
    for variant in BROKEN:
        jobs["broken_" + variant] = dict(cfg_text=cfg(variant=variant, calls=2), workers=2)
    inc = {"include_faithful": dict(cfg_text=cfg_inc(steps=4 if ctx.quick else 5), workers=4, coverage=True)}
    BROKEN_INC = ("include-copies", "include-overrides")
    for variant in BROKEN_INC:
        inc["broken_" + variant] = dict(cfg_text=cfg_inc(variant=variant, steps=3), workers=2)
    with ThreadPoolExecutor(10) as ex:
        futs = {n: ex.submit(core.tlc, "MC_Redecl", env=light(), **kw) for n, kw in jobs.items()}
        futs.update({n: ex.submit(core.tlc, "MC_RedeclInc", env=light(), **kw) for n, kw in inc.items()})
        res = {n: f.result() for n, f in futs.items()}
    ctx.add_tlc("include_faithful", res["include_faithful"])
    for variant in BROKEN_INC:
        ctx.add_tlc("broken_" + variant, res["broken_" + variant], require_ok=False, count_states=False)
        if not res["broken_" + variant].invariant_violated:
            raise core.MachineryError("broken variant %s was accepted by the include laws" % variant)
    for n in ("faithful_single", "faithful_pairs"):
        ctx.add_tlc(n, res[n])
    ctx.cov["exhaustive"] = True
    for inv, fixed in DEV:
        ctx.add_tlc("deviation_" + inv, res["deviation_" + inv], require_ok=False, count_states=False)
        if inv not in res["deviation_" + inv].invariant_violated:
            raise core.MachineryError("the faithful model no longer shows deviation %s" % inv)
        ctx.add_tlc("corrected_" + fixed, res["corrected_" + fixed], count_states=False)
    for variant in BROKEN:
        ctx.add_tlc("broken_" + variant, res["broken_" + variant], require_ok=False, count_states=False)
        if not res["broken_" + variant].invariant_violated:
            raise core.MachineryError("broken variant %s was accepted by the laws" % variant)


def spec_histories(ctx):
    """maximal histories of both machines, each step normalised to (op, items, override, err, decl, ints)"""
    from harness import tlaval
    calls = 2 if ctx.quick else 3
    r1 = core.tlc("MC_Redecl", cfg_text=cfg(calls=calls, emit=True, invs=[]), workers=1, env=light(), timeout=1800)
    ctx.add_tlc("emit", r1, count_states=False)
    r2 = core.tlc("MC_RedeclInc", cfg_text=cfg_inc(steps=3, emit=True, invs=[]), workers=1,
                  env=light(), timeout=1800)
    ctx.add_tlc("emit_include", r2, count_states=False)
    hs = []
    for t in _orig_tuples(r1.out, "HIST"):
        hs.append([("b",) + tuple(st) for st in tlaval.parse_value(t[0])])
    n1 = len(hs)
    for t in _orig_tuples(r2.out, "HIST"):
        hs.append([tuple(st) for st in tlaval.parse_value(t[0])])
    if not n1 or len(hs) == n1:
        raise core.MachineryError("TLC emitted no history")
    return hs


def conv_item(it):
    return tuple(it)


def run(ctx):
    core.tla_tuples = _tuples_all
    try:
        design(ctx)
        hs = spec_histories(ctx)
        traces, mismatch = [], 0
        for h in hs:
            calls = [(st[0], [conv_item(it) for it in st[1]], st[2]) for st in h]
            tr = run_history(calls)
            ctx.case(distinct_key=json.dumps(tr[-1]["decl"]) + json.dumps(tr[-1]["ints"]))
            for st, rec in zip(h, tr):
                pred_decl = sorted([list(x) for x in st[4]])
                pred_ints = sorted([list(x) for x in st[5]])
                if st[3] != rec["err"] or pred_decl != rec["decl"] or pred_ints != rec["ints"]:
                    mismatch += 1
                    if mismatch <= 5:
                        print("NOTE: X01 replayed model history differs from the code: predicted %r got %r"
                              % ((st[3], pred_decl, pred_ints), (rec["err"], rec["decl"], rec["ints"])))
                    break
            traces.append(tr)
        ctx.sample({"kind": "model-history", "trace": traces[len(traces) // 2]})
        n = 1500 if ctx.quick else 20000
        rnd = []
        for j in range(n):
            tr = run_history(random_inc_history(ctx.rng) if j % 2 else random_history(ctx.rng))
            ctx.case(distinct_key=json.dumps(tr[-1]["decl"]) + json.dumps(tr[-1]["ints"]))
            rnd.append(tr)
        ctx.sample({"kind": "random", "trace": rnd[0]})
        bad1, div1 = validate(ctx, traces, "replayed")
        bad2, div2 = validate(ctx, rnd, "random")
        ctx.cov["model_divergences"] = {"replayed": div1 + mismatch, "random": div2}
        ctx.cov["rule"] = ("every model history of the bound replayed; laws evaluated by TLC on every recorded state; "
                           "deviations NoEqualRejected/FailureAtomicItem documented, not judged")
        ctx.assumptions.append("object identity of model types / ints is observed only through later outcomes")
    finally:
        core.tla_tuples = _orig_tuples
        core.EVIDENCE = os.path.join(core.EVIDENCE, "extra")


def replay(ctx, obj):
    core.tla_tuples = _tuples_all
    tr = obj["replay"]["trace"]
    calls = [(st.get("op", "b"), [tuple(it) for it in st["items"]], st["override"]) for st in tr]
    validate(ctx, [run_history(calls)], "replay")
    core.tla_tuples = _orig_tuples


def selftest(ctx):
    """corrupt one recorded field: the laws must reject the trace"""
    core.tla_tuples = _tuples_all
    tr = run_history([([("macroint", "M1", 1)], False), ([("typedef", "t1", "int")], False)])
    ok0 = validate(ctx, [tr], "self_ok")[0] == 0
    tr[1]["ints"] = [["M1", 2]]
    bad = validate(ctx, [tr], "self_bad")[0]
    core.tla_tuples = _orig_tuples
    ctx.violations.clear()
    return ok0 and bad == 1
