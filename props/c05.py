"""C05 — floating-point and complex stores round-trip with C conversion semantics.

Design level : specs/Float.tla — IEEE-754 narrowing on bit patterns (round to nearest even,
               overflow to infinity, gradual underflow, infinities, NaN), checked by TLC
               against the mathematical definition "nearest representable value, ties to
               even" for EVERY pattern of two toy format pairs (MC_Float); rounding variants
               "trunc" and "halfup" must be rejected.
Binding      : random 64-bit patterns and edge values (zeros, subnormals, values straddling
               float rounding boundaries and the overflow threshold, infinities, NaNs) are
               stored/cast through every path (new, item, field, cast, API argument, libffi
               argument, callback result, complex parts); the resulting 4/8 bytes are recorded.
               gcc's own (float)d conversions (called through ctypes, independent of cffi) are
               validated against the spec first (disagreement = machinery error); then cffi's.
               long double: the 10 value bytes survive read->store, ffi.new and ffi.cast copies.
This is function transcription — the weakest fit for TLA+ in the list (DESIGN.md §4); TLC
contributes the model-checked definition used as the oracle.
"""
import ctypes, math, os, struct
from harness import core
from harness.intconv import import_path

LEVEL = "model_checking"


def bits_of(b):
    n = int.from_bytes(b, "little")
    return [(n >> i) & 1 for i in range(8 * len(b))]


def dbits(x):
    return bits_of(struct.pack("<d", x))


def sources(rng, n):
    xs = [0.0, -0.0, 1.0, -1.0, math.inf, -math.inf, math.nan, -math.nan, 5e-324, -5e-324, 2.2250738585072014e-308,
          1.7976931348623157e308, 3.4028234663852886e38, 3.4028235677973366e38, 3.402823466385289e38,
          1.401298464324817e-45, 7.006492321624085e-46, 7.006492321624087e-46, 1.1754943508222875e-38,
          1.1754942106924411e-38, 0.1, 1 / 3, 16777217.0, 16777219.0, 1e39, -1e39, 1e-46]
    # values straddling float rounding boundaries: midpoints between adjacent floats, +-1 ulp of double
    for _ in range(n // 3):
        f = struct.unpack("<f", struct.pack("<I", rng.randrange(0x00000001, 0x7f7fffff)))[0]
        f2 = struct.unpack("<f", struct.pack("<I", struct.unpack("<I", struct.pack("<f", f))[0] + 1))[0]
        mid = (f + f2) / 2.0 if math.isfinite(f2) else f
        for m in (mid, math.nextafter(mid, math.inf), math.nextafter(mid, -math.inf)):
            xs.append(m * rng.choice((1.0, -1.0)))
    for _ in range(n // 3):
        xs.append(struct.unpack("<d", struct.pack("<Q", rng.getrandbits(64)))[0])
    for _ in range(n // 3):
        e = rng.choice((-160, -150, -149, -140, -127, -126, -125, 0, 10, 126, 127, 128, 130))
        xs.append(rng.choice((1, -1)) * rng.uniform(1, 2) * 2.0 ** e)
    return xs


class Flt:
    def __init__(self, x):
        self.x = x

    def __float__(self):
        return self.x


def build(ctx):
    import cffi
    csrc = """
    float g_f; double g_d; float last_f; double last_d;
    float id_f(float x) { last_f = x; return x; }
    double id_d(double x) { last_d = x; return x; }
    float callcb_f(float (*cb)(void)) { last_f = cb(); return last_f; }
    double callcb_d(double (*cb)(void)) { last_d = cb(); return last_d; }
    struct sf { char p0; float f; double d; float _Complex fc; double _Complex dc; };
    float narrow_ref(double d) { return (float)d; }
    """
    cdef = """
    extern float g_f; extern double g_d; extern float last_f; extern double last_d;
    float id_f(float x); double id_d(double x);
    float callcb_f(float (*cb)(void)); double callcb_d(double (*cb)(void));
    struct sf { char p0; float f; double d; float _Complex fc; double _Complex dc; };
    """
    ffi = cffi.FFI()
    ffi.cdef(cdef)
    ffi.set_source("_c05_api", csrc)
    cpath = os.path.join(ctx.tmp, "_c05_api.c")
    ffi.emit_c_code(cpath)
    so = core.build_ext_module("_c05_api", cpath, ctx.tmp)
    mod = import_path("_c05_api", so)
    plain = core.gcc_shared(csrc, os.path.join(ctx.tmp, "libc05.so"))
    cl = ctypes.CDLL(plain)
    cl.narrow_ref.restype = ctypes.c_float
    cl.narrow_ref.argtypes = [ctypes.c_double]
    ffi2 = cffi.FFI()
    ffi2.cdef(cdef)
    return mod.ffi, mod.lib, ffi2, ffi2.dlopen(plain), cl


def run(ctx):
    quick = ctx.quick
    rng = ctx.rng
    r = core.tlc("MC_Float", workers=8)
    ctx.add_tlc("MC_Float((4,5)->(3,2), all 1024 patterns)", r)
    r = core.tlc("MC_Float", "MC_Float_b", workers=8)
    ctx.add_tlc("MC_Float((3,5)->(3,2), all 512 patterns)", r)
    cfgtxt = open(os.path.join(core.SPECS, "MC_Float.cfg")).read()
    for v in ("trunc", "halfup"):
        r = core.tlc("MC_Float", cfg_text=cfgtxt.replace('"rne"', '"%s"' % v), workers=4)
        ctx.add_tlc("sanity:" + v, r, require_ok=False, count_states=False)
        if "Invariant Nearest is violated" not in r.out:
            raise core.MachineryError("rounding variant %s not rejected" % v)
    ffi, lib, ffi2, lib2, cl = build(ctx)
    xs = sources(rng, 60 if quick else 3000)
    records, metas = [], []

    def rec_narrow(path, x, fbytes, out="ok", ref="cffi"):
        records.append({"op": "narrow", "id": len(records), "d": dbits(x), "f": bits_of(fbytes) if fbytes else [0] * 32,
                        "out": out, "ref": ref})
        metas.append({"path": path, "x": repr(x), "hex": struct.pack("<d", x).hex(), "ref": ref, "out": out})
        ctx.case((path, struct.pack("<d", x)))

    def rec_same64(path, x, dbytes, out="ok"):
        records.append({"op": "same64", "id": len(records), "a": dbits(x), "b": bits_of(dbytes) if dbytes else [0] * 64,
                        "out": out})
        metas.append({"path": path, "x": repr(x), "ref": "cffi", "out": out})
        ctx.case((path, struct.pack("<d", x)))

    def guarded(fn):
        try:
            return fn(), "ok"
        except Exception as e:
            return None, "other:" + type(e).__name__
    s = ffi.new("struct sf *")
    arr = ffi.new("float[3]")
    darr = ffi.new("double[3]")
    off_f, off_d = ffi.offsetof("struct sf", "f"), ffi.offsetof("struct sf", "d")
    off_fc, off_dc = ffi.offsetof("struct sf", "fc"), ffi.offsetof("struct sf", "dc")
    for x in xs:
        # the compiler's own conversion, independent of cffi
        rec_narrow("gcc", x, struct.pack("<f", cl.narrow_ref(x)), ref="gcc")
        src = rng.choice((x, Flt(x)))
        # float paths
        b, o = guarded(lambda: bytes(ffi.buffer(ffi.new("float *", src))))
        rec_narrow("new", x, b, o)

        def st_item():
            arr[1] = src
            return bytes(ffi.buffer(arr))[4:8]
        b, o = guarded(st_item)
        rec_narrow("item", x, b, o)

        def st_field():
            s.f = src
            return bytes(ffi.buffer(s))[off_f:off_f + 4]
        b, o = guarded(st_field)
        rec_narrow("field", x, b, o)
        b, o = guarded(lambda: struct.pack("<f", float(ffi.cast("float", src))))
        rec_narrow("cast", x, b, o)
        if not quick or rng.random() < 0.5:
            def st_glob():
                lib.g_f = src
                return bytes(ffi.buffer(ffi.addressof(lib, "g_f")))
            b, o = guarded(st_glob)
            rec_narrow("global_api", x, b, o)

            def call_api():
                lib.id_f(src)
                return bytes(ffi.buffer(ffi.addressof(lib, "last_f")))
            b, o = guarded(call_api)
            rec_narrow("arg_api", x, b, o)

            def call_ffi():
                ffi.addressof(lib, "id_f")(src)
                return bytes(ffi.buffer(ffi.addressof(lib, "last_f")))
            b, o = guarded(call_ffi)
            rec_narrow("arg_libffi", x, b, o)

            def call_abi():
                lib2.id_f(src)
                return bytes(ffi2.buffer(ffi2.addressof(lib2, "last_f")))
            b, o = guarded(call_abi)
            rec_narrow("arg_inline", x, b, o)

            def call_cb():
                cb = ffi.callback("float(void)", lambda: src)
                lib.callcb_f(cb)
                return bytes(ffi.buffer(ffi.addressof(lib, "last_f")))
            b, o = guarded(call_cb)
            rec_narrow("cb_result", x, b, o)
        # complex parts
        y = rng.choice(xs)

        def st_fc():
            s.fc = complex(x, y)
            return bytes(ffi.buffer(s))[off_fc:off_fc + 8]
        b, o = guarded(st_fc)
        rec_narrow("complex_re", x, b[:4] if b else None, o)
        rec_narrow("complex_im", y, b[4:] if b else None, o)

        def st_dc():
            s.dc = complex(x, y)
            return bytes(ffi.buffer(s))[off_dc:off_dc + 16]
        b, o = guarded(st_dc)
        rec_same64("dcomplex_re", x, b[:8] if b else None, o)
        rec_same64("dcomplex_im", y, b[8:] if b else None, o)
        # double paths: identity
        b, o = guarded(lambda: bytes(ffi.buffer(ffi.new("double *", src))))
        rec_same64("new_d", x, b, o)

        def st_ditem():
            darr[2] = src
            return bytes(ffi.buffer(darr))[16:24]
        b, o = guarded(st_ditem)
        rec_same64("item_d", x, b, o)
        b, o = guarded(lambda: struct.pack("<d", float(ffi.cast("double", src))))
        rec_same64("cast_d", x, b, o)

        def call_d():
            lib.id_d(src)
            return bytes(ffi.buffer(ffi.addressof(lib, "last_d")))
        b, o = guarded(call_d)
        rec_same64("arg_api_d", x, b, o)

        def st_read():
            darr[0] = src
            return struct.pack("<d", darr[0])
        b, o = guarded(st_read)
        rec_same64("read_d", x, b, o)
    # 1-char bytes / str sources of ffi.cast
    for ch in (b"A", b"\xff", "A", "é", "€"):
        want = float(ch[0] if isinstance(ch, bytes) else ord(ch))
        b, o = guarded(lambda: struct.pack("<f", float(ffi.cast("float", ch))))
        rec_narrow("cast_char", want, b, o)
        b, o = guarded(lambda: struct.pack("<d", float(ffi.cast("double", ch))))
        rec_same64("cast_char_d", want, b, o)
    # long double: bit-exact copies of valid extended-precision values
    p = ffi.new("long double[2]")
    for _ in range(40 if quick else 2000):
        kind = rng.random()
        if kind < 0.8:
            mant = (1 << 63) | rng.getrandbits(63)
            exp = rng.randrange(1, 0x7fff)
        elif kind < 0.9:
            mant, exp = 0, 0
        else:
            mant, exp = 1 << 63, 0x7fff          # infinity
        raw = (mant | ((exp | (rng.getrandbits(1) << 15)) << 64)).to_bytes(10, "little")
        ffi.buffer(p)[0:10] = raw
        for path in ("item", "new", "cast", "field_free"):
            def copy():
                if path == "item":
                    p[1] = p[0]
                    return bytes(ffi.buffer(p))[16:26]
                if path == "new":
                    return bytes(ffi.buffer(ffi.new("long double *", p[0])))[:10]
                if path == "cast":
                    p[1] = ffi.cast("long double", p[0])
                    return bytes(ffi.buffer(p))[16:26]
                q = ffi.new("long double[1]", [p[0]])
                return bytes(ffi.buffer(q))[:10]
            b, o = guarded(copy)
            records.append({"op": "samebytes", "id": len(records), "a": list(raw), "b": list(b) if b else [], "out": o})
            metas.append({"path": "longdouble_" + path, "x": raw.hex(), "ref": "cffi", "out": o})
            ctx.case(("ld", path, raw))
    for i in (0, 1, len(records) // 2):
        ctx.sample({"meta": metas[i], "record": {k: v for k, v in records[i].items() if k in ("op", "out", "ref")}})
    # ---- validation (chunks)
    bad = {}
    CH = 3000
    for k in range(0, len(records), CH):
        chunk = records[k:k + CH]
        path = os.path.join(ctx.tmp, "fl_%d.json" % k)
        core.write_json(path, chunk)
        r = core.tlc("Trace_Float", workers=1, env={"TRACE_FILE": path})
        ctx.add_tlc("Trace_Float", r, count_states=False)
        chk = core.tla_tuples(r.out, "CHECKED")
        if not chk or int(chk[0][0]) != len(chunk):
            raise core.MachineryError("Trace_Float incomplete:\n" + r.out[-3000:])
        for tup in core.tla_tuples(r.out, "BAD"):
            bad[int(tup[0])] = core.unq(tup[1])
        ctx.validated(len(chunk))
    for i, clause in sorted(bad.items()):
        m = metas[i]
        if m["ref"] == "gcc":
            raise core.MachineryError("platform model disagrees with gcc on (float)%s: %s" % (m["x"], clause))
    for i, clause in sorted(bad.items()):
        m = metas[i]
        ctx.violation("float:%s:%s" % (m["path"], clause),
                      "%s of %s (%s): clause %s failed, outcome %s" % (m["path"], m["x"], m.get("hex", ""), clause, m["out"]),
                      {"meta": m, "record": records[i]})
    ctx.cov["rule"] = ("one record per (path, source value); distinct = distinct (path, 64-bit pattern); sources: edge "
                       "values, midpoints between adjacent floats +-1 ulp, random patterns, exponents around the float range")
    ctx.assumptions += ["gcc's (float)d is validated against the spec on the same inputs before cffi is judged",
                        "long double inputs are valid x87 extended values (normal, zero, infinity)"]


def replay(ctx, obj):
    rec = obj["replay"]["record"]
    rec["id"] = 0
    path = os.path.join(ctx.tmp, "fl_replay.json")
    core.write_json(path, [rec])
    r = core.tlc("Trace_Float", workers=1, env={"TRACE_FILE": path})
    ctx.add_tlc("Trace_Float", r)
    bad = core.tla_tuples(r.out, "BAD")
    if bad:
        ctx.violation(obj["key"], obj["what"], obj["replay"])
    print("replayed: %s" % (bad or "accepted"))


def selftest(ctx):
    x = 16777217.0
    good = {"op": "narrow", "id": 0, "d": dbits(x), "f": bits_of(struct.pack("<f", x)), "out": "ok", "ref": "cffi"}
    wrong = dict(good, id=1, f=bits_of(struct.pack("<f", 16777218.0)))
    path = os.path.join(ctx.tmp, "fl_st.json")
    core.write_json(path, [good, wrong])
    r = core.tlc("Trace_Float", workers=1, env={"TRACE_FILE": path})
    bad = [int(t[0]) for t in core.tla_tuples(r.out, "BAD")]
    return bad == [1]


META = {
    "category": "model_checking",
    "text": "The narrowing conversion is specified on bit patterns and TLC checks it against the mathematical definition "
            "(nearest representable, ties to even, overflow threshold) for every pattern of two toy formats; recorded "
            "real stores/casts of edge and random doubles through every path are validated by TLC with the same operator "
            "at the true formats, gcc's own conversion being validated first. Deliberately modest: pure numeric function.",
    "note": "Trusted: TLC, struct.pack for reading back bytes, ctypes for the gcc reference path. The exhaustive check covers "
            "toy formats only; true-format inputs are sampled. long double covers valid x87 values only.",
    "technique": "TLA+ definition of IEEE narrowing model-checked on toy formats + TLC validation of recorded conversions (gcc first, then cffi)",
    "design_ref": "DESIGN.md §3 C05",
}
