"""C08 - C type names round-trip through getctype and typeof.

Design level : specs/CTypes.tla transcribes how the backend builds ct_name / ct_name_position
               (ctypedescr_new_on_top, new_pointer_type, new_array_type, fb_build_name) and the
               two getctype implementations (ffi_getctype in C, FFI.getctype + b_getcname in
               Python).  specs/CTypesLaws.tla states the property as laws against the ideal
               reader of C declarators (CDeclRead!Read): Read(Name(T)) = T,
               Read(Insert(T, x)) = the type x builds on T, for both implementations, names
               are canonical renderings and injective.  TLC checks them for every ctype of
               the bounded universe x 17 declarator suffixes; a broken transcription
               (ct_name_position off by one) is rejected.
Binding      : spec -> code: every (T, x) pair TLC enumerates is executed on the in-line, the
               out-of-line ABI and the API-mode FFI: typeof(getctype(T)) is T,
               typeof(getctype(T, x)) is the ctype of the predicted term.
               code -> spec: random chains T -> typeof(getctype(T, x)) of real ctypes (depth up
               to 10) are recorded and TLC validates every recorded text with the ideal
               reader (Trace_CTypes.tla).  All getctype(T, 'v') declarations are compiled by
               gcc; sizeof is compared with the spec's SizeOf first (machinery) and then
               with ffi.sizeof (verdict).
"""
import os, re, subprocess
from concurrent.futures import ThreadPoolExecutor
from harness import core, tlaval
from harness import parse_env as pe

LEVEL = "model_checking"

INVS = ("NameRoundTrip", "NameIsCanon", "EmptyInsert", "InsertDenotesC", "InsertDenotesPy", "InsertAgree",
        "NameInjective", "GrowsUniverse", "Emit")


def cfg(depth, profile, variant="faithful", invs=INVS):
    return ("SPECIFICATION LSpec\nCONSTANTS Depth = %d\n Profile = \"%s\"\n Variant = \"%s\"\n%sCHECK_DEADLOCK FALSE\n"
            % (depth, profile, variant, "".join("INVARIANT %s\n" % i for i in invs)))


TRACE_CFG = "SPECIFICATION TSpec\nCONSTANTS Depth = 0\n Profile = \"small\"\n Variant = \"faithful\"\nCHECK_DEADLOCK FALSE\n"

CLAUSE = {"roundtrip": "typeof(getctype(T)) is not T",
          "reparse": "getctype(T, x) does not read (C declarator rules) as the type x builds on T",
          "typeof": "typeof(getctype(T, x)) is not the ctype x builds on T"}


def one_pair(env, item):
    """worker: (name of T, term T, x, U) on every FFI -> list of per-mode observations"""
    name, T, x, U = item
    obs = []
    for m in env.modes:
        f = env.ffi(m)
        o = {"mode": m, "x": x}
        try:
            ct = f.typeof(name)
        except Exception as e:
            o["fail"] = "typeof(%r): %s" % (name, type(e).__name__)
            obs.append(o)
            continue
        o["t"] = pe.project(ct)
        o["name"] = ct.cname
        try:
            text = f.getctype(ct, x)
        except Exception as e:
            o["fail"] = "getctype(%r, %r): %s: %s" % (name, x, type(e).__name__, e)
            obs.append(o)
            continue
        o["text"] = text
        if x == "":
            try:
                o["same"] = f.typeof(text) is ct
            except Exception:
                o["same"] = False
        else:
            o["same"] = True
        b = pe.outcome(f, text)
        o["back"] = {"r": "ok", "t": pe.project(b[1])} if b[0] == "ok" else {"r": "err", "t": {"k": "none"}}
        if b[0] == "ok" and U is not None:
            # identity with the ctype reached through the name of U (non-aggregate types)
            o["back_err"] = None
        elif b[0] != "ok":
            o["back_err"] = "%s: %s" % (b[1], b[2])
        if x == "v" and ct.kind != "void":
            try:
                o["size"] = f.sizeof(ct)
            except Exception:
                o["size"] = None
        obs.append(o)
    return obs


def chain(env, item):
    """worker: a random chain T0 -x1-> T1 -x2-> ... on one FFI; every step is one record."""
    mode, start, xs = item
    f = env.ffi(mode)
    recs = []
    try:
        ct = f.typeof(start)
    except Exception:
        return recs
    for x in xs:
        try:
            text = f.getctype(ct, x)
        except Exception as e:
            recs.append({"fail": "getctype(%r, %r): %s" % (ct.cname, x, type(e).__name__), "mode": mode})
            break
        b = pe.outcome(f, text)
        rec = {"mode": mode, "t": pe.project(ct), "name": ct.cname, "x": x, "text": text,
               "impl": "py" if mode == "inline" else "c",
               "back": {"r": "ok", "t": pe.project(b[1])} if b[0] == "ok" else {"r": "err", "t": {"k": "none"}},
               "same": (b[0] == "ok" and b[1] is ct) if x == "" else True}
        recs.append(rec)
        if b[0] != "ok" or x in ("", "v", "* v", "v[5]", "(*v)(int)"):
            if b[0] != "ok":
                break
            continue
        ct = b[1]
        if len(ct.cname) > 150:
            break
    return recs


FNS = {"one_pair": one_pair, "chain": chain}


BIG_LENGTHS = [2 ** 31, 2 ** 32 - 1, 2 ** 32, 2 ** 40 + 7]
BIG_ITEMS = [("char", 1), ("short", 2), ("char *", 8), ("int(*)(int)", 8), ("short *(*)(int)", 8)]
BIG_SUFFIXES = ["", "*", " * ", "**", "*[5]", "[5]", "(*)[5]", "(*)(int)", "*(*)(int)"]
MAX_SUFFIXES = ["", "*", "**", "*[5]", "*(*)(int)"]          # nothing that multiplies the size again


def _recode(t, n, code):
    if isinstance(t, dict):
        return {k: (code if k == "len" and v == n else _recode(v, n, code)) for k, v in t.items()}
    if isinstance(t, list):
        return [_recode(x, n, code) for x in t]
    return t


def big_length_records(ctx, env):
    """Array lengths that do not fit TLC's 32-bit integers (2^31 .. sys.maxsize // itemsize), real values on the in-line
    FFI, the API-mode FFI and a bare _cffi_backend.FFI() (the out-of-line ABI generator limits lengths to 2^31 - 1).  The
    digits are checked here (the name and every getctype text carry exactly '[N]', brackets balanced); TLC validates the
    records under an abstract length code that stands for N."""
    import sys as _sys, _cffi_backend
    ffis = [("inline", env.inline, "py"), ("api", env.api, "c"), ("backend", _cffi_backend.FFI(), "c")]
    recs = []
    for item, isz in BIG_ITEMS:
        item_name = None
        for bi, n in enumerate(BIG_LENGTHS + [_sys.maxsize // isz]):
            code = 70001 + bi
            sufs = MAX_SUFFIXES if n == _sys.maxsize // isz else BIG_SUFFIXES
            # the item's name with the array brackets at its declarator position
            for mode, f, impl in ffis:
                if f is None:
                    continue
                decl = f.getctype(item, "[%d]" % n)
                ctx.case(("big", mode, decl))
                try:
                    ct = f.typeof(decl)
                except Exception as e:
                    ctx.violation("big:typeof-raised:%s" % type(e).__name__, "typeof(%r) raised %s: %s (%s FFI)" % (decl, type(e).__name__, e, mode),
                                  {"kind": "big", "mode": mode, "name": decl, "x": ""})
                    continue
                for x in sufs:
                    text = f.getctype(ct, x)
                    digits = "[%d]" % n
                    if ct.cname.count(digits) != 1 or text.count(digits) != 1 or text.count("[") != text.count("]") \
                            or text.count("(") != text.count(")"):
                        ctx.violation("big:balanced:digits=%d" % len(str(n)),
                                      "the name / getctype text of an array of %d items does not carry '[%d]' once, balanced: "
                                      "name %r, getctype(T, %r) = %r (%s FFI)" % (n, n, ct.cname, x, text, mode),
                                      {"kind": "big", "mode": mode, "name": decl, "x": x})
                        continue
                    b = pe.outcome(f, text)
                    rec = {"mode": mode, "t": _recode(pe.project(ct), n, code), "name": ct.cname.replace(digits, "[%d]" % code),
                           "x": x, "text": text.replace(digits, "[%d]" % code), "impl": impl,
                           "back": {"r": "ok", "t": _recode(pe.project(b[1]), n, code)} if b[0] == "ok" else {"r": "err", "t": {"k": "none"}},
                           "same": (b[0] == "ok" and b[1] is ct) if x == "" else True, "real_n": n}
                    if b[0] != "ok":
                        rec["back_err"] = "%s: %s" % (b[1], b[2])
                    recs.append(rec)
    return recs


def tlc_validate(ctx, recs, label):
    verdicts, diags = [], []
    for i in range(0, len(recs), 20000):
        part = [dict(r, id=k + 1) for k, r in enumerate(recs[i:i + 20000])]
        path = os.path.join(ctx.tmp, "c08_%s_%d.json" % (label, i))
        core.write_json(path, [{k: r[k] for k in ("id", "t", "name", "x", "text", "impl", "back", "same")} for r in part])
        r = core.tlc("Trace_CTypes", cfg_text=TRACE_CFG, workers=1, env={"TRACE_FILE": path}, timeout=1500)
        ctx.add_tlc("Trace_CTypes:" + label, r, count_states=False)
        chk = core.tla_tuples(r.out, "CHECKED")
        if not chk or int(chk[0][0]) != len(part):
            raise core.MachineryError("Trace_CTypes did not check all %d records:\n%s" % (len(part), r.out[-3000:]))
        for t in core.tla_tuples(r.out, "VERDICT"):
            verdicts.append((i + int(t[0]) - 1, core.unq(t[1])))
        for t in core.tla_tuples(r.out, "DIAG"):
            diags.append((i + int(t[0]) - 1, core.unq(t[1]), core.unq(t[2])))
        ctx.validated(len(part))
    return verdicts, diags


def shape(t):
    k = t["k"]
    if k in ("ptr", "arr"):
        return ("fnptr" if k == "ptr" and t["t"]["k"] == "fn" else k) + ">" + shape(t["t"] if t["t"]["k"] != "fn" else t["t"]["res"])
    return k


def report(ctx, recs, verdicts, diags, kind):
    for idx, v in verdicts:
        r = recs[idx]
        ctx.violation("%s:%s:x=%s:T=%s" % (kind, v, r["x"].strip() or "''", shape(r["t"])),
                      "%s: T=%r x=%r text=%r (%s FFI)" % (CLAUSE[v], r["name"], r["x"], r["text"], r["mode"]),
                      {"kind": kind, "mode": r["mode"], "name": r["name"], "x": r["x"]})
    notes = ctx.cov.setdefault("model_divergences", [])
    ctx.cov["model_divergence_count"] = ctx.cov.get("model_divergence_count", 0) + len(diags)
    for idx, model, mname in diags[:5]:
        notes.append({"real_text": recs[idx]["text"], "model_text": model, "real_name": recs[idx]["name"],
                      "model_name": mname, "mode": recs[idx]["mode"]})
    if diags:
        print("NOTE C08: %d recorded texts/names differ from the name-builder model (first: %s)" % (len(diags), notes[0]))


def gcc_sizes(ctx, env, decls):
    """decls: list of (mode, declaration text with name v<i>, ffi size, spec size or None, T name).
    One translation unit; gcc's sizeof of every object is printed."""
    lines = [pe.ENV_CSOURCE, "#include <stdio.h>"]
    for i, (mode, decl, fsize, ssize, name) in enumerate(decls):
        lines.append("extern %s;" % decl)
    lines.append("int main(void) {")
    for i, d in enumerate(decls):
        lines.append('printf("%%d %%zu\\n", %d, sizeof(v%d));' % (i, i))
    lines.append("return 0; }")
    src = "\n".join(lines)
    path = os.path.join(ctx.tmp, "c08_sizes.c")
    with open(path, "w") as f:
        f.write(src)
    exe = os.path.join(ctx.tmp, "c08_sizes")
    r = subprocess.run(["gcc", "-O0", "-w", path, "-o", exe], capture_output=True, text=True)
    rejected = set()
    if r.returncode != 0:
        # find the declarations gcc refuses (one per line), report them, retry without them
        first = len(pe.ENV_CSOURCE.split("\n")) + 1
        for m in re.finditer(r"c08_sizes\.c:(\d+):\d+: error", r.stderr):
            k = int(m.group(1)) - first - 1
            if 0 <= k < len(decls):
                rejected.add(k)
        if not rejected:
            raise core.MachineryError("gcc failed on the size probe:\n" + r.stderr[-2000:])
        for k in sorted(rejected):
            mode, decl, fsize, ssize, name = decls[k]
            ctx.violation("decl-rejected:T=%s" % name, "gcc rejects the declaration getctype(T, 'v') = %r (%s FFI)" % (decl, mode),
                          {"kind": "decl", "mode": mode, "name": name, "x": "v"})
        keep = [d for k, d in enumerate(decls) if k not in rejected]
        renum = [(m, re.sub(r"\bv\d+\b", "v%d" % i, d), fs, ss, n) for i, (m, d, fs, ss, n) in enumerate(keep)]
        return gcc_sizes(ctx, env, renum)
    out = subprocess.run([exe], capture_output=True, text=True).stdout
    n = 0
    for line in out.splitlines():
        i, sz = map(int, line.split())
        mode, decl, fsize, ssize, name = decls[i]
        if ssize is not None and ssize >= 0 and ssize != sz:
            raise core.MachineryError("gcc sizeof(%s) = %d, CTypes!SizeOf = %d" % (decl, sz, ssize))
        if fsize != sz:
            ctx.violation("sizeof:T=%s" % name, "object declared by getctype(T,'v') = %r has size %d, ffi.sizeof(T) = %r (%s FFI)"
                          % (decl, sz, fsize, mode), {"kind": "decl", "mode": mode, "name": name, "x": "v"})
        n += 1
    ctx.validated(n)
    return n


def run(ctx):
    quick = ctx.quick
    rng = ctx.rng
    confs = [("laws(mid,d1)", 1, "mid"), ("laws(tiny,d2)", 2, "tiny"), ("laws(big,d2)", 2, "big")] if quick else \
            [("laws(full,d2)", 2, "full"), ("laws(small,d3)", 3, "small"), ("laws(bigall,d2)", 2, "bigall")]
    with ThreadPoolExecutor(6) as ex:
        futs = [ex.submit(core.tlc, "CTypesLaws", cfg_text=cfg(d, p), workers=4, timeout=2400) for _n, d, p in confs]
        bad = ex.submit(core.tlc, "CTypesLaws", cfg_text=cfg(2, "tiny", "name-pos", ("NameRoundTrip", "InsertDenotesC")), workers=2)
        bad2 = ex.submit(core.tlc, "CTypesLaws", cfg_text=cfg(1, "big", "name-trunc", ("NameRoundTrip", "NameIsCanon")), workers=2)
        envf = ex.submit(pe.Env, ctx.tmp, "c08")
        rows = []
        for (n, d, p), f in zip(confs, futs):
            r = f.result()
            ctx.add_tlc(n, r)
            rows += [x for x in pe.parse_generator_output(r.out) if x[0] == "P"]
        r = bad.result()
        ctx.add_tlc("sanity:name-pos", r, require_ok=False, count_states=False)
        if r.ok or "is violated" not in r.out:
            raise core.MachineryError("the broken name builder (ct_name_position off by one) was not rejected by TLC")
        r = bad2.result()
        ctx.add_tlc("sanity:name-trunc", r, require_ok=False, count_states=False)
        if r.ok or "is violated" not in r.out:
            raise core.MachineryError("the broken name builder (decimal text of the length truncated) was not rejected by TLC")
        env = envf.result()
    if not rows:
        raise core.MachineryError("CTypesLaws printed no pair")
    # ---------------------------------------------------------------- spec -> code
    seen, items, metas = set(), [], []
    for _p, T, x, U, textc, textpy, name, size in rows:
        if (name, x) in seen:
            continue
        seen.add((name, x))
        T, U = pe.norm_term(T), pe.norm_term(U)
        items.append((name, T, x, None if U.get("k") == "none" else U))
        metas.append({"T": T, "U": U, "textc": textc, "textpy": textpy, "size": size})
    results = pe.pool_map(env, FNS, "one_pair", items, nproc=8, chunk=300)
    recs, decls = [], []
    for (name, T, x, U), meta, obs in zip(items, metas, results):
        ctx.case((name, x))
        for o in obs:
            if "fail" in o or o.get("t") != T:
                # the spec's own name must denote T on every FFI (that is law NameRoundTrip on the real code)
                ctx.violation("name:T=%s" % shape(T), "typeof(%r) is not the type the name was built for (%s FFI): %s"
                              % (name, o["mode"], o.get("fail") or o.get("t")),
                              {"kind": "pair", "mode": o["mode"], "name": name, "x": x})
                continue
            o["impl"] = "py" if o["mode"] == "inline" else "c"
            o["meta"] = meta
            recs.append(o)
            if x == "v" and o.get("size") is not None and (meta["size"] >= 0 or (T["k"] == "arr" and o["size"] < 2 ** 40)):
                # meta size -1: beyond TLC's integers - gcc is then compared with ffi.sizeof only
                decls.append((o["mode"], re.sub(r"\bv\b", "v%d" % len(decls), o["text"], 1), o["size"],
                              meta["size"] if meta["size"] >= 0 else None, name))
    # spec -> code: the real outcome of every pair against what TLC computed for it (U, texts)
    nd = 0
    notes = ctx.cov.setdefault("model_divergences", [])
    for o in recs:
        meta = o["meta"]
        U = meta["U"]
        if o["x"] == "" and not o["same"]:
            ctx.violation("pair:roundtrip:x='':T=%s" % shape(o["t"]), "%s: T=%r (%s FFI)" % (CLAUSE["roundtrip"], o["name"], o["mode"]),
                          {"kind": "pair", "mode": o["mode"], "name": o["name"], "x": o["x"]})
        if U.get("k") != "none" and o["back"] != {"r": "ok", "t": U}:
            ctx.violation("pair:typeof:x=%s:T=%s" % (o["x"].strip() or "''", shape(o["t"])),
                          "%s: T=%r x=%r text=%r typeof -> %s (%s FFI)" % (CLAUSE["typeof"], o["name"], o["x"], o["text"],
                                                                          o.get("back_err") or o["back"], o["mode"]),
                          {"kind": "pair", "mode": o["mode"], "name": o["name"], "x": o["x"]})
        model = meta["textpy"] if o["mode"] == "inline" else meta["textc"]
        if o["mode"] == "inline":
            model = model.replace("struct s2", "s2_t")
        if o["text"] != model:
            nd += 1
            if len(notes) < 5:
                notes.append({"real_text": o["text"], "model_text": model, "mode": o["mode"]})
        ctx.validated()
    if nd:
        ctx.cov["model_divergence_count"] = ctx.cov.get("model_divergence_count", 0) + nd
        print("NOTE C08: %d getctype texts differ from the name-builder model (first: %s)" % (nd, notes[0]))
    # code -> spec: TLC re-reads the real texts with the ideal reader: a seeded sample (500 quick / 40 000 thorough)
    cap = 500 if quick else 40000
    vrecs = recs if len(recs) <= cap else rng.sample(recs, cap)
    pending_pairs = vrecs
    # ---------------------------------------------------------------- gcc: declared objects
    ndecl = gcc_sizes(ctx, env, decls) if decls else 0
    # ---------------------------------------------------------------- code -> spec: chains
    suffixes = sorted({x for _p, _T, x, *_ in rows})
    starts = sorted({name for name, T, x, U in items if T["k"] != "void"})
    citems = []
    for i in range(120 if quick else 6000):
        citems.append((rng.choice(env.modes), rng.choice(starts), [rng.choice(suffixes) for _ in range(rng.randint(2, 9))]))
    cres = pe.pool_map(env, FNS, "chain", citems, nproc=8, chunk=200)
    crecs = []
    for it, rs in zip(citems, cres):
        ctx.case(("chain", it[0], it[1], tuple(it[2])))
        for r in rs:
            if "fail" in r:
                ctx.violation("chain:getctype-raised", r["fail"], {"kind": "chain", "item": list(it)})
            else:
                crecs.append(r)
    # ---------------------------------------------------------------- code -> spec: lengths beyond TLC's integers
    brecs = big_length_records(ctx, env)
    crecs += brecs
    allv, alld = tlc_validate(ctx, pending_pairs + crecs, "pairs+chains")
    np_ = len(pending_pairs)
    report(ctx, pending_pairs, [v for v in allv if v[0] < np_], [d for d in alld if d[0] < np_], "pair")
    report(ctx, crecs, [(i - np_, v) for i, v in allv if i >= np_], [(i - np_, a, b) for i, a, b in alld if i >= np_], "chain")
    for r in (recs[:2] + crecs[-2:]):
        ctx.sample({k: r[k] for k in ("mode", "name", "x", "text", "back")})
    ctx.cov["cases"] = {"pairs": len(items), "pair_records": len(recs), "chain_records": len(crecs) - len(brecs),
                        "big_length_records": len(brecs),
                        "gcc_declarations": ndecl}
    ctx.cov["rule"] = ("distinct = (type name, suffix) pairs executed on the three FFIs plus distinct random getctype chains; "
                       "all non-trivial (each runs getctype and re-parses its output)")
    ctx.cov["exhaustive"] = True
    ctx.assumptions += ["the in-line FFI names struct s2 / enum e1 after their typedefs (s2_t, e1_t): names compared by the model "
                        "only for the compiled FFIs' spelling; the laws use the projected (kind, tag)",
                        "x86-64 SysV sizes in CTypes!SizeOf; gcc is checked against them before cffi is"]


def replay(ctx, obj):
    env = pe.Env(ctx.tmp, tag="c08r")
    rp = obj["replay"]
    ctx.cov["states"] = 1
    if rp["kind"] == "chain":
        rs = chain(env, tuple(rp["item"]))
        recs = [r for r in rs if "fail" not in r]
    else:
        f = env.ffi(rp["mode"])
        ct = f.typeof(rp["name"])
        recs = [o for o in one_pair(env, (rp["name"], pe.project(ct), rp["x"], None)) if o["mode"] == rp["mode"] and "fail" not in o]
        for o in recs:
            o["impl"] = "py" if o["mode"] == "inline" else "c"
    v, d = tlc_validate(ctx, recs, "replay")
    report(ctx, recs, v, d, rp["kind"])
    print("replayed: %d records, %d rejected by the laws" % (len(recs), len(v)))


def selftest(ctx):
    env = pe.Env(ctx.tmp, tag="c08s", api=False)
    obs = [o for o in one_pair(env, ("int *", None, "(*)(int)", None))]
    for o in obs:
        o["impl"] = "py" if o["mode"] == "inline" else "c"
    v1, _ = tlc_validate(ctx, obs, "self1")
    obs[0]["text"] = "int(* *)(int)"             # the text inserted one position too far to the left
    v2, _ = tlc_validate(ctx, obs, "self2")
    return not v1 and ("reparse" in [x[1] for x in v2])


META = {
    "category": "model_checking",
    "text": "The backend's construction of ct_name/ct_name_position and both getctype implementations are transcribed "
            "in TLA+ on character strings; TLC checks, for every ctype of the bounded universe and 17 declarator "
            "suffixes, that the name reads back (ideal C declarator reader) as the type, that getctype(T, x) reads as "
            "the type x builds on T, that names are canonical and injective, and rejects an off-by-one position. "
            "Every pair is executed on the in-line, out-of-line ABI and API-mode FFIs; random getctype chains of real "
            "ctypes are validated by TLC with the ideal reader; all getctype(T,'v') declarations are compiled by gcc "
            "and their sizeof compared with the spec and ffi.sizeof.",
    "note": "Trusted: TLC, gcc. The suffix set is the fixed list CDeclRead!Suffixes; function types themselves "
            "(not pointers to them) are outside typeof's range.",
    "technique": "TLA+ laws over a transcribed name builder (TLC) + replay + TLC trace validation + gcc",
    "design_ref": "DESIGN.md §3 C08",
}
