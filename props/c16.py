"""C16 - array and pointer indexing, slicing and arithmetic follow the C model.

Design level : specs/Memory.tla.  The IDEAL section is the statement of C16 as guard/effect
               operators over a byte arena and cdata views [k, sz, off, len]; the IMPLEMENTATION
               MODEL section transcribes _cdata_get_indexed_ptr, _cdata_getslicearg, cdata_slice,
               cdata_ass_slice, _cdata_add_or_sub, cdata_sub, direct_typeoffsetof.  TLC runs the
               machine of the implementation model exhaustively within small constants and checks
               the action property RefinesIdeal (every step satisfies the ideal), the invariants
               SafeInside / NoOOBValue / Laws, and rejects six deliberately broken variants.
Binding      : spec -> code: the complete state graphs of small configurations are dumped; every
               edge is executed (after its shortest prefix) on real cdata of several element kinds
               and root flavours (ffi.new fixed/variable arrays, slices of a larger array,
               from_buffer arrays, owning pointers); after each step result class, value, derived
               address/length and bytes(ffi.buffer(root)) + guard zones are compared with the
               model state.  code -> spec: seeded random histories on arrays of up to 1000 items of
               all element kinds; every execution (replayed or random) is recorded as an event
               trace and validated by TLC against the ideal (Trace_Memory.tla).  Verdicts come
               from the ideal only.
"""
import os
from harness import core, tlaval
from harness import mem_common as mc

LEVEL = "model_checking"
VARIANTS = [("idx_le", "arr"), ("slice_no_neg", "arr"), ("ass_extra", "arr"), ("add_bytes", "arr"),
            ("memcpy_fwd", "arr"), ("own_any", "own"), ("mask", "arr")]

CLAUSE = {
    "getitem:not-accepted": "x[i] with an index the statement accepts was rejected",
    "getitem:value": "x[i] did not read the bytes at i*sizeof(T) past x",
    "getitem:address": "x[i] (struct item) does not live i*sizeof(T) bytes past x",
    "getitem:memory": "reading x[i] changed memory",
    "getitem:not-IndexError": "x[i] outside 0 <= i < n (or i != 0 on an owning pointer) did not raise IndexError",
    "getitem:memory-touched": "a rejected x[i] touched memory",
    "setitem:not-accepted": "x[i] = v with an accepted index was rejected",
    "setitem:memory": "x[i] = v did not change exactly the bytes of item i",
    "setitem:not-IndexError": "x[i] = v outside the bounds did not raise IndexError",
    "setitem:memory-touched": "a rejected x[i] = v touched memory",
    "slice:memory-touched": "x[i:j] touched memory",
    "slice:view": "x[i:j] is not an array view of length j-i at element i",
    "slice:not-accepted": "x[i:j] with 0 <= i <= j <= n was rejected",
    "slice:not-IndexError": "x[i:j] outside 0 <= i <= j <= n (or with a step / missing bound) did not raise IndexError",
    "assign:memory": "x[i:j] = values did not store exactly the values into elements i..j-1",
    "assign:not-IndexError": "x[i:j] = values with a bad slice did not raise IndexError",
    "assign:memory-touched": "a rejected slice assignment touched memory",
    "assign:not-accepted": "x[i:j] = values with exactly j-i values was rejected",
    "assign:wrong-count-accepted": "x[i:j] = values accepted a number of values other than j-i",
    "add:not-accepted": "p + i failed", "add:address": "p + i is not i*sizeof(T) bytes past p",
    "sub:not-accepted": "p - i failed", "sub:address": "p - i is not i*sizeof(T) bytes before p",
    "addressof:not-accepted": "ffi.addressof(x, i) failed", "addressof:address": "ffi.addressof(x, i) is not x + i",
    "addressof:neq-add": "ffi.addressof(x, i) != x + i",
    "diff:not-accepted": "p - q failed although the byte distance is a multiple of sizeof(T)", "diff:value": "(p+i) - p != i",
    "diff:not-a-multiple-accepted": "p - q was accepted although the byte distance is not a multiple of sizeof(T)",
    "cast:not-accepted": "ffi.cast('T *', ...) failed", "cast:address": "ffi.cast('T *', char pointer) is not at that address",
    "offsetof:not-accepted": "ffi.offsetof('T[]', i) failed", "offsetof:value": "ffi.offsetof('T[]', i) != i*sizeof(T)",
}


# ------------------------------------------------------------------ TLC trace validation
def validate(ctx, traces, name="Trace_Memory"):
    """TLC validates all traces against the ideal; returns [(index, clause, pos)] of the bad ones."""
    bad = []
    for lo in range(0, len(traces), 8000):
        chunk = traces[lo:lo + 8000]
        tups = core.tlc_verdicts(ctx, "Trace_Memory", chunk, name=name, workers=4)
        verdicts = {int(t[0]): (core.unq(t[1]), int(t[2])) for t in tups}
        if len(verdicts) != len(chunk):
            raise core.MachineryError("trace validation incomplete: %d verdicts for %d traces\n%s" % (
                len(verdicts), len(chunk), ctx.cov["tlc_runs"][-1]))
        for k in range(1, len(chunk) + 1):
            v, pos = verdicts[k]
            ctx.validated(len(chunk[k - 1]["ev"]))
            if v != "ok":
                bad.append((lo + k - 1, v, pos))
    return bad


# ------------------------------------------------------------------ spec -> code
def model_op(res):
    s = res["s"]
    return {"op": res["op"], "a": res["a"], "b": res["b"], "i": s["i"], "j": s["j"], "mi": s["mi"],
            "mj": s["mj"], "stp": s["stp"], "vals": [bytes(v) for v in res["vals"]]}


def bfs_prefixes(g):
    """shortest path (list of edges) from the initial state to every state"""
    pre = {g.init[0]: []}
    queue = [g.init[0]]
    while queue:
        n = queue.pop(0)
        for e in g.succ(n):
            if e[2] not in pre:
                pre[e[2]] = pre[n] + [e]
                queue.append(e[2])
    return pre


def replay_path(ctx, g, path, kind, flavor, rootlen, rng, step_no=[0]):
    """Execute one model behaviour on a fresh arena.  Returns (trace, divergence or None)."""
    sz = kind.sz
    n = 1 if flavor == "own" else rootlen
    init_model = g.states[g.init[0]]["mem"]
    mkguard = lambda pad: bytes((0xA0 + k) % 256 for k in range(pad * sz))
    ar = mc.new_arena(kind, flavor, n, lambda items, pad: mkguard(pad) + bytes(init_model) + mkguard(pad))
    guard = mkguard(ar.pad)
    trace = ar.header()
    trace["ev"] = []
    div = None
    for (_act, _args, dst) in path:
        st = g.states[dst]
        res = st["res"]
        op = model_op(res)
        step_no[0] += 1
        if op["op"] == "assign":
            op["src"] = "bytes" if res["src"] == "bytes" else ("list", "tuple", "iter")[step_no[0] % 3]
        if op["op"] == "add":
            op["swap"] = step_no[0] % 3 == 0
        ev, why = mc.careful_apply(ar, op, trace["ev"])
        if ev is None:
            if why == "probe-accepted":
                div = "probe for %r accepted" % ({k: op[k] for k in ("op", "a", "i", "j")},)
            else:
                ctx.cov["replay_steps_not_executed"] = ctx.cov.get("replay_steps_not_executed", 0) + 1
            break
        trace["ev"].append(ev)
        ctx.case()
        # ---- compare with the implementation model's prediction
        want_mem = bytes(st["mem"])
        snap = ar.snap()
        got_mem = snap[ar.rootoff:ar.rootoff + n * sz]
        problems = []
        if ev["st"] != res["st"]:
            problems.append("status %s, model %s" % (ev["st"], res["st"]))
        if res["op"] == "getitem" and res["st"] == "ok" and ev["val"] != list(res["val"]):
            problems.append("value %r, model %r" % (ev["val"], list(res["val"])))
        if res["op"] in ("diff", "offsetof") and res["st"] == "ok" and ev["num"] != res["num"]:
            problems.append("number %r, model %r" % (ev["num"], res["num"]))
        if got_mem != want_mem:
            problems.append("memory %r, model %r" % (list(got_mem), list(want_mem)))
        if snap[:ar.rootoff] != guard or snap[ar.rootoff + n * sz:] != guard:
            problems.append("guard zone modified")
        if len(st["views"]) != len(ar.views):
            problems.append("%d views, model %d" % (len(ar.views), len(st["views"])))
        else:
            mv = st["views"][-1]
            gk, goff, glen = ar.desc[-1]
            if (mv["k"], mv["off"] + ar.rootoff, mv["len"] if mv["k"] != "ptr" else 0) != (gk, goff, glen if gk != "ptr" else 0):
                problems.append("view %r, model %r" % (ar.desc[-1], (mv["k"], mv["off"] + ar.rootoff, mv["len"])))
        if problems:
            div = "%s/%s %s: %s" % (kind.name, flavor, {k: op[k] for k in ("op", "a", "b", "i", "j")}, "; ".join(problems))
            break
    return trace, div


def dump_confs(ctx):
    confs = [(2, 2, "arr", 3, 2), (4, 1, "own", 2, 2), (3, 2, "arr", 3, 2)]
    if not ctx.quick:
        confs += [(1, 3, "arr", 3, 2), (4, 2, "arr", 3, 2), (8, 2, "arr", 2, 2), (8, 1, "own", 3, 2),
                  (2, 1, "own", 2, 2), (12, 2, "arr", 3, 2), (20, 1, "arr", 3, 2), (7, 2, "arr", 3, 2), (6, 1, "own", 3, 2)]
    return confs


def submit_dumps(ctx, jobs):
    for isz, rootlen, rootkind, maxviews, maxsteps in dump_confs(ctx):
        dump = os.path.join(ctx.tmp, "mg_%d_%d_%s" % (isz, rootlen, rootkind))
        jobs.submit("dump(sz=%d,n=%d,%s)" % (isz, rootlen, rootkind), "Memory",
                    cfg_text=mc.memory_cfg(isz, rootlen, rootkind, maxviews, maxsteps, 1, rootlen + 1, prune=True,
                                           view=False, props=False), dump=dump, workers=4, timeout=1200)


def spec_to_code(ctx, jobs, traces, metas, divergences):
    quick = ctx.quick
    budget = 1200 if quick else 5000
    for isz, rootlen, rootkind, maxviews, maxsteps in dump_confs(ctx):
        dump = os.path.join(ctx.tmp, "mg_%d_%d_%s" % (isz, rootlen, rootkind))
        name = "dump(sz=%d,n=%d,%s)" % (isz, rootlen, rootkind)
        ctx.add_tlc(name, jobs.result(name), count_states=False)
        g = tlaval.load_dot(dump + ".dot")
        seen = {(st["res"]["op"], st["res"]["st"]) for st in g.states.values()}
        need = {("getitem", "ok"), ("getitem", "IndexError"), ("setitem", "ok"), ("setitem", "IndexError"),
                ("slice", "ok"), ("slice", "IndexError"), ("assign", "ok"), ("assign", "IndexError"),
                ("assign", "ValueError"), ("assignview", "ok"), ("add", "ok"), ("sub", "ok"), ("diff", "ok"),
                ("addressof", "ok"), ("offsetof", "ok")}
        if isz not in (1, 2, 4, 8):
            need |= {("cast", "ok"), ("diff", "ValueError")}
        if need - seen:
            raise core.MachineryError("state graph %s lacks transitions %s (vacuous)" % (dump, sorted(need - seen)))
        pre = bfs_prefixes(g)
        edges = [(n, e) for n in pre for e in g.succ(n)]
        ctx.rng.shuffle(edges)
        kinds = mc.REPLAY_KINDS[isz]
        flavors = ["own"] if rootkind == "own" else mc.FLAVORS_ARR
        trusted = True
        for idx, (n, e) in enumerate(edges[:budget]):
            kind = mc.KINDS[kinds[idx % len(kinds)]]
            if any(g.states[x[2]]["res"]["src"] == "bytes" for x in pre[n] + [e]):
                kind = mc.KINDS["char"]          # bytes as the right-hand side exists for char arrays only
            flavor = flavors[(idx // len(kinds)) % len(flavors)]
            if not trusted and flavor in ("new_fixed", "new_var", "own"):
                flavor = flavors[0]
            tr, div = replay_path(ctx, g, pre[n] + [e], kind, flavor, rootlen, ctx.rng)
            traces.append(tr)
            metas.append({"kind": "replay", "conf": [isz, rootlen, rootkind], "elem": kind.name, "flavor": flavor})
            if div:
                divergences.append(div)
                trusted = False
        ctx.cov.setdefault("graphs", []).append({"conf": [isz, rootlen, rootkind, maxviews, maxsteps],
                                                 "states": len(g.states), "edges": len(edges),
                                                 "edges_replayed": min(len(edges), budget)})
    if traces:
        ctx.sample({"kind": "TLC behaviour replayed on real cdata", "meta": metas[-1],
                    "events": [{k: e[k] for k in ("op", "a", "i", "j", "st", "val")} for e in traces[-1]["ev"]]}, limit=2)


# ------------------------------------------------------------------ code -> spec
def index_candidates(rng, k, off, ln, sz, total):
    if k == "arr":
        c = [-2, -1, 0, 1, ln - 2, ln - 1, ln, ln + 1, ln + 2]
        if ln > 0:
            c += [rng.randrange(ln) for _ in range(9)]
        return c
    if k == "own":
        return [0, 0, 0, 1, -1, 2]
    lo = -(off // sz) if off >= 0 else (-off + sz - 1) // sz
    hi = (total - off) // sz - 1
    if lo > hi:
        return []
    return [lo, hi, lo + 1, hi - 1] + [rng.randint(lo, hi) for _ in range(6)]


def gen_op(rng, ar, maxviews=10):
    sz, total = ar.kind.sz, ar.total
    ops = ["getitem"] * 20 + ["setitem"] * 20 + ["assign"] * 12 + ["assignview"] * 6 + ["diff"] * 5 + ["offsetof"] * 2
    if len(ar.views) < maxviews:
        ops += ["slice"] * 12 + ["add"] * 6 + ["sub"] * 5 + ["addressof"] * 5 + ["cast"] * 4
    o = rng.choice(ops)
    a = rng.randrange(len(ar.views)) + 1
    k, off, ln = ar.desc[a - 1]
    if o == "offsetof":
        return {"op": o, "a": 0, "i": rng.choice([0, 1, 2, 7, 1000, -1, -3, 10 ** 6])}
    if o == "diff":
        return {"op": o, "a": a, "b": rng.randrange(len(ar.views)) + 1}
    if o == "cast":
        lo, hi = -off, total - off - sz            # keep the result dereferenceable inside the backing store
        if hi < lo:
            return None
        nb = rng.choice([rng.randint(lo, hi), rng.randint(lo, hi) // sz * sz, sz, 1, sz + 1, 2 * sz])
        if not ar.kind.anybytes:
            nb = nb // sz * sz          # misaligned items of float / char32_t / _Bool kinds need not be values
        return {"op": o, "a": a, "i": nb}
    if o in ("add", "sub", "addressof"):
        return {"op": o, "a": a, "i": rng.choice([0, 1, -1, 2, 3, -2, ln, rng.randint(-50, 50), rng.choice([10 ** 6, -10 ** 6])]),
                "swap": rng.random() < 0.3}
    cand = index_candidates(rng, k, off, ln, sz, total)
    if not cand:
        return None
    if o in ("getitem", "setitem"):
        i = rng.choice(cand)
        if k == "arr" and rng.random() < 0.04:
            i = rng.choice([10 ** 6, -10 ** 6, 2 ** 27, -2 ** 27])
        op = {"op": o, "a": a, "i": i}
        if o == "setitem":
            op["vals"] = [ar.kind.gen(rng)]
        return op
    # slices
    r = rng.random()
    if k == "arr" and r < 0.55 and ln >= 0:
        i = rng.randint(0, ln)
        j = rng.randint(i, min(ln, i + 40))
    else:
        i, j = rng.choice(cand), rng.choice(cand)
        if k != "arr" and i > j and rng.random() < 0.8:
            i, j = j, i
        if k != "arr":
            j = j + 1 if rng.random() < 0.5 else j
    if j - i > 40:
        j = i + rng.randint(0, 40)
    op = {"op": o, "a": a, "i": i, "j": j}
    r = rng.random()
    if r < 0.03:
        op["mi"] = True
    elif r < 0.06:
        op["mj"] = True
    elif r < 0.09:
        op["stp"] = True
    if o == "assign":
        want = max(j - i, 0)
        cnt = want if rng.random() < 0.75 else max(0, want + rng.choice([-1, 1, 1, 2, -2]))
        op["vals"] = [ar.kind.gen(rng) for _ in range(cnt)]
        op["src"] = rng.choice(["list", "tuple", "iter", "bytes"])
    if o == "assignview":
        arrs = [x + 1 for x, d in enumerate(ar.desc) if d[0] == "arr" and 0 <= d[1] and d[1] + d[2] * sz <= total]
        same = [x for x in arrs if ar.desc[x - 1][2] == j - i]
        if not arrs:
            return None
        op["b"] = rng.choice(same) if same and rng.random() < 0.8 else rng.choice(arrs)
    return op


def random_trace(ctx, rng, kind, flavor, n, nops):
    n = 1 if flavor == "own" else n
    ar = mc.new_arena(kind, flavor, n, lambda items, pad: b"".join(kind.gen(rng) for _ in range(items + 2 * pad)))
    tr = ar.header()
    ev = tr["ev"] = []
    queue = []
    for step in range(nops):
        if not queue and n >= 3 and step % 9 == 4 and len(ar.views) < 10:
            # overlapping view-to-view assignment: w = x[i:i+k]; x[i+d:i+d+k] = w  (d = +-1, +-2)
            k = rng.randint(2, min(n - 1, 9))
            d = rng.choice([x for x in (1, 1, -1, 2, -2) if abs(x) <= n - k])
            i = rng.randint(max(0, -d), n - k - max(0, d))
            queue = [{"op": "slice", "a": 1, "i": i, "j": i + k},
                     lambda: {"op": "assignview", "a": 1, "i": i + d, "j": i + d + k, "b": len(ar.views)}]
        if not queue and step % 9 == 7 and len(ar.views) < 9:
            # (p+i) - p == i, and the difference of two pointers cast at byte distance nb (multiple or not)
            a0 = rng.randrange(len(ar.views)) + 1
            i0 = rng.choice([1, 2, 3, -1, 5, rng.randint(-20, 20)])
            nb = rng.choice([1, kind.sz, kind.sz + 1, 2 * kind.sz, 3 * kind.sz - 1, rng.randint(0, 40)])
            if not kind.anybytes:
                nb = nb // kind.sz * kind.sz
            if rng.random() < 0.5:
                queue = [{"op": "add", "a": a0, "i": 0}, lambda: {"op": "add", "a": len(ar.views), "i": i0},
                         lambda: {"op": "diff", "a": len(ar.views), "b": len(ar.views) - 1},
                         lambda: {"op": "diff", "a": len(ar.views) - 1, "b": len(ar.views)}]
            else:
                queue = [{"op": "cast", "a": a0, "i": 0}, lambda: {"op": "cast", "a": len(ar.views), "i": nb},
                         lambda: {"op": "diff", "a": len(ar.views), "b": len(ar.views) - 1},
                         lambda: {"op": "diff", "a": len(ar.views) - 1, "b": len(ar.views)}]
        if queue:
            op = queue.pop(0)
            op = op() if callable(op) else op
        else:
            op = gen_op(rng, ar)
        if op is None:
            continue
        e, why = mc.careful_apply(ar, op, ev)
        if e is None:
            if why == "probe-accepted":
                break                         # a probe was wrongly accepted: TLC will say so; stop here
            continue
        ev.append(e)
        ctx.case((kind.name, flavor, op["op"]))
    return tr


def code_to_spec(ctx, traces, metas):
    rng = ctx.rng
    names = sorted(mc.KINDS)
    ntr = 70 if ctx.quick else 1000
    for t in range(ntr):
        kind = mc.KINDS[names[t % len(names)]]
        flavor = (mc.FLAVORS_ARR + ["own"])[(t // len(names)) % 5] if t >= 10 else mc.FLAVORS_ARR[t % 2]
        r = rng.random()
        n = rng.choice([0, 1, 2, 3, 5, 8]) if r < 0.5 else rng.randint(9, 64) if r < 0.93 else rng.choice([255, 256, 1000])
        if n >= 255 and kind.sz > 2 and ctx.quick:
            n = 100
        nops = 30 if n < 255 else 14
        if not ctx.quick:
            nops *= 2
        tr = random_trace(ctx, rng, kind, flavor, n, nops)
        traces.append(tr)
        metas.append({"kind": "random", "elem": kind.name, "flavor": flavor, "n": n})
    ctx.sample({"kind": "random history on real cdata", "meta": metas[-1],
                "events": [{k: e[k] for k in ("op", "a", "i", "j", "st", "val", "lo", "chg")} for e in traces[-1]["ev"][:12]]},
               limit=4)


def observations(ctx):
    """Inputs the statement does not constrain: recorded, never judged."""
    f, _bf = mc.ffis()
    obs = {}
    a = f.new("int[5]")
    before = bytes(f.buffer(a))
    for name, fn in [("index 2**63", lambda: a[2 ** 63]), ("index -2**63-1", lambda: a[-2 ** 63 - 1]),
                     ("slice stop 2**63", lambda: a[0:2 ** 63]), ("slice start -2**64", lambda: a[-2 ** 64:1]),
                     ("store at index 2**70", lambda: a.__setitem__(2 ** 70, 1)),
                     ("float index", lambda: a[1.0]), ("owning pointer slice p[0:3]", lambda: len(f.new("int *")[0:3])),
                     ("owning pointer slice p[1:2]", lambda: len(f.new("int *")[1:2]))]:
        try:
            obs[name] = "accepted: %r" % (fn(),)
        except Exception as e:
            obs[name] = type(e).__name__
    if bytes(f.buffer(a)) != before:
        obs["memory"] = "changed"
    ctx.cov["observations_outside_statement"] = obs


# ------------------------------------------------------------------ entry points
def design_runs(ctx):
    runs = [("MC_Memory(sz=2,arr n=2,views<=3,steps<=3,idx -1..3)", mc.memory_cfg(2, 2, "arr", 3, 3, 1, 3)),
            ("MC_Memory(sz=4,own,views<=3,steps<=3,idx -1..2)", mc.memory_cfg(4, 1, "own", 3, 3, 1, 2)),
            ("MC_Memory(sz=1,arr n=3,views<=2,steps<=2,idx -1..4)", mc.memory_cfg(1, 3, "arr", 2, 2, 1, 4)),
            ("MC_Memory(sz=3,arr n=2,views<=3,steps<=3,casts,idx -1..2)", mc.memory_cfg(3, 2, "arr", 3, 3, 1, 2))]
    if not ctx.quick:
        runs += [("MC_Memory(sz=1,arr n=3,views<=3,steps<=3,idx -1..4)", mc.memory_cfg(1, 3, "arr", 3, 3, 1, 4)),
                 ("MC_Memory(sz=2,arr n=3,views<=3,steps<=3,idx -1..4)", mc.memory_cfg(2, 3, "arr", 3, 3, 1, 4)),
                 ("MC_Memory(sz=8,arr n=2,views<=3,steps<=3,idx -2..3)", mc.memory_cfg(8, 2, "arr", 3, 3, 2, 3)),
                 ("MC_Memory(sz=12,arr n=2,views<=3,steps<=3,casts,idx -1..3)", mc.memory_cfg(12, 2, "arr", 3, 3, 1, 3)),
                 ("MC_Memory(sz=20,arr n=2,views<=3,steps<=2,casts,idx -1..3)", mc.memory_cfg(20, 2, "arr", 3, 2, 1, 3)),
                 ("MC_Memory(sz=6,own,views<=3,steps<=3,casts,idx -1..2)", mc.memory_cfg(6, 1, "own", 3, 3, 1, 2))]
    return runs


def submit_design(ctx, jobs):
    for name, cfg in design_runs(ctx):
        jobs.submit(name, "Memory", cfg_text=cfg, workers=4 if ctx.quick else 8, timeout=3000)
    for v, rk in VARIANTS:
        # "mask" (multiple-of-item-size test by bit mask) is wrong only for sizes that are not powers of two
        cfg = mc.memory_cfg(3 if v == "mask" else 2, (3 if v == "memcpy_fwd" else 2) if rk == "arr" else 1, rk, 3, 2, 1, 3,
                            variant=v)
        jobs.submit("sanity:" + v, "Memory", cfg_text=cfg, workers=2, timeout=1200)


def collect_design(ctx, jobs):
    for name, _cfg in design_runs(ctx):
        ctx.add_tlc(name, jobs.result(name))
    for v, _rk in VARIANTS:
        r = jobs.result("sanity:" + v)
        ctx.add_tlc("sanity:" + v, r, require_ok=False, count_states=False)
        if r.ok or "is violated" not in r.out:
            raise core.MachineryError("broken variant %s of the implementation model was not rejected by TLC:\n%s"
                                      % (v, r.out[-1500:]))


def key_of(meta, clause, tr, pos):
    ev = tr["ev"][pos - 1] if 0 < pos <= len(tr["ev"]) else {}
    k = tr["k"]
    if ev.get("a"):
        # kind of the view the failing operation was applied to, as observed
        k = "root:" + tr["k"] if ev["a"] == 1 else "derived"
    return "%s:%s:%s" % (clause, k, meta.get("elem", "?"))


def judge(ctx, traces, metas, bad):
    for k, clause, pos in bad:
        tr = traces[k]
        ctx.violation(key_of(metas[k], clause, tr, pos), CLAUSE.get(clause, clause),
                      {"meta": metas[k], "trace": tr, "failing_event_index": pos,
                       "failing_event": tr["ev"][pos - 1] if 0 < pos <= len(tr["ev"]) else None})


def run(ctx):
    skip = bool(os.environ.get("VERIF_MEM_SKIP_DESIGN"))      # development aid for mutation experiments only
    jobs = mc.TlcJobs()
    submit_dumps(ctx, jobs)
    if skip:
        ctx.cov["states"] = 1
    else:
        submit_design(ctx, jobs)
    traces, metas, divergences = [], [], []
    spec_to_code(ctx, jobs, traces, metas, divergences)
    nreplay = len(traces)
    code_to_spec(ctx, traces, metas)
    bad = validate(ctx, traces)
    if not skip:
        collect_design(ctx, jobs)
    judge(ctx, traces, metas, bad)
    observations(ctx)
    ctx.cov["model_divergences"] = divergences[:10]
    ctx.cov["model_divergence_count"] = len(divergences)
    if divergences:
        print("NOTE C16: %d replays left the implementation model (first: %s); verdicts come from the ideal"
              % (len(divergences), divergences[0]))
    ctx.cov["replayed_behaviours"] = nreplay
    ctx.cov["random_histories"] = len(traces) - nreplay
    ctx.cov["rule"] = ("evaluations = operations executed on real cdata; distinct = (element kind, root flavour, "
                       "operation) triples exercised by the random driver; every replayed graph edge is a distinct "
                       "(state, operation) pair of the model")
    ctx.cov["exhaustive"] = False
    ctx.assumptions += ["x86-64 little endian; byte codecs of the element kinds use struct/int.from_bytes, not cffi",
                        "accesses through pointer-derived views are only issued inside the backing store "
                        "(anything else is undefined behaviour in C)",
                        "indices beyond ssize_t, non-integer indices and slices of owning pointers are outside the "
                        "statement: recorded under observations_outside_statement, not judged"]


def replay(ctx, obj):
    """Re-execute the recorded operations on a fresh arena and validate the new trace."""
    rp = obj["replay"]
    tr0 = rp["trace"]
    kind = mc.KINDS[tr0["kind"]]
    ar = mc.Arena(kind, tr0["flavor"], tr0["len"], bytes(tr0["mem"]))
    tr = ar.header()
    tr["ev"] = []
    for e in tr0["ev"][:rp["failing_event_index"]]:
        op = dict(e)
        op["vals"] = [bytes(v) for v in e["vals"]]
        tr["ev"].append(ar.apply(op))
    bad = validate(ctx, [tr])
    ctx.cov["states"] = max(ctx.cov["states"], 1)
    judge(ctx, [tr], [rp["meta"]], bad)
    print("replayed %d operations on %s/%s: %s" % (len(tr["ev"]), kind.name, tr0["flavor"],
                                                  "rejected by the ideal (%s)" % bad[0][1] if bad else "accepted"))


def selftest(ctx):
    """A correct recorded history is accepted; corrupting one observed field (a value read, a
    status, a changed byte, a derived address) makes TLC reject it with the matching clause."""
    rng = ctx.rng
    tr = random_trace(ctx, rng, mc.KINDS["int32_t"], "slice", 6, 60)
    import copy
    cases = [copy.deepcopy(tr)]
    want = ["ok"]
    for op, field, clause in [("getitem", "val", "getitem:value"), ("setitem", "chg", "setitem:memory"),
                              ("slice", "voff", "slice:view"), ("add", "voff", "add:address")]:
        t2 = copy.deepcopy(tr)
        for pos, e in enumerate(t2["ev"]):
            if e["op"] == op and e["st"] == "ok" and (field != "chg" or e["chg"]):
                if field in ("val", "chg"):
                    e[field][0] ^= 1
                else:
                    e[field] += 4
                cases.append(t2)
                want.append(clause)
                break
    t3 = copy.deepcopy(tr)
    for e in t3["ev"]:
        if e["op"] == "getitem" and e["st"] == "IndexError":
            e["st"] = "ok"
            cases.append(t3)
            want.append("getitem:not-IndexError")
            break
    bad = dict((k, c) for k, c, _p in validate(ctx, cases))
    got = [bad.get(k, "ok") for k in range(len(cases))]
    print("selftest verdicts:", got)
    ctx.cov["states"] = max(ctx.cov["states"], 1)
    return got == want and len(cases) >= 4


META = {
    "category": "model_checking",
    "text": "Memory.tla states C16 as guard/effect operators over a byte arena and cdata views and, next to it, a "
            "model of cffi's index/slice/arithmetic code transcribed from _cffi_backend.c; TLC explores all "
            "operation sequences (<=3-4 steps, derived views to depth 2-3, every index/bound in -1..n+1, "
            "missing bounds, steps, value counts n-1/n/n+1, overlapping view-to-view assignment) and checks that "
            "every step of the model satisfies the ideal, plus the aliasing/difference/addressof laws, and rejects "
            "six broken variants. Every edge of the dumped small state graphs is executed on real cdata of "
            "several element kinds and root flavours with result class, value, derived addresses and "
            "bytes(ffi.buffer(root)) + guard zones compared after each step; seeded random histories on arrays up "
            "to 1000 items of 23 element kinds are recorded and validated by TLC against the ideal "
            "(Trace_Memory.tla).",
    "note": "Trusted: TLC, gcc, struct/int.from_bytes as the byte codec. Pointer-derived views are only "
            "dereferenced inside the backing store. Indices beyond ssize_t, non-int indices, casts between item "
            "sizes and slices of owning pointers are outside the statement (observations only).",
    "technique": "TLA+ refinement (TLC action property) + replay of every edge of TLC state graphs on real cdata "
                 "+ TLC trace validation of random histories",
    "design_ref": "DESIGN.md §3 C16",
}
