"""C17 — cdata equality, ordering and hashing are mutually consistent.

Design level : specs/CompareIdeal.tla (exact order of Python numbers of any size as sign /
               exponent / binary digits, bytes, str, complex, 64-bit addresses as limbs; the three
               clauses of the statement as guards) and specs/Compare.tla (cdata_richcompare and
               cdata_hash under Python's reflected-operand protocol).  TLC, over all triples of a
               46-object universe (primitive cdata and Python values for -1, -2, 0, -0.0, 1, 3, 0.5, 2^63,
               +-(2^61-1), 2(2^61-1), 2^61 (the boundaries of CPython's numeric hash), inf, NaN, b'a', 'a', complex; long double; True; 6 pointer-like cdata on 4 addresses):
               the model satisfies the clauses; equality is reflexive (NaN excepted), symmetric,
               transitive, orderings are dual, addresses are totally ordered - i.e. a consistent hash
               exists - and the model's hash respects every equality it reports, demanded or not.
               Three broken variants must be rejected.
Binding      : spec -> code: every ordered pair of the universe is built from real objects and
               executed.  code -> spec: a seeded driver draws pairs from primitive cdata of every
               integer/float/char/complex/enum type (values chosen exactly representable), pointer /
               array / slice / struct / union / function cdata at shared and distinct addresses
               (including addresses >= 2^63), and Python ints/floats/bools/bytes/str/complex near the
               same values; records the six outcomes, both hashes, set membership, and Python's own
               outcomes on the plain values.  TLC first checks Python against the specification's
               model of Python (disagreement = machinery error), then cffi against the clauses.
"""
from harness import core
from harness.mem2_common import batch_verdicts, tlc_many, cfg_text, printed_tuple
from harness import mem2_compare as mc
from harness.mem2_child import run_child

LEVEL = "model_checking"

INVS = ["Refines", "HashLaw", "HashAsValue", "Reflexive", "Symmetric", "Transitive", "NeIsNotEq", "Trichotomy",
        "HashLawAll"]
CLAUSE = {
    "cmp.address": "pointer-like cdata do not compare as their addresses do",
    "cmp.value": "a primitive cdata does not compare as the Python value it converts to",
    "hash.law": "a == b but hash(a) != hash(b)",
    "hash.value": "a primitive cdata does not hash as the Python value it converts to",
    "set.member": "set membership disagrees with == and hash",
}


def design_level(ctx):
    jobs = [("MC_Compare(46 objects, all pairs and triples)", dict(module="Compare", workers=6, timeout=1500,
                                                         cfg_text=cfg_text("Spec", {"Variant": "faithful"}, INVS)))]
    for v in ("hashobj", "hashbits", "ptreqint"):
        jobs.append(("sanity:" + v, dict(module="Compare", workers=2, cfg_text=cfg_text("Spec", {"Variant": v}, INVS))))
    res = tlc_many(jobs, par=4)
    for name, _ in jobs:
        ctx.add_tlc(name, res[name], require_ok=name.startswith("MC_"), count_states=name.startswith("MC_"))
    ctx.cov["sanity_rejected_by"] = {}
    for v in ("hashobj", "hashbits", "ptreqint"):
        r = res["sanity:" + v]
        if r.ok or not r.invariant_violated:
            raise core.MachineryError("broken variant %s of the model was not rejected by TLC" % v)
        ctx.cov["sanity_rejected_by"][v] = r.invariant_violated[0]
    uni = printed_tuple(res[jobs[0][0]].out, "UNIVERSE")
    if not uni:
        raise core.MachineryError("Compare.tla did not print its universe")
    return uni[1]


def unnum(v):
    """the Python number described by a specification "num" value"""
    if v["c"] == "zero":
        return -0.0 if v["neg"] else 0
    if v["c"] == "inf":
        return float("-inf") if v["neg"] else float("inf")
    if v["c"] == "nan":
        return float("nan")
    n = int("".join(map(str, v["m"])), 2)
    sh = v["e"] - (len(v["m"]) - 1)
    x = n * (1 << sh) if sh >= 0 else n / float(1 << -sh)
    return -x if v["neg"] else x


def norm(x):
    if isinstance(x, tuple):
        return [norm(y) for y in x]
    if isinstance(x, dict):
        return {k: norm(v) for k, v in x.items()}
    return x


def realize(pools, o):
    """a real object for an object of the specification's universe (None: C has no such cdata)"""
    ffi = pools.ffi
    v = norm(o["v"])
    side = {"id": o["id"], "cd": o["cd"], "ptr": o["ptr"], "v": v}
    k = v["k"]
    if k == "addr":
        addr = sum(l << s for l, s in zip(v["a"], (48, 32, 16, 0)))
        T = ["void *", "int *", "char *", "struct s17 *"][o["id"] % 4]
        obj, plain = ffi.cast(T, addr), None
    elif k == "opaque":
        obj, plain = ffi.cast("long double", 1.5), None
    else:
        if k == "num":
            plain = unnum(v)
            if o["id"] == 301:
                plain = True
        elif k == "cplx":
            plain = complex(unnum(v["re"]), unnum(v["im"]))
        elif k == "bytes":
            plain = bytes(v["u"])
        else:
            plain = "".join(map(chr, v["u"]))
        if not o["cd"]:
            obj = plain
        elif k == "num":
            if isinstance(plain, float):
                obj = ffi.cast("double", plain)
            else:
                small = ["long long", "signed char", "int"][o["id"] % 3]
                obj = ffi.cast(small if -128 <= plain < 128 else "int64_t" if plain < (1 << 63) and o["id"] % 2 else
                               "uint64_t" if plain >= 0 else "long", plain)
        elif k == "cplx":
            obj = ffi.cast("double _Complex", plain)
        elif k == "bytes":
            if len(plain) != 1:
                return None
            obj = ffi.cast("char", plain)
        else:
            obj = ffi.cast("wchar_t", plain)
    ob = mc.Obj(obj, o["cd"], o["ptr"], v, plain, "universe object %d" % o["id"])
    ob.side = side
    return ob


def replay_universe(ctx, pools, universe, recs):
    objs = [realize(pools, o) for o in sorted(universe, key=lambda o: o["id"])]
    objs = [o for o in objs if o is not None]
    for a in objs:
        for b in objs:
            if a.side["cd"] or b.side["cd"]:
                ctx.about("%s ~ %s" % (a.what, b.what))
                recs.append(pools.observe(a, b))
                ctx.case(("universe", a.side["id"], b.side["id"]))
    ctx.cov["universe_objects_realized"] = len(objs)


def judge(ctx, recs, report=True):
    send = [{k: v for k, v in r.items() if k not in ("what", "spec")} for r in recs]
    # a SPECBUG line (Python disagrees with the specification's model of Python) raises MachineryError
    verdicts, diverge, _t = batch_verdicts(ctx, "Trace_Compare", send, chunk=3000 if ctx.quick else 5000)
    nbad = 0
    for i in sorted(verdicts):
        for clause in verdicts[i]:
            nbad += 1
            if report:
                r = recs[i]
                kinds = "%s~%s" % (kind(r["a"]), kind(r["b"]))
                ctx.violation("%s:%s" % (clause, kinds), CLAUSE.get(clause, clause), r)
    ctx.validated(len(recs))
    return nbad, diverge


def kind(side):
    return ("ptr" if side["ptr"] else "prim-" + side["v"]["k"]) if side["cd"] else "py-" + side["v"]["k"]


def produce(cc, args):
    """executed in a sub-process (harness.mem2_child): everything that touches the real cffi"""
    pools = mc.Pools(cc.rng)
    recs = []
    replay_universe(cc, pools, args["universe"], recs)
    nuni = len(recs)
    for _ in range(5000 if cc.quick else 100000):
        a, b = pools.pair()
        cc.about("%s ~ %s" % (a.what, b.what))
        recs.append(pools.observe(a, b))
        cc.case((recs[-1]["what"][0], recs[-1]["what"][1]))
    return {"recs": recs, "nuni": nuni}


def run(ctx):
    universe = design_level(ctx)
    out = run_child(ctx, "c17", {"universe": norm(universe)})
    if out is None:
        return
    recs, nuni = out["recs"], out["nuni"]
    nbad, diverge = judge(ctx, recs)
    div = ["record %d %r: outcomes %r differ from the model" % (i, recs[i]["what"], recs[i]["res"]) for i in sorted(diverge)]
    ctx.cov["model_divergences"] = div[:10]
    ctx.cov["model_divergence_count"] = len(div)
    if div:
        print("NOTE C17: %d differences from the implementation model (first: %s); verdicts come from the ideal"
              % (len(div), div[0]))
    kinds = {}
    for r in recs[nuni:]:
        kk = "%s~%s" % (kind(r["a"]), kind(r["b"]))
        kinds[kk] = kinds.get(kk, 0) + 1
    ctx.cov["pair_kinds"] = kinds
    ctx.cov["equal_pairs"] = sum(1 for r in recs if r["res"][0] == "T")
    ctx.cov["records"] = {"from_TLC_universe": nuni, "from_driver": len(recs) - nuni}
    for r in recs[nuni:]:
        if r["res"][0] == "T" and r["a"]["v"]["k"] != r["b"]["v"].get("k") or (r["a"]["ptr"] and r["b"]["ptr"] and r["res"][0] == "T"):
            ctx.sample(r, limit=4)
    ctx.cov["rule"] = "distinct = distinct (object, object) descriptions compared; every pair has at least one cdata"
    ctx.cov["exhaustive"] = True     # every ordered pair of the TLC universe that exists in C was executed
    ctx.assumptions += ["the value a primitive cdata stands for is the exactly representable value given to ffi.cast",
                        "addresses are read with ffi.cast('uintptr_t', x)",
                        "Python's own comparisons on the plain values are validated against the specification first",
                        "comparisons between a pointer-like cdata and anything else are constrained by the hash law only"]


def replay(ctx, obj):
    """rebuild the two objects from their descriptions (pointer-like cdata as casts of the recorded address),
    observe the pair again on the current tree and judge it"""
    old = obj["replay"]
    pools = mc.Pools(ctx.rng)
    ctx.cov["states"] = ctx.cov["transitions"] = 1
    objs = []
    for side, spec in zip((old["a"], old["b"]), old["spec"]):
        o = mc.Obj(mc.rebuild(pools.ffi, spec), side["cd"], side["ptr"], side["v"],
                   mc.dec_plain(spec["plain"]) if spec.get("plain") and side["v"]["k"] != "opaque" else None, "rebuilt")
        objs.append(o)
    if old["same"]:
        objs[1] = objs[0]
    rec = pools.observe(objs[0], objs[1])
    nbad, _d = judge(ctx, [rec])
    print("re-executed pair %r: outcomes %r, %s" % (old.get("what"), rec["res"],
                                                     "rejected by the ideal" if nbad else "accepted"))


def selftest(ctx):
    pools = mc.Pools(ctx.rng)
    ffi = pools.ffi
    a = mc.Obj(ffi.cast("int", 1), True, False, mc.num(1), 1, "cast(int,1)")
    b = mc.Obj(1.0, False, False, mc.num(1.0), 1.0, "1.0")
    p, pa = pools.ptr()
    q = mc.Obj(ffi.cast("void *", pa), True, True, {"k": "addr", "a": mc.limbs(pa)}, None, "(void*)same")
    good = [pools.observe(a, b), pools.observe(p, q)]
    ok1 = judge(ctx, good, report=False)[0] == 0 and good[0]["res"][0] == "T" and good[1]["res"][0] == "T"
    bad1 = dict(good[0], hb=[0, 1, 2, 3, 4], hvb=[0, 1, 2, 3, 4])     # equal but different hash
    bad2 = dict(good[1], res=["F", "T", "T", "T", "F", "F"])            # same address reported as smaller
    bad3 = dict(good[0], res=["F", "T", "F", "F", "T", "T"])            # 1 == 1.0 reported false
    ok2 = judge(ctx, [bad1, bad2, bad3], report=False)[0] >= 3
    return ok1 and ok2


META = {
    "category": "model_checking",
    "text": "TLC checks over all triples of a 46-object universe that the model of cdata_richcompare/cdata_hash under "
            "Python's comparison protocol satisfies the three clauses, that the demanded relation is reflexive (NaN "
            "excepted), symmetric, transitive and dual (so a consistent hash exists) and that the model's hash respects "
            "every equality it reports; every ordered pair of that universe and seeded random pairs over all primitive "
            "types, pointer-like cdata at shared/distinct addresses and nearby Python values are executed, and TLC "
            "judges the six outcomes, the hashes and set membership of every pair, after validating Python's own "
            "comparisons against the specification's exact number model.",
    "note": "Values of primitive cdata are known to the driver as the exactly representable value given to ffi.cast; "
            "hash equality is compared literally (64-bit, as limbs). NaN has no value hash (CPython hashes NaN by "
            "identity). Pointer-vs-non-pointer comparisons are constrained by the hash law only.",
    "technique": "TLA+ relational laws + model vs clauses (TLC) + execution of the TLC universe + TLC validation of recorded pairs",
    "design_ref": "DESIGN.md §3 C17",
}
