"""C02 — bitfield reads and writes are range-exact, round-trip and isolated.

Design level : specs/IntConv.tla, bit-field section: the ideal (BfAccepts / IdealBfWrite /
               IdealBfRead with the laws RoundTrip and Isolation) against the transcription of
               convert_from_object_bitfield / convert_to_object_bitfield over a parametric
               word; TLC compares them for every (kind, width 1..W, shift, storage content,
               value) with W up to the full "long long" width.  The variant "orig" (mask
               computed as (1ULL << width) - 1, undefined for the full width) must be rejected.
Binding      : random structs of bit-fields of every integer type and _Bool (widths 1..full
               width, neighbours of other types) are declared in-line; every field is written
               with boundary / 70-bit values and read, from Python and from compiled C
               accessors of the same declaration; TLC validates every record against the ideal
               at the true width (Trace_IntConv.tla: accept-iff-in-range, stored-bits,
               isolation, readback, c-reads-same, unchanged-on-reject).
"""
import os
from harness import core
from harness.intconv import bv, validate_records

LEVEL = "model_checking"

BF_TYPES = [("signed char", 8, "signed"), ("unsigned char", 8, "unsigned"), ("short", 16, "signed"),
            ("unsigned short", 16, "unsigned"), ("int", 32, "signed"), ("unsigned int", 32, "unsigned"),
            ("long", 64, "signed"), ("unsigned long", 64, "unsigned"), ("long long", 64, "signed"),
            ("unsigned long long", 64, "unsigned"), ("_Bool", 8, "bool")]
PLAIN = ["char", "short", "int", "long long", "double"]


def gen_struct(rng, idx, force=None):
    """-> (name, [ (fname, ctype, width or None, kind, typebits) ])"""
    fields = []
    n = rng.randint(1, 5)
    for k in range(n):
        if force is not None and k == 0:
            t, w, kind, bs = force
        elif rng.random() < 0.2:
            fields.append(("p%d" % k, rng.choice(PLAIN), None, None, None))
            continue
        else:
            t, w, kind = rng.choice(BF_TYPES)
            if kind == "bool":
                bs = 1
            else:
                bs = rng.choice([1, 2, 3, w - 1, w, rng.randint(1, w), rng.randint(1, w)])
        fields.append(("f%d" % k, t, bs, kind, w))
    return "bs%d" % idx, fields


def render(name, fields):
    body = "".join("  %s %s%s;\n" % (t, f, (" : %d" % bs) if bs else "") for f, t, bs, k, w in fields)
    return "struct %s {\n%s};\n" % (name, body)


def values_for(rng, bs, n_extra):
    vals = set([0, 1, -1, 2, -2])
    for k in (bs - 1, bs):
        for s in (1, -1):
            for d in (-2, -1, 0, 1, 2):
                vals.add(s * (1 << k) + d)
    for _ in range(n_extra):
        vals.add(rng.randint(-(1 << bs), 1 << bs))
        vals.add(rng.randint(-(1 << 70), 1 << 70))
    vals.add(rng.choice((1, -1)) * (1 << rng.choice((31, 32, 63, 64))) + rng.randint(-1, 1))
    # aliases: out-of-range values congruent to an in-range one modulo 2^32 / 2^64 / 2^bs
    # (a range check on a truncated or masked copy accepts them)
    inr = [0, 1, (1 << (bs - 1)) - 1 if bs > 1 else 0]
    for k in (bs, 32, 63, 64):
        if k >= bs:
            x = rng.choice(inr)
            vals.add(x + (1 << k))
            vals.add(x - (1 << k))
    return sorted(vals)


def build(ctx, structs, tag):
    import cffi
    csrc = ["#include <string.h>\n"]
    cdef = []
    for name, fields in structs:
        csrc.append(render(name, fields))
        cdef.append(render(name, fields))
        for f, t, bs, kind, w in fields:
            if bs:
                rt = "long long" if kind == "signed" else "unsigned long long"
                csrc.append("%s get_%s_%s(struct %s *p) { return p->%s; }\n" % (rt, name, f, name, f))
                cdef.append("%s get_%s_%s(struct %s *p);\n" % (rt, name, f, name))
        csrc.append("int size_%s(void) { return (int)sizeof(struct %s); }\n" % (name, name))
        cdef.append("int size_%s(void);\n" % name)
    so = core.gcc_shared("".join(csrc), os.path.join(ctx.tmp, "libbf_%s.so" % tag))
    ffi = cffi.FFI()
    ffi.cdef("".join(cdef))
    lib = ffi.dlopen(so)
    return ffi, lib


def drive(ctx, ffi, lib, structs, n_extra, records, metas):
    rng = ctx.rng
    for name, fields in structs:
        ct = ffi.typeof("struct " + name)
        if ffi.sizeof(ct) != getattr(lib, "size_" + name)():
            # layout disagreement is C01's subject; the C accessor comparison below would be
            # meaningless, so skip the struct here (C01 reports it).
            ctx.cov.setdefault("skipped_layout_mismatch", []).append(name)
            continue
        fmeta = dict(ct.fields)
        for f, t, bs, kind, w in fields:
            if not bs:
                continue
            fld = fmeta[f]
            base = {"w": w, "kind": kind, "sh": fld.bitshift, "bs": fld.bitsize, "foff": 8 * fld.offset}
            cget = getattr(lib, "get_%s_%s" % (name, f))
            # ---- reads of arbitrary storage
            for _ in range(2):
                p = ffi.new("struct %s *" % name)
                buf = ffi.buffer(p)
                buf[:] = bytes(rng.randrange(256) for _ in range(len(buf)))
                try:
                    rb = int(getattr(p, f)); out = "ok"
                except Exception as e:
                    rb = 0; out = "other:" + type(e).__name__
                rec = dict(base, op="bfread", id=len(records), mem=list(bytes(buf)), out=out, rb=bv(rb),
                           hascrb=True, crb=bv(int(cget(p))))
                records.append(rec)
                metas.append({"struct": render(name, fields), "field": f, "type": t, "bs": bs, "op": "read"})
                ctx.case((t, bs, fld.bitshift, "read", rb))
            # ---- writes
            for v in values_for(rng, bs, n_extra):
                p = ffi.new("struct %s *" % name)
                buf = ffi.buffer(p)
                buf[:] = bytes(rng.randrange(256) for _ in range(len(buf)))
                b0 = bytes(buf)
                try:
                    setattr(p, f, v); out = "ok"
                except OverflowError:
                    out = "overflow"
                except Exception as e:
                    out = "other:" + type(e).__name__
                b1 = bytes(buf)
                try:
                    rbv = int(getattr(p, f))
                except Exception as e:       # a read-back that raises is an outcome of its own
                    rbv, out = 0, "other:readback-" + type(e).__name__
                rec = dict(base, op="bf", id=len(records), v=bv(v), out=out, before=list(b0), after=list(b1),
                           rb=bv(rbv), hascrb=True, crb=bv(int(cget(p))))
                records.append(rec)
                metas.append({"struct": render(name, fields), "field": f, "type": t, "bs": bs, "v": v, "out": out,
                              "op": "write"})
                ctx.case((t, bs, fld.bitshift, "write", v))


def key_of(m, clause):
    full = "full64" if m["bs"] == 64 else "w<64"
    return "bf:%s:%s:%s:%s" % (m["op"], m["type"].replace(" ", "_"), full, clause)


def run(ctx):
    quick = ctx.quick
    rng = ctx.rng
    r = core.tlc("IntConv", "MC_IntConv")
    ctx.add_tlc("MC_IntConv(LL=5: every kind/width/shift/content/value)", r)
    r = core.tlc("MC_BV", workers=8)
    ctx.add_tlc("MC_BV", r)
    cfgtxt = open(os.path.join(core.SPECS, "MC_IntConv.cfg")).read()
    r = core.tlc("IntConv", cfg_text=cfgtxt.replace('"fixed"', '"orig"'), workers=4)
    ctx.add_tlc("sanity:orig(mask=(1<<w)-1)", r, require_ok=False, count_states=False)
    if "is violated" not in r.out or "Bf" not in r.out:
        raise core.MachineryError("the full-width mask defect is not rejected by the model check")
    structs = []
    idx = 0
    # every (type, width class) at least once at the head of a struct
    for t, w, kind in BF_TYPES:
        for bs in ([1] if kind == "bool" else sorted(set([1, 2, w // 2, w - 1, w]))):
            structs.append(gen_struct(rng, idx, force=(t, w, kind, bs)))
            idx += 1
    for _ in range(40 if quick else 1500):
        structs.append(gen_struct(rng, idx))
        idx += 1
    records, metas = [], []
    for k in range(0, len(structs), 400):
        ffi, lib = build(ctx, structs[k:k + 400], str(k))
        drive(ctx, ffi, lib, structs[k:k + 400], 1 if quick else 4, records, metas)
    for i in (0, len(records) // 2, len(records) - 1):
        ctx.sample({"meta": metas[i], "record": {k: v for k, v in records[i].items() if k not in ("id",)}})
    bad = validate_records(ctx, records)
    for i, clause in sorted(bad.items()):
        m = metas[i]
        ctx.violation(key_of(m, clause),
                      "%s of field %s (%s : %d)%s: clause %s failed" % (
                          m["op"], m["field"], m["type"], m["bs"], " value %d" % m["v"] if "v" in m else "", clause),
                      {"meta": m, "record": records[i]})
    ctx.cov["rule"] = ("one record per (struct, bit-field, value) write and per random-storage read; distinct = distinct "
                       "(type, width, shift, op, value); structs: every type x width class, then random mixes")
    ctx.assumptions += ["field positions are cffi's own metadata (C01 checks them against gcc); the C accessor "
                        "comparison ties reads to the compiler's placement", "gcc, x86-64 little-endian"]


def replay(ctx, obj):
    rec = obj["replay"]["record"]
    rec["id"] = 0
    bad = validate_records(ctx, [rec])
    ctx.cov["states"] = ctx.cov["transitions"] = 1
    if bad:
        ctx.violation(obj["key"], obj["what"], obj["replay"])
    print("replayed recorded bit-field access: %s" % (bad or "accepted"))


def selftest(ctx):
    structs = [("bsx", [("f0", "int", 5, "signed", 32), ("f1", "unsigned int", 7, "unsigned", 32)])]
    ffi, lib = build(ctx, structs, "st")
    records, metas = [], []
    drive(ctx, ffi, lib, structs, 0, records, metas)
    ok1 = not validate_records(ctx, records)
    for r in records:
        if r["op"] == "bf" and r["out"] == "ok":
            r["after"][3] ^= 0x80       # a bit outside both fields
            break
    ok2 = "isolation" in validate_records(ctx, records).values()
    return ok1 and ok2


META = {
    "category": "model_checking",
    "text": "TLC compares the transcribed bit-field read/write algorithms with the ideal for every kind, width (up to the "
            "full width of the widest type), shift, storage content and value over a small word; real bit-field "
            "writes/reads on random struct declarations (all integer types, widths 1..64) are recorded with bytes "
            "before/after, the Python read-back and the value read by compiled C, and validated by TLC against the "
            "ideal at the true width.",
    "note": "Trusted: TLC, gcc (C accessors), cffi's field metadata for locating the field (checked against gcc by C01 "
            "and indirectly by the C read-back here).",
    "technique": "TLA+ ideal vs transcribed algorithm (TLC exhaustive, small word) + TLC validation of real bit-field records",
    "design_ref": "DESIGN.md §3 C02",
}
