"""C21 — ownership, destructors and handles over any history.

Design level : specs/LifetimeIdeal.tla is the property as a machine over the operations of a program
               on cdata objects and over the references the program holds (reachability along the
               documented keep-alive relations): a destructor / allocator free runs at most once, never
               after ffi.gc(p, None), only when its object is released or unreachable, at release for
               ffi.gc() wrappers, and at the latest at the next collection; release is idempotent; an
               exporter is locked and alive exactly while an unreleased, uncollected view exists; struct
               memory is valid while p or p[0] is referenced; handles return their object and are
               distinct.  specs/Lifetime.tla is the implementation model (reference counting with
               deallocation cascades, the cycle collector's tp_finalize-then-clear order, and the
               cdata_exit / cdatagcp_* / cdatafrombuf_* / handle code transcribed); TLC checks every
               history of 2 entities of all 8 kinds (quick; plus 3 entities of the buffer kinds) resp.
               3 entities of all kinds (thorough) and four broken variants.
Binding      : spec -> code: walks and a transition cover of the explored graph are executed on real
               cdata objects (gc disabled, explicit gc.collect()); code -> spec: random histories of up
               to 200 operations on up to 40 objects.  Every operation records the destructor / free
               calls that ran during it, the exception and probe observations (BufferError on resize,
               weakrefs, struct content, from_handle identity, handle addresses).  TLC validates all
               histories against the ideal (verdicts name the clause) and against the implementation
               model (notes on divergence).
"""
import json, os, subprocess, time
from harness import core, tlaval, life_common

LEVEL = "model_checking"
ALLK = '"P","S","W","A","T","V","E","H"'

MC = """SPECIFICATION Spec
CONSTANTS Ids = {%s}
  MaxAddr = %d
  Variant = "%s"
  KindsOn = {%s}
VIEW View
PROPERTY RefinesIdeal
%s
CHECK_DEADLOCK FALSE
"""
FULL = """INVARIANT NoLeak
INVARIANT ExportsExact
INVARIANT ArmedAgree"""
TRACE_IDEAL = """SPECIFICATION TSpec
CONSTANTS Ids = {%s}
CHECK_DEADLOCK FALSE
"""
TRACE_IMPL = """SPECIFICATION TSpec
CONSTANTS Ids = {%s}
  MaxAddr = 1000
  Variant = "faithful"
  KindsOn = {""" + ALLK + """}
CHECK_DEADLOCK FALSE
"""
NIDS = 24
WORKER = os.path.join(core.VERIF, "harness", "life_ltworker.py")
VARIANTS = [("clear-after-call", "1,2", '"P","W"'), ("nofieldclear", "1,2", '"P","W","A","T"'), ("gcnonenoop", "1,2", '"P","W"'),
            ("structnoref", "1,2", '"S","W"'), ("doublerelease", "1,2,3", '"E","V"')]

CLAUSE = {
    "AtMostOnce": "a destructor / allocator free function ran a second time",
    "NeverAfterNone": "a destructor ran after ffi.gc(p, None)",
    "OnlyWhenDue": "a destructor / free function ran while its object was still referenced and not being released",
    "AtRelease": "ffi.release() / with-exit of an armed ffi.gc() wrapper did not run its destructor",
    "AtCollection": "an unreachable object's destructor / free function had not run after gc.collect()",
    "Idempotent": "ffi.release() / with-exit raised",
    "Locked": "the exporter could be resized while a referenced, unreleased from_buffer view exists",
    "Unlocked": "the exporter is still export-locked although all its views are released or collected",
    "KeptAlive": "the exporter died while a referenced, unreleased from_buffer view exists",
    "StructValid": "memory of a struct pointer is no longer valid while p or p[0] is referenced",
    "FromHandle": "ffi.from_handle(h) did not return the object given to new_handle()",
    "HandleDistinct": "two live handles have the same address",
    "UnknownCall": "a destructor ran for an unknown object",
}
CDATA = ("P", "S", "W", "A", "T", "V")


def ops_from_path(path, rng):
    """render a path of the explored graph of Lifetime.tla as worker operations, then drop everything"""
    ops, n, names, aliases, kinds = [], 0, set(), set(), {}
    for act, a in path:
        if act in ("New", "NewW", "NewV", "NewH"):
            n += 1
            k = a[0] if act == "New" else act[3]
            t = a[0] if act in ("NewW", "NewV") else 0
            sc = bool(a[1]) if act == "NewW" else bool(a[0]) if act == "NewH" else False
            ops.append(["new", n, k, t, sc, a[2] if act == "NewW" else 0])
            names.add(n)
            kinds[n] = k
        elif act == "Alias":
            ops.append(["alias", a[0]])
            aliases.add(a[0])
        elif act == "DropAlias":
            ops.append(["dropalias", a[0]])
            aliases.discard(a[0])
        elif act in ("Drop", "Cycle"):
            ops.append([act.lower(), a[0]])
            names.discard(a[0])
        elif act == "Release":
            ops.append(["release", a[0], a[1], rng.choice(["release", "with"])])
        elif act == "GcNone":
            ops.append(["gcnone", a[0]])
        elif act == "Collect":
            ops.append(["collect"])
        elif act in ("ProbeLock", "ProbeAlive", "ProbeStruct"):
            ops.append([act.lower(), a[0]])
        elif act == "FromHandle":
            ops.append(["fromhandle", a[0], rng.choice(["direct", "cast"])])
        else:
            raise core.MachineryError("unknown action %s in the Lifetime graph" % act)
    return ops + quiesce(names, aliases, kinds, rng)


def quiesce(names, aliases, kinds, rng):
    ops = []
    for o in sorted(kinds):
        if kinds[o] == "E":
            ops.append(["probelock", o])
    rest = [["dropalias", o] for o in aliases] + [["drop", o] for o in names]
    rng.shuffle(rest)
    ops += rest + [["collect"]]
    for o in sorted(kinds):
        if kinds[o] == "E":
            ops += [["probealive", o], ["probelock", o]]
    return ops


def random_history(rng, steps, maxobj):
    ops, kinds, names, aliases, n = [], {}, set(), set(), 0
    for _ in range(steps):
        r = rng.random()
        named = sorted(names)
        if (r < 0.30 or not named) and n < maxobj:
            k = rng.choice("PSWATVEHWVW")
            if k == "W":
                cand = [o for o in named if kinds[o] in CDATA]
                if not cand:
                    k = "P"
            if k == "V":
                cand = [o for o in named if kinds[o] == "E"]
                if not cand:
                    k = "E"
            n += 1
            t = rng.choice(cand) if k in ("W", "V") else 0
            rl = 0
            if k == "W" and rng.random() < 0.35:     # the destructor releases itself / a sibling / the next one
                ws = [o for o in kinds if kinds[o] == "W"]
                rl = rng.choice([n, n, min(n + 1, maxobj)] + ws)
            ops.append(["new", n, k, t, k in ("W", "H") and rng.random() < 0.3, rl])
            kinds[n] = k
            names.add(n)
        elif not named and not aliases:
            ops.append(["collect"])
        elif r < 0.42 and named:
            o = rng.choice(named)
            ops.append(["drop" if rng.random() < 0.65 else "cycle", o])
            names.discard(o)
        elif r < 0.52:
            cand = [o for o in named if kinds[o] in ("S", "T")]
            if cand:
                o = rng.choice(cand)
                ops.append(["alias", o])
                aliases.add(o)
        elif r < 0.58 and aliases:
            o = rng.choice(sorted(aliases))
            ops.append(["dropalias", o])
            aliases.discard(o)
        elif r < 0.72:
            cand = [(o, "name") for o in named if kinds[o] in CDATA] + \
                   [(o, "alias") for o in sorted(aliases) if kinds[o] == "T"]
            if cand:
                o, via = rng.choice(cand)
                ops.append(["release", o, via, rng.choice(["release", "with"])])
        elif r < 0.77:
            cand = [o for o in named if kinds[o] == "W"]
            if cand:
                ops.append(["gcnone", rng.choice(cand)])
        elif r < 0.83:
            ops.append(["collect"])
        else:
            k = rng.choice(["probelock", "probealive", "probestruct", "fromhandle"])
            if k in ("probelock", "probealive"):
                cand = [o for o in kinds if kinds[o] == "E"]
            elif k == "probestruct":
                cand = [o for o in kinds if kinds[o] in ("S", "T") and (o in names or o in aliases)]
            else:
                cand = [o for o in named if kinds[o] == "H"]
            if cand:
                o = rng.choice(cand)
                ops.append([k, o] + ([rng.choice(["direct", "cast"])] if k == "fromhandle" else []))
    return ops + quiesce(names, aliases, kinds, rng)


def run_worker(histories, careful=False):
    p = subprocess.run([core.PY, WORKER, json.dumps({"careful": careful})], input=json.dumps(histories),
                       capture_output=True, text=True, env=core.sub_env(), timeout=3000)
    res, cur, at, ended = {}, {}, None, False
    for line in p.stdout.splitlines():
        try:
            m = json.loads(line)
        except ValueError:
            break
        if "end" in m:
            ended = True
        elif "events" in m:
            res[m["h"]] = m["events"]
        elif "at" in m:
            at = (m["h"], m["at"])
        elif "event" in m:
            cur.setdefault(m["h"], []).append(m["event"])
    if careful:
        res = cur
    if ended:
        return res, None
    if p.returncode is not None and p.returncode < 0:
        if not careful:
            # find the history that kills the worker: re-run the unfinished ones one by one, carefully
            done = dict(res)
            for hi in range(len(histories)):
                if hi in done:
                    continue
                r1, death = run_worker([histories[hi]], careful=True)
                done[hi] = r1.get(0, [])
                if death:
                    return done, {"history": hi, "signal": death["signal"], "op_index": death["op_index"]}
            return done, None
        return res, {"history": at[0] if at else 0, "signal": -p.returncode, "op_index": at[1] if at else None}
    raise core.MachineryError("C21 worker failed (rc=%s):\n%s" % (p.returncode, p.stderr[-3000:]))


def rename_addrs(events):
    """handle addresses -> small integers in order of first appearance (an injective renaming)"""
    aid = {}
    for e in events:
        if e["addr"]:
            e["addr"] = aid.setdefault(e["addr"], len(aid) + 1)
    return events


def validate(ctx, traces, impl=True):
    ids = ",".join(str(i) for i in range(1, NIDS + 1))
    jobs = {}
    chunks = life_common.chunks_by_events(traces, 50000, 3000)
    for ci, (_b, ch) in enumerate(chunks):
        jobs["ideal%d" % ci] = (life_common.verdicts, (ctx, "Trace_Lifetime", ch, "VERDICT", None, None, 1, 3600,
                                                       TRACE_IDEAL % ids))
        if impl:
            jobs["impl%d" % ci] = (life_common.verdicts, (ctx, "Trace_LifetimeImpl", ch, "IMPL", None, None, 1, 3600,
                                                          TRACE_IMPL % ids))
    out = life_common.run_limited(jobs, 4)
    bad, div = {}, {}
    for ci, (base, ch) in enumerate(chunks):
        got = {int(t[0]): (core.unq(t[1]), int(t[2])) for t in out["ideal%d" % ci]}
        if len(got) != len(ch):
            raise core.MachineryError("Trace_Lifetime: %d verdicts for %d histories" % (len(got), len(ch)))
        for k, (v, pos) in got.items():
            if v != "ok":
                bad[base + k - 1] = (v, pos)
        if impl:
            got = {int(t[0]): (core.unq(t[1]), int(t[2])) for t in out["impl%d" % ci]}
            if len(got) != len(ch):
                raise core.MachineryError("Trace_LifetimeImpl: %d verdicts for %d histories" % (len(got), len(ch)))
            for k, (v, pos) in got.items():
                if v != "same":
                    div[base + k - 1] = (v, pos)
    return bad, div


def violation_key(events, verdict, pos, kinds):
    e = events[pos - 1]
    k = kinds.get(e["o"], "")
    if verdict in ("AtMostOnce", "NeverAfterNone", "OnlyWhenDue", "UnknownCall"):
        who = sorted({kinds.get(r, "?") for r in e["ran"]})
        return "%s:%s:during-%s" % (verdict, "+".join(who), e["op"])
    return "%s:%s:%s" % (verdict, k, e["op"] + ("-" + e["via"] if e["via"] else ""))


def design_level(ctx, quick):
    dump = os.path.join(ctx.tmp, "lifetime")

    def mc(name, ids, kinds, d, workers):
        r = core.tlc("Lifetime", cfg_text=MC % (ids, 2, "faithful", kinds, FULL), dump=d, workers=workers,
                     timeout=3000)
        ctx.add_tlc(name, r)

    def variant(v, ids, kinds):
        r = core.tlc("Lifetime", cfg_text=MC % (ids, 2, v, kinds, ""), workers=2, timeout=3000)
        ctx.add_tlc("sanity:" + v, r, require_ok=False, count_states=False)
        if r.ok or "RefinesIdeal is violated" not in r.out:
            raise core.MachineryError("broken variant %s of Lifetime was not rejected by TLC:\n%s" % (v, r.out[-1500:]))
    jobs = {"mc2": (mc, ("MC_Lifetime(2 entities, all kinds)", "1,2", ALLK, dump, 4)),
            "mc3b": (mc, ("MC_Lifetime(3 entities, kinds E V W)", "1,2,3", '"E","V","W"', None, 2))}
    if not quick:
        jobs["mc3w"] = (mc, ("MC_Lifetime(3 entities, kinds P W: sibling destructors releasing each other)", "1,2,3",
                             '"P","W"', None, 4))
        jobs["mc3"] = (mc, ("MC_Lifetime(3 entities, all kinds)", "1,2,3", ALLK, None, 6))
    for v, ids, kinds in VARIANTS:
        jobs[v] = (variant, (v, ids, kinds))
    life_common.parallel(jobs)
    g = tlaval.load_dot(dump + ".dot", parse=False)
    out = {}
    for n, es in g.out.items():
        seen, lst = set(), []
        for act, args, dst in es:
            if (act, args) not in seen:
                seen.add((act, args))
                lst.append((act, args, dst))
        out[n] = lst
    acts = {e[0] for es in out.values() for e in es}
    need = {"New", "NewW", "NewV", "NewH", "Alias", "DropAlias", "Drop", "Cycle", "Release", "GcNone", "Collect",
            "ProbeLock", "ProbeAlive", "ProbeStruct", "FromHandle"}
    if need - acts:
        raise core.MachineryError("Lifetime: actions never taken: %s" % sorted(need - acts))
    for a in sorted(acts):
        ctx.cov["actions"]["Lifetime." + a] = sum(1 for es in out.values() for e in es if e[0] == a)
    return g.init[0], out


def graph_paths(init, out, rng, nwalks, cover):
    parent, order = {init: None}, [init]
    for n in order:
        for act, args, dst in out.get(n, []):
            if dst not in parent:
                parent[dst] = (n, act, args)
                order.append(dst)
    edges = [(n, act, args) for n in order for act, args, _d in out.get(n, [])]
    nedges = len(edges)
    if cover is not None and nedges > cover:
        edges = rng.sample(edges, cover)
    paths = []
    for n, act, args in edges:
        p = [(act, args)]
        while parent[n] is not None:
            m, a, ar = parent[n]
            p.append((a, ar))
            n = m
        paths.append(p[::-1])
    for _ in range(nwalks):
        cur, p = init, []
        for _i in range(rng.randrange(6, 18)):
            es = out.get(cur, [])
            if not es:
                break
            act, args, cur = rng.choice(es)
            p.append((act, args))
        paths.append(p)
    return paths, nedges, len(edges)


def kinds_of(ops):
    return {op[1]: op[2] for op in ops if op[0] == "new"}


def run(ctx):
    quick = ctx.quick
    phases = ctx.cov.setdefault("phase_wall_s", {})
    t0 = [time.time()]

    def phase(name):
        phases[name] = round(time.time() - t0[0], 1)
        t0[0] = time.time()
    init, out = design_level(ctx, quick)
    phase("tlc-design")
    rng = ctx.rng
    paths, nedges, ncov = graph_paths(init, out, rng, 200 if quick else 3000, 1500 if quick else None)
    hist = [ops_from_path(p, rng) for p in paths]
    meta = ["model-path"] * len(hist)
    for _ in range(100 if quick else 1500):
        hist.append(random_history(rng, rng.randrange(40, 200), NIDS))
        meta.append("random-history")
    ctx.cov["graph"] = {"transitions": nedges, "transitions_replayed": ncov}
    phase("generate")
    nw = 8
    parts = [list(range(i, len(hist), nw)) for i in range(nw)]
    res = life_common.parallel({i: (run_worker, ([hist[j] for j in idx],)) for i, idx in enumerate(parts) if idx})
    phase("execute")
    traces = [None] * len(hist)
    for i, idx in enumerate(parts):
        if not idx:
            continue
        r, death = res[i]
        for loc, j in enumerate(idx):
            traces[j] = rename_addrs(r.get(loc, []))
        if death:
            j = idx[death["history"]]
            opi = death["op_index"]
            op = hist[j][opi] if opi is not None else ["?"]
            ctx.violation("died:%s:%s" % (op[0], kinds_of(hist[j]).get(op[1] if len(op) > 1 else 0, "")),
                          "the process was killed by signal %s during %r" % (death["signal"], op),
                          {"ops": hist[j][:(opi or 0) + 1]})
    for j, t in enumerate(traces):
        ctx.case((meta[j], json.dumps(hist[j])), n=1)
    bad, div = validate(ctx, traces)
    phase("tlc-validate")
    ctx.validated(len(traces))
    for k, (v, pos) in sorted(bad.items()):
        if v == "Harness":
            raise core.MachineryError("C21 harness produced a history outside the domain of the ideal at %d: %r"
                                      % (pos, traces[k][:pos]))
        ctx.violation(violation_key(traces[k], v, pos, kinds_of(hist[k])), CLAUSE.get(v, v),
                      {"ops": hist[k], "events": traces[k], "failing_event": pos, "clause": v})
    divs = ["%s history, step %d %r: %s differs from the model's prediction" % (
        meta[k], pos, traces[k][pos - 1] if 0 < pos <= len(traces[k]) else None, f) for k, (f, pos) in sorted(div.items())]
    ctx.cov["model_divergences"] = divs[:10]
    ctx.cov["model_divergence_count"] = len(divs)
    if divs:
        print("NOTE C21: %d histories differ from the implementation model (first: %s); verdicts come from the "
              "ideal" % (len(divs), divs[0]))
    calls = sum(len(e["ran"]) for t in traces for e in t)
    incoll = sum(len(e["ran"]) for t in traces for e in t if e["op"] == "collect")
    ctx.cov["destructor_calls_observed"] = calls
    ctx.cov["destructor_calls_in_collect"] = incoll
    ctx.cov["operations"] = sum(len(t) for t in traces)
    for k in (0, len(paths), len(hist) - 1):
        ctx.sample({"kind": meta[k], "ops": hist[k][:25],
                    "events": [(e["op"], e["o"], e["k"], e["ran"], e["exc"], e["obs"]) for e in traces[k][:25]]})
    ctx.cov["rule"] = ("distinct = distinct operation histories executed on real cdata objects; non-trivial: %d "
                       "destructor/free calls observed, %d of them inside gc.collect()" % (calls, incoll))
    ctx.cov["exhaustive"] = ncov == nedges
    ctx.assumptions += ["CPython: gc.disable() + explicit gc.collect(); reference counting frees acyclic garbage at once "
                        "(only the implementation model relies on it)",
                        "the program's references are exactly those of the recorded operations (the worker keeps "
                        "only weak references besides them)"]


def replay(ctx, obj):
    rp = obj["replay"]
    res, death = run_worker([rp["ops"]])
    tr = rename_addrs(res.get(0, []))
    bad, _ = validate(ctx, [tr], impl=False)
    ctx.cov["states"] = ctx.cov["transitions"] = 1
    if death:
        ctx.violation(obj["key"], "killed by signal %s" % death["signal"], rp)
    for k, (v, pos) in bad.items():
        ctx.violation(obj["key"], CLAUSE.get(v, v), rp)
    print("re-executed %d operations: %s" % (len(rp["ops"]), "rejected" if (bad or death) else "accepted by the ideal"))


def selftest(ctx):
    ops = [["new", 1, "P", 0, False], ["new", 2, "W", 1, False], ["new", 3, "E", 0, False], ["new", 4, "V", 3, False],
           ["probelock", 3], ["release", 2, "name", "release"], ["release", 2, "name", "with"], ["drop", 2],
           ["release", 4, "name", "release"], ["probelock", 3], ["drop", 4], ["drop", 1], ["drop", 3], ["collect"]]
    res, death = run_worker([ops])
    tr = rename_addrs(res[0])
    bad, div = validate(ctx, [tr])
    ok = not death and not bad and not div
    a = json.loads(json.dumps(tr))
    a[6]["ran"] = [2]                 # the destructor runs again at the second release
    b = json.loads(json.dumps(tr))
    b[4]["obs"] = False               # the exporter can be resized while the view exists
    c = json.loads(json.dumps(tr))
    c[5]["ran"] = []                  # release does not run the destructor ... (then it runs at drop: fine) ...
    c[7]["ran"] = []                  # ... nor does anything later
    bad, div = validate(ctx, [a, b, c])
    ok = ok and bad.get(0, ("",))[0] == "AtMostOnce" and bad.get(1, ("",))[0] == "Locked" \
        and bad.get(2, ("",))[0] == "AtRelease" and len(div) == 3
    return ok


META = {
    "category": "model_checking",
    "text": "TLC explores every operation history (create, alias p[0], ffi.gc / gc(None), release / with, drop, "
            "store into a reference cycle, gc.collect(), probes) of 2 entities of all 8 kinds (thorough: 3 "
            "entities) in an implementation model of reference counting, the cycle collector and the cdata "
            "dealloc / finalize / release code, and checks that it refines the property machine (destructors "
            "and allocator frees exactly once, never after gc(None), only when due, release idempotent, "
            "exporter locked and alive exactly while a view exists, struct memory valid, handles); walks and a "
            "transition cover of the explored graph and random histories of up to 200 operations on 24 objects "
            "are executed on real cdata objects, and TLC validates every recorded history against the "
            "property machine and against the implementation model.",
    "note": "Trusted: TLC, CPython's gc module (gc.disable() + explicit collections), weak references as the "
            "liveness observable. The finalizer order inside one gc.collect() is compared as a set.",
    "technique": "TLA+ refinement (TLC) + replay of the explored graph on real cdata objects + TLC trace validation",
    "design_ref": "DESIGN.md §3 C21",
}
