"""C09 - integer constant expressions in a cdef evaluate as C evaluates them.

Design level : specs/ConstExpr.tla: CEval = typed C evaluation (type of integer constants, character
               constants and simple escapes, usual arithmetic conversions, modular unsigned arithmetic,
               undefinedness of signed overflow / division by zero / bad shifts); CffiEval =
               Parser._parse_constant/_c_div transcribed (untyped Python integers, ord(s[-2])).
               MC_ConstExpr (TLC, int = 8 bits, long = 10 bits): every operator applied to every pair of
               leaves around all type boundaries (dec/hex, u/l suffixes, plain and escaped characters)
               and deeper comb-shaped trees over a small leaf set: wherever C defines the value the two
               agree OR the first node where they part belongs to a recorded class (unsigned-wrap,
               negative-to-unsigned).  The unrestricted agreement must FAIL (the classes are real) and
               three broken variants (_c_div, %, the pre-fix ord(s[-2]) character constants) must be
               rejected.
Binding      : (spec -> code) the trees TLC enumerated, with their boundary values mapped to 32/64 bits;
               (code -> spec) random trees of depth <= 4.  Each is placed in a context (array length,
               enumerator value, bit-field width, #define, static const); gcc prints type and value of
               EVERY sub-expression; cffi reports the value (ffi.sizeof, lib.NAME + relements,
               fields[].bitsize, lib.NAME + ffi.integer_const) in-line, and for a part of them through
               an out-of-line ABI module and an API module.  Trace_ConstExpr recomputes CEval at the true
               widths with model-checked limb arithmetic: every gcc node must agree (else machinery
               error); a cffi value that differs is a violation keyed by the class of the culprit node.
"""
import concurrent.futures, os, re
from harness import core, tlaval
from harness import types_expr as tx
from harness.types_enum import enc, dec

LEVEL = "model_checking"
XSS = {"JAVA_TOOL_OPTIONS": "-Xss64m -XX:ParallelGCThreads=2 -Xms256m"}

CFG = """SPECIFICATION Spec
CONSTANTS LB = 15
  IntBits = 8
  LongBits = 10
  Mode = "%s"
  MaxDepth = %d
  PrintFrom = %d
  Variant = "%s"
INVARIANT %s
CHECK_DEADLOCK FALSE
"""


def cfg(mode, maxdepth, printfrom=99, variant="faithful", inv="AgreeKnown"):
    return CFG % (mode, maxdepth, printfrom, variant, inv)


def tuples(out, head):
    res = []
    for m in re.finditer(r'<<\s*"%s"' % head, out):
        depth, k, instr = 0, m.start(), False
        while k < len(out):
            c = out[k]
            if instr:
                instr = c != '"'
            elif c == '"':
                instr = True
            elif out.startswith("<<", k):
                depth += 1
                k += 1
            elif out.startswith(">>", k):
                depth -= 1
                k += 1
                if depth == 0:
                    break
            k += 1
        res.append(tlaval.parse_value(out[m.start():k + 1])[1:])
    return res


def design_level(ctx):
    quick = ctx.quick
    main = [("MC_ConstExpr(every operator x every pair of %d boundary leaves, int=8 long=10 bits)" % (37 if quick else 79),
             cfg("mid" if quick else "full", 1), 6),
            ("MC_ConstExpr(comb trees of depth <= %d over 8 leaves)" % (1 if quick else 2),
             cfg("small", 1 if quick else 2, 0), 4 if quick else 8)]
    sanity = [("sanity:exact-agreement-must-fail", cfg("small", 1, inv="AgreeExact")),
              ("sanity:floordiv", cfg("small", 2, variant="floordiv")),
              ("sanity:pymod", cfg("small", 2, variant="pymod")),
              ("sanity:ordchr(pre-4d735ce character constants)", cfg("small", 1, variant="ordchr"))]

    def go(a):
        return core.tlc("MC_ConstExpr", cfg_text=a[1], workers=a[2] if len(a) > 2 else 2, env=XSS, timeout=3000)
    with concurrent.futures.ThreadPoolExecutor(max_workers=6) as ex:
        fm = [ex.submit(go, a) for a in main]
        fs = [ex.submit(go, a) for a in sanity]
        outs = []
        for a, f in zip(main, fm):
            r = f.result()
            ctx.add_tlc(a[0], r)
            outs.append(r.out)
        for a, f in zip(sanity, fs):
            r = f.result()
            ctx.add_tlc(a[0], r, require_ok=False, count_states=False)
            if r.ok or not r.invariant_violated:
                raise core.MachineryError("%s: TLC did not report the expected invariant violation\n%s" % (a[0], r.out[-1500:]))
    return outs[1]


def items_from_tlc(ctx, out, limit):
    leaves = None
    for (lv,) in tuples(out, "LEAVES"):
        leaves = [dict(x, mag=list(x["mag"])) if x["op"] == "lit" else dict(x) for x in lv]
    encs = [t[0] for t in tuples(out, "EXPR")]
    if leaves is None or len(encs) < 100:
        raise core.MachineryError("MC_ConstExpr printed %d expressions" % len(encs))
    if len(encs) > limit:
        encs = ctx.rng.sample(encs, limit)
    items = []
    for e in encs:
        tree = tx.from_tlc(e, leaves)
        r = tx.ceval(tree)
        if r is None:
            continue                          # undefined at the true widths
        c = tx.pick_context(tree, r[1], ctx.rng)
        if c is not None:
            items.append(tx.make_item("d%d" % len(items), c, tree, ctx.rng))
    return items


def measure(ctx, items, compiled_every=0, singles=8):
    """-> trace records.  Every item is observed in-line.  Compiled modes (out-of-line ABI, API): every
    `compiled_every`-th item whose in-line value is what gcc computed goes into one shared module (a wrong
    length/width would break the whole module's build), and up to `singles` of the others get a module of
    their own, which shows how the compiled modes react to the same mis-evaluation."""
    g = tx.gcc_measure(items, ctx.tmp, jobs=4)
    c = tx.measure_cffi(items, ctx.tmp, modes=("inline",), jobs=2)
    if compiled_every:
        clean, odd = [], []
        for i, it in enumerate(items):
            o = c[it["id"]][0]
            if o["ok"] and o["v"] == g[it["id"]][-1]["v"]:
                if i % compiled_every == 0:
                    clean.append(it)
            elif len(odd) < singles:
                odd.append(it)
        sel = clean + odd
        if sel:
            groups = [[it["id"] for it in clean]] + [[it["id"]] for it in odd]
            c2 = tx.measure_cffi(sel, ctx.tmp, modes=("abi", "api"), groups=[x for x in groups if x])
            for it in sel:
                c[it["id"]] = c[it["id"]] + c2[it["id"]]
    recs = []
    for it in items:
        lo, hi = tx.CTX_RANGE[it["ctx"]]
        if it["id"] not in g or it["id"] not in c:
            raise core.MachineryError("measurement missing for %s (%s)" % (it["id"], it["decl"]))
        recs.append({"id": it["id"], "ctx": it["ctx"], "decl": it["decl"], "tree": tx.to_json(it["tree"]),
                     "rawtree": it["tree"], "lo": enc(lo), "hi": enc(hi), "gcc": g[it["id"]], "cffi": c[it["id"]]})
        ctx.case((it["ctx"], it["text"]))
    return recs


def validate(ctx, recs, name="Trace_ConstExpr"):
    verdicts = {}
    parts = [recs[lo:lo + 2500] for lo in range(0, len(recs), 2500)]

    def one(j):
        path = os.path.join(ctx.tmp, "expr_%d_%d.json" % (len(ctx.cov["tlc_runs"]), j))
        core.write_json(path, [{k: v for k, v in r.items() if k not in ("decl", "rawtree")} for r in parts[j]])
        return core.tlc("Trace_ConstExpr", workers=4, env=dict(XSS, TRACE_FILE=path), timeout=3000)
    with concurrent.futures.ThreadPoolExecutor(max_workers=3) as ex:
        results = list(ex.map(one, range(len(parts))))
    for part, r in zip(parts, results):
        ctx.add_tlc(name, r, count_states=False)
        checked = set(core.unq(t[0]) for t in core.tla_tuples(r.out, "CHECKED"))
        if checked != set(x["id"] for x in part):
            raise core.MachineryError("trace validation incomplete: %d of %d records checked\n%s" % (
                len(checked), len(part), r.out[-1500:]))
        for t in core.tla_tuples(r.out, "VERDICT"):
            verdicts.setdefault(core.unq(t[0]), []).append((core.unq(t[1]), core.unq(t[2])))
    return verdicts


def judge(ctx, recs, verdicts):
    byid = {r["id"]: r for r in recs}
    classes = ctx.cov.setdefault("violation_classes", {})
    for ident, vs in verdicts.items():
        rec = byid[ident]
        for who, clause in vs:
            if who in ("gcc", "class"):
                raise core.MachineryError("%s: %s/%s: the C evaluation model and gcc (or the generator) disagree on %s\n"
                                          "gcc nodes: %s" % (ident, who, clause, rec["decl"],
                                                             [(n["bits"], n["sgn"], dec(n["v"])) for n in rec["gcc"]]))
        for who, clause in vs:
            if who.startswith("cffi:"):
                mode = who[5:]
                obs = [o for o in rec["cffi"] if o["mode"] == mode][0]
                key = "constexpr:%s:%s" % (mode, clause)
                classes[key] = classes.get(key, 0) + 1
                ctx.violation(key, "%s [%s, %s mode]: C gives %d, cffi %s" % (
                    rec["decl"], rec["ctx"], mode, dec(rec["gcc"][-1]["v"]),
                    dec(obs["v"]) if obs["ok"] else "raises " + obs["err"]),
                    {"ctx": rec["ctx"], "tree": rec["rawtree"], "decl": rec["decl"], "mode": mode, "class": clause,
                     "c_value": dec(rec["gcc"][-1]["v"]), "observed": obs})
    ctx.validated(len(recs))


def run(ctx):
    quick = ctx.quick
    nrand = 400 if quick else 8000
    rnd = [tx.random_item(ctx.rng, "r%d" % i) for i in range(nrand)]
    with concurrent.futures.ThreadPoolExecutor(max_workers=2) as ex:
        # code -> spec measurements meanwhile; every 5th (thorough: every 2nd) also through compiled modules
        every = 5 if quick else 2
        fr = ex.submit(measure, ctx, rnd, every)
        out = design_level(ctx)
        items = items_from_tlc(ctx, out, 400 if quick else 5000)
        rrecs = fr.result()
    recs = measure(ctx, items, every)
    allrecs = recs + rrecs
    judge(ctx, allrecs, validate(ctx, allrecs, "Trace_ConstExpr(%d TLC-enumerated + %d random expressions)" % (len(recs), len(rrecs))))
    for rec in (recs[0], rrecs[0], rrecs[1], rrecs[2]):
        ctx.sample({"decl": rec["decl"], "gcc_nodes": [(n["bits"], n["sgn"], dec(n["v"])) for n in rec["gcc"]],
                    "cffi": [(o["mode"], dec(o["v"]) if o["ok"] else o["err"]) for o in rec["cffi"]]})
    ctx.cov["contexts"] = {c: sum(1 for r in allrecs if r["ctx"] == c) for c in tx.CTX_RANGE}
    ctx.cov["rule"] = "distinct = distinct (context, expression text) pairs evaluated by gcc (every node) and by cffi"
    ctx.cov["exhaustive"] = False
    ctx.assumptions += ["gcc on this machine is the platform C compiler; type and value of every sub-expression are "
                        "validated against ConstExpr!CEval before cffi is judged",
                        "expressions C leaves undefined (signed overflow, division by zero, shift counts outside "
                        "0..width-1, left shift of a negative value) are outside the class; right shift of a negative "
                        "value is arithmetic (documented GCC behaviour)",
                        "static const initialisers are generated so that the literal's own type is the declared type"]


def replay(ctx, obj):
    rp = obj["replay"]
    it = tx.make_item("p0", rp["ctx"], rp["tree"])
    recs = measure(ctx, [it], 0 if rp["mode"] == "inline" else 1, singles=1)
    v = validate(ctx, recs)
    ctx.cov["states"] = ctx.cov["transitions"] = 1
    judge(ctx, recs, v)
    print("replayed %s: gcc %d, cffi %s, verdicts %s" % (it["decl"], dec(recs[0]["gcc"][-1]["v"]),
                                                       [(o["mode"], dec(o["v"]) if o["ok"] else o["err"]) for o in recs[0]["cffi"]],
                                                       v.get("p0", "accepted")))


def selftest(ctx):
    good = []
    while len(good) < 4:
        it = tx.random_item(ctx.rng, "s%d" % len(good), 2)
        if it["ctx"] in ("array", "bitfield") and all(n["op"] != "chr" or not n["esc"] for n in tx.postorder(it["tree"])):
            t = tx.ceval(it["tree"])
            if all(tx.ceval(n)[0][1] for n in tx.postorder(it["tree"])):      # all-signed: no known class involved
                good.append(it)
    recs = measure(ctx, good)
    ok = not validate(ctx, recs)
    recs[0]["cffi"][0]["v"] = enc(dec(recs[0]["cffi"][0]["v"]) + 1)
    recs[1]["gcc"][-1]["v"] = enc(dec(recs[1]["gcc"][-1]["v"]) + 1)
    recs[2]["cffi"][0]["ok"] = False
    v = validate(ctx, recs)
    want = {"s0": ("cffi:inline", "value"), "s1": ("gcc", "node"), "s2": ("cffi:inline", "rejected")}
    for i, w in want.items():
        if w not in v.get(i, []):
            print("selftest: corruption of %s not detected: %s" % (i, v.get(i)))
            ok = False
    ok = ok and "s3" not in v
    ctx.cov["states"] = ctx.cov["transitions"] = 1
    return ok


META = {
    "category": "model_checking",
    "text": "TLC compares the transcribed untyped evaluation of Parser._parse_constant/_c_div with a typed C evaluation "
            "(constant typing, character constants, usual arithmetic conversions, modular unsigned arithmetic, "
            "undefinedness) for every operator applied to every pair of boundary leaves and for deeper comb-shaped "
            "trees (int = 8, long = 10 bits): they agree wherever C defines the value except in two recorded classes, "
            "which TLC shows to be real, and three broken variants are rejected. The enumerated trees mapped to 32/64 bits "
            "and random trees of depth <= 4 are placed in array-length, enumerator, bit-field-width, #define and static "
            "const contexts; gcc prints type and value of every sub-expression, cffi reports the value in-line and through "
            "out-of-line ABI and API modules, and TLC revalidates every node against the typed evaluation with "
            "model-checked limb arithmetic (gcc first), keying each cffi mismatch by the class of the culprit node.",
    "note": "Genuine defects are expected and listed in known_findings.d/C09.json (unsigned wrap-around, negative operands "
            "converted to unsigned; escaped character constants were fixed in 4d735ce); any mismatch outside these classes is a violation. "
            "Trusted: gcc (validated per node), TLC.",
    "technique": "TLA+ model vs ideal equivalence modulo recorded classes (TLC) + replay of enumerated trees at true widths "
                 "+ per-node TLC validation of gcc and cffi on random trees",
    "design_ref": "DESIGN.md §3 C09",
}
