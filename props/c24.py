"""C24 -- cffi-gen-src output is byte-identical to FFI.emit_c_code.

specs/GenSrc.tla supplies the configuration matrix (sub-command x invocation x output x binding x
--ffi-var; 20 valid points, enumerated by TLC) and the equation Cli(cfg, input) = EmitC(input).
For every configuration and every input (random API-flavour cdefs, preludes with non-ASCII text and
without trailing newline, dotted module names) the command line is run in a sub-process exactly as
installed (a console script generated from the [project.scripts] entry of the working tree's
pyproject.toml, and `python -m cffi.gen_src`), the bytes of the output file / of stdout are hashed
and TLC (Trace_GenSrc.tla) compares them with the in-process emit_c_code() into a StringIO and to a
path.  Level: exploration (the specification is the input space and a one-line oracle).
"""
import contextlib, hashlib, io, json, os, re, subprocess, sys, warnings
from concurrent.futures import ThreadPoolExecutor
from harness import core, gen_cdef, gen_names
from harness.gen_tlc import light

LEVEL = "exploration"


def entry_point():
    """the console-script target of cffi-gen-src in the working tree's pyproject.toml"""
    with open(os.path.join(core.REPO, "pyproject.toml")) as f:
        text = f.read()
    m = re.search(r'^\s*cffi-gen-src\s*=\s*"([\w.]+):(\w+)"', text, re.M)
    if not m:
        raise core.MachineryError("no cffi-gen-src entry in [project.scripts] of pyproject.toml")
    return m.group(1), m.group(2)


def make_script(ctx):
    mod, fn = entry_point()
    d = os.path.join(ctx.tmp, "bin")
    os.makedirs(d, exist_ok=True)
    p = os.path.join(d, "cffi-gen-src")
    with open(p, "w") as f:          # what pip generates for a console_scripts entry
        f.write("#!%s\nimport sys\nfrom %s import %s\nif __name__ == '__main__':\n"
                "    sys.argv[0] = sys.argv[0].removesuffix('.exe')\n    sys.exit(%s())\n" % (core.PY, mod, fn, fn))
    os.chmod(p, 0o755)
    return p


def reference(inp, tmp):
    """in-process emit_c_code(): to a StringIO and to a path"""
    import cffi
    out = []
    for sink in ("filelike", "path"):
        ffi = cffi.FFI()
        with warnings.catch_warnings():
            warnings.simplefilter("ignore")
            ffi.cdef(inp["cdef"])
        ffi.set_source(inp["modname"], inp["prelude"])
        with contextlib.redirect_stdout(io.StringIO()):
            if sink == "filelike":
                f = io.StringIO()
                ffi.emit_c_code(f)
                data = f.getvalue().encode("utf-8")
            else:
                p = os.path.join(tmp, "ref_%s.c" % inp["id"])
                ffi.emit_c_code(p)
                with open(p, "rb") as fh:
                    data = fh.read()
        out.append(data)
    return out


def py_script(inp, cfg):
    """the build script exec-python runs"""
    var = "ffibuilder" if cfg["ffivar"] == "default" else "my_ffi_%s" % inp["id"]
    lines = ["# -*- coding: utf-8 -*-", "from cffi import FFI", ""]
    if cfg["binding"] == "object":
        lines += ["%s = FFI()" % var, "%s.cdef(%r)" % (var, inp["cdef"]),
                  "%s.set_source(%r, %r)" % (var, inp["modname"], inp["prelude"]), "",
                  "if __name__ == '__main__':", "    raise SystemExit('the script must not run as __main__')"]
    else:
        lines += ["def %s():" % var, "    b = FFI()", "    b.cdef(%r)" % inp["cdef"],
                  "    b.set_source(%r, %r)" % (inp["modname"], inp["prelude"]), "    return b"]
    return var, "\n".join(lines) + "\n"


def run_cli(ctx, script, inp, ci, cfg):
    d = os.path.join(ctx.tmp, "run_%s_%d" % (inp["id"], ci))
    os.makedirs(d)
    outp = os.path.join(d, "out.c")
    argv = [script] if cfg["inv"] == "script" else [core.PY, "-m", "cffi.gen_src"]
    if cfg["sub"] == "read-sources":
        cdef_p, csrc_p = os.path.join(d, "in.cdef.txt"), os.path.join(d, "in.csrc.c")
        with open(cdef_p, "w", encoding="utf-8", newline="") as f:
            f.write(inp["cdef"])
        with open(csrc_p, "w", encoding="utf-8", newline="") as f:
            f.write(inp["prelude"])
        argv += ["read-sources", inp["modname"], cdef_p, csrc_p]
    else:
        var, text = py_script(inp, cfg)
        py_p = os.path.join(d, "build_%s.py" % inp["id"])
        with open(py_p, "w", encoding="utf-8", newline="") as f:
            f.write(text)
        argv += ["exec-python"]
        if cfg["ffivar"] == "custom" or cfg["binding"] == "callable":
            argv += ["--ffi-var", var]
        argv += [py_p]
    argv.append(outp if cfg["out"] == "file" else "-")
    r = subprocess.run(argv, capture_output=True, env=core.sub_env(), cwd=d, timeout=600)
    if cfg["out"] == "file":
        try:
            with open(outp, "rb") as f:
                data = f.read()
        except FileNotFoundError:
            data = b"<no output file>"
        extra = r.stdout
    else:
        data, extra = r.stdout, b""
    # classify one specific way of differing: an extra first line "generating <... object at 0x...>"
    m = re.match(rb"generating <[^>\n]*>\n", data)
    stripped = hashlib.sha256(data[m.end():]).hexdigest() if m else None
    return {"status": r.returncode, "digest": hashlib.sha256(data).hexdigest(), "len": len(data),
            "digest_without_generating_line": stripped, "head": data[:80].decode("utf-8", "replace"),
            "stderr": r.stderr[-600:].decode("utf-8", "replace"), "argv": argv, "noise": len(extra)}


def make_inputs(ctx, n):
    rng = ctx.rng
    inputs = []
    for i in range(n):
        if i % 5 == 4:
            d = gen_names.Decls(rng, gen_names.ident_set(rng, rng.randint(3, 15), dollar=False))
            cdef = d.cdef
        else:
            cdef = gen_cdef.gen(rng, rng.randint(1, 25), "api")
        if i % 4 == 1:
            cdef = "/* décl — 中文 */\n" + cdef            # non-ASCII text in the cdef itself (a comment)
        prelude = gen_cdef.preamble(rng, nonascii=(i % 2 == 0))
        if i % 6 == 5:
            prelude = ""
        inputs.append({"id": "n%d" % i, "cdef": cdef, "prelude": prelude,
                       "modname": rng.choice(["_mod%d", "pkg._mod%d", "a.b.c.m%d", "x%d_"]) % i})
    return inputs


def validate(ctx, recs):
    tp = core.write_json(os.path.join(ctx.tmp, "gensrc_%d.json" % len(ctx.cov["tlc_runs"])), recs)
    r = core.tlc("Trace_GenSrc", workers=1, env=light({"TRACE_FILE": tp}))
    ctx.add_tlc("Trace_GenSrc", r, count_states=False)
    chk = core.tla_tuples(r.out, "CHECKED")
    nobs = sum(len(x["obs"]) for x in recs)
    if len(chk) != 1 or int(chk[0][0]) != len(recs) or int(chk[0][1]) != nobs:
        raise core.MachineryError("Trace_GenSrc did not check all records:\n" + r.out[-1500:])
    return [(int(k) - 1, core.unq(w), int(i) - 1) for k, w, i in core.tla_tuples(r.out, "VERDICT")]


def run(ctx):
    quick = ctx.quick
    mpath = os.path.join(ctx.tmp, "gensrc_matrix.json")
    r = core.tlc("GenSrc", "MC_GenSrc", workers=1, env=light({"GENSRC_OUT": mpath}))
    ctx.add_tlc("GenSrc(configuration matrix)", r)
    with open(mpath) as f:
        configs = json.load(f)
    if len(configs) != r.distinct or len(configs) < 20:
        raise core.MachineryError("configuration matrix incomplete: %d" % len(configs))
    script = make_script(ctx)
    inputs = make_inputs(ctx, 4 if quick else 60)
    refs = {}
    for inp in inputs:
        a, b = reference(inp, ctx.tmp)
        refs[inp["id"]] = (hashlib.sha256(a).hexdigest(), hashlib.sha256(b).hexdigest(), len(a))
    jobs = [(inp, ci, cfg) for inp in inputs for ci, cfg in enumerate(configs)]
    with ThreadPoolExecutor(8) as pool:
        outs = list(pool.map(lambda j: run_cli(ctx, script, *j), jobs))
    recs = []
    byid = {}
    for (inp, ci, cfg), o in zip(jobs, outs):
        byid.setdefault(inp["id"], []).append((cfg, o))
        ctx.case((inp["id"], ci))
    for inp in inputs:
        recs.append({"id": inp["id"], "ref": refs[inp["id"]][0], "ref2": refs[inp["id"]][1],
                     "obs": [{"status": o["status"], "digest": o["digest"]} for _c, o in byid[inp["id"]]]})
    bad = validate(ctx, recs)
    inp_by = {inp["id"]: inp for inp in inputs}
    for k, what, i in bad:
        inp = inp_by[recs[k]["id"]]
        if what == "reference":
            ctx.violation("gensrc:reference", "emit_c_code() to a path and to a file-like object differ for the same input",
                          {"input": inp, "cfg": None})
            continue
        cfg, o = byid[inp["id"]][i]
        key = "gensrc:%s:%s:%s:%s" % (what, cfg["sub"], cfg["inv"], cfg["out"])
        if what == "bytes" and cfg["out"] == "stdout" and o["digest_without_generating_line"] == refs[inp["id"]][0]:
            # the only difference is the progress line of recompiler._make_c_or_py_source in front of the source
            key = "gensrc:stdout-starts-with-generating-line:%s:%s" % (cfg["sub"], cfg["inv"])
        msg = ("exit status %d, stderr: %s" % (o["status"], o["stderr"][-300:]) if what == "status" else
               "the command line wrote %d bytes that differ from the %d bytes of emit_c_code(); they start with %r"
               % (o["len"], refs[inp["id"]][2], o["head"]))
        ctx.violation(key, "%s (%s)" % (msg, " ".join(os.path.basename(a) for a in o["argv"][:4])), {"input": inp, "cfg": cfg})
    ctx.validated(sum(len(x["obs"]) for x in recs))
    noise = [o for o in outs if o["noise"]]
    if noise:
        ctx.cov["stdout_noise_with_file_output"] = len(noise)
    ctx.sample({"kind": "cli run", "argv": [os.path.basename(a) for a in outs[0]["argv"]], "status": outs[0]["status"],
                "digest": outs[0]["digest"], "reference": refs[inputs[0]["id"]][0]})
    ctx.sample({"kind": "input", "modname": inputs[0]["modname"], "cdef": inputs[0]["cdef"][:400],
                "prelude": inputs[0]["prelude"][:300]})
    ctx.cov["configurations"] = len(configs)
    ctx.cov["exhaustive"] = True
    ctx.cov["rule"] = "distinct = (input, configuration) pairs, each one CLI sub-process; none trivial"
    ctx.assumptions += ["UTF-8 locale (the sandbox default): emit_c_code(path) uses the locale's encoding, the command "
                        "line always UTF-8; under a non-UTF-8 locale non-ASCII preludes are not comparable",
                        "inputs contain no carriage returns (read-sources reads its files in text mode, which "
                        "translates them)",
                        "the console script is generated from the working tree's [project.scripts] entry, as pip would"]


def selftest(ctx):
    rec = {"id": "x", "ref": "aa", "ref2": "aa", "obs": [{"status": 0, "digest": "aa"}, {"status": 0, "digest": "aa"}]}
    b1 = json.loads(json.dumps(rec)); b1["obs"][1]["digest"] = "ab"
    b2 = json.loads(json.dumps(rec)); b2["obs"][0]["status"] = 2
    bad = validate(ctx, [rec, b1, b2])
    # and a real run whose prelude is changed behind the reference's back
    inp = {"id": "s", "cdef": "int f(int);", "prelude": "/* a */\n", "modname": "m"}
    a, _ = reference(inp, ctx.tmp)
    script = make_script(ctx)
    cfg = {"sub": "read-sources", "inv": "script", "out": "file", "binding": "object", "ffivar": "default"}
    o1 = run_cli(ctx, script, inp, 0, cfg)
    o2 = run_cli(ctx, script, dict(inp, prelude="/* b */\n"), 1, cfg)
    ref = hashlib.sha256(a).hexdigest()
    ctx.cov["states"] = 1
    return sorted((k, w) for k, w, _ in bad) == [(1, "bytes"), (2, "status")] and o1["digest"] == ref and o2["digest"] != ref


def replay(ctx, obj):
    rp = obj["replay"]
    ctx.cov["states"] = 1
    inp, cfg = rp["input"], rp["cfg"]
    a, b = reference(inp, ctx.tmp)
    if cfg is None:
        same = a == b
        print("path and file-like references equal:", same)
        if not same:
            ctx.violation(obj["key"], obj["what"], rp)
        return
    o = run_cli(ctx, make_script(ctx), inp, 0, cfg)
    ok = o["status"] == 0 and o["digest"] == hashlib.sha256(a).hexdigest()
    print("re-executed %s: status %d, bytes %s" % (cfg, o["status"], "equal" if ok else "DIFFERENT"))
    if not ok:
        ctx.violation(obj["key"], obj["what"], rp)


META = {
    "category": "exploration",
    "text": "TLC enumerates the 20 valid points of the command-line configuration matrix (sub-command x invocation x "
            "output x binding x --ffi-var); for every point and every random input (API-flavour cdefs, non-ASCII "
            "preludes, dotted module names) the command line is run in a sub-process as installed and TLC compares the "
            "digests of the bytes it wrote (file or stdout) and its exit status with in-process emit_c_code() to a "
            "StringIO and to a path.",
    "note": "TLA+ contributes only the input space and the oracle equation. UTF-8 locale; inputs without carriage "
            "returns.",
    "technique": "TLA+-enumerated configuration matrix + sub-process replay + TLC digest comparison",
    "design_ref": "DESIGN.md §3 C24",
}
