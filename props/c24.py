"""C24 -- cffi-gen-src output is byte-identical to FFI.emit_c_code.

specs/GenSrc.tla supplies the configuration matrix (sub-command x invocation x output x binding x
--ffi-var; 20 valid points, enumerated by TLC) and the equation Cli(cfg, input) = EmitC(input).
For every configuration and every input (random API-flavour cdefs, preludes with non-ASCII text and
without trailing newline, dotted module names) the command line is run in a sub-process exactly as
installed (a console script generated from the [project.scripts] entry of the working tree's
pyproject.toml, and `python -m cffi.gen_src`), the bytes of the output file / of stdout are hashed
and TLC (Trace_GenSrc.tla) compares them with the in-process emit_c_code() into a StringIO and to a
path.  Level: exploration (the specification is the input space and a one-line oracle).
"""
import contextlib, hashlib, io, json, os, re, subprocess, sys, warnings
from concurrent.futures import ThreadPoolExecutor
from harness import core, gen_cdef, gen_names
from harness.gen_tlc import light

LEVEL = "exploration"


def entry_point():
    """the console-script target of cffi-gen-src in the working tree's pyproject.toml"""
    with open(os.path.join(core.REPO, "pyproject.toml")) as f:
        text = f.read()
    m = re.search(r'^\s*cffi-gen-src\s*=\s*"([\w.]+):(\w+)"', text, re.M)
    if not m:
        raise core.MachineryError("no cffi-gen-src entry in [project.scripts] of pyproject.toml")
    return m.group(1), m.group(2)


def make_script(ctx):
    mod, fn = entry_point()
    d = os.path.join(ctx.tmp, "bin")
    os.makedirs(d, exist_ok=True)
    p = os.path.join(d, "cffi-gen-src")
    with open(p, "w") as f:          # what pip generates for a console_scripts entry
        f.write("#!%s\nimport sys\nfrom %s import %s\nif __name__ == '__main__':\n"
                "    sys.argv[0] = sys.argv[0].removesuffix('.exe')\n    sys.exit(%s())\n" % (core.PY, mod, fn, fn))
    os.chmod(p, 0o755)
    return p


def reference(inp, tmp):
    """in-process emit_c_code(): to a StringIO and to a path -> ("ok", bytes, bytes) or ("err", exception name)"""
    import cffi
    out = []
    for sink in ("filelike", "path"):
        try:
            ffi = cffi.FFI()
            with warnings.catch_warnings():
                warnings.simplefilter("ignore")
                ffi.cdef(inp["cdef"])
            ffi.set_source(inp["modname"], inp["prelude"])
            with contextlib.redirect_stdout(io.StringIO()):
                if sink == "filelike":
                    f = io.StringIO()
                    ffi.emit_c_code(f)
                    data = f.getvalue().encode("utf-8")
                else:
                    p = os.path.join(tmp, "ref_%s.c" % inp["id"])
                    ffi.emit_c_code(p)
                    with open(p, "rb") as fh:
                        data = fh.read()
        except Exception as e:          # the failure side of the equation
            return ("err", type(e).__name__)
        out.append(data)
    return ("ok", out[0], out[1])


def translate_newlines(t):
    """what reading a file in text mode (universal newlines) makes of a text"""
    return t.replace("\r\n", "\n").replace("\r", "\n")


CP = {"FEFF": "\ufeff", "2028": "\u2028", "0C": "\x0c", "1F": "\x1f", "7F": "\x7f", "85": "\x85", "CR": "\r"}


def decorate(base, dec, k):
    """apply one decoration of GenSrc!Decorations to a base input"""
    inp = dict(base, id="d%d" % k, dec=dec, script_prefix="")
    where, what = dec["where"], dec["what"]
    if what in CP and "-" in where:
        field, pos = where.split("-")
        if field == "script":
            inp["script_prefix"] = CP[what]
        else:
            t = inp[field]
            if pos == "start":
                t = CP[what] + t
            elif pos == "end":
                t = t + CP[what]
            elif pos == "mid":
                i = t.find("\n") if "\n" in t else len(t) // 2
                t = t[:i] + CP[what] + t[i:]
            elif pos == "all":
                t = t.replace("\n", "\r")
            inp[field] = t
    elif what == "CRLF":
        field = where.split("-")[0]
        inp[field] = inp[field].replace("\n", "\r\n")
    elif what == "empty":
        for field in (("prelude", "cdef") if where == "both" else (where,)):
            inp[field] = ""
    elif what == "syntax-error":
        inp["cdef"] = inp["cdef"] + "int broken(int;\n"
    elif what == "unemittable":
        inp["cdef"] = inp["cdef"] + "typedef char zarr_t[3];\nzarr_t returns_array(int);\n"
    elif what == "slash":
        inp["modname"] = "pkg/" + inp["modname"].split(".")[-1]
    elif what == "dotted":
        inp["modname"] = "deep.er." + inp["modname"]
    else:
        raise core.MachineryError("unknown decoration %r" % (dec,))
    return inp


def py_script(inp, cfg):
    """the build script exec-python runs"""
    var = "ffibuilder" if cfg["ffivar"] == "default" else "my_ffi_%s" % inp["id"]
    lines = ["from cffi import FFI", ""]
    if cfg["binding"] == "object":
        lines += ["%s = FFI()" % var, "%s.cdef(%r)" % (var, inp["cdef"]),
                  "%s.set_source(%r, %r)" % (var, inp["modname"], inp["prelude"]), "",
                  "if __name__ == '__main__':", "    raise SystemExit('the script must not run as __main__')"]
    else:
        lines += ["def %s():" % var, "    b = FFI()", "    b.cdef(%r)" % inp["cdef"],
                  "    b.set_source(%r, %r)" % (inp["modname"], inp["prelude"]), "    return b"]
    return var, inp.get("script_prefix", "") + "\n".join(lines) + "\n"


def run_cli(ctx, script, inp, ci, cfg, outdir=None, prepare=None):
    """outdir: reuse the directory (and so the output path) of an earlier run; prepare(outp): put the output path
    into a given state before the run"""
    d = outdir or os.path.join(ctx.tmp, "run_%s_%s" % (inp["id"], ci))
    os.makedirs(d, exist_ok=True)
    outp = os.path.join(d, "out.c")
    if prepare:
        prepare(outp)
    argv = [script] if cfg["inv"] == "script" else [core.PY, "-m", "cffi.gen_src"]
    if cfg["sub"] == "read-sources":
        cdef_p, csrc_p = os.path.join(d, "in.cdef.txt"), os.path.join(d, "in.csrc.c")
        with open(cdef_p, "w", encoding="utf-8", newline="") as f:
            f.write(inp["cdef"])
        with open(csrc_p, "w", encoding="utf-8", newline="") as f:
            f.write(inp["prelude"])
        argv += ["read-sources", inp["modname"], cdef_p, csrc_p]
    else:
        var, text = py_script(inp, cfg)
        py_p = os.path.join(d, "build_%s.py" % inp["id"])
        with open(py_p, "w", encoding="utf-8", newline="") as f:
            f.write(text)
        argv += ["exec-python"]
        if cfg["ffivar"] == "custom" or cfg["binding"] == "callable":
            argv += ["--ffi-var", var]
        argv += [py_p]
    argv.append(outp if cfg["out"] == "file" else "-")
    r = subprocess.run(argv, capture_output=True, env=core.sub_env(), cwd=d, timeout=600)
    if cfg["out"] == "file":
        try:
            with open(outp, "rb") as f:
                data = f.read()
            wrote = True
        except (FileNotFoundError, IsADirectoryError):
            data, wrote = b"", False
        extra = r.stdout
    else:
        data, extra = r.stdout, b""
        wrote = len(data) > 0
    # classify one specific way of differing: an extra first line "generating <... object at 0x...>"
    m = re.match(rb"generating <[^>\n]*>\n", data)
    stripped = hashlib.sha256(data[m.end():]).hexdigest() if m else None
    return {"status": r.returncode, "digest": hashlib.sha256(data).hexdigest(), "len": len(data), "wrote": wrote, "dir": d,
            "digest_without_generating_line": stripped, "head": data[:80].decode("utf-8", "replace"),
            "stderr": r.stderr[-600:].decode("utf-8", "replace"), "argv": argv, "noise": len(extra)}


def make_inputs(ctx, n):
    rng = ctx.rng
    inputs = []
    for i in range(n):
        if i % 5 == 4:
            d = gen_names.Decls(rng, gen_names.ident_set(rng, rng.randint(3, 15), dollar=False))
            cdef = d.cdef
        else:
            cdef = gen_cdef.gen(rng, rng.randint(1, 25), "api")
        if i % 4 == 1:
            cdef = "/* décl — 中文 */\n" + cdef            # non-ASCII text in the cdef itself (a comment)
        prelude = gen_cdef.preamble(rng, nonascii=(i % 2 == 0))
        if i % 6 == 5:
            prelude = ""
        inputs.append({"id": "n%d" % i, "cdef": cdef, "prelude": prelude,
                       "modname": rng.choice(["_mod%d", "pkg._mod%d", "a.b.c.m%d", "x%d_"]) % i})
    return inputs


def validate(ctx, recs):
    tp = core.write_json(os.path.join(ctx.tmp, "gensrc_%d.json" % len(ctx.cov["tlc_runs"])), recs)
    r = core.tlc("Trace_GenSrc", workers=1, env=light({"TRACE_FILE": tp}))
    ctx.add_tlc("Trace_GenSrc", r, count_states=False)
    chk = core.tla_tuples(r.out, "CHECKED")
    nobs = sum(len(x["obs"]) for x in recs)
    if len(chk) != 1 or int(chk[0][0]) != len(recs) or int(chk[0][1]) != nobs:
        raise core.MachineryError("Trace_GenSrc did not check all records:\n" + r.out[-1500:])
    return [(int(k) - 1, core.unq(w), int(i) - 1) for k, w, i in core.tla_tuples(r.out, "VERDICT")]


def prestate_jobs(ctx, script, rng, prestates, configs, nsets):
    """the output path in every state of GenSrc!PreStates before the run, for both sub-commands and both invocations;
    "identical" / "longer" / "shorter" are produced by an earlier CLI run into the SAME path (same / bigger / smaller cdef).
    Returns a list of thunks, each giving [(input, cfg, prestate, observation), ...]"""
    cfgs = [c for c in configs if c["out"] == "file" and c["binding"] == "object" and c["ffivar"] == "default"]
    thunks = []
    for n in range(nsets):
        small = {"id": "ps%d" % n, "cdef": gen_cdef.gen(rng, 3, "api") + "int only_small_%d(void);\n" % n,
                 "prelude": "/* pre-state %d */\n" % n, "modname": "_ps%d" % n}
        big = dict(small, id="pb%d" % n, cdef=small["cdef"] + gen_cdef.gen(rng, 12, "api") + "typedef struct { long a[7]; } only_big_%d_t;\n" % n)
        for pre in sorted(prestates):
            for ci, cfg in enumerate(cfgs):
                def thunk(pre=pre, cfg=cfg, ci=ci, n=n):
                    tag = "%s_%d" % (pre, ci)
                    out = []
                    first, second = {"identical": (small, small), "longer": (big, small), "shorter": (small, big)}.get(pre, (None, small))
                    prep = None
                    if pre == "directory":
                        prep = lambda p: os.mkdir(p)
                    elif pre == "readonly":
                        def prep(p):
                            with open(p, "w") as f:
                                f.write("/* read-only leftovers, longer than nothing */\n" * 2000)
                            os.chmod(p, 0o444)
                    outdir = None
                    if first is not None:
                        o1 = run_cli(ctx, script, first, tag + "a", cfg)
                        out.append((first, cfg, "absent", o1))
                        outdir = o1["dir"]
                    o2 = run_cli(ctx, script, second, tag + "b", cfg, outdir=outdir, prepare=prep)
                    o2["first"] = None if first is None else {x: first[x] for x in ("id", "cdef", "prelude", "modname")}
                    out.append((second, cfg, pre, o2))
                    return out
                thunks.append(thunk)
    return thunks, [small, big]


QUICK_CFGS = [("read-sources", "script", "file", "object", "default"), ("read-sources", "module", "stdout", "object", "default"),
              ("exec-python", "module", "file", "object", "default")]


def classify(inp, cfg, what, o, refs_tr):
    """key of a violation; two specific, understood ways of differing get their own key"""
    key = "gensrc:%s:%s:%s:%s" % (what, cfg["sub"], cfg["inv"], cfg["out"])
    dec = inp.get("dec")
    if dec:
        key += ":%s:%s" % (dec["where"], dec["what"])
    if what == "bytes" and cfg["out"] == "stdout" and o.get("digest_without_generating_line") == inp["_ref"][1]:
        return "gensrc:stdout-starts-with-generating-line:%s:%s" % (cfg["sub"], cfg["inv"])
    has_cr = "\r" in inp["cdef"] or "\r" in inp["prelude"]
    if has_cr and cfg["sub"] == "read-sources" and refs_tr is not None:
        # read-sources reads its files in text mode: is the outcome exactly that of the newline-translated texts?
        same = (refs_tr[0] == "ok" and o["status"] == 0 and o["digest"] == hashlib.sha256(refs_tr[1]).hexdigest()) or \
               (refs_tr[0] == "err" and o["status"] != 0 and not o["wrote"])
        if same:
            return "gensrc:carriage-returns-translated:read-sources:%s:%s" % (
                "cdef" if "\r" in inp["cdef"] else "prelude", "rejected-by-cdef" if inp["_ref"][0] == "err" else "bytes")
    if dec and dec["where"] == "script-start" and dec["what"] == "FEFF" and what == "status" and "U+FEFF" in o["stderr"]:
        return "gensrc:script-with-utf8-bom-rejected:exec-python"
    return key


def run(ctx):
    quick = ctx.quick
    mpath = os.path.join(ctx.tmp, "gensrc_matrix.json")
    r = core.tlc("GenSrc", "MC_GenSrc", workers=1, env=light({"GENSRC_OUT": mpath}))
    ctx.add_tlc("GenSrc(configuration matrix)", r)
    with open(mpath) as f:
        matrix = json.load(f)
    configs, decorations = matrix["configs"], matrix["decorations"]
    if len(configs) != r.distinct or len(configs) < 20 or len(decorations) < 40:
        raise core.MachineryError("configuration matrix incomplete: %d, %d" % (len(configs), len(decorations)))
    decorations.sort(key=lambda d: (d["where"], d["what"]))
    script = make_script(ctx)
    inputs = make_inputs(ctx, 3 if quick else 40)
    # decorated inputs: every decoration on a small base input
    rng = ctx.rng
    nbase = 1 if quick else 2
    for b in range(nbase):
        base = {"cdef": gen_cdef.gen(rng, 3, "api") + "int plain_%d(int);\n" % b, "prelude": "#include <stddef.h>\n/* prelude %d */\nstatic int h%d;\n" % (b, b),
                "modname": rng.choice(["_dm%d", "pkg._dm%d"]) % b}
        for k, dec in enumerate(decorations):
            inputs.append(decorate(base, dec, b * 100 + k))
    quick_cfgs = [c for c in configs if (c["sub"], c["inv"], c["out"], c["binding"], c["ffivar"]) in QUICK_CFGS]
    jobs = []
    for inp in inputs:
        ref = reference(inp, ctx.tmp)
        inp["_ref"] = (ref[0], hashlib.sha256(ref[1]).hexdigest() if ref[0] == "ok" else ref[1],
                       hashlib.sha256(ref[2]).hexdigest() if ref[0] == "ok" else "", len(ref[1]) if ref[0] == "ok" else 0)
        cfgs = configs if (not quick or "dec" not in inp) else quick_cfgs
        for ci, cfg in enumerate(cfgs):
            if inp.get("script_prefix") and cfg["sub"] != "exec-python":
                continue                       # a decoration of the build script does not apply to read-sources
            jobs.append((inp, ci, cfg))
    prestates = matrix["prestates"]
    if sorted(prestates) != ["absent", "directory", "identical", "longer", "readonly", "shorter"]:
        raise core.MachineryError("pre-state space incomplete: %r" % (prestates,))
    thunks, psinputs = prestate_jobs(ctx, script, rng, prestates, configs, 1 if quick else 4)
    for x in psinputs:
        ref = reference(x, ctx.tmp)
        x["_ref"] = (ref[0], hashlib.sha256(ref[1]).hexdigest() if ref[0] == "ok" else ref[1],
                     hashlib.sha256(ref[2]).hexdigest() if ref[0] == "ok" else "", len(ref[1]) if ref[0] == "ok" else 0)
        if ref[0] != "ok":
            raise core.MachineryError("pre-state input rejected by the reference: %s" % (ref[1],))
    with ThreadPoolExecutor(8) as pool:
        psf = [pool.submit(t) for t in thunks]
        outs = list(pool.map(lambda j: run_cli(ctx, script, *j), jobs))
        psouts = [x for f in psf for x in f.result()]
    byid = {}
    for (inp, ci, cfg), o in zip(jobs, outs):
        o["pre"] = "absent"
        byid.setdefault(inp["id"], []).append((cfg, o))
        ctx.case((inp["id"], ci))
    inputs = inputs + psinputs
    for inp, cfg, pre, o in psouts:
        o["pre"] = pre
        byid.setdefault(inp["id"], []).append((cfg, o))
        ctx.case((inp["id"], pre, cfg["sub"], cfg["inv"], len(byid[inp["id"]])))
    ctx.cov["prestate_runs"] = len(psouts)
    recs = []
    for inp in inputs:
        recs.append({"id": inp["id"], "ok": inp["_ref"][0] == "ok", "ref": inp["_ref"][1], "ref2": inp["_ref"][2],
                     "obs": [{"status": o["status"], "digest": o["digest"], "wrote": o["wrote"],
                              "mayfail": o["pre"] in ("directory", "readonly")} for _c, o in byid[inp["id"]]]})
    bad = validate(ctx, recs)
    inp_by = {inp["id"]: inp for inp in inputs}
    for k, what, i in bad:
        inp = inp_by[recs[k]["id"]]
        pub = {x: inp[x] for x in ("id", "cdef", "prelude", "modname")}
        pub["script_prefix"] = inp.get("script_prefix", "")
        pub["dec"] = inp.get("dec")
        if what == "reference":
            ctx.violation("gensrc:reference", "emit_c_code() to a path and to a file-like object differ for the same input",
                          {"input": pub, "cfg": None})
            continue
        cfg, o = byid[inp["id"]][i]
        refs_tr = None
        if "\r" in inp["cdef"] or "\r" in inp["prelude"]:
            refs_tr = reference(dict(inp, id=inp["id"] + "t", cdef=translate_newlines(inp["cdef"]),
                                     prelude=translate_newlines(inp["prelude"])), ctx.tmp)
        key = classify(inp, cfg, what, o, refs_tr)
        if o.get("pre", "absent") != "absent":
            key += ":output-path-was-" + o["pre"]
        if what == "status":
            msg = "exit status %d although emit_c_code() succeeds; stderr: %s" % (o["status"], o["stderr"][-200:])
        elif what == "bytes":
            msg = ("the command line wrote %d bytes that differ from the %d bytes of emit_c_code(); they start with %r"
                   % (o["len"], inp["_ref"][3], o["head"]))
        elif what == "accepted-what-the-reference-rejects":
            msg = "the command line exits 0 and writes %d bytes although in-process cdef/set_source/emit_c_code raises %s" % (
                o["len"], inp["_ref"][1])
        else:
            msg = "exit status %d but output was written (%d bytes)" % (o["status"], o["len"])
        ctx.violation(key, "%s (%s; decoration %s; output path before the run: %s)" % (
            msg, " ".join(os.path.basename(a) for a in o["argv"][:4]), inp.get("dec"), o.get("pre", "absent")),
                      {"input": pub, "cfg": cfg, "pre": o.get("pre", "absent"), "first": o.get("first")})
    ctx.validated(sum(len(x["obs"]) for x in recs))
    ctx.cov["reference_rejects"] = sum(1 for x in recs if not x["ok"])
    ctx.cov["decorations"] = len(decorations)
    ctx.sample({"kind": "cli run", "argv": [os.path.basename(a) for a in outs[0]["argv"]], "status": outs[0]["status"],
                "digest": outs[0]["digest"], "reference": inputs[0]["_ref"][1]})
    ctx.sample({"kind": "input", "modname": inputs[0]["modname"], "cdef": inputs[0]["cdef"][:400],
                "prelude": inputs[0]["prelude"][:300]})
    rej = [x for x in inputs if x["_ref"][0] == "err"]
    if rej:
        ctx.sample({"kind": "input the reference rejects", "decoration": rej[0].get("dec"), "exception": rej[0]["_ref"][1],
                    "cli": [(c["sub"], o["status"], o["wrote"]) for c, o in byid[rej[0]["id"]]][:4]})
    ctx.cov["configurations"] = len(configs)
    ctx.cov["exhaustive"] = True
    ctx.cov["rule"] = "distinct = (input, configuration) pairs, each one CLI sub-process; none trivial"
    ctx.assumptions += ["UTF-8 locale (the sandbox default): emit_c_code(path) uses the locale's encoding, the command "
                        "line always UTF-8; under a non-UTF-8 locale non-ASCII preludes are not comparable",
                        "for exec-python the reference is the FFI built in-process from the same (cdef, prelude, name) the "
                        "generated build script passes",
                        "the console script is generated from the working tree's [project.scripts] entry, as pip would"]


def selftest(ctx):
    rec = {"id": "x", "ok": True, "ref": "aa", "ref2": "aa", "obs": [{"status": 0, "digest": "aa", "wrote": True, "mayfail": False}] * 2}
    b1 = json.loads(json.dumps(rec)); b1["obs"][1]["digest"] = "ab"
    b2 = json.loads(json.dumps(rec)); b2["obs"][0]["status"] = 2
    b3 = {"id": "y", "ok": False, "ref": "CDefError", "ref2": "", "obs": [{"status": 0, "digest": "aa", "wrote": True, "mayfail": False},
                                                                         {"status": 1, "digest": "", "wrote": False, "mayfail": False}]}
    bad = validate(ctx, [rec, b1, b2, b3])
    # and a real run whose prelude is changed behind the reference's back
    inp = {"id": "s", "cdef": "int f(int);", "prelude": "/* a */\n", "modname": "m"}
    ref = reference(inp, ctx.tmp)
    script = make_script(ctx)
    cfg = {"sub": "read-sources", "inv": "script", "out": "file", "binding": "object", "ffivar": "default"}
    o1 = run_cli(ctx, script, inp, 0, cfg)
    o2 = run_cli(ctx, script, dict(inp, prelude="/* b */\n"), 1, cfg)
    d = hashlib.sha256(ref[1]).hexdigest()
    ctx.cov["states"] = 1
    return (sorted((k, w) for k, w, _ in bad) == [(1, "bytes"), (2, "status"), (3, "accepted-what-the-reference-rejects")]
            and o1["digest"] == d and o2["digest"] != d)


def replay(ctx, obj):
    rp = obj["replay"]
    ctx.cov["states"] = 1
    inp, cfg = rp["input"], rp["cfg"]
    ref = reference(inp, ctx.tmp)
    if cfg is None:
        same = ref[0] == "ok" and ref[1] == ref[2]
        print("path and file-like references equal:", same)
        if not same:
            ctx.violation(obj["key"], obj["what"], rp)
        return
    script = make_script(ctx)
    pre, outdir, prep = rp.get("pre", "absent"), None, None
    if rp.get("first"):
        outdir = run_cli(ctx, script, rp["first"], "first", cfg)["dir"]       # the earlier run into the same path
    elif pre == "directory":
        prep = lambda p: os.mkdir(p)
    elif pre == "readonly":
        def prep(p):
            with open(p, "w") as f:
                f.write("/* read-only leftovers */\n" * 2000)
            os.chmod(p, 0o444)
    o = run_cli(ctx, script, inp, 0, cfg, outdir=outdir, prepare=prep)
    if ref[0] == "ok" and pre in ("directory", "readonly") and o["status"] != 0:
        ok = True
    elif ref[0] == "ok":
        ok = o["status"] == 0 and o["digest"] == hashlib.sha256(ref[1]).hexdigest()
    else:
        ok = o["status"] != 0 and not o["wrote"]
    print("re-executed %s: reference %s, CLI status %d, wrote %s -> %s" % (cfg, ref[0], o["status"], o["wrote"],
                                                                            "consistent" if ok else "INCONSISTENT"))
    if not ok:
        ctx.violation(obj["key"], obj["what"], rp)


META = {
    "category": "exploration",
    "text": "TLC enumerates the 20 valid points of the command-line configuration matrix (sub-command x invocation x "
            "output x binding x --ffi-var); for every point and every random input (API-flavour cdefs, non-ASCII "
            "preludes, dotted module names) the command line is run in a sub-process as installed and TLC compares the "
            "digests of the bytes it wrote (file or stdout) and its exit status with in-process emit_c_code() to a "
            "StringIO and to a path.",
    "note": "TLA+ contributes only the input space and the oracle equation. UTF-8 locale; inputs without carriage "
            "returns.",
    "technique": "TLA+-enumerated configuration matrix + sub-process replay + TLC digest comparison",
    "design_ref": "DESIGN.md §3 C24",
}
