"""C13 — all call paths to a C function agree.

Specification : specs/Call.tla — a call is (fn, args, mem, errno); ConvertArg per type class
                (integer range rule, _Bool, char, float, the pointer-argument rule, structs by
                value), a family of C functions whose semantics the spec knows, Outcome defined
                once.  Section 5 transcribes the two integer conversion algorithms the paths
                really use (generated _cffi_to_c_iN code / convert_from_object read-back).
Design level  : MC_Call — both algorithms equal the rule for every integer of a window and all
                64-bit boundaries at Base 4, every integer type, plus the non-integer value
                classes; three broken variants must be rejected.  CallXbuf — the exchange
                buffer of cdata_call (fb_build offsets, pointer array, ffi_arg-sized result
                slot) byte by byte for every signature of <= 2 (3) parameters over the
                size/alignment classes; CallFfiType — the flattened element list fb_fill_type
                gives libffi for structs with (multi-dimensional) array fields; broken variants
                of each must be rejected.
Binding       : CallGen — TLC enumerates signature classes x argument classes and predicts each
                class's conversion outcome from ConvertArg; the replayer generates one C
                function per sampled signature and one module exposing it on all four paths
                (API lib attribute, ffi.addressof via libffi, in-line dlopen, out-of-line
                dlopen), executes the argument tuples at the real widths and records return
                value / exception type, pointed-to bytes and ffi.errno; TLC (Trace_Call, Base
                256) validates every record against Outcome and the paths against each other.
"""
import json, os, re
from concurrent.futures import ThreadPoolExecutor
from harness import core
from harness import call_gen as G
from harness import call_run as R

LEVEL = "model_checking"
PATHS = ("api", "addr", "inline", "ool")

MC_CFG = """SPECIFICATION Spec
CONSTANTS Base = 4
  Window = %d
  Edge = %d
  Variant = "%s"
INVARIANT ApiIsRule
INVARIANT FfiIsRule
INVARIANT PathsAgree
INVARIANT ApiStructIsRule
INVARIANT FfiStructIsRule
INVARIANT DigitsSound
CHECK_DEADLOCK FALSE
"""

CLAUSE = {"exc": "a call path raised a different exception type than the conversion rule gives (or none)",
          "ret": "a call path returned a value different from the C function's result",
          "mem": "the pointed-to memory after the call differs from the C function's effect",
          "errno": "ffi.errno after the call differs from what the C function left in errno",
          "disagree": "two call paths gave different outcomes for the same call"}

# how many signatures of each family are replayed: (quick, thorough)
QUOTA = {"sel": (26, 260), "sum": (8, 60), "wr": (5, 14), "rdi": (5, 13), "bump": (3, 10), "seterr": (1, 1),
         "smake": (4, 11), "sget": (5, 33), "vsum": (12, 100), "isum": (2, 10), "asum": (2, 4)}


XB_CFG = """SPECIFICATION Spec
CONSTANTS MaxN = %d
  Variant = "%s"
INVARIANT InBounds
INVARIANT Aligned
INVARIANT ArgsIntact
INVARIANT ResultIntact
CHECK_DEADLOCK FALSE
"""
FT_CFG = """SPECIFICATION Spec
CONSTANTS Variant = "%s"
INVARIANT FilledAsCounted
INVARIANT Covers
CHECK_DEADLOCK FALSE
"""
XB_VARIANTS = (("off0_zero", "ArgsIntact"), ("size_short", "InBounds"), ("struct_nozero", "ArgsIntact"))
VARIANTS = (("api_uge", "ApiIsRule"), ("ffi_zeroext", "FfiIsRule"), ("bool_range", "FfiIsRule"),
            ("api_struct_nozero", "ApiStructIsRule"), ("ffi_struct_nozero", "FfiStructIsRule"))


def design_level(ctx):
    """MC_Call (faithful + three broken variants) and the CallGen enumeration, as concurrent
    TLC runs; returns (signatures, class table, variadic class table)."""
    q = ctx.quick
    win, edge = (140, 3) if q else (700, 12)
    with ThreadPoolExecutor(max_workers=10) as ex:
        fxb = ex.submit(core.tlc, "CallXbuf", cfg_text=XB_CFG % (2 if q else 3, "faithful"), workers=2 if q else 6,
                        timeout=1500)
        # quick: the broken variants are rejected inside the main runs (ASSUMEs of the modules evaluate every
        # variant against the rule); thorough: additionally each variant as its own configuration
        fxv = [ex.submit(core.tlc, "CallXbuf", cfg_text=XB_CFG % (2, v), workers=1, timeout=600, env=R.LIGHT_JVM)
               for v, _inv in (XB_VARIANTS if not q else ())]
        fft = ex.submit(core.tlc, "CallFfiType", cfg_text=FT_CFG % "faithful", workers=2, timeout=600, env=R.LIGHT_JVM)
        fftv = None if q else ex.submit(core.tlc, "CallFfiType", cfg_text=FT_CFG % "lastdim", workers=1, timeout=600)
        fmc = ex.submit(core.tlc, "MC_Call", cfg_text=MC_CFG % (win, edge, "faithful"), workers=4 if q else 8,
                        coverage=not q, timeout=1200)
        fvs = [ex.submit(core.tlc, "MC_Call", cfg_text=MC_CFG % (20, 1, v), workers=1, timeout=600, env=R.LIGHT_JVM)
               for v, _inv in (VARIANTS if not q else ())]
        fgen = ex.submit(R.run_gen, 2 if q else 3, 9 if q else 12)
        r = fmc.result()
        ctx.add_tlc("MC_Call(Base=4,window=%d)" % win, r)
        cov = r.coverage()
        for a in ("Pick", "Convert"):
            if not q and cov.get(a, (0, 0))[1] == 0:
                raise core.MachineryError("MC_Call: action %s never taken" % a)
        if r.depth != 3:       # start -> arg -> done: both actions were taken
            raise core.MachineryError("MC_Call: unexpected depth %d" % r.depth)
        for (v, inv), f in zip(VARIANTS, fvs):
            r = f.result()
            ctx.add_tlc("sanity:" + v, r, require_ok=False, count_states=False)
            if r.ok or not ({inv, "PathsAgree"} & set(r.invariant_violated)):
                raise core.MachineryError("broken variant %s of the conversion model was not rejected by TLC (%s)" % (
                    v, r.invariant_violated))
        ctx.add_tlc("CallXbuf(MaxN=%d)" % (2 if q else 3), fxb.result())
        for (v, inv), f in zip(XB_VARIANTS, fxv):
            r = f.result()
            ctx.add_tlc("sanity:xbuf_" + v, r, require_ok=False, count_states=False)
            if r.ok or inv not in r.invariant_violated:
                raise core.MachineryError("broken variant %s of the exchange-buffer model was not rejected (%s)" % (
                    v, r.invariant_violated))
        ctx.add_tlc("CallFfiType(<=2 fields, <=3 dims)", fft.result())
        if fftv is not None:
            r = fftv.result()
            ctx.add_tlc("sanity:ffitype_lastdim", r, require_ok=False, count_states=False)
            if r.ok or not r.invariant_violated:
                raise core.MachineryError("broken variant lastdim of the ffi_type model was not rejected")
        ctx.cov["variants_rejected_by_assume"] = ["api_uge", "ffi_zeroext", "bool_range", "struct_nozero(store)",
                                                  "xbuf:off0_zero", "xbuf:size_short", "xbuf:struct_nozero",
                                                  "ffitype:lastdim"]
        return R.parse_space(ctx, *fgen.result())


def sample_sigs(ctx, sigs):
    rng = ctx.rng
    by = {}
    for s in sigs:
        by.setdefault(s[0], []).append(s)
    chosen = []
    for fam, (nq, nt) in QUOTA.items():
        pool = by.get(fam, [])
        n = min(len(pool), nq if ctx.quick else nt)
        if fam == "sel":            # keep the wide (stack-passing) and the array-field signatures represented
            wide = [s for s in pool if len(s[1]) >= 5]
            arrs = [s for s in pool if any(t in G.ARR_STRUCTS for t in s[1])]
            arrset = set(arrs)
            narrow = [s for s in pool if len(s[1]) < 5 and s not in arrset]
            nw = min(len(wide), max(4, n // 5))
            na = min(len(arrs), max(8, n // 4))
            chosen += rng.sample(wide, nw) + rng.sample(arrs, na) + rng.sample(narrow, min(len(narrow), n - nw - na))
        else:
            chosen += rng.sample(pool, n)
    return chosen


def key_of(sig, case, clause, path):
    fam = sig[0]
    types = ",".join(sig[1]) if fam in ("sel", "sum", "vsum") else (str(sig[1]) if len(sig) > 1 else "")
    if fam in ("isum", "asum") and case.get("args") and case["args"][0][0] in ("list", "tuple"):
        types += ",n=%d" % len(case["args"][0][1])
    nparams = len(G.arg_types(sig)) + (len(sig[1]) if fam == "vsum" else 0)
    nargs = case.get("nargs", nparams)
    argc = "ok" if nargs == nparams else "short" if nargs < nparams else "long"
    return "%s:%s:%s(%s)[%s]/argc=%s" % (clause, path, fam, types, ",".join(case.get("classes", [])), argc)


def run_cases(ctx, sigs, cls, vcls, ntuples, tag="m"):
    """Build one module for `sigs`, execute ntuples calls per signature on all four paths,
    validate; returns (records, bad verdicts, crashes, funcs)."""
    funcs = {}
    vs = [s for s in sigs if s[0] == "vsum"]
    for i, s in enumerate(x for x in sigs if x[0] != "vsum"):
        funcs["f%d" % i] = s
    if vs:
        funcs["vsum"] = ("vsum", ())
    cdef, src = G.render_module(funcs, pad=30 if ctx.quick else 50)
    plan = R.build_libs(ctx, tag, cdef, src)
    with open(os.path.join(plan["dir"], plan["ool_module"] + ".py")) as f:
        m = re.search(r"_types = b'((?:\\x[0-9a-fA-F]{2})*)'", f.read())
    nslots = len(m.group(1)) // 16 if m else 0
    ctx.cov["type_table_slots"] = max(ctx.cov.get("type_table_slots", 0), nslots)
    if nslots <= (256 if ctx.quick else 1000):
        raise core.MachineryError("generated module has only %d type-table slots" % nslots)
    b = G.Builder(ctx.rng, cls, vcls)
    cases, meta = [], {}
    cid = 0
    for name, s in sorted(funcs.items()):
        if s[0] == "vsum":
            continue
        forced = []
        if s[0] == "asum":      # every convertible list class x every length around the 640-byte threshold
            forced = [(c, n) for c in ("sl_full", "sl_short", "sl_dict", "sl_empty", "sl_tuple") for n in b.big_n(s)]
        for j in range(len(forced) + (ntuples if not forced else 8)):
            cid += 1
            case, expect = b.case(cid, name, s, force_ok=(j == 0), force=forced[j] if j < len(forced) else None)
            cases.append(case)
            meta[cid] = (s, expect)
    for s in vs:
        for j in range(max(1, ntuples // 8)):
            cid += 1
            case, expect = b.case(cid, "vsum", s, pbad=0.1, force_ok=(j == 0))
            cases.append(case)
            meta[cid] = (s, expect)
    obs, crashes = R.execute(ctx, plan, cases, PATHS, nworkers=4 if ctx.quick else 8)
    records = []
    for case in cases:
        if case["id"] not in obs:
            continue
        s, expect = meta[case["id"]]
        records.append(G.record(case, s, expect, obs[case["id"]]))
        ctx.case((s, json.dumps(case["args"])))
    bad = R.validate(ctx, records, chunk=700 if ctx.quick else 2500, parallel=4)
    return cases, meta, obs, records, bad, crashes


def report(ctx, cases, meta, obs, records, bad, crashes):
    byid = {c["id"]: c for c in cases}
    recs = {r["id"]: r for r in records}
    for cr in crashes:
        s = meta[cr["case"]["id"]][0]
        ctx.violation(key_of(s, cr["case"], "crash", cr["path"]),
                      "the interpreter died with signal %d during a call" % cr["signal"],
                      {"sig": s, "case": cr["case"]})
    for cid, vs in sorted(bad.items()):
        s, expect = meta[cid]
        spec = [v for v in vs if v[0] == "spec"]
        if spec:
            raise core.MachineryError("specification inconsistent with itself: CallGen (Base 4) predicts %r, "
                                      "Outcome (Base 256) gives %s for %r %r" % (expect, spec[0][2], s, byid[cid]["args"]))
        path, clause, detail = vs[0]
        ctx.violation(key_of(s, byid[cid], clause, path), CLAUSE.get(clause, clause),
                      {"sig": s, "case": byid[cid], "expect": expect, "observed": obs[cid],
                       "verdicts": [list(v[:2]) for v in vs], "predicted": str(detail)[:1500]})
    ctx.validated(len(records) * len(PATHS))


def run(ctx):
    sigs, cls, vcls = design_level(ctx)
    chosen = sample_sigs(ctx, sigs)
    ntuples = 40
    batches = [chosen] if ctx.quick else [chosen[i::4] for i in range(4)]
    nrec = 0
    for bi, batch in enumerate(batches):
        cases, meta, obs, records, bad, crashes = run_cases(ctx, batch, cls, vcls, ntuples, tag="b%d" % bi)
        report(ctx, cases, meta, obs, records, bad, crashes)
        nrec += len(records)
        for r in records[:2]:
            ctx.sample({"kind": "call record validated against Outcome", "sig": meta[r["id"]][0],
                        "args": [c for c in cases if c["id"] == r["id"]][0]["args"],
                        "observed": [{"paths": g["paths"], "exc": g["o"]["exc"], "ret": g["o"]["ret"],
                                      "errno": g["o"]["errno"]} for g in r["obs"]]}, limit=4)
    ctx.cov["signature_classes_enumerated"] = len(sigs)
    ctx.cov["signatures_replayed"] = len(chosen)
    ctx.cov["calls"] = nrec
    ctx.cov["rule"] = ("distinct = distinct (signature, argument tuple) pairs executed on all four paths; each "
                       "involves a conversion of >=1 argument and a real C call or a conversion error")
    ctx.cov["exhaustive"] = False
    ctx.assumptions += [
        "IEEE narrowing double->float and int->double are taken from the reference (ctypes.c_float / CPython), "
        "not modelled; NaN payloads are not compared",
        "gcc compiles the generated family as the C standard says (the functions avoid undefined behaviour)",
        "x86-64 SysV, little-endian; the big-endian result-offset branch of cdata_call is not exercised"]


def replay(ctx, obj):
    rp = obj["replay"]
    sig = tuple(tuple(x) if isinstance(x, list) else x for x in rp["sig"])
    funcs = {"vsum" if sig[0] == "vsum" else "f0": ("vsum", ()) if sig[0] == "vsum" else sig}
    cdef, src = G.render_module(funcs)
    plan = R.build_libs(ctx, "replay", cdef, src)
    case = dict(rp["case"])
    case["fname"] = list(funcs)[0]
    obs, crashes = R.execute(ctx, plan, [case], PATHS, nworkers=1)
    ctx.cov["states"] = ctx.cov["transitions"] = 1
    if crashes:
        ctx.violation(obj["key"], "crash", rp)
        return
    bad = R.validate(ctx, [G.record(case, sig, rp.get("expect", ""), obs[case["id"]])])
    for cid, vs in bad.items():
        ctx.violation(obj["key"], CLAUSE.get(vs[0][1], vs[0][1]), rp)
    print("replayed call: %s" % ("rejected by Outcome: %s" % [v[:2] for v in bad.get(case["id"], [])] if bad else "accepted"))


def selftest(ctx):
    """Flip one observed field of a recorded call and see the validation reject it."""
    cls = {"i32": {"mid": ("", False, False)}}
    b = G.Builder(ctx.rng, cls, {})
    sig = ("sum", ("i32", "i32"), "i64")
    cdef, src = G.render_module({"f0": sig})
    plan = R.build_libs(ctx, "self", cdef, src)
    case, expect = b.case(1, "f0", sig, force_ok=True)
    obs, _ = R.execute(ctx, plan, [case], PATHS, nworkers=1)
    ok1 = not R.validate(ctx, [G.record(case, sig, expect, obs[1])])
    o2 = json.loads(json.dumps(obs[1]))
    mag = o2["ool"]["ret"]["mag"]
    o2["ool"]["ret"]["mag"] = [(mag[0] if mag else 0) ^ 1] + mag[1:]
    bad = R.validate(ctx, [G.record(case, sig, expect, o2)])
    ok2 = any(v[0] == "ool" and v[1] == "ret" for v in bad.get(1, []))
    o3 = json.loads(json.dumps(obs[1]))
    o3["api"]["errno"] += 1
    ok3 = any(v[1] == "errno" for v in R.validate(ctx, [G.record(case, sig, expect, o3)]).get(1, []))
    return ok1 and ok2 and ok3


META = {
    "category": "model_checking",
    "text": "Call.tla defines the outcome of a call once (argument conversion rule per type class + the C "
            "semantics of a function family); TLC checks at Base 4 that the two integer conversion algorithms "
            "used by the call paths equal the rule for every integer of a window and every 64-bit boundary, "
            "enumerates the signature classes x argument classes (CallGen) and predicts each class's outcome; "
            "the replayer compiles sampled signatures into one module exposed on all four paths, executes the "
            "class tuples at real widths, and TLC validates every record (return value or exception type, "
            "pointed-to bytes, errno) against Outcome at Base 256 and the four paths against each other.",
    "note": "Trusted: gcc, libffi, TLC, ctypes/CPython for IEEE narrowing. Signatures are sampled from the "
            "TLC-enumerated space (not exhaustive); long double, complex, unions and wchar_t are outside the "
            "family; big-endian branches are not exercised.",
    "technique": "TLA+ operator model (TLC exhaustive at small base) + TLC-enumerated input classes replayed on "
                 "real builds + TLC validation of recorded calls",
    "design_ref": "DESIGN.md §3 C13",
}
