"""C29 — callback closures stay distinct and bound to their own function.

Design level : specs/ClosuresIdeal.tla is the property as a machine (create/drop/call events: live
               callbacks have pairwise distinct addresses; a call runs exactly the callback's own
               Python function, with its own signature, and its result comes back).
               specs/Closures.tla transcribes src/c/malloc_closure.h (more_core with the 1.3 growth
               rule, the singly linked free list, alloc = pop, free = push) and the way b_callback /
               cdataowninggc_dealloc / invoke_callback use it (user_data binding, every failure exit of
               b_callback after the closure was allocated: GC_New out of memory, unsupported signature,
               ffi_prep_closure failure, bad user_data); TLC explores every history of 3 callbacks x 2 signatures over blocks of
               1, 2 and 3 slots (thorough: 4 callbacks) and checks the refinement, free /\\ live = {},
               no duplicates on the free list, every block inside the bytes mmap()ed for its chunk, LIFO
               reuse; an invocation is also a two-step action (Begin / End with a stack of activations
               holding their own reference to the info tuple), so that the callback that is running
               can be dropped and its closure reused before it returns or raises (own error value, own
               onerror handler); six broken variants must be rejected.
Binding      : sessions (one fresh process each, the allocator is process-wide) of create / failing
               create (variadic signature; allocation failures injected into ffi.callback() with
               _testcapi.set_nomemory) / drop / call operations on real ffi.callback() objects with five signatures,
               called through the cdata and from a C caller compiled at run time:
               spec -> code: walks covering the transitions of the explored graph, concatenated;
               code -> spec: random histories hovering around the real block boundaries (73, 219, 438,
               730, ... closures), bursts with thousands alive, one burst with 20 000 (thorough: 25 000
               and 40 000) alive that reaches more_core's 14th..17th chunk; sessions with reference
               cycles freed by gc.collect(); reentrant sessions (also walks of the in-flight graph): the
               Python function of a callback, called through a non-owning function pointer (directly /
               from C), drops callbacks - also itself -, creates new ones in the freed closure, calls
               others (nested 3 deep) and then returns or raises; every callback has its own error
               value and possibly its own onerror handler (events begin ... end).
               TLC validates every session against the ideal (verdicts) and runs the implementation
               model at the real sizes (taken from gcc) over the same operations; the predicted
               addresses must equal the real ones up to one page-aligned base per mmap()ed block
               (notes on divergence).
"""
import json, os, re, subprocess, time
from harness import core, tlaval, life_common

LEVEL = "model_checking"

MC = """SPECIFICATION Spec
CONSTANTS Cbs = {%s}
  PageSize = %d
  SlotSize = 2
  Gap = 100
  Sigs = {%s}
  OnErrs = {%s}
  MaxDepth = %d
  Cap = 2
  Variant = "%s"
VIEW View
PROPERTY ISpec
%s
CHECK_DEADLOCK FALSE
"""
FULL = """PROPERTY Lifo
INVARIANT DistinctLive
INVARIANT FreeDisjointLive
INVARIANT FreeNoDup
INVARIANT BoundOwn
INVARIANT FramesOwn
INVARIANT OwnLive
INVARIANT InsideMapping"""
FLAT = ('"i","d"', "TRUE", 0)             # histories without invocations in flight (as before the 4th wave)
INFLIGHT = ('"i"', "TRUE, FALSE", 2)      # 2 callbacks, with / without onerror, invocations nested 2 deep

IMPL_CFG = """SPECIFICATION TSpec
CONSTANTS Cbs = {0}
  PageSize = %d
  SlotSize = %d
  Gap = %d
  Sigs = {"i"}
  OnErrs = {TRUE}
  MaxDepth = 0
  Cap = 0
  Variant = "faithful"
CHECK_DEADLOCK FALSE
"""
GAP = 1 << 20

HELPER_C = """
int cv29_call_i(int (*f)(int), int a) { return f(a); }
double cv29_call_d(double (*f)(double, double), double a, double b) { return f(a, b); }
long long cv29_call_q(long long (*f)(long long, int), long long a, int b) { return f(a, b); }
short cv29_call_h(short (*f)(short, signed char), short a, signed char b) { return f(a, b); }
void cv29_call_v(void (*f)(void)) { f(); }
"""
PROBE_C = """
#include <ffi.h>
#include <stdio.h>
#include <unistd.h>
union mmapped_block { ffi_closure closure; union mmapped_block *next; };
int main(void) { printf("%zu %ld\\n", sizeof(union mmapped_block), (long)sysconf(_SC_PAGESIZE)); return 0; }
"""
WORKER = os.path.join(core.VERIF, "harness", "life_cbworker.py")
SIGKINDS = ["i", "d", "q", "h", "v"]

CLAUSE = {"create": "a new callback got the address of another live callback",
          "begin": "a call did not enter exactly the callback's own function with its own signature",
          "end": "an invocation in flight (its callback possibly dropped / its closure reused meanwhile) did not come "
                 "back with its own result: on return the function's value, on raise the callback's OWN error value "
                 "through its OWN onerror handler",
          "end-unnested": "harness: end of an invocation that is not the innermost one",
          "call": "a call did not run exactly the callback's own function with its own signature and result",
          "drop": "harness: drop of a callback that is not live"}


def call_args(rng, s):
    if s == "i":
        return [rng.randrange(-1000, 1000)]
    if s == "d":
        return [rng.randrange(-1000, 1000), rng.randrange(-1000, 1000)]
    if s == "q":
        return [rng.randrange(-2 ** 29, 2 ** 29), rng.randrange(-1000, 1000)]
    if s == "h":
        return [rng.randrange(-100, 100), rng.randrange(-100, 100)]
    return []


def block_boundaries(page, slot, upto):
    """cumulative number of closures after each more_core(): 73, 219, 438, ... (real sizes)"""
    out, n, tot = [], 0, 0
    while tot < upto:
        n = 1 + (n * 13) // 10
        tot += (n * page) // slot
        out.append(tot)
    return out


def gen_random(rng, steps, peak, bounds, cycles):
    ops, live, sig = [], [], {}
    nextc = 1
    levels = sorted(set([0, 3] + [b + d for b in bounds for d in (-1, 0, 1, 2) if b + d <= peak] + [peak]))
    target = rng.choice(levels)
    pending_cyc = 0
    for _ in range(steps):
        if rng.random() < 0.01:
            target = rng.choice(levels)
        r = rng.random()
        grow = len(live) < target
        if r < (0.62 if grow else 0.12) or not live:
            c = nextc
            nextc += 1
            s = rng.choice(SIGKINDS)
            ops.append(["create", c, s])
            live.append(c)
            sig[c] = s
        elif r < (0.74 if grow else 0.62):
            c = live.pop(rng.randrange(len(live)) if rng.random() < 0.7 else -1)
            if cycles and rng.random() < 0.4:
                ops.append(["dropcyc", c])
                pending_cyc += 1
            else:
                ops.append(["drop", c])
        elif r < 0.80:
            rr = rng.random()
            if rr < 0.45:
                nextc += 1
                ops.append(["createoom", nextc - 1, rng.choice(SIGKINDS), rng.randrange(0, 12)])
            else:
                ops.append(["createfail"] if rr < 0.85 else ["reject"])
        elif r < 0.83 and cycles and pending_cyc:
            ops.append(["gc"])
            pending_cyc = 0
        else:
            c = rng.choice(live)
            ops.append(["call", c, rng.choice(["cdata", "C"]), call_args(rng, sig[c])])
    if cycles:
        ops.append(["gc"])
    return ops


def gen_burst(rng, n):
    """thousands alive at once, then drops in random order and reuse"""
    ops, live, sig = [], [], {}
    nextc = 1

    def create(k):
        nonlocal nextc
        for _ in range(k):
            s = rng.choice(SIGKINDS)
            ops.append(["create", nextc, s])
            live.append(nextc)
            sig[nextc] = s
            nextc += 1

    def calls(k):
        for c in rng.sample(live, min(k, len(live))):
            ops.append(["call", c, rng.choice(["cdata", "C"]), call_args(rng, sig[c])])

    def drops(k):
        for _ in range(min(k, len(live))):
            ops.append(["drop", live.pop(rng.randrange(len(live)))])
    create(n)
    calls(n // 8)
    drops(n // 2)
    calls(n // 16)
    create(n // 3)
    calls(n // 8)
    drops(len(live) - 5)
    create(40)
    calls(45)
    return ops


def gen_bigburst(rng, n, bounds):
    """tens of thousands of callbacks alive at once (more_core's 14th chunk and beyond): create n, call
    every 50th one and all those of the last two chunks, through the cdata and from C; free a sample,
    create as many again (reuse across chunks) and call those.  The process then ends with
    everything alive (recording n drops would only make the allocator fold quadratic)."""
    ops, sig = [], {}
    for c in range(1, n + 1):
        s = rng.choice(SIGKINDS)
        sig[c] = s
        ops.append(["create", c, s])
    inner = [b for b in bounds if b < n]
    last2 = inner[-2] if len(inner) >= 2 else 0
    for c in range(1, n + 1):
        if c % 50 == 0 or c > last2:
            ops.append(["call", c, "cdata" if c % 2 else "C", call_args(rng, sig[c])])
    victims = rng.sample(range(1, n + 1), min(2000, n // 4))
    for c in victims:
        ops.append(["drop", c])
    for k in range(len(victims)):
        c = n + 1 + k
        sig[c] = rng.choice(SIGKINDS)
        ops.append(["create", c, sig[c]])
        ops.append(["call", c, "C" if c % 2 else "cdata", call_args(rng, sig[c])])
    return ops


ERRMODES = ["n", "e", "eo"]


def gen_reentrant(rng, steps, peak):
    """histories that are not flat: the Python function of a callback (called through a non-owning function
    pointer, directly or from C) itself drops callbacks - also the one that is running -, creates new ones
    (which reuse the closure just freed), calls others, and then returns or raises (its own error value /
    its own onerror handler must be used).  Invocations nest up to 3 deep."""
    ops, live, sig = [], [], {}
    nextc = [1]

    def create(out):
        c = nextc[0]
        nextc[0] += 1
        sig[c] = rng.choice(SIGKINDS)
        out.append(["create", c, sig[c], rng.choice(ERRMODES)])
        live.append(c)

    def drop(out, c):
        live.remove(c)
        out.append(["drop", c])

    def body_call(out, c, depth):
        inner = []
        op = ["call", c, rng.choice(["raw", "rawC"]), call_args(rng, sig[c]), {"ops": inner, "raise": False}]
        out.append(op)
        for _ in range(rng.choice([0, 1, 2, 2, 3, 4, 6])):
            r = rng.random()
            if r < 0.30 and c in live:
                drop(inner, c)                                  # the running callback drops itself
            elif r < 0.55:
                create(inner)
            elif r < 0.65 and live:
                drop(inner, rng.choice(live))
            elif r < 0.80 and live and depth < 3:
                body_call(inner, rng.choice(live), depth + 1)
            elif live:
                d = rng.choice(live)
                inner.append(["call", d, rng.choice(["cdata", "C"]), call_args(rng, sig[d])])
        op[4]["raise"] = rng.random() < 0.6

    for _ in range(steps):
        r = rng.random()
        if not live or r < (0.30 if len(live) < peak else 0.05):
            create(ops)
        elif r < 0.40:
            drop(ops, rng.choice(live))
        elif r < 0.50:
            c = rng.choice(live)
            ops.append(["call", c, rng.choice(["cdata", "C"]), call_args(rng, sig[c])])
        else:
            body_call(ops, rng.choice(live), 1)
    return ops


def shard(ideal, k=64):
    """Split the ideal trace of a huge session into k traces by address (a callback's events go to the
    trace of its address modulo k).  Sound for the ideal: the only clause relating two callbacks is
    'distinct addresses', and callbacks of different traces have different addresses by construction.
    -> list of (trace, positions in the original trace)"""
    where, parts = {}, [([], []) for _ in range(k)]
    for i, e in enumerate(ideal):
        if e["ev"] == "create":
            where[e["c"]] = e["a"] % k
        w = where.get(e["c"], 0)
        parts[w][0].append(e)
        parts[w][1].append(i)
    return [p for p in parts if p[0]]


def gen_from_graph(g, rng, npaths, cover, base0=0):
    """spec -> code: paths of the explored graph of Closures.tla (3 callbacks, 2 signatures), each
    followed by dropping what it left alive; callback ids are made unique per path"""
    out = {}
    for n, es in g.out.items():
        seen, lst = set(), []
        for act, args, dst in es:
            if (act, args) not in seen:
                seen.add((act, args))
                lst.append((act, args, dst))
        out[n] = lst
    paths = []
    # shortest-path tree for transition coverage
    parent, order = {g.init[0]: None}, [g.init[0]]
    for n in order:
        for act, args, dst in out.get(n, []):
            if dst not in parent:
                parent[dst] = (n, act, args)
                order.append(dst)
    edges = [(n, act, args) for n in order for act, args, _d in out.get(n, [])]
    nedges = len(edges)
    if cover is not None and len(edges) > cover:
        edges = rng.sample(edges, cover)
    for n, act, args in edges:
        p = [(act, args)]
        while parent[n] is not None:
            m, a, ar = parent[n]
            p.append((a, ar))
            n = m
        paths.append(p[::-1])
    for _ in range(npaths):
        cur, p = g.init[0], []
        for _i in range(rng.randrange(6, 16)):
            es = out.get(cur, [])
            if not es:
                break
            act, args, cur = rng.choice(es)
            p.append((act, args))
        paths.append(p)
    chunks, ops, base = [], [], base0
    for p in paths:
        base += 10
        live = {}
        top = ops              # operations go to the body of the innermost invocation in flight
        open_ = []             # [(list the call was appended to, call operation)]
        for act, args in p:
            ops = open_[-1][1][4]["ops"] if open_ else top
            if act == "Begin":
                c = base + args[0]
                op = ["call", c, rng.choice(["raw", "rawC"]), call_args(rng, live[c]), {"ops": [], "raise": False}]
                ops.append(op)
                open_.append((ops, op))
                continue
            if act == "End":
                open_.pop()[1][4]["raise"] = args[0] == "raise"
                continue
            if act == "Create":
                c, s = base + args[0], args[1]
                if len(args) > 2:
                    ops.append(["create", c, s, "eo" if args[2] in (True, "TRUE") else rng.choice(["n", "e"])])
                else:
                    ops.append(["create", c, s])
                live[c] = s
            elif act == "CreateFail":
                # the model's failure exits; "gcnew" is an allocation failure injected into ffi.callback()
                if args[0] == "gcnew":
                    ops.append(["createoom", base + 9, rng.choice(SIGKINDS), rng.randrange(0, 12)])
                else:
                    ops.append(["createfail"])
            elif act == "Drop":
                ops.append(["drop", base + args[0]])
                live.pop(base + args[0])
            elif act == "Call":
                c = base + args[0]
                ops.append(["call", c, rng.choice(["cdata", "C"]), call_args(rng, live[c])])
            else:
                raise core.MachineryError("unknown action %s in the Closures graph" % act)
        for _ls, op in open_:           # invocations the path left in flight come back
            op[4]["raise"] = rng.random() < 0.5
        ops = top
        for c in sorted(live, reverse=rng.random() < 0.5):
            ops.append(["drop", c])
        if len(ops) >= 4000:            # one session (process) per 4 000 top-level operations
            chunks.append(ops)
            ops = []
    if ops:
        chunks.append(ops)
    return chunks, len(paths), nedges


def run_session(cfg, ops, careful=False):
    c = dict(cfg)
    c["careful"] = careful
    p = subprocess.run([core.PY, WORKER, json.dumps(c)], input=json.dumps(ops), capture_output=True, text=True,
                       env=core.sub_env(), timeout=1800)
    events, at = [], None
    for line in p.stdout.splitlines():
        try:
            m = json.loads(line)
        except ValueError:
            break
        if "at" in m:
            at = m["at"]
        else:
            events.append(m)
    ended = bool(events) and events[-1].get("ev") == "end-of-session"
    if ended:
        events.pop()
        return events, None
    if p.returncode is not None and p.returncode < 0:
        if not careful:
            return run_session(cfg, ops, careful=True)
        return events, {"signal": -p.returncode, "op_index": at, "op": ops[at] if at is not None else None}
    raise core.MachineryError("C29 worker failed (rc=%s):\n%s" % (p.returncode, p.stderr[-3000:]))


def to_traces(events):
    """-> (ideal trace with addresses renamed, implementation-model trace, real addresses of creates,
    index of the recorded event behind every entry of the ideal trace)"""
    aid, ideal, impl, addrs, src = {}, [], [], [], []
    created = {}           # callback -> number of its create (for the allocator fold)
    for ei, e in enumerate(events):
        ev = e["ev"]
        n0 = len(ideal)
        if ev == "create":
            a = aid.setdefault(e["addr"], len(aid) + 1)
            ideal.append({"ev": "create", "c": e["c"], "a": a, "errv": e.get("errv", ["none", 0]),
                          "oe": bool(e.get("oe", False))})
            impl.append({"ev": "create"})
            addrs.append(e["addr"])
            created[e["c"]] = len(addrs)
        elif ev == "drop":
            ideal.append({"ev": "drop", "c": e["c"]})
            impl.append({"ev": "drop", "j": created.pop(e["c"], 0)})
        elif ev == "gc":
            for c in e["dropped"]:
                ideal.append({"ev": "drop", "c": c})
        elif ev == "createfail":
            impl.append({"ev": "createfail"})
        elif ev == "call":
            ideal.append({"ev": "call", "c": e["c"], "ran": e["ran"], "sent": e["sent"], "recv": e["recv"],
                          "ret": e["ret"], "exp": e["exp"]})
        elif ev == "begin":
            ideal.append({"ev": "begin", "c": e["c"], "ran": e["ran"], "sent": e["sent"], "recv": e["recv"]})
        elif ev == "end":
            ideal.append({"ev": "end", "c": e["c"], "how": e["how"], "herr": e["herr"], "ret": e["ret"], "exp": e["exp"]})
        elif ev in ("reject", "dropcyc", "skipped"):
            pass
        else:
            raise core.MachineryError("C29 worker reported %r" % (e,))
        src += [ei] * (len(ideal) - n0)
    return ideal, impl, addrs, src


def validate_ideal(ctx, traces):
    tups = life_common.verdicts(ctx, "Trace_Closures", traces)
    got = {int(t[0]): (core.unq(t[1]), int(t[2])) for t in tups}
    if len(got) != len(traces):
        raise core.MachineryError("Trace_Closures: %d verdicts for %d traces" % (len(got), len(traces)))
    return {k - 1: v for k, v in got.items() if v[0] != "ok"}


def predict(ctx, impl_traces, page, slot):
    out = life_common.verdicts(ctx, "Trace_ClosuresImpl", impl_traces, cfg_text=IMPL_CFG % (page, slot, GAP),
                               name="Trace_ClosuresImpl(page=%d,closure=%d)" % (page, slot), raw=True)
    pred = {}
    for m in re.finditer(r'"SLOTS (\d+) (in|OUT) <<([^>]*)>>"', out):
        pred[int(m.group(1)) - 1] = [int(x) for x in m.group(3).split(",") if x.strip()]
        if m.group(2) != "in":
            raise core.MachineryError("the faithful model predicts a closure outside its chunk's mapping")
    if len(pred) != len(impl_traces):
        raise core.MachineryError("Trace_ClosuresImpl: %d predictions for %d sessions\n%s" % (
            len(pred), len(impl_traces), out[-1500:]))
    return pred


def fit(pred, addrs, page):
    """the real addresses must be the predicted ones up to one page-aligned base per block"""
    if len(pred) != len(addrs):
        return "model predicts %d successful creates, %d happened" % (len(pred), len(addrs))
    base = {}
    for j, (p, a) in enumerate(zip(pred, addrs)):
        b, off = divmod(p, GAP)
        want = a - off
        if b not in base:
            if want % page:
                return "create #%d: block %d would start at %#x (not page aligned)" % (j, b, want)
            base[b] = want
        elif base[b] != want:
            return "create #%d at %#x: model predicts block %d offset %d (block base %#x)" % (j, a, b, off, base[b])
    if len(set(base.values())) != len(base):
        return "two blocks at the same base"
    return None


def dropped_running(events):
    """number of invocations whose callback was dropped, and a callback created at its address, while it ran
    and which then raised"""
    n, stack, addr = 0, [], {}
    for e in events:
        if e["ev"] == "create":
            addr[e["c"]] = e["addr"]
            for f in stack:
                if f[1] and f[2] == e["addr"]:
                    f[3] = True
        elif e["ev"] == "begin":
            stack.append([e["c"], False, addr.get(e["c"]), False])
        elif e["ev"] == "drop":
            for f in stack:
                if f[0] == e["c"]:
                    f[1] = True
        elif e["ev"] == "end" and stack:
            f = stack.pop()
            n += 1 if f[3] and e["how"] == "raise" else 0
    return n


def violation_key(e, verdict):
    if verdict == "create":
        return "create:duplicate-address"
    if verdict == "call":
        if e["ran"] != [e["c"]]:
            what = "wrong-function"
        elif e["recv"] != e["sent"]:
            what = "wrong-arguments"
        else:
            what = "wrong-result"
        return "call:%s:%s:%s" % (e["via"], e["s"], what)
    if verdict == "begin":
        return "call:%s:%s:inflight:%s" % (e["via"], e["s"], "wrong-function" if e["ran"] != [e["c"]] else "wrong-arguments")
    if verdict == "end":
        if e["how"] == "return":
            what = "wrong-result" if e["ret"] != e["exp"] or e["herr"] else "unclassified"
            if e["herr"]:
                what = "onerror-ran-without-error"
        else:
            what = "foreign-or-missing-onerror" if (e["herr"] and e["herr"] != [e["c"]]) else "not-own-error-binding"
        return "call:%s:%s:inflight-%s:%s" % (e["via"], e["s"], e["how"], what)
    raise core.MachineryError("C29 harness produced a history outside the domain of the ideal: %s %r" % (verdict, e))


def design_level(ctx, quick):
    dump = os.path.join(ctx.tmp, "closures")
    dump2 = os.path.join(ctx.tmp, "closures_inflight")
    def mc():
        r = core.tlc("Closures", cfg_text=MC % (("1,2,3", 2) + FLAT + ("faithful", FULL)), dump=dump, workers=4, timeout=3000)
        ctx.add_tlc("MC_Closures(3cbs,2sigs,blocks 1/2/3)", r)

    def mcfl():
        r = core.tlc("Closures", cfg_text=MC % (("1,2", 2) + INFLIGHT + ("faithful", FULL)), dump=dump2, workers=4,
                     timeout=3000)
        ctx.add_tlc("MC_Closures(in flight: 2cbs, onerror yes/no, nesting 2, blocks 1/2)", r)

    def mcfl3():
        r = core.tlc("Closures", cfg_text=MC % ("1,2,3", 2, '"i","d"', "TRUE, FALSE", 1, "faithful", FULL), workers=6,
                     timeout=3000)
        ctx.add_tlc("MC_Closures(in flight: 3cbs, 2sigs, onerror yes/no, nesting 1, blocks 1/2/3)", r)

    def mc4():
        r = core.tlc("Closures", cfg_text=MC % (("1,2,3,4", 3) + FLAT + ("faithful", FULL)), workers=6, timeout=2400)
        ctx.add_tlc("MC_Closures(4cbs,2sigs,blocks 1/3/4)", r)

    def variant(v):
        dims = INFLIGHT if v == "borrowed-info" else FLAT
        r = core.tlc("Closures", cfg_text=MC % (("1,2" if v == "borrowed-info" else "1,2,3", 2) + dims + (
                         v, "INVARIANT InsideMapping" if v == "cap-after-count" else "")),
                     workers=2, timeout=3000)
        ctx.add_tlc("sanity:" + v, r, require_ok=False, count_states=False)
        if r.ok or "is violated" not in r.out:
            raise core.MachineryError("broken variant %s of Closures was not rejected by TLC:\n%s" % (v, r.out[-1500:]))
    jobs = {"mc": (mc, ()), "mcfl": (mcfl, ())}
    if not quick:
        jobs["mc4"] = (mc4, ())
        jobs["mcfl3"] = (mcfl3, ())
    for v in ("nopop", "doublefree", "doublefree-on-oom", "stalebind", "cap-after-count", "borrowed-info"):
        jobs[v] = (variant, (v,))
    life_common.parallel(jobs)
    g = tlaval.load_dot(dump + ".dot", parse=False)
    g2 = tlaval.load_dot(dump2 + ".dot", parse=False)
    acts = {e[0] for es in g.out.values() for e in es}
    acts2 = {e[0] for es in g2.out.values() for e in es}
    missing = ({"Create", "CreateFail", "Drop", "Call"} - acts) | ({"Create", "Drop", "Call", "Begin", "End"} - acts2)
    if missing:
        raise core.MachineryError("Closures: actions never taken: %s" % sorted(missing))
    for a in sorted(acts):
        ctx.cov["actions"]["Closures." + a] = sum(1 for es in g.out.values() for e in es if e[0] == a)
    for a in sorted(acts2):
        ctx.cov["actions"]["Closures(in flight)." + a] = sum(1 for es in g2.out.values() for e in es if e[0] == a)
    return g, g2


def run(ctx):
    quick = ctx.quick
    phases = ctx.cov.setdefault("phase_wall_s", {})
    t0 = [time.time()]

    def phase(name):
        phases[name] = round(time.time() - t0[0], 1)
        t0[0] = time.time()
    helper = core.gcc_shared(HELPER_C, os.path.join(ctx.tmp, "libcv29helper.so"))
    slot, page = [int(x) for x in core.gcc_run(PROBE_C, ctx.tmp, "cv29probe",
                                                flags=["-I/usr/include/ffi", "-I/usr/include/libffi"]).split()]
    cfg = {"helper": helper}
    phase("build")
    g, g2 = design_level(ctx, quick)
    phase("tlc-design")
    rng = ctx.rng
    peak = 1300 if quick else 4000
    bounds = block_boundaries(page, slot, peak)
    sessions = []          # (kind, ops, predictable)
    gops, npaths, nedges = gen_from_graph(g, rng, 150 if quick else 1500, 600 if quick else None)
    for ch in gops:
        sessions.append(("model-paths", ch, True))
    gops2, npaths2, nedges2 = gen_from_graph(g2, rng, 150 if quick else 1500, 600 if quick else None, base0=10 ** 6)
    for ch in gops2:
        sessions.append(("model-paths-in-flight", ch, True))
    for i in range(2 if quick else 8):
        sessions.append(("reentrant", gen_reentrant(rng, 1200 if quick else 3000, rng.choice([6, 20, 80])), True))
    for i in range(3 if quick else 10):
        sessions.append(("random", gen_random(rng, 2500 if quick else 12000, rng.choice([80, 240, 460, 800]),
                                              bounds, False), True))
    sessions.append(("burst", gen_burst(rng, peak), True))
    allbounds = block_boundaries(page, slot, 45000)
    for n in ([20000] if quick else [25000, 40000]):
        sessions.append(("big-burst", gen_bigburst(rng, n, allbounds), True))
    for i in range(2 if quick else 6):
        sessions.append(("random-with-gc-cycles", gen_random(rng, 1500 if quick else 8000, rng.choice([80, 240, 460]),
                                                             bounds, True), False))
    ctx.cov["graph"] = {"transitions": nedges, "paths_replayed": npaths,
                        "in_flight_transitions": nedges2, "in_flight_paths_replayed": npaths2}
    phase("generate")
    res = life_common.run_limited({i: (run_session, (cfg, s[1])) for i, s in enumerate(sessions)}, 8)
    phase("execute")
    ideals, impls, addrs, pidx, srcs = [], [], [], [], []
    for i, (kind, ops, predictable) in enumerate(sessions):
        events, death = res[i]
        ideal, impl, ad, src = to_traces(events)
        ideals.append(ideal)
        srcs.append(src)
        addrs.append(ad)
        if predictable and not death:
            pidx.append(i)
            impls.append(impl)
        if death:
            op = death["op"] or ["?"]
            ctx.violation("died:%s" % op[0], "the process was killed by signal %s during %r" % (death["signal"], op),
                          {"kind": kind, "ops": ops[:(death["op_index"] or 0) + 1]})
        ctx.case((kind, i), n=len(events))
    jobs = {}
    # the traces given to the ideal: huge sessions are sharded by address; origin[t] = (session, positions)
    flat, origin = [], []
    for i, ideal in enumerate(ideals):
        # sharding by address is sound only for flat histories: begin/end events nest, and the nesting relates
        # callbacks of different addresses, so a history with invocations in flight is always validated whole
        if len(ideal) > 15000 and not any(e["ev"] in ("begin", "end") for e in ideal):
            for tr, pos in shard(ideal):
                flat.append(tr)
                origin.append((i, pos))
        else:
            flat.append(ideal)
            origin.append((i, None))
    ich = life_common.chunks_by_events(flat, 80000, 1000)
    for ci, (base, ch) in enumerate(ich):
        jobs["ideal%d" % ci] = (validate_ideal, (ctx, ch))
    pch = life_common.chunks_by_events(impls, 20000, 1000)
    for ci, (base, ch) in enumerate(pch):
        jobs["impl%d" % ci] = (predict, (ctx, ch, page, slot))
    res2 = life_common.run_limited(jobs, 4)
    out = {"ideal": {}, "impl": {}}
    for ci, (base, ch) in enumerate(ich):
        for k, (v, pos) in res2["ideal%d" % ci].items():
            i, posmap = origin[base + k]
            if i not in out["ideal"]:          # first failing shard of a session
                out["ideal"][i] = (v, pos if posmap is None or pos > len(posmap) else posmap[pos - 1] + 1)
    for ci, (base, ch) in enumerate(pch):
        out["impl"].update({base + k: v for k, v in res2["impl%d" % ci].items()})
    phase("tlc-validate")
    nev = 0
    for i, ideal in enumerate(ideals):
        nev += len(ideal)
    ctx.validated(nev)
    for k, (v, pos) in sorted(out["ideal"].items()):
        full = res[k][0][srcs[k][pos - 1]]
        key = violation_key(full, v)
        ctx.violation(key, CLAUSE.get(v, v), {"kind": sessions[k][0], "ops": sessions[k][1],
                                              "failing_event": full, "position": pos})
    divs = []
    for j, i in enumerate(pidx):
        d = fit(out["impl"][j], addrs[i], page)
        if d:
            divs.append("session %d (%s): %s" % (i, sessions[i][0], d))
    ctx.cov["model_divergences"] = divs[:10]
    ctx.cov["model_divergence_count"] = len(divs)
    if divs:
        print("NOTE C29: %d sessions differ from the implementation model (first: %s); verdicts come from the "
              "ideal" % (len(divs), divs[0]))
    maxlive = 0
    for ideal in ideals:
        n = 0
        for e in ideal:
            n += 1 if e["ev"] == "create" else -1 if e["ev"] == "drop" else 0
            maxlive = max(maxlive, n)
    reused = sum(len(a) - len(set(a)) for a in addrs)
    allev = [e for i in range(len(sessions)) for e in res[i][0]]
    ctx.cov["allocation_failures_injected"] = {
        "MemoryError in ffi.callback()": sum(1 for e in allev if e["ev"] == "createfail" and e.get("why") == "oom"),
        "not reached (callback created, called, dropped)": sum(1 for e in allev if e["ev"] == "create" and "oom_n" in e)}
    if (not ctx.cov["allocation_failures_injected"]["MemoryError in ffi.callback()"]
            and not any(e["ev"] == "skipped" and "set_nomemory" in e.get("what", "") for e in allev)):
        raise core.MachineryError("no allocation failure could be injected into ffi.callback()")
    inflight = [e for e in allev if e["ev"] == "end"]
    ctx.cov["invocations_in_flight"] = {
        "observed": len(inflight), "raised": sum(1 for e in inflight if e["how"] == "raise"),
        "own_onerror_ran": sum(1 for e in inflight if e["herr"]),
        "callback_dropped_while_running": sum(1 for i in range(len(sessions)) for n in [dropped_running(res[i][0])]
                                              for _ in range(n))}
    if not ctx.cov["invocations_in_flight"]["callback_dropped_while_running"] or not ctx.cov[
            "invocations_in_flight"]["own_onerror_ran"]:
        raise core.MachineryError("no callback was dropped while it ran / no onerror handler ran")
    ctx.cov["max_live_callbacks"] = maxlive
    ctx.cov["address_reuses"] = reused
    ctx.cov["closure_size"], ctx.cov["page_size"] = slot, page
    ctx.cov["block_boundaries_crossed"] = [b for b in allbounds if b <= maxlive]
    for i in (0, 1, len(sessions) - 1):
        ev = res[i][0]
        ctx.sample({"kind": sessions[i][0], "operations": len(sessions[i][1]),
                    "first_events": ev[:6], "a_call": next((e for e in ev if e["ev"] == "call"), None)})
    ctx.cov["rule"] = ("evaluations = events recorded on real callbacks; non-trivial: %d creates reused a freed "
                       "closure, up to %d callbacks alive at once" % (reused, maxlive))
    ctx.cov["exhaustive"] = not quick        # thorough: every transition of the explored graph is replayed
    ctx.assumptions += ["dropping the last reference frees the callback immediately (reference counting); sessions "
                        "with reference cycles are validated against the ideal only",
                        "the worker process creates no other callbacks than the recorded ones"]


def replay(ctx, obj):
    helper = core.gcc_shared(HELPER_C, os.path.join(ctx.tmp, "libcv29helper.so"))
    rp = obj["replay"]
    events, death = run_session({"helper": helper}, rp["ops"])
    ideal, _impl, _ad, _src = to_traces(events)
    bad = validate_ideal(ctx, [ideal])
    ctx.cov["states"] = ctx.cov["transitions"] = 1
    if death:
        ctx.violation(obj["key"], "killed by signal %s" % death["signal"], rp)
    for k, (v, pos) in bad.items():
        ctx.violation(obj["key"], CLAUSE.get(v, v), rp)
    print("re-executed %d operations: %s" % (len(rp["ops"]), "rejected" if (bad or death) else "accepted by the ideal"))


def selftest(ctx):
    helper = core.gcc_shared(HELPER_C, os.path.join(ctx.tmp, "libcv29helper.so"))
    slot, page = [int(x) for x in core.gcc_run(PROBE_C, ctx.tmp, "cv29probe",
                                                flags=["-I/usr/include/ffi", "-I/usr/include/libffi"]).split()]
    ops = gen_random(ctx.rng, 400, 80, [73], False)
    events, death = run_session({"helper": helper}, ops)
    ideal, impl, ad, _src = to_traces(events)
    ok = not death and not validate_ideal(ctx, [ideal])
    ok = ok and fit(predict(ctx, [impl], page, slot)[0], ad, page) is None
    # corrupt: give a new callback the address of a live one; make a call run another function
    a = json.loads(json.dumps(ideal))
    livea = {}
    for e in a:
        if e["ev"] == "create":
            if livea:
                e["a"] = next(iter(livea.values()))
                break
            livea[e["c"]] = e["a"]
    b = json.loads(json.dumps(ideal))
    for e in b:
        if e["ev"] == "call":
            e["ran"] = [e["c"] + 1]
            break
    bad = validate_ideal(ctx, [a, b])
    ok = ok and bad.get(0, ("",))[0] == "create" and bad.get(1, ("",))[0] == "call"
    # invocations in flight: a recorded reentrant session is accepted; giving a raising invocation another
    # callback's error value / another callback's onerror handler is rejected at that 'end' event
    events2, death2 = run_session({"helper": helper}, gen_reentrant(ctx.rng, 300, 6))
    ideal2 = to_traces(events2)[0]
    ok = ok and not death2 and not validate_ideal(ctx, [ideal2])
    c1, c2 = json.loads(json.dumps(ideal2)), json.loads(json.dumps(ideal2))
    e1 = next((e for e in c1 if e["ev"] == "end" and e["how"] == "raise"), None)
    e2 = next((e for e in c2 if e["ev"] == "end" and e["how"] == "raise" and e["herr"]), None)
    ok = ok and e1 is not None and e2 is not None
    if ok:
        e1["ret"] = ["i", 12345]
        e2["herr"] = [e2["c"] + 1]
        bad2 = validate_ideal(ctx, [c1, c2])
        ok = (bad2.get(0, ("", 0)) == ("end", c1.index(e1) + 1) and bad2.get(1, ("", 0)) == ("end", c2.index(e2) + 1))
    ad2 = list(ad)
    ad2[len(ad2) // 2] += slot
    ok = ok and fit(predict(ctx, [impl], page, slot)[0], ad2, page) is not None
    return ok


META = {
    "category": "model_checking",
    "text": "TLC explores every create / failing-create / drop / call history of 3 callbacks with 2 signatures "
            "(thorough: 4 callbacks) in a transcription of malloc_closure.h (more_core growth rule, linked free "
            "list) and of its use by b_callback / cdataowninggc_dealloc / invoke_callback, over blocks of 1, 2 and "
            "3 closures, and checks that it refines the property machine (distinct live addresses, a call runs "
            "its own function with its own signature; an invocation in flight - its callback possibly dropped and "
            "its closure reused meanwhile - returns its function's value or, when it raises, the callback's own "
            "error value through its own onerror handler) plus free/live disjointness and LIFO reuse; sessions of "
            "thousands of operations on real ffi.callback() objects with five signatures (walks covering the "
            "explored graph, random histories around the real block boundaries, bursts with thousands alive, "
            "cycles freed by gc, reentrant histories in which the running callback drops itself, creates, calls "
            "and raises) are called through the cdata, from C and through non-owning pointers, and TLC validates every event "
            "against the property machine and predicts every closure address with the model at the real "
            "sizes.",
    "note": "Trusted: TLC, libffi, CPython reference counting (a dropped callback is freed at once). The real "
            "block base addresses are bound existentially (one page-aligned base per mmap()ed block).",
    "technique": "TLA+ refinement (TLC) + replay of graph walks and random sessions on real callbacks + TLC trace "
                 "validation and address prediction",
    "design_ref": "DESIGN.md §3 C29",
}
