"""C36 — callbacks from non-Python threads get a valid, persistent thread state.

Design level : specs/ThreadState.tla (TLS block, PyThreadState with gilstate_counter and dict,
               canary, zombie list under TLS_ZOM_LOCK, gil_ensure / thread_canary_register /
               thread_canary_free_zombies / gil_release / cffi_thread_shutdown /
               thread_canary_dealloc, and the interpreter clearing a thread state under cffi's feet,
               transcribed from misc_thread_common.h and misc_thread_posix.h) is checked by TLC for
               every interleaving of 3 foreign threads and a Python thread: no use of freed memory,
               no double delete, zombie list and canary pointers well-formed, every callback body
               runs with the GIL and an alive thread state of its own, and the model refines
               specs/ThreadStateIdeal.tla (valid / local / reclaim / account clauses).  Five broken
               variants must be rejected.
Binding      : (a) spec -> code: the complete graph of the instance with atomic operations is
               turned into behaviours (spawn / callback enter / callback exit / thread exit / Python
               activity) and every behaviour is executed on real pthreads created by a compiled
               helper, in a sub-process, calling an ffi.callback closure and an extern "Python"
               function; after every step the interpreter's thread states are enumerated with
               ctypes.pythonapi and compared with the model, inside every callback the thread state,
               threading.get_ident() and a threading.local are recorded;
               (b) code -> spec: random histories with free-running threads (any number of calls,
               exits and joins in any order, gc and Python threads in between);
               TLC validates every recorded history against the ideal (Trace_ThreadState.tla); the
               exit status of every sub-process (normal interpreter shut-down with zombies pending
               and foreign threads still parked) is part of the verdict.
"""
import concurrent.futures, json, os, sys, time
from harness import core, tlaval
from harness import thr_foreign as TF

LEVEL = "model_checking"
# short TLC runs: few GC threads and the C1 compiler only (halves the CPU time of a JVM start)
JLIGHT = {"JAVA_TOOL_OPTIONS": "-XX:ParallelGCThreads=2 -XX:TieredStopAtLevel=1"}
JHEAVY = {"JAVA_TOOL_OPTIONS": "-XX:ParallelGCThreads=4"}
VARIANTS = ("nokeepalive", "nofree", "nolock", "nonull", "nodetach", "extraref")
INVS = ("NoErr", "ZombiesOK", "CanaryPtrOK", "BodyOK", "AccountOK")
ACTIONS = ("Spawn", "Ge1", "Ge2", "Ge3", "Ge5", "Ge6", "Fz0", "Fz1", "Fz2", "Fz3", "Cd1", "Cd2", "Fz4", "Rg1",
           "Rg2", "Body", "BodyRel", "BodyAcq", "BodyW", "Gr1", "Sh0", "Sh1", "Sh2", "Sh3", "M0", "M1",
           "MClear", "MDel")
CLAUSE = {
    "valid": "a callback ran without a valid thread state of its own (no GIL / wrong thread identity / "
             "thread state not linked into the interpreter / shared with another living thread)",
    "local": "Python thread-local data set in one callback was not what the next callback of the same thread "
             "found (or a new thread found data of another thread)",
    "reclaim": "thread states of threads that had exited before a thread was started were still linked into "
               "the interpreter when that thread ran its first callback",
    "account": "a thread state linked into the interpreter belongs neither to Python, nor to a living foreign "
               "thread, nor to an exited one awaiting reclamation (thread states pile up)",
    "crash": "the process crashed, hung or did not exit with status 0",
}


def cfg(foreign, maxcalls, maxts, nclear, variant="faithful", atomic=False, check=True, refine=True, shapes=()):
    s = "SPECIFICATION Spec\nCONSTANTS Foreign = {%s}\n  MaxCalls = %d\n  MaxTs = %d\n  NClear = %d\n" \
        "  Variant = \"%s\"\n  Atomic = %s\n  Shapes = {%s}\n" % (
            ",".join(map(str, foreign)), maxcalls, maxts, nclear, variant, "TRUE" if atomic else "FALSE",
            ",".join(map(str, shapes)))
    if check:
        for i in INVS:
            s += "INVARIANT %s\n" % i
        if refine:
            s += "PROPERTY RefinesIdeal\n"
    return s + "CHECK_DEADLOCK FALSE\n"


# ------------------------------------------------------------------------------ behaviours from TLC

FIRST = {"Spawn": "Spawn", "Ge1": "CbEnter", "BodyAcq": "CbExit", "Sh0": "Exit", "M0": "Py"}


def stable(st):
    return st["mpc"] == "m0" and all(p in ("unborn", "idle", "bodyz", "done") for p in st["pc"])


def macro_graph(g):
    """Stable states and macro steps (one whole operation each) of the atomic instance:
    {state: [(label, thread, dst)]}."""
    out = {}
    for n, st in g.states.items():
        if not stable(st):
            continue
        lst = []
        for act, args, dst in g.out.get(n, ()):
            if dst == n:
                continue
            if act not in FIRST:
                raise core.MachineryError("atomic instance: operation starting with %s" % act)
            f = args[0] if args else 0
            cur, hops = dst, 0
            while not stable(g.states[cur]):
                nxt = [e for e in g.out.get(cur, ()) if e[2] != cur]
                if len(nxt) != 1:
                    raise core.MachineryError("atomic instance is not deterministic inside an operation (%d successors)"
                                              % len(nxt))
                cur = nxt[0][2]
                hops += 1
                if hops > 100:
                    raise core.MachineryError("atomic instance: operation does not terminate")
            lst.append((FIRST[act], f, cur))
        out[n] = lst
    return out


def cover_walks(mg, init, rng, nmax, maxlen, full):
    """Behaviours over the macro graph preferring untraversed macro steps; full=True: until every
    macro step has been traversed (nmax ignored)."""
    todo = {n: set(range(len(es))) for n, es in mg.items()}
    left = sum(len(s) for s in todo.values())
    total = left
    behs = []
    while left and (full or len(behs) < nmax):
        cur, path, fresh = init, [], 0
        while len(path) < maxlen and mg[cur]:
            if todo[cur]:
                i = rng.choice(sorted(todo[cur]))
                todo[cur].discard(i)
                left -= 1
                fresh += 1
                path.append(mg[cur][i])
                cur = path[-1][2]
                continue
            # breadth-first search for the nearest state with an untraversed step
            prev, queue, goal = {cur: None}, [cur], None
            while queue and goal is None:
                nxt = []
                for n in queue:
                    for e in mg[n]:
                        if e[2] not in prev:
                            prev[e[2]] = (n, e)
                            if todo[e[2]]:
                                goal = e[2]
                                break
                            nxt.append(e[2])
                    if goal is not None:
                        break
                queue = nxt
            if goal is None:
                break
            hop = []
            while prev[goal] is not None:
                n, e = prev[goal]
                hop.append(e)
                goal = n
            hop.reverse()
            path.extend(hop)
            cur = path[-1][2]
        if not fresh:
            raise core.MachineryError("macro graph: untraversed operations are unreachable")
        behs.append(path)
    return behs, total - left, total


def projection(st):
    """What the model state says about observable facts."""
    linked = {i for i, t in st["ts"].items() if t["st"] in ("alive", "cleared")}
    return {"nlinked": len(linked),
            "has": {str(f + 1): (st["tss"][f] in linked) for f in range(len(st["tss"]))},
            "seen": {str(f + 1): list(st["seen"][f]) for f in range(len(st["seen"]))}}


def fork_sub(rng):
    """What the forked child does: new foreign threads call back (twice, so that thread-locals must
    persist), exit, and a later thread registers (it sweeps the zombie list)."""
    steps, k = [], rng.randrange(1, 4)
    for f in range(1, k + 1):
        steps.append(["Spawn", f])
        for _ in range(rng.randrange(1, 3)):
            steps += [["CbEnter", f, rng.choice(TF.KINDS)], ["CbExit", f]]
    for f in rng.sample(range(1, k + 1), rng.randrange(1, k + 1)):
        steps.append(["Exit", f])
    steps += [["Spawn", k + 1], ["CbEnter", k + 1, rng.choice(TF.KINDS)], ["CbExit", k + 1], ["Py", "gc"],
              ["CbEnter", k + 1, rng.choice(TF.KINDS)], ["CbExit", k + 1], ["Exit", k + 1]]
    return steps


def render(g, beh, rng, bid, pfork=0.0):
    """macro steps -> harness steps + the model's predictions after each step.  With probability
    pfork a "Fork" step is inserted after a step that leaves thread states linked (zombies pending
    or living foreign threads): the real counterpart of the model's MClear (the interpreter
    destroys thread states under cffi's feet), followed by new foreign threads in the child."""
    steps, preds = [], []
    for label, f, dst in beh:
        if label == "CbEnter":
            steps.append(["CbEnter", f, rng.choice(TF.KINDS)])
        elif label == "Py":
            steps.append(["Py", rng.choice(["gc", "thread", "alloc", "yield"])])
        else:
            steps.append([label, f])
        preds.append(projection(g.states[dst]))
        if preds[-1]["nlinked"] > 0 and rng.random() < pfork:
            steps.append(["Fork", 0, fork_sub(rng)])
            preds.append(None)
    return {"id": bid, "steps": steps, "preds": preds}


def random_history(rng, bid):
    """Free-running threads: any number of calls, exits and joins in any order, with lock-step
    threads, gc and Python threads in between, and later threads that must not see the dead."""
    steps, alive, running, body = [], [], [], []
    nxt = 1
    for _ in range(rng.randrange(8, 30)):
        x = rng.random()
        if x < 0.25 and nxt <= 8:
            steps.append(["Spawn", nxt])
            alive.append(nxt)
            nxt += 1
        elif x < 0.45 and alive:
            f = rng.choice(alive)
            alive.remove(f)
            running.append(f)
            steps.append(["Run", f, rng.randrange(0, 12), rng.choice(TF.KINDS)])
        elif x < 0.6 and running:
            f = rng.choice(running)
            running.remove(f)
            steps.append(["Join", f])
        elif x < 0.72 and alive:
            f = rng.choice(alive)
            alive.remove(f)
            body.append(f)
            steps.append(["CbEnter", f, rng.choice(TF.KINDS)])
        elif x < 0.84 and body:
            f = rng.choice(body)
            body.remove(f)
            alive.append(f)
            steps.append(["CbExit", f])
        elif x < 0.92 and alive:
            f = rng.choice(alive)
            alive.remove(f)
            steps.append(["Exit", f])
        elif x < 0.96 and not running:
            steps.append(["Fork", 0, fork_sub(rng)])
        else:
            steps.append(["Py", rng.choice(["gc", "thread", "alloc", "yield"])])
    return {"id": bid, "steps": steps, "preds": None}


# ------------------------------------------------------------------------------ traces and verdicts

def to_trace(events):
    """Rename thread-state ids to small integers (kept small for TLC)."""
    names = {}

    def nm(p):
        if p not in names:
            names[p] = len(names) + 1
        return names[p]
    out = []
    for e in events:
        if e["ev"] == "Fork":
            continue
        x = {"ev": e["ev"], "f": e.get("f", 0), "tok": 0, "seen": e.get("seen", []), "v": e.get("v", 0),
             "live": [-1], "ok": bool(e.get("ok", True))}
        if e.get("live") is not None:
            x["live"] = [nm(p) for p in e["live"]]
        if "tok" in e:
            x["tok"] = nm(e["tok"])
        out.append(x)
    return out


def validate(ctx, traces):
    bad = []
    for base in range(0, len(traces), 1000):
        chunk = traces[base:base + 1000]
        tups = core.tlc_verdicts(ctx, "Trace_ThreadState", chunk, timeout=1800, extra_env=JLIGHT)
        verdicts = {int(x[0]): (core.unq(x[1]), int(x[2])) for x in tups}
        if len(verdicts) != len(chunk):
            raise core.MachineryError("trace validation incomplete: %d verdicts for %d traces" % (
                len(verdicts), len(chunk)))
        for k in range(1, len(chunk) + 1):
            v, pos = verdicts[k]
            if v.startswith("ctx:"):
                raise core.MachineryError("recorded history %d is ill-formed (%s at %d)" % (base + k - 1, v, pos))
            ctx.validated()
            if v != "ok":
                bad.append((base + k - 1, v, pos))
    return bad


def compare_with_model(beh, events):
    """Lock-step only: after each step the number of foreign thread states, whether each thread's
    own state is still linked, and what each callback found, against the implementation model."""
    div = []
    base = set(events[0]["live"])            # left over from earlier behaviours of the process
    last_tok = {}
    obs = []                                 # one observation per harness step
    cur = None
    for e in events[1:]:
        if e["ev"] == "CbEnter":
            last_tok[e["f"]] = e["tok"]
        if e["ev"] in ("Spawn", "CbEnter", "CbExit", "Exit"):
            cur = e
        if e["ev"] == "Quiet":
            obs.append((cur, e["live"], dict(last_tok)))
            cur = None
    gone = set()
    idx = [i for i, p in enumerate(beh["preds"]) if p is not None]     # "Fork" steps predict nothing
    for j in range(min(len(obs), len(idx))):
        i = idx[j]
        e, live, toks = obs[j]
        base &= set(live)
        pred = beh["preds"][i]
        mine = [p for p in live if p not in base]
        if len(mine) != pred["nlinked"]:
            div.append("%s step %d %r: %d foreign thread states linked, model says %d" % (
                beh["id"], i, beh["steps"][i], len(mine), pred["nlinked"]))
        for f, tok in toks.items():
            got = tok in live and (f, tok) not in gone
            if not got:
                gone.add((f, tok))         # the address may be reused by a later thread state
            if got != pred["has"].get(str(f), False):
                div.append("%s step %d %r: thread %d's state linked=%r, model says %r" % (
                    beh["id"], i, beh["steps"][i], f, got, pred["has"].get(str(f))))
        if e is not None and e["ev"] == "CbEnter":
            want = pred["seen"][str(e["f"])]
            got = [v % 1000 for v in e["seen"]]
            if got != want:
                div.append("%s step %d %r: callback found thread-local %r, model says %r" % (
                    beh["id"], i, beh["steps"][i], got, want))
    return div


def execute(ctx, libdir, behs, per_child, pool, tag, leave_running):
    """Run behaviours in sub-processes; returns [(beh, events or None, crash info or None)]."""
    chunks = [behs[i:i + per_child] for i in range(0, len(behs), per_child)]
    futs = []
    for ci, ch in enumerate(chunks):
        scn = {"behaviours": [{"id": b["id"], "steps": b["steps"]} for b in ch],
               "leave_running": bool(leave_running and ci % 2 == 0)}
        futs.append(pool.submit(TF.run_child, libdir, scn, ctx.tmp, "%s_%d" % (tag, ci),
                                600 if ctx.quick else 1800))
    out, forks = [], []
    for ch, fu in zip(chunks, futs):
        rc, res, progress, err = fu.result()
        if rc == "timeout":
            # the budget of a whole sub-process depends on the load of the machine: never a verdict.
            # (A single step that is not acknowledged within 120 s makes the child itself give up:
            # that is the explicit liveness verdict, reported as crash:* below.)
            raise core.MachineryError("sub-process %s exceeded its time budget; last progress: %r" % (
                tag, [p for p in progress if p][-1:]))
        got = {r["id"]: r["events"] for r in (res or {}).get("results", [])}
        for fk in (res or {}).get("forks", []):
            owner = next((b for b in ch if fk["id"].startswith(b["id"] + "/fork")), ch[0])
            forks.append((owner, fk))
        crashed = rc != 0 or res is None or not res.get("complete")
        for b in ch:
            out.append((b, got.get(b["id"]), None))
        if crashed:
            last = [p for p in progress if p][-1:] or ["(nothing executed)"]
            culprit = next((b for b in ch if b["id"] not in got), ch[-1])
            out.append((culprit, None, {"status": rc, "last_progress": last[0], "stderr": err[-1500:]}))
    ctx.forks = getattr(ctx, "forks", []) + forks
    return out


# ------------------------------------------------------------------------------ the check

def design_jobs(ctx):
    # quick: the refinement is checked on the 2-thread instance, the invariants of the mechanism on 3 threads
    jobs = [("MC_ThreadState(3thr,1call,0clear%s)" % (",invariants only" if ctx.quick else ""),
             cfg([1, 2, 3], 1, 1, 0, refine=not ctx.quick), "good"),
            ("MC_ThreadState(2thr,2calls,1clear)", cfg([1, 2], 2, 1, 1), "cov")]
    if not ctx.quick:
        jobs += [("MC_ThreadState(3thr,2calls,1clear)", cfg([1, 2, 3], 2, 1, 1), "good"),
                 ("MC_ThreadState(3thr,1call,1clear)", cfg([1, 2, 3], 1, 1, 1), "good"),
                 ("MC_ThreadState(2thr,3calls,2clears)", cfg([1, 2], 3, 1, 2), "good")]
    for v in VARIANTS:
        jobs.append(("sanity:" + v, cfg([1, 2], 2, 2 if v == "nokeepalive" else 1, 1, variant=v), "bad"))
    return jobs


def run(ctx):
    quick, rng = ctx.quick, ctx.rng
    pool = concurrent.futures.ThreadPoolExecutor(6)
    djobs = design_jobs(ctx)
    dfut = [pool.submit(core.tlc, "ThreadState", cfg_text=text, workers=(1 if kind == "bad" else 3 if quick else 6),
                        coverage=(kind == "cov"), timeout=900 if quick else 3000,
                        env=JLIGHT if (quick or kind == "bad") else JHEAVY) for name, text, kind in djobs]
    # quick: ONE TLC run dumps the graphs of two instances (2 threads x 2 calls: persistence of
    # thread-locals; 3 threads x 1 call: several zombies at once) through the Shapes constant
    gconfs = [([1, 2, 3], 2, (22, 31))] if quick else [([1, 2], 2, ()), ([1, 2, 3], 2, ())]
    gfut = []
    for foreign, mc, shapes in gconfs:
        dump = os.path.join(ctx.tmp, "atomic_%d_%d" % (len(foreign), mc))
        gfut.append((dump, pool.submit(core.tlc, "ThreadState",
                                       cfg_text=cfg(foreign, mc, 1, 0, atomic=True, check=False, shapes=shapes),
                                       dump=dump, workers=2, timeout=1500, env=JLIGHT)))
    libdir = TF.build(ctx.tmp)
    cpool = concurrent.futures.ThreadPoolExecutor(4 if quick else 8)
    # ---- (b) random histories with free-running threads (need no TLC output)
    nrand = 16 if quick else 120
    rbehs = [random_history(rng, "r%d" % i) for i in range(nrand)]
    rres = execute(ctx, libdir, rbehs, 4 if quick else 10, cpool, "rand", True)
    # ---- (a) behaviours of the atomic instance
    lres, exhaustive, cover = [], True, []
    for (foreign, mc, shapes), (dump, fu) in zip(gconfs, gfut):
        r = fu.result()
        ctx.add_tlc("dump(atomic,%dthr,%dcalls)" % (len(foreign), mc), r, count_states=False)
        g = tlaval.load_dot(dump + ".dot")
        if len(g.states) != r.distinct:
            raise core.MachineryError("dumped graph has %d states, TLC reported %d" % (len(g.states), r.distinct))
        mg = macro_graph(g)
        behs = []
        for init in sorted(g.init, key=lambda n: g.states[n]["shape"]):
            shape = g.states[init]["shape"]
            reach, todo = {init}, [init]
            while todo:
                for e in mg[todo.pop()]:
                    if e[2] not in reach:
                        reach.add(e[2])
                        todo.append(e[2])
            sub = {n: mg[n] for n in reach}
            full = shape == 22 or not quick
            b, done, total = cover_walks(sub, init, rng, 40, 60, full)
            behs += b
            cover.append({"graph": "atomic %d threads x %d calls" % (shape // 10, shape % 10),
                          "stable_states": len(sub), "operations": total, "operations_replayed": done})
            exhaustive = exhaustive and done == total
        rendered = [render(g, b, rng, "g%d_%d_%d" % (len(foreign), mc, i), pfork=0.05 if quick else 0.03)
                    for i, b in enumerate(behs)]
        lres += execute(ctx, libdir, rendered, 50, cpool, "ls%d%d" % (len(foreign), mc), True)
    ctx.cov["graph_cover"] = cover
    # ---- verdicts
    traces, metas, divergences = [], [], []
    for kind, results in (("random", rres), ("lockstep", lres)):
        for beh, events, crash in results:
            if crash is not None:
                step = crash["last_progress"].split(" step ")[-1] if " step " in crash["last_progress"] else \
                    crash["last_progress"]
                op = step.split("[")[-1].split(",")[0].strip("'\" ]") if "[" in step else step
                ctx.violation("crash:%s:%s" % (kind, op), CLAUSE["crash"],
                              {"kind": kind, "behaviour": beh, "crash": crash})
                continue
            if events is None:
                continue
            ctx.case((kind, json.dumps(beh["steps"])))
            traces.append(to_trace(events))
            metas.append({"kind": kind, "behaviour": beh, "events": events})
            if beh.get("preds") is not None:
                divergences += compare_with_model(beh, events)
    # ---- forked children: exit status, and their own histories
    nfork = 0
    for owner, fk in getattr(ctx, "forks", []):
        nfork += 1
        behrec = {"id": owner["id"], "steps": owner["steps"]}
        if fk["signal"] or fk["code"] or fk["events"] is None:
            ctx.violation("crash:fork:%s" % ("signal%d" % fk["signal"] if fk["signal"] else "exit%d" % fk["code"]),
                          CLAUSE["crash"] + " (the forked child, in which new foreign threads called back after "
                          "the interpreter had destroyed the thread states inherited from the parent)",
                          {"kind": "fork", "behaviour": behrec, "fork": {k: fk[k] for k in ("id", "steps", "signal", "code")}})
            continue
        ctx.case(("fork", json.dumps(owner["steps"]), fk["id"]))
        traces.append(to_trace(fk["events"]))
        metas.append({"kind": "fork", "behaviour": behrec, "events": fk["events"]})
    ctx.cov["forks_executed"] = nfork
    if nfork == 0 and not ctx.violations:
        # (sub-processes that crashed before reaching their fork steps are violations already)
        raise core.MachineryError("no fork scenario was executed")
    bad = validate(ctx, traces)
    for k, v, pos in bad:
        x = traces[k][pos - 1]
        ctx.violation("%s:%s" % (metas[k]["kind"], v), CLAUSE.get(v, v),
                      {"kind": metas[k]["kind"], "behaviour": {"id": metas[k]["behaviour"]["id"],
                                                                "steps": metas[k]["behaviour"]["steps"]},
                       "trace": traces[k], "failing_event_index": pos, "failing_event": x})
    for m in metas[:1] + metas[-2:]:
        ctx.sample({"kind": m["kind"], "steps": m["behaviour"]["steps"][:20],
                    "events": to_trace(m["events"])[:24]})
    for (name, text, kind), f in zip(djobs, dfut):
        r = f.result()
        if kind == "bad":
            ctx.add_tlc(name, r, require_ok=False, count_states=False)
            if r.ok or "is violated" not in r.out:
                raise core.MachineryError("broken variant %s of the model was not rejected by TLC:\n%s" % (
                    name, r.out[-1500:]))
        else:
            ctx.add_tlc(name, r)
            if kind == "cov":
                c = r.coverage()
                missing = [a for a in ACTIONS if c.get(a, (0, 0))[1] == 0]
                if missing:
                    raise core.MachineryError("vacuous model: actions never taken: %r" % (missing,))
    pool.shutdown()
    cpool.shutdown()
    ctx.cov["events_validated"] = sum(len(t) for t in traces)
    ctx.cov["model_divergences"] = divergences[:10]
    ctx.cov["model_divergence_count"] = len(divergences)
    if divergences:
        print("NOTE C36: %d observations differ from the implementation model (first: %s); verdicts come from "
              "the ideal" % (len(divergences), divergences[0]))
    ctx.cov["rule"] = ("distinct = distinct step sequences executed on real pthreads in sub-processes; every one "
                       "has >= 1 foreign thread calling back into Python")
    ctx.cov["exhaustive"] = bool(exhaustive)
    ctx.assumptions += [
        "thread-state identity = PyThreadState_GetID() (unique per interpreter; addresses are reused by CPython)",
        "the list of thread states is read with the GIL held (ctypes.pythonapi); insertions by registering "
        "threads are the only concurrent writers",
        "lock-step replays linearise whole operations (gil_ensure .. body, body .. gil_release, thread exit); "
        "finer interleavings inside them are model-checked and exercised only by the free-running histories",
    ]


def replay(ctx, obj):
    """Re-executes the stored behaviour in a fresh sub-process on the current tree and validates the
    new history (the verdict); the recorded history is re-validated for information."""
    rp = obj["replay"]
    ctx.cov["states"] = ctx.cov["transitions"] = 1
    libdir = TF.build(ctx.tmp)
    beh = rp["behaviour"]
    pool = concurrent.futures.ThreadPoolExecutor(1)
    res = execute(ctx, libdir, [dict(beh, preds=None)], 1, pool, "replay", False)
    traces = []
    for b, events, crash in res:
        if crash is not None:
            ctx.violation(obj["key"], CLAUSE["crash"], rp)
            print("replayed: the process failed again (status %r)" % (crash["status"],))
        elif events is not None:
            traces.append(to_trace(events))
    nnew = len(traces)
    if rp.get("trace"):
        traces.append(rp["trace"])
    bad = validate(ctx, traces) if traces else []
    for k, v, pos in bad:
        if k < nnew:
            ctx.violation(obj["key"], CLAUSE.get(v, v), rp)
    print("replayed: re-execution on the current tree %s; the recorded history is %s" % (
        "REJECTED by the ideal" if any(k < nnew for k, _, _ in bad) else "accepted" if nnew else "not available",
        "rejected by the ideal" if any(k >= nnew for k, _, _ in bad) else "accepted or absent"))


def selftest(ctx):
    """Corrupt one recorded observation (what a callback found in thread-local storage; the
    thread states seen after a later thread registered) and see the rejections."""
    libdir = TF.build(ctx.tmp)
    pool = concurrent.futures.ThreadPoolExecutor(1)
    beh = {"id": "st", "preds": None,
           "steps": [["Spawn", 1], ["CbEnter", 1, "cbk"], ["CbExit", 1], ["CbEnter", 1, "ext"], ["CbExit", 1],
                     ["Exit", 1], ["Spawn", 2], ["CbEnter", 2, "ext"], ["CbExit", 2]]}
    (b, events, crash), = execute(ctx, libdir, [beh], 1, pool, "selftest", False)
    if crash or events is None:
        return False
    t0 = to_trace(events)
    ok1 = not validate(ctx, [t0])
    t1 = json.loads(json.dumps(t0))
    second = [x for x in t1 if x["ev"] == "CbEnter" and x["f"] == 1][1]
    second["seen"] = []                                  # thread-local lost
    t2 = json.loads(json.dumps(t0))
    first2 = [x for x in t2 if x["ev"] == "CbEnter" and x["f"] == 2][0]
    dead = [x for x in t2 if x["ev"] == "CbEnter" and x["f"] == 1][0]["tok"]
    first2["live"] = sorted(set(first2["live"]) | {dead})   # the dead thread's state still linked
    t3 = json.loads(json.dumps(t0))
    t3[-1]["live"] = t3[-1]["live"] + [99]               # an unaccounted thread state
    bad = validate(ctx, [t1, t2, t3])
    got = {k: v for k, v, pos in bad}
    return ok1 and got == {0: "local", 1: "reclaim", 2: "account"}


META = {
    "category": "model_checking",
    "text": "TLC explores every interleaving of 3 foreign threads and a Python thread over a model of cffi's "
            "thread-state keeping transcribed from misc_thread_common.h/misc_thread_posix.h (TLS block, "
            "PyThreadState counter and dict, canary, zombie list under its lock, gil_ensure, register, "
            "free_zombies, gil_release, thread-exit shutdown, canary dealloc, interpreter clearing a state under "
            "cffi's feet): no use after free, no double delete, well-formed zombie list, valid current thread "
            "state in every callback, and refinement of the property machine; five broken variants are rejected. "
            "Every operation of the complete graph of the atomic-operation instance is executed on real pthreads "
            "in sub-processes (ffi.callback and extern \"Python\"), with the interpreter's thread-state list, "
            "threading.local and threading.get_ident observed at every step; random free-running histories are "
            "recorded; TLC validates all histories against the property machine and the exit status of every "
            "sub-process is checked.",
    "note": "Trusted: TLC, CPython's public thread-state API read through ctypes. Steps inside gil_ensure/"
            "free_zombies/shutdown cannot be scheduled individually on the real code (no hooks): those "
            "interleavings are model-checked and only sampled by free-running threads. Interpreter finalisation "
            "racing callbacks is model-checked only; the replays exercise normal interpreter exit with zombies "
            "pending and foreign threads parked. POSIX only.",
    "technique": "TLA+ invariants + refinement (TLC) + replay of TLC behaviours on real pthreads in sub-processes "
                 "+ TLC trace validation",
    "design_ref": "DESIGN.md §3 C36",
}
