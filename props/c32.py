"""C32 -- verify() module names are deterministic and input-sensitive.

Design level : specs/Flatten.tla transcribes ffiplatform._flatten and the key construction of
               Verifier.__init__ on character sequences; specs/MC_Flatten.tla makes TLC check, for every
               value of a bounded universe over an adversarial alphabet (digits, the type letters s l d i,
               '-'; nesting depth 1-2), that a decoder reads the value back from its encoding whatever text
               follows (=> injective and self-delimiting), that the listing order of a dict is irrelevant,
               and that (preamble, kwds, sources) can be read back from the key when preamble and sources
               are NUL-free; three broken encoders must be rejected; with NUL admitted in the preamble TLC
               exhibits a collision (NOTE: the stated domain excludes it).
Binding      : spec -> code: every value of the TLC universe is replayed on the real flatten() (text
               compared); code -> spec: random deep values (unicode, 70-bit ints, adversarial strings) go
               through the real flatten() and TLC (Trace_Flatten.tla) recomputes the text and decodes it;
               Verifier(...).get_module_name() is computed in sub-processes under different hash seeds
               and keyword orders (must coincide), the specification's Key for the same inputs is written
               out by TLC and the two CRC32 halves are recomputed: the real name must be the one the key
               gives, and distinct inputs may share a name only if the CRCs of their keys collide.
"""
import binascii, json, os, subprocess, sys
from concurrent.futures import ThreadPoolExecutor
from harness import core
from harness.gen_tlc import light, tlc_light

LEVEL = "model_checking"

MC_CFG = """SPECIFICATION Spec
CONSTANTS Variant = "%(variant)s"
  Alpha = {%(alpha)s}
  MaxStr = %(maxstr)d
  IntRange = {%(ints)s}
  MaxItems = %(items)d
  Depth = %(depth)d
  MaxSrc = %(maxsrc)d
  Mode = "%(mode)s"
%(invs)s
CHECK_DEADLOCK FALSE
"""
ADV = [49, 50, 115, 108, 100, 105, 45]        # 1 2 s l d i -


def mc_cfg(mode="values", alpha=ADV, maxstr=1, ints=(0, 1, 2, 12), items=2, depth=1, variant="faithful", maxsrc=1):
    invs = {"values": ["RoundTrip", "DictOrder"], "keys": ["KeyRoundTrip"], "dump": [], "bytes": ["BytesRoundTrip"]}[mode]
    return MC_CFG % dict(variant=variant, alpha=", ".join(map(str, alpha)), maxstr=maxstr,
                         ints=", ".join(map(str, ints)), items=items, depth=depth, mode=mode, maxsrc=maxsrc,
                         invs="\n".join("INVARIANT " + i for i in invs))


# ------------------------------------------------------------------ value conversion

def to_spec(x):
    if isinstance(x, str):
        return {"t": "s", "v": [ord(c) for c in x]}
    if isinstance(x, bool) or isinstance(x, int):
        return {"t": "i", "v": [ord(c) for c in str(int(x))]}
    if isinstance(x, (list, tuple)):
        return {"t": "l", "v": [to_spec(i) for i in x]}
    if isinstance(x, dict):
        return {"t": "d", "v": [[to_spec(k), to_spec(x[k])] for k in sorted(x)]}
    raise TypeError(x)


def from_spec(v):
    t = v["t"]
    if t == "s":
        return "".join(chr(c) for c in v["v"])
    if t == "i":
        return int("".join(chr(c) for c in v["v"]))
    if t == "l":
        return [from_spec(i) for i in v["v"]]
    return {from_spec(k): from_spec(w) for k, w in v["v"]}


def codes(s):
    return [ord(c) for c in s]


def rand_str(rng, maxlen=8):
    r = rng.random()
    if r < 0.35:
        alpha = "12sldi-0"
    elif r < 0.6:
        alpha = "abcXYZ_/.-= "
    elif r < 0.8:
        alpha = "éß中λ\U0001F600a1"
    else:
        alpha = "0123456789"
    return "".join(rng.choice(alpha) for _ in range(rng.randint(0, maxlen)))


def rand_int(rng):
    r = rng.random()
    if r < 0.4:
        return rng.randint(-3, 20)
    if r < 0.7:
        return rng.choice([1, -1]) * rng.getrandbits(rng.choice([8, 31, 32, 63, 64, 70]))
    return rng.choice([True, False, 0, 10, 100, -10])


def rand_value(rng, depth):
    r = rng.random()
    if depth <= 0 or r < 0.35:
        return rand_str(rng) if rng.random() < 0.6 else rand_int(rng)
    if r < 0.7:
        items = [rand_value(rng, depth - 1) for _ in range(rng.randint(0, 4))]
        return tuple(items) if rng.random() < 0.4 else items
    return {rand_str(rng, 4): rand_value(rng, depth - 1) for _ in range(rng.randint(0, 4))}


def as_lists(x):
    """tuples -> lists, bools -> ints (the identifications the property makes)"""
    if isinstance(x, (list, tuple)):
        return [as_lists(i) for i in x]
    if isinstance(x, dict):
        return {k: as_lists(v) for k, v in x.items()}
    if isinstance(x, bool):
        return int(x)
    return x


# ------------------------------------------------------------------ module names

NAME_CHILD = r"""
import sys, json, random, os, warnings
warnings.simplefilter("ignore")
import cffi
from cffi import verifier, __version_verifier_modules__
job = json.load(open(sys.argv[1]))
rnd = random.Random(job["shuffle_seed"])
def detuple(x, tup):
    # JSON has no tuples: the job marks them
    if isinstance(x, dict) and x.get("__tuple__") is not None:
        return tuple(detuple(i, tup) for i in x["__tuple__"])
    if isinstance(x, list):
        return [detuple(i, tup) for i in x]
    if isinstance(x, dict):
        items = [(k, detuple(v, tup)) for k, v in x.items()]
        rnd.shuffle(items)                      # the order in which a dict lists its items
        return dict(items)
    return x
out = []
for c in job["cases"]:
    ffi = cffi.FFI()
    if c["include"] is not None:
        ffi0 = cffi.FFI()
        for s in c["include"]:
            ffi0.cdef(s)
    for i, s in enumerate(c["cdefs"]):
        if c["include"] is not None and i == c["include_at"]:
            ffi.include(ffi0)
        ffi.cdef(s)
    if c["include"] is not None and c["include_at"] >= len(c["cdefs"]):
        ffi.include(ffi0)
    kw = detuple(c["kwds"], True)
    items = list(kw.items())
    rnd.shuffle(items)                          # keyword order
    kw = dict(items)
    v = verifier.Verifier(ffi, c["preamble"], job["tmpdir"], tag=c["tag"],
                          force_generic_engine=c["generic"], **kw)
    out.append({"name": v.get_module_name(), "class_key": v._vengine._class_key,
                "sources": list(ffi._cdefsources)})
json.dump({"names": out, "ver": "%d.%d" % sys.version_info[:2], "vvm": __version_verifier_modules__},
          open(sys.argv[2], "w"))
"""

CDEFS = ["int foo(int);", "typedef struct { int a; } s_t;", "double bar(double, double);", "#define N 42",
         "struct p { char c; short s; };", "extern int g;", "enum e { A, B = 5 };", "typedef int (*cb_t)(void *);",
         "int foo(int); ", "int  foo(int);", "/* c */ int foo(int);", "int foo(long);", "static const int K;"]


FAMILY = ["foo", "s_t", "bar", "N", "p", "g", "e", "cb_t", "foo", "foo", "foo", "foo", "K"]


def mark_tuples(x):
    if isinstance(x, tuple):
        return {"__tuple__": [mark_tuples(i) for i in x]}
    if isinstance(x, list):
        return [mark_tuples(i) for i in x]
    if isinstance(x, dict):
        return {k: mark_tuples(v) for k, v in x.items()}
    return x


def rand_case(rng):
    kw = {}
    for _ in range(rng.randint(0, 4)):
        key = rng.choice(["libraries", "define_macros", "extra_compile_args", "include_dirs", "k_a", "k_b", "k1",
                          "k_1s", "sources2", "undef_macros"])
        kw[key] = rand_value(rng, rng.randint(0, 3))
    inc = None
    if rng.random() < 0.25:
        inc = [rng.choice(CDEFS[:4])]
    cdefs = [rng.choice(CDEFS) for _ in range(rng.randint(0, 3))]
    # a cdef list must stay parseable: at most one declaration per declared name
    fam = lambda s: FAMILY[CDEFS.index(s)]
    seen, keep = set(fam(s) for s in (inc or [])), []
    for s in cdefs:
        if fam(s) in seen:
            continue
        seen.add(fam(s)); keep.append(s)
    return {"cdefs": keep, "include": inc, "include_at": rng.randint(0, len(keep)),
            "preamble": rng.choice(["", "#include <math.h>\n", "/* x */", "0d", "1s", rand_str(rng, 12),
                                    'char s[] = "\u00e9";', "/* \u20ac \U0001f600 */", "// caf\u00e9 \u4e2d\n"]),
            "kwds": kw, "tag": rng.choice(["", "", "t1"]), "generic": rng.random() < 0.3}


def spell_out(s):
    """every non-ASCII character replaced by the escape sequence Python's 'backslashreplace' would write"""
    return s.encode("ascii", "backslashreplace").decode("ascii")


def spell_value(x):
    if isinstance(x, str):
        return spell_out(x)
    if isinstance(x, (list, tuple)):
        return type(x)(spell_value(i) for i in x)
    if isinstance(x, dict):
        return {spell_out(k): spell_value(v) for k, v in x.items()}
    return x


def twin(rng, c):
    """the adversarial partner of a case: non-ASCII characters spelled out as escape sequences (a different input)"""
    c = c_fromjson(json.loads(json.dumps(c_jsonable(c))))
    c["preamble"] = spell_out(c["preamble"])
    c["cdefs"] = [spell_out(s) for s in c["cdefs"]]
    c["kwds"] = {k: spell_value(v) for k, v in c["kwds"].items()}
    return c


def has_nonascii(c):
    return any(ord(ch) > 127 for ch in json.dumps(c_jsonable(c), ensure_ascii=False))


def split_family(rng, k):
    """the same declarations given to cdef() in differently split calls: at a newline, with an empty source in
    between, in one call or in several -- all different inputs (different lists of sources)"""
    d = ["typedef int sp%d_a_t;" % k, "typedef struct { int x; } sp%d_b_t;" % k, "int sp%d_f(int);" % k]
    splits = [[d[0], d[1], d[2]], [d[0] + "\n" + d[1], d[2]], [d[0], d[1] + "\n" + d[2]], ["\n".join(d)],
              [d[0], "", d[1] + "\n" + d[2]], [d[0] + "\n", d[1] + "\n" + d[2]], [d[0] + "\n" + d[1] + "\n", d[2]],
              [d[0] + "\n" + d[1], "", d[2]]]
    kw = {} if rng.random() < 0.5 else {"libraries": ["m"], "k_a": rand_value(rng, 1)}
    pre = rng.choice(["", "/* split */\n"])
    return [{"cdefs": sp, "include": None, "include_at": 0, "preamble": pre, "kwds": kw, "tag": "", "generic": False}
            for sp in rng.sample(splits, 5 if k else len(splits))]


def mutate(rng, c):
    c = json.loads(json.dumps(c_jsonable(c)))
    c = c_fromjson(c)
    r = rng.random()
    if r < 0.3:
        c["preamble"] = c["preamble"] + rng.choice([" ", "x", "\n"])
    elif r < 0.6:
        c["kwds"] = dict(c["kwds"])
        c["kwds"][rng.choice(["k_a", "k_b", "libraries"])] = rand_value(rng, 2)
    elif r < 0.8 and c["cdefs"]:
        c["cdefs"] = list(reversed(c["cdefs"])) if len(c["cdefs"]) > 1 else c["cdefs"] + ["typedef int zz_t;"]
    else:
        c["cdefs"] = c["cdefs"] + ["typedef long yy_t;"]
    return c


def c_jsonable(c):
    d = dict(c)
    d["kwds"] = mark_tuples(c["kwds"])
    return d


def c_fromjson(c):
    def un(x):
        if isinstance(x, dict) and x.get("__tuple__") is not None:
            return tuple(un(i) for i in x["__tuple__"])
        if isinstance(x, list):
            return [un(i) for i in x]
        if isinstance(x, dict):
            return {k: un(v) for k, v in x.items()}
        return x
    d = dict(c)
    d["kwds"] = un(c["kwds"])
    return d


def expected_sources(c):
    """api.py: cdef() appends the source, include() appends '[' + the included sources + ']'"""
    out = []
    for i, s in enumerate(c["cdefs"]):
        if c["include"] is not None and i == c["include_at"]:
            out += ["["] + c["include"] + ["]"]
        out.append(s)
    if c["include"] is not None and c["include_at"] >= len(c["cdefs"]):
        out += ["["] + c["include"] + ["]"]
    return out


def name_from_key(kb, tag, class_key):
    """kb: the bytes of the specified key (TLC's KeyBytes)"""
    k1 = hex(binascii.crc32(kb[0::2]) & 0xffffffff).lstrip("0x").rstrip("L")
    k2 = hex(binascii.crc32(kb[1::2]) & 0xffffffff).lstrip("0").rstrip("L")
    return "_cffi_%s_%s%s%s" % (tag, class_key, k1, k2), (binascii.crc32(kb[0::2]), binascii.crc32(kb[1::2]))


def run_trace(ctx, recs, keys=False):
    tp = os.path.join(ctx.tmp, "fl_%d.json" % len(ctx.cov["tlc_runs"]))
    kp = tp + ".keys"
    core.write_json(tp, recs)
    r = core.tlc("Trace_Flatten", workers=1, env=(light if len(recs) < 600 else dict)({"TRACE_FILE": tp, "KEYS_OUT": kp}), timeout=3000)
    ctx.add_tlc("Trace_Flatten", r, count_states=False)
    chk = core.tla_tuples(r.out, "CHECKED")
    if len(chk) != 1 or int(chk[0][0]) != len(recs):
        raise core.MachineryError("Trace_Flatten did not check all records:\n" + r.out[-2000:])
    verd = [(int(k) - 1, core.unq(w)) for k, w in core.tla_tuples(r.out, "VERDICT")]
    keyout = None
    if keys:
        with open(kp) as f:
            keyout = json.load(f)
    return verd, keyout


CLAUSE = {"flatten": "the real flatten() text differs from the specified encoding",
          "decode": "the real flatten() text does not decode back to the value",
          "order": "the text depends on the order in which a dict lists its items"}


def run(ctx):
    quick = ctx.quick
    import cffi.ffiplatform as ffiplatform
    pool = ThreadPoolExecutor(8)
    dump_path = os.path.join(ctx.tmp, "flatten_universe.json")
    futs = [("MC_Flatten(values,depth=%d)" % (1 if quick else 2), "mc",
             pool.submit(core.tlc, "MC_Flatten", cfg_text=mc_cfg(depth=1 if quick else 2), workers=4 if quick else 8,
                         timeout=3000)),
            ("MC_Flatten(keys,sources over {newline,a})", "mc",
             pool.submit(tlc_light, "MC_Flatten", cfg_text=mc_cfg("keys", alpha=[10, 97], maxsrc=2 if quick else 3), workers=2)),
            ("MC_Flatten(keys)", "mc", pool.submit(core.tlc, "MC_Flatten", cfg_text=mc_cfg("keys", alpha=[48, 100, 120], maxsrc=1 if quick else 2),
                                                   workers=4, timeout=3000)),
            ("oracle dump", "dump", pool.submit(core.tlc, "MC_Flatten", cfg_text=mc_cfg("dump", depth=1), workers=1,
                                                env=light({"FLATTEN_OUT": dump_path}), timeout=3000)),
            ("domain:NUL in preamble", "nul", pool.submit(core.tlc, "MC_Flatten",
                                                          cfg_text=mc_cfg("keys", alpha=[48, 100, 0], maxsrc=2), workers=1, env=light()))]
    BYTES_ALPHA = [233, 8364, 92, 120, 101, 57]            # e-acute, euro sign, backslash, x, e, 9
    futs.append(("MC_Flatten(bytes)", "mc", pool.submit(tlc_light, "MC_Flatten", cfg_text=mc_cfg(
        "bytes", alpha=BYTES_ALPHA if quick else BYTES_ALPHA + [128512, 117, 85, 48], maxstr=4), workers=2)))
    for v in ("nolen", "notag", "nosort"):
        futs.append(("sanity:" + v, "sanity", pool.submit(tlc_light, "MC_Flatten", cfg_text=mc_cfg(variant=v))))
    futs.append(("sanity:newline-joined", "sanity", pool.submit(tlc_light, "MC_Flatten", cfg_text=mc_cfg(
        "keys", alpha=[10, 97], maxsrc=2, variant="newline-joined"))))
    futs.append(("sanity:backslashreplace", "sanity", pool.submit(tlc_light, "MC_Flatten", cfg_text=mc_cfg(
        "bytes", alpha=BYTES_ALPHA, maxstr=4, variant="backslashreplace"))))

    # ---------------------------------------------------------------- code -> spec: random values
    rng = ctx.rng
    recs, metas = [], []
    nvals = 1500 if quick else 15000
    for i in range(nvals):
        x = rand_value(rng, rng.randint(0, 4))
        out = ffiplatform.flatten(x)
        recs.append({"kind": "flatten", "val": to_spec(x), "out": codes(out)})
        metas.append({"kind": "flatten", "value": repr(x)[:300]})
        ctx.case(("v", out))
        if isinstance(x, dict) and len(x) >= 2:
            items = list(x.items())
            rng.shuffle(items)
            out2 = ffiplatform.flatten(dict(items))
            recs.append({"kind": "order", "items": [[to_spec(k), to_spec(v)] for k, v in items], "out": codes(out2)})
            metas.append({"kind": "order", "value": repr(dict(items))[:300]})
    ctx.sample({"kind": "flatten record", "value": metas[0]["value"], "out": "".join(map(chr, recs[0]["out"]))})

    # ---------------------------------------------------------------- module names in sub-processes
    ncases = 50 if quick else 1000
    cases = []
    for k in range(1 if quick else 12):
        cases += split_family(rng, k)
    while len(cases) < ncases:
        if cases and rng.random() < 0.4:
            cases.append(mutate(rng, rng.choice(cases)))
        else:
            c = rand_case(rng)
            if rng.random() < 0.4:                 # non-ASCII text in a cdef source (a comment) and in a keyword string
                c["cdefs"] = c["cdefs"] + [rng.choice(["/* \u00e9 */ typedef int na1_t;", "typedef int na2_t; // \u20ac\n",
                                                       "/* \U0001f600 */ typedef long na3_t;"])]
                c["kwds"]["k_na"] = rng.choice(["\u00e9", ["\u4e2d", "x"], {"\u03bb": "\U0001f600"}, "a\u20acb"])
            cases.append(c)
        if has_nonascii(cases[-1]) and len(cases) < ncases:
            cases.append(twin(rng, cases[-1]))     # character vs. its spelled-out escape sequence
    child = os.path.join(ctx.tmp, "name_child.py")
    with open(child, "w") as f:
        f.write(NAME_CHILD)
    procs = [("0", 1), ("1", 2), ("random", 3)] + ([] if quick else [("2", 4), ("12345", 5)])

    def name_run(seed, shuffle_seed):
        jp = os.path.join(ctx.tmp, "names_%s.json" % seed)
        rp = os.path.join(ctx.tmp, "names_%s.out" % seed)
        core.write_json(jp, {"cases": [c_jsonable(c) for c in cases], "shuffle_seed": shuffle_seed,
                             "tmpdir": ctx.tmp})
        r = subprocess.run([core.PY, child, jp, rp], capture_output=True, text=True,
                           env=core.sub_env(PYTHONHASHSEED=seed), timeout=3000)
        if r.returncode != 0:
            raise core.MachineryError("name child failed: " + r.stderr[-2000:])
        with open(rp) as f:
            return json.load(f)
    nfuts = [pool.submit(name_run, s, k) for s, k in procs]
    results = [f.result() for f in nfuts]
    ver, vvm = results[0]["ver"], results[0]["vvm"]
    keyrecs = []
    for ci, c in enumerate(cases):
        names = {r["names"][ci]["name"] for r in results}
        ctx.case(("name", ci), n=len(results))
        if len(names) != 1:
            ctx.violation("name-determinism", "get_module_name() differs between processes / keyword orders: %r"
                          % sorted(names), {"kind": "name", "case": c_jsonable(c), "names": sorted(names)})
        real_src = results[0]["names"][ci]["sources"]
        if real_src != expected_sources(c):
            ctx.cov.setdefault("model_divergences", []).append("ffi._cdefsources %r, expected %r" % (
                real_src, expected_sources(c)))
        keyrecs.append({"kind": "key", "ver": codes(ver), "vvm": codes(vvm), "pre": codes(c["preamble"]),
                        "kw": to_spec(c["kwds"]), "src": [codes(s) for s in expected_sources(c)]})
    ctx.validated(len(cases) * len(results))

    # ---------------------------------------------------------------- TLC decides the records, writes the keys
    allrecs = recs + keyrecs
    verd, keys = run_trace(ctx, allrecs, keys=True)
    for k, w in verd:
        if w == "harness":
            raise core.MachineryError("malformed record %r" % (allrecs[k],))
        m = metas[k]
        ctx.violation("flatten:%s" % w, CLAUSE.get(w, w) + ": " + m["value"], {"kind": "flatten", "record": allrecs[k]})
    ctx.validated(len(recs))
    # names must be what the key gives; distinct inputs share a name only through a CRC collision
    div = ctx.cov.setdefault("model_divergences", [])
    byname = {}
    for ci, c in enumerate(cases):
        real = results[0]["names"][ci]
        want, crcs = name_from_key(bytes(keys[len(recs) + ci]), c["tag"], real["class_key"])
        if want != real["name"]:
            div.append("case %d: real name %s, the specified key gives %s" % (ci, real["name"], want))
        ident = json.dumps([as_lists(c["kwds"]), c["preamble"], expected_sources(c), c["tag"], real["class_key"]],
                           sort_keys=True)
        byname.setdefault(real["name"], {})[ident] = (ci, crcs)
    for name, group in byname.items():
        if len(group) > 1:
            crcset = {v[1] for v in group.values()}
            if len(crcset) > 1:        # same name although the injective keys have different CRCs
                cis = sorted(v[0] for v in group.values())[:2]
                ctx.violation("name-sensitivity", "two different inputs got the module name %s although the CRCs of "
                              "their keys differ" % name,
                              {"kind": "name-pair", "cases": [c_jsonable(cases[i]) for i in cis]})
    ctx.cov["name_groups"] = len(byname)
    ctx.cov["distinct_inputs"] = sum(len(g) for g in byname.values())
    ctx.sample({"kind": "module name", "case": c_jsonable(cases[0]), "name": results[0]["names"][0]["name"]})

    # ---------------------------------------------------------------- spec -> code: the TLC universe on the real flatten
    for name, kind, f in futs:
        r = f.result()
        if kind in ("mc", "dump"):
            ctx.add_tlc(name, r, count_states=(kind == "mc"))
        elif kind == "sanity":
            ctx.add_tlc(name, r, require_ok=False, count_states=False)
            if r.ok or not r.invariant_violated:
                raise core.MachineryError("broken variant %s was not rejected by TLC" % name)
        else:
            ctx.add_tlc(name, r, require_ok=False, count_states=False)
            ctx.cov["key_injective_with_NUL_in_preamble"] = bool(r.ok)
            if not r.ok and r.invariant_violated:
                print("NOTE C32: with a NUL character admitted in preamble/sources TLC finds two inputs with the "
                      "same key (the '\\x00'.join is ambiguous); outside the stated domain (C text has no NUL)")
    with open(dump_path) as f:
        uni = json.load(f)
    nbad = 0
    for u in uni:
        x = from_spec(u["val"])
        got = ffiplatform.flatten(x)
        want = "".join(chr(c) for c in u["flat"])
        ctx.case(("u", want))
        if got != want:
            nbad += 1
            ctx.violation("flatten-replay", "flatten(%r) = %r, the specification gives %r" % (x, got, want),
                          {"kind": "flatten", "record": {"kind": "flatten", "val": u["val"], "out": codes(got)}})
        else:
            ctx.validated()
    if len({"".join(map(chr, u["flat"])) for u in uni}) != len(uni):
        ctx.violation("flatten-collision", "two values of the TLC universe have the same encoding", None)
    ctx.cov["universe_replayed"] = len(uni)
    pool.shutdown()
    if div:
        print("NOTE C32: %d observations differ from the implementation model (first: %s)" % (len(div), div[0]))
    ctx.cov["model_divergence_count"] = len(div)
    ctx.cov["model_divergences"] = div[:10]
    ctx.cov["exhaustive"] = True
    ctx.cov["rule"] = ("distinct = distinct encodings produced by the real flatten() (TLC universe + random values) and "
                       "distinct Verifier inputs; trivial ones (empty containers) included but counted once")
    ctx.assumptions += ["preamble and cdef sources contain no NUL character (C text)",
                        "dict keys are strings (keyword arguments); tuples are identified with lists and bools with "
                        "ints, as Python equality does",
                        "'keyword arguments' = the **kwds forwarded to the build; named Verifier parameters that do not "
                        "enter the key (flags, source_extension, ext_package, relative_to) are not varied"]


def selftest(ctx):
    import cffi.ffiplatform as ffiplatform
    x = {"b": [1, "1s"], "a": ("-", 2)}
    good = {"kind": "flatten", "val": to_spec(x), "out": codes(ffiplatform.flatten(x))}
    bad = {"kind": "flatten", "val": to_spec(x), "out": codes(ffiplatform.flatten(x)[:-1] + "x")}
    bad2 = {"kind": "order", "items": [[to_spec("b"), to_spec(1)], [to_spec("a"), to_spec(2)]],
            "out": codes("2d1sb1i1sa2i")}
    verd, _ = run_trace(ctx, [good, bad, bad2])
    ctx.cov["states"] = 1
    return sorted(verd) == [(1, "flatten"), (2, "order")]


def replay(ctx, obj):
    rp = obj["replay"]
    ctx.cov["states"] = 1
    import cffi.ffiplatform as ffiplatform
    if rp and rp.get("kind") == "flatten":
        rec = rp["record"]
        if rec["kind"] == "flatten":
            x = from_spec(rec["val"])
            rec = dict(rec, out=codes(ffiplatform.flatten(x)))
        verd, _ = run_trace(ctx, [rec])
        print("record re-executed on the real flatten():", "rejected" if verd else "accepted")
        if verd:
            ctx.violation(obj["key"], obj["what"], rp)
    elif rp and rp.get("kind") in ("name", "name-pair"):
        cs = [c_fromjson(c) for c in (rp["cases"] if "cases" in rp else [rp["case"]])]
        child = os.path.join(ctx.tmp, "name_child.py")
        with open(child, "w") as f:
            f.write(NAME_CHILD)
        names = []
        for seed, sh in (("0", 1), ("1", 2)):
            jp = os.path.join(ctx.tmp, "rj_%s.json" % seed)
            rpth = os.path.join(ctx.tmp, "rj_%s.out" % seed)
            core.write_json(jp, {"cases": [c_jsonable(c) for c in cs], "shuffle_seed": sh, "tmpdir": ctx.tmp})
            subprocess.run([core.PY, child, jp, rpth], env=core.sub_env(PYTHONHASHSEED=seed), check=True)
            with open(rpth) as f:
                names.append([n["name"] for n in json.load(f)["names"]])
        print("names:", names)
        if names[0] != names[1] or (len(cs) == 2 and names[0][0] == names[0][1]):
            ctx.violation(obj["key"], obj["what"], rp)


META = {
    "category": "model_checking",
    "text": "TLC checks on every value of a bounded universe over an adversarial alphabet (nesting depth 1-2) that "
            "a decoder reads the value back from the transcribed _flatten encoding whatever follows it (injective, "
            "self-delimiting), that dict listing order is irrelevant, and that (preamble, kwds, sources) can be read "
            "back from the Verifier key; the whole universe is replayed on the real flatten(), random deep values are "
            "validated by TLC, and module names computed in sub-processes under different hash seeds and keyword "
            "orders must coincide, equal the name the specified key gives, and collide only with colliding CRCs.",
    "note": "The key itself is not observable; it is bound through the two CRC32 halves in the module name. Domain: "
            "NUL-free preamble/sources, string dict keys. Trusted: TLC, zlib crc32.",
    "technique": "TLA+ model checking of an encoder against a decoder (TLC) + exhaustive replay + TLC trace validation "
                 "+ cross-process name comparison",
    "design_ref": "DESIGN.md §3 C32",
}
